package c19

import (
	"fmt"
	"regexp"
	"sort"
	"strings"
	"sync"
	"testing"

	"github.com/mithrandie/csvq/lib/query"
	"pgregory.net/rapid"

	"verif/internal/fw"
	"verif/internal/run"
)

// ---------------------------------------------------------------------
// programs: boundary arguments to every clause and every built-in function,
// output formats x column-name shapes.

type progCase struct {
	Kind    string   `json:"kind"` // func | aggregate | analytic | clause | flag | format
	Name    string   `json:"name"` // function / clause / output format
	Args    []string `json:"args"` // classes of the boundary arguments (labels)
	SQL     string   `json:"sql"`  // the whole program
	Capture bool     `json:"capture"`
	// Files: the program refers to the table files of progFiles (restored before the run);
	// HasStdin: standard input holds progStdin.
	Files    bool `json:"files,omitempty"`
	HasStdin bool `json:"has_stdin,omitempty"`
}

type bval struct{ sql, class string }

var longText = "'" + strings.Repeat("a", 100000) + "'"
var longWide = "'" + strings.Repeat("あ", 20000) + "'"

// boundary values: spelling and class.
var boundaries = []bval{
	{"0", "zero"}, {"-1", "neg"}, {"1", "one"}, {"2", "two"}, {"3", "three"}, {"100", "hundred"}, {"101", "over100"},
	{"9223372036854775807", "i64max"}, {"(-9223372036854775807 - 1)", "i64min"}, {"-9223372036854775807", "i64min1"},
	{"9223372036854775808", "over_i64"}, {"-9223372036854775808", "under_i64"},
	{"1e308", "f_huge"}, {"-1e308", "f_neghuge"}, {"1e-320", "f_denormal"}, {"0.5", "frac"}, {"-0.0", "negzero"}, {"1e19", "f_over_i64"}, {"2147483648", "over_i32"},
	{"'NaN'", "s_nan"}, {"'Inf'", "s_inf"}, {"'-Inf'", "s_neginf"}, {"'+Inf'", "s_posinf"},
	{"FLOAT('NaN')", "nan"}, {"FLOAT('Inf')", "inf"}, {"FLOAT('-Inf')", "neginf"},
	{"NULL", "null"}, {"''", "empty"}, {"'abc'", "text"}, {"TRUE", "bool"}, {"FALSE", "bool_f"}, {"UNKNOWN", "ternary"},
	{"'2012-02-03 09:18:15'", "datetime_s"}, {"DATETIME('2012-02-03T09:18:15.123456789-08:00')", "datetime"}, {"DATETIME(253402300800)", "year10000"}, {"DATETIME(-62135596801)", "year0"},
	{"' 12 '", "padnum"}, {"'あいう'", "wide"}, {"'%'", "pct"}, {"'%s%d%'", "fmtverbs"}, {"'[1,2'", "badjson"}, {"'{\"a\":[1,{\"b\":null}]}'", "json"},
	{"'('", "badregex"}, {"'a{100000}'", "bigregex"}, {"'\\\\'", "backslash"}, {"'a[0].b..'", "jsonpath"}, {"'UTC'", "tz"}, {"'Nowhere/City'", "badtz"}, {"' '", "space"}, {"','", "comma"},
	{"'-'", "dash"}, {"'0x1F'", "hexs"}, {"'1e400'", "s_overflow"}, {"'%Y-%m-%d %H:%i:%s.%f %% %'", "dtfmt"},
}

// column references usable where a table is in scope.
var columnRefs = []bval{{"v", "col_v"}, {"s", "col_s"}, {"g", "col_g"}}

// Length-like arguments: functions whose result size is proportional to an
// integer argument. Values above 1e5 are replaced so that legitimate output
// stays small (an output of 9e18 characters cannot be legitimate).
var lengthLike = map[string][]int{
	"LPAD": {1}, "RPAD": {1}, "REPEAT": {1},
	"NUMBER_FORMAT": {1}, "ROUND": {1}, "ENOTATION": {1},
}

// lengths no machine can hold (2^53 characters and more): the result cannot exist, so csvq can only answer with an
// error (or NULL); they are beyond the largest allocation the Go runtime accepts, so a csvq that tries anyway panics
// at once instead of exhausting the memory of the test machine (lengths between 1e5 and 2^48 are not drawn).
var lengthAbsurd = []bval{{"9007199254740992", "len_absurd"}, {"4611686018427387904", "len_absurd"}, {"9223372036854775807", "len_absurd"}, {"9223372036854775806", "len_absurd"},
	{"'9223372036854775807'", "len_absurd"}}

var lengthSafe = []bval{{"0", "zero"}, {"-1", "neg"}, {"1", "one"}, {"100000", "len_cap"}, {"99999", "len_cap"}, {"NULL", "null"}, {"'abc'", "text"}, {"0.5", "frac"}, {"''", "empty"}}

var bigClasses = map[string]bool{"i64max": true, "i64min": true, "i64min1": true, "over_i64": true, "under_i64": true, "f_huge": true, "f_neghuge": true, "f_over_i64": true, "over_i32": true,
	"s_inf": true, "s_neginf": true, "s_posinf": true, "inf": true, "neginf": true, "nan": true, "s_nan": true, "year10000": true, "year0": true, "s_overflow": true, "hundred": true, "over100": true}

func drawBoundary(t *rapid.T, label string, withCols bool) bval {
	if fw.Pct(t, label+"long", 2) {
		return fw.PickU(t, label+"longv", []bval{{longText, "long"}, {longWide, "long_wide"}})
	}
	if withCols && fw.Pct(t, label+"col", 25) {
		return fw.PickU(t, label+"colv", columnRefs)
	}
	return fw.PickU(t, label, boundaries)
}

func drawArgs(t *rapid.T, name string, n int, withCols bool) ([]string, []string) {
	sqls := make([]string, n)
	classes := make([]string, n)
	haveLong := false
	for i := 0; i < n; i++ {
		b := drawBoundary(t, fmt.Sprintf("arg%d", i), withCols)
		// one very long string per call: two of them can legitimately multiply
		// (REPLACE(long, '', long) is 6 GB)
		if strings.HasPrefix(b.class, "long") {
			if haveLong {
				b = bval{"'abc'", "text"}
			}
			haveLong = true
		}
		for _, li := range lengthLike[name] {
			if li == i && (bigClasses[b.class] || strings.HasPrefix(b.class, "col_")) {
				b = fw.PickU(t, "lensafe", lengthSafe)
				if (name == "LPAD" || name == "RPAD") && fw.Pct(t, "lenAbsurd", 35) {
					b = fw.PickU(t, "lenabsurd", lengthAbsurd)
				}
			}
		}
		// a 100 000-character pattern against a 100 000-character subject is 1e10
		// regexp steps: slow, not a hang
		if strings.HasPrefix(name, "REGEXP_") && i == 1 && strings.HasPrefix(b.class, "long") {
			b = bval{"'(a|b)*c{2,3}$'", "regex"}
		}
		sqls[i], classes[i] = b.sql, b.class
	}
	return sqls, classes
}

// the temporary table every table-context program uses.
func genTable(t *rapid.T) string {
	var b strings.Builder
	b.WriteString("DECLARE t VIEW (g, v, s); ")
	n := fw.PickU(t, "tblRows", []int{0, 1, 2, 3, 5, 8})
	if n > 0 {
		b.WriteString("INSERT INTO t VALUES ")
		for i := 0; i < n; i++ {
			if i > 0 {
				b.WriteString(", ")
			}
			v := fw.PickU(t, "tblV", []string{"1", "2", "2", "3", "NULL", "-1", "0.5", "'x'", "9223372036854775807", "FLOAT('NaN')", "1e308", "TRUE", "''"})
			s := fw.PickU(t, "tblS", []string{"'a'", "'b'", "NULL", "''", "'あ'", "'a,b'", "1", "'{\"k\":1}'"})
			fmt.Fprintf(&b, "(%d, %s, %s)", i%2+1, v, s)
		}
		b.WriteString("; ")
	}
	return b.String()
}

// names of the built-ins, enumerated at run time from csvq's own tables.
var (
	scalarNames    []string
	aggregateNames []string
	analyticNames  []string
)

// never generated: they touch the outside world.
var skipFunctions = map[string]bool{"CALL": true}

func init() {
	for _, n := range sortedNames(query.Functions) {
		if !skipFunctions[n] {
			scalarNames = append(scalarNames, n)
		}
	}
	// evaluated outside the Functions table (eval.go)
	scalarNames = append(scalarNames, "NOW", "JSON_OBJECT")
	sort.Strings(scalarNames)
	aggregateNames = append(sortedNames(query.AggregateFunctions), "LISTAGG", "JSON_AGG")
	sort.Strings(aggregateNames)
	analyticNames = sortedNames(query.AnalyticFunctions)
}

// Genuine defect found by this check, FIXED in /repo (d297a33): a ROWS frame offset was not clamped to the
// partition. windowValues (lib/query/analytic_function.go) allocates
// High-Low+1 values and walks every index between them, so `ROWS 200000000
// PRECEDING` over a one-row table needs 3 GB and int64-max never ends. The
// generator keeps frame offsets small so that the search continues (and the
// machine survives); set to false to reproduce (signature
// window_frame_offset_unclamped).
const avoidKnownFrameOffsetUnclamped = false

var frameInts = []string{"0", "1", "2", "3", "100"}

// arities csvq accepts per built-in, learnt once by calling each with 0..4 NULL
// arguments (only used to weight the generator: 80% of the calls get an
// accepted arity, the rest any arity from 0 to 4).
var (
	arityOnce sync.Once
	arities   = map[string][]int{}
)

func learnArities() {
	s, err := run.NewSess(run.Opt{Dir: loadScratch()})
	if err != nil {
		return
	}
	defer s.Close()
	_ = s.Exec("DECLARE t VIEW (g, v, s); INSERT INTO t VALUES (1, 1, 'a');")
	probe := func(key, tmpl string) {
		for k := 0; k <= 4; k++ {
			args := strings.TrimSuffix(strings.Repeat("NULL, ", k), ", ")
			r := s.Exec(fmt.Sprintf(tmpl, args))
			if cl := run.ErrClass(r.Err); cl != "E1/10402" && cl != "fatal" && cl != "syntax" {
				arities[key] = append(arities[key], k)
			}
		}
	}
	for _, n := range scalarNames {
		probe("func/"+n, "SELECT "+n+"(%s);")
	}
	for _, n := range aggregateNames {
		probe("aggregate/"+n, "SELECT "+n+"(%s) FROM t;")
	}
	for _, n := range analyticNames {
		probe("analytic/"+n, "SELECT "+n+"(%s) OVER (ORDER BY v) FROM t;")
	}
}

func drawArity(t *rapid.T, key string, anyWeights []int) int {
	arityOnce.Do(learnArities)
	if ok := arities[key]; len(ok) > 0 && fw.Pct(t, "arityAccepted", 80) {
		return fw.PickU(t, "arity", ok)
	}
	return fw.Weighted(t, "nargs", anyWeights)
}

func init() {
	if !avoidKnownFrameOffsetUnclamped {
		frameInts = append(frameInts, "200000000", "9223372036854775807")
	}
}

var hugeFrameRe = regexp.MustCompile(`[0-9]{7,} (PRECEDING|FOLLOWING)`)

func genFrame(t *rapid.T) string {
	lowK := fw.Uniform(t, "frameLow", 4)
	low := []string{"UNBOUNDED PRECEDING", "CURRENT ROW", "%s PRECEDING", "%s FOLLOWING"}[lowK]
	if strings.Contains(low, "%s") {
		low = fmt.Sprintf(low, fw.PickU(t, "frameLowN", frameInts))
	}
	if fw.Pct(t, "frameSingle", 30) {
		if lowK == 3 {
			low = fw.PickU(t, "frameLowN2", frameInts) + " PRECEDING"
		}
		return "ROWS " + low
	}
	high := fw.PickU(t, "frameHigh", []string{"UNBOUNDED FOLLOWING", "CURRENT ROW", "%s PRECEDING", "%s FOLLOWING"})
	if strings.Contains(high, "%s") {
		high = fmt.Sprintf(high, fw.PickU(t, "frameHighN", frameInts))
	}
	return "ROWS BETWEEN " + low + " AND " + high
}

func genOver(t *rapid.T, windowing bool) string {
	var parts []string
	if fw.Pct(t, "partition", 50) {
		parts = append(parts, "PARTITION BY "+fw.PickU(t, "partBy", []string{"g", "v", "s", "1", "NULL"}))
	}
	ordered := fw.Pct(t, "ordered", 70)
	if ordered {
		parts = append(parts, "ORDER BY "+fw.PickU(t, "orderBy", []string{"v", "v DESC", "s, v", "g DESC NULLS LAST", "1"}))
	}
	if windowing && ordered && fw.Pct(t, "frame", 60) {
		parts = append(parts, genFrame(t))
	}
	return "OVER (" + strings.Join(parts, " ") + ")"
}

// knownShape is a genuine csvq defect this check has found: the signature it
// is reported under and the program shapes that hit it. The entries that are
// FIXED in /repo (rand e830292, json_value 8ca43eb, limit_percent 1f44dc9,
// substring 86e8534, pad c07424e) only name the signature should the defect
// come back; for an entry that is still open the generator re-draws a case of
// that shape so that the search continues past it.
type knownShape struct {
	sig   string
	what  string
	match func(c progCase) bool
	open  bool // not repaired in /repo: the generator keeps away from it
}

func argIn(c progCase, i int, classes ...string) bool {
	if i >= len(c.Args) {
		return false
	}
	for _, cl := range classes {
		if c.Args[i] == cl {
			return true
		}
	}
	return false
}

func anyArgBig(c progCase) bool {
	for _, a := range c.Args {
		if bigClasses[a] || strings.HasPrefix(a, "col_") {
			return true
		}
	}
	return false
}

var knownShapes = []knownShape{
	{"rand_range_overflow_fatal", "RAND(low, high): high - low + 1 overflows int64 (or an argument is NaN/Inf) -> rand.Int63n panics (lib/query/function.go Rand)",
		func(c progCase) bool { return c.Kind == "func" && c.Name == "RAND" && len(c.Args) == 2 && anyArgBig(c) }, false},
	{"json_value_empty_text_nil_fatal", "JSON_VALUE('', ''): with an empty query and empty (or blank) JSON text the loader returns a nil structure without an error and ConvertToValue calls Encode on it (lib/json/conversion.go:30, via json.LoadValue)",
		func(c progCase) bool {
			blank := []string{"empty", "space", "col_v", "col_s", "col_g"}
			return c.Kind == "func" && c.Name == "JSON_VALUE" && argIn(c, 0, blank...) && argIn(c, 1, blank...)
		}, false},
	{"limit_percent_unclamped_fatal", "LIMIT x PERCENT: the limit computed from the percentage is neither validated nor clamped: x = NaN, or a huge OFFSET (RecordLen+offset overflows), gives int(Ceil(..)) = MinInt64 and RecordSet[:limit] panics (lib/query/view.go View.Limit)",
		func(c progCase) bool {
			return c.Kind == "clause" && strings.Contains(c.SQL, "PERCENT") && (argIn(c, 0, "nan", "s_nan") || (strings.Contains(c.SQL, "OFFSET") && anyArgBig(c)))
		}, false},
	{"substring_length_overflow_fatal", "SUBSTRING/SUBSTR(str, pos, len): start + len overflows int for a huge len and runes[start:end] panics (lib/query/function.go substr)",
		func(c progCase) bool {
			if c.Kind == "func" && (c.Name == "SUBSTRING" || c.Name == "SUBSTR") && len(c.Args) >= 3 {
				return bigClasses[c.Args[2]] || strings.HasPrefix(c.Args[2], "col_")
			}
			return c.Kind == "clause" && c.Name == "SUBSTRING FROM FOR" && len(c.Args) >= 2 && bigClasses[c.Args[1]]
		}, false},
	{"zero_column_table_aggregate_fatal", "an aggregate over a table without columns (see avoidKnownZeroColumnAggregate)", zeroColumnAggregate, avoidKnownZeroColumnAggregate},
	{"pad_length_absurd_fatal", "LPAD/RPAD(str, len, pad) with len of 2^53 and more: the repeat count overflows or the allocation is refused and the panic is reported as Fatal Error (lib/query/function.go execStringsPadding)",
		func(c progCase) bool {
			return c.Kind == "func" && (c.Name == "LPAD" || c.Name == "RPAD") && argIn(c, 1, "len_absurd")
		}, false},
	{"pad_empty_padstr_fatal", "LPAD/RPAD(str, len, ''): the pad string's length 0 divides the missing length, int(Ceil(+Inf)) is negative and strings.Repeat panics (lib/query/function.go execStringsPadding)",
		func(c progCase) bool {
			return c.Kind == "func" && (c.Name == "LPAD" || c.Name == "RPAD") && argIn(c, 2, "empty", "col_v", "col_s", "col_g")
		}, false},
}

func knownShapeOf(c progCase) *knownShape {
	for i := range knownShapes {
		if knownShapes[i].match(c) {
			return &knownShapes[i]
		}
	}
	return nil
}

// openShapeOf: the case has the shape of a defect that is not repaired.
func openShapeOf(c progCase) bool {
	for i := range knownShapes {
		if knownShapes[i].open && knownShapes[i].match(c) {
			return true
		}
	}
	return false
}

func genProg(t *rapid.T) progCase {
	c := genProgOnce(t)
	for i := 0; i < 30 && openShapeOf(c); i++ {
		c = genProgOnce(t)
	}
	return c
}

func genProgOnce(t *rapid.T) progCase {
	c := progCase{}
	switch fw.Weighted(t, "kind", []int{42, 12, 16, 14, 4, 12, 12, 16, 16, 8, 8, 8, 24, 22, 26, 14}) {
	case 15:
		return genUDFCase(t)
	case 14:
		return genParallelCase(t)
	case 13:
		return genJoinCase(t)
	case 12:
		return genComposeCase(t)
	case 6:
		return genFormatCase(t)
	case 7:
		return genTableFnCase(t)
	case 8:
		return genStmtCase(t)
	case 9:
		return genCursorCase(t)
	case 10:
		return genFlagCase(t)
	case 11:
		return genCommandCase(t)
	case 0:
		c.Kind = "func"
		c.Name = fw.PickU(t, "fn", scalarNames)
		n := drawArity(t, "func/"+c.Name, []int{15, 25, 25, 20, 15})
		tbl := fw.Pct(t, "inTable", 25)
		args, classes := drawArgs(t, c.Name, n, tbl)
		c.Args = classes
		call := c.Name + "(" + strings.Join(args, ", ") + ")"
		switch {
		case c.Name == "SUBSTRING" && n >= 2 && fw.Pct(t, "substrFrom", 50):
			call = "SUBSTRING(" + args[0] + " FROM " + args[1]
			if n >= 3 {
				call += " FOR " + args[2]
				c.Args = classes[:3]
			}
			call += ")"
		case c.Name == "JSON_OBJECT":
			fs := make([]string, n)
			for i := range fs {
				fs[i] = args[i]
				// an unaliased field is labelled by its text: `0` followed by `0.5` is the
				// reported path conflict again
				if fw.Pct(t, "joAlias", 70) || avoidKnownJsonPathConflict {
					fs[i] += " AS `" + fw.PickU(t, "joName", nameShapes) + "`"
				}
			}
			call = "JSON_OBJECT(" + strings.Join(fs, ", ") + ")"
		}
		if tbl {
			c.SQL = genTable(t) + "SELECT " + call + " FROM t;"
		} else {
			c.SQL = "SELECT " + call + ";"
		}
	case 1:
		c.Kind = "aggregate"
		c.Name = fw.PickU(t, "agg", aggregateNames)
		list := c.Name == "LISTAGG" || c.Name == "JSON_AGG"
		n := drawArity(t, "aggregate/"+c.Name, []int{15, 35, 30, 15, 5})
		args, classes := drawArgs(t, c.Name, n, true)
		c.Args = classes
		inner := strings.Join(args, ", ")
		if c.Name == "COUNT" && fw.Pct(t, "countStar", 20) {
			inner, c.Args = "*", []string{"star"}
		}
		if fw.Pct(t, "distinct", 25) {
			inner = "DISTINCT " + inner
			c.Args = append(c.Args, "distinct")
		}
		call := c.Name + "(" + inner + ")"
		form := fw.Uniform(t, "aggForm", 4)
		switch {
		case form == 0:
			c.SQL = genTable(t) + "SELECT " + call + " FROM t;"
		case form == 1:
			c.SQL = genTable(t) + "SELECT g, " + call + " FROM t GROUP BY g;"
		case form == 2 && list:
			c.SQL = genTable(t) + "SELECT " + call + " WITHIN GROUP (ORDER BY " + fw.PickU(t, "wgOrder", []string{"v", "s DESC", "1", "NULL"}) + ") FROM t;"
			c.Args = append(c.Args, "within_group")
		default:
			c.SQL = genTable(t) + "SELECT " + call + " " + genOver(t, !list) + " FROM t;"
			c.Args = append(c.Args, "over")
		}
	case 2:
		c.Kind = "analytic"
		c.Name = fw.PickU(t, "ana", analyticNames)
		n := drawArity(t, "analytic/"+c.Name, []int{20, 25, 30, 20, 5})
		args, classes := drawArgs(t, c.Name, n, true)
		// the value argument of the offset functions is usually a column
		if n >= 1 && fw.Pct(t, "firstIsCol", 60) {
			args[0], classes[0] = "v", "col_v"
		}
		c.Args = classes
		call := c.Name + "(" + strings.Join(args, ", ") + ")"
		nth := c.Name == "FIRST_VALUE" || c.Name == "LAST_VALUE" || c.Name == "NTH_VALUE"
		ins := c.Name == "LAG" || c.Name == "LEAD"
		list := c.Name == "LISTAGG" || c.Name == "JSON_AGG"
		if list && fw.Pct(t, "distinct", 25) {
			call = c.Name + "(DISTINCT " + strings.Join(args, ", ") + ")"
		}
		if (nth || ins) && fw.Pct(t, "ignoreNulls", 30) {
			call += " IGNORE NULLS"
			c.Args = append(c.Args, "ignore_nulls")
		}
		c.SQL = genTable(t) + "SELECT " + call + " " + genOver(t, nth) + " FROM t;"
	case 3:
		c.Kind = "clause"
		b1 := drawBoundary(t, "b1", false)
		b2 := drawBoundary(t, "b2", false)
		c.Args = []string{b1.class}
		tmpl := fw.PickU(t, "clause", clauseTemplates)
		c.Name = tmpl.name
		sql := strings.Replace(tmpl.sql, "%1", b1.sql, -1)
		if strings.Contains(sql, "%2") {
			sql = strings.Replace(sql, "%2", b2.sql, -1)
			c.Args = append(c.Args, b2.class)
		}
		if strings.Contains(sql, "%I") {
			code := fw.PickU(t, "intLiteral", []string{"0", "1", "3", "64", "255", "256", "2147483648", "9223372036854775807"})
			sql = strings.Replace(sql, "%I", code, -1)
			c.Args = append(c.Args, "code_"+code)
		}
		if strings.Contains(sql, "%F") {
			sql = strings.Replace(sql, "%F", genFrame(t), -1)
		}
		c.SQL = genTable(t) + sql
	case 4:
		c.Kind = "flag"
		b1 := drawBoundary(t, "b1", false)
		c.Args = []string{b1.class}
		switch fw.Uniform(t, "flagKind", 4) {
		case 0:
			c.Name = "LIMIT_RECURSION/terminating"
			c.SQL = fmt.Sprintf("SET @@LIMIT_RECURSION TO %s; WITH RECURSIVE r (n) AS (SELECT 1 UNION ALL SELECT n + 1 FROM r WHERE n < %d) SELECT COUNT(*) FROM r;", b1.sql, fw.PickU(t, "depth", []int{1, 3, 40}))
		case 1:
			// an endless recursion is only generated under a small positive limit
			lim := fw.PickU(t, "smallLimit", []string{"0", "1", "2", "1000"})
			c.Name, c.Args = "LIMIT_RECURSION/endless", []string{"limit_" + lim}
			c.SQL = fmt.Sprintf("SET @@LIMIT_RECURSION TO %s; WITH RECURSIVE r (n) AS (SELECT 1 UNION ALL SELECT n + 1 FROM r) SELECT COUNT(*) FROM r;", lim)
		case 2:
			c.Name = "CPU"
			c.SQL = genTable(t) + fmt.Sprintf("SET @@CPU TO %s; SELECT g, COUNT(*) FROM t GROUP BY g;", b1.sql)
		default:
			c.Name = "WAIT_TIMEOUT"
			c.SQL = fmt.Sprintf("SET @@WAIT_TIMEOUT TO %s; SELECT @@WAIT_TIMEOUT;", b1.sql)
		}
	default:
		c.Kind = "format"
		c.Capture = true
		c.Name = fw.PickU(t, "outFormat", outFormats)
		var st []string
		st = append(st, "SET @@FORMAT TO "+sqlQuote(c.Name)+";")
		nset := fw.Weighted(t, "nsets", []int{40, 35, 25})
		for i := 0; i < nset; i++ {
			s := fw.PickU(t, "outSet", outSettings)
			st = append(st, "SET @@"+s+";")
			c.Args = append(c.Args, strings.SplitN(s, " ", 2)[0])
		}
		ncol := fw.Range(t, "ncol", 1, 4)
		shape := fw.PickU(t, "nameShape", nameShapeSets)
		names := shape.names
		c.Args = append(c.Args, "names="+shape.label)
		nrow := fw.PickU(t, "nrow", []int{0, 1, 1, 2, 3})
		var sel []string
		if len(names) > ncol && !strings.HasPrefix(shape.label, "path_conflict") {
			names = names[:ncol]
		}
		if nrow == 1 && fw.Pct(t, "noTable", 50) {
			for _, nm := range names {
				sel = append(sel, outCells[fw.Uniform(t, "cell", len(outCells))]+" AS `"+nm+"`")
			}
			st = append(st, "SELECT "+strings.Join(sel, ", ")+";")
		} else {
			cols := []string{"g", "v", "s"}
			for i, nm := range names {
				sel = append(sel, cols[i%3]+" AS `"+nm+"`")
			}
			var rows []string
			for i := 0; i < nrow; i++ {
				rows = append(rows, fmt.Sprintf("(%s, %s, %s)", outCells[fw.Uniform(t, "cell", len(outCells))], outCells[fw.Uniform(t, "cell", len(outCells))], outCells[fw.Uniform(t, "cell", len(outCells))]))
			}
			st = append(st, "DECLARE t VIEW (g, v, s);")
			if nrow > 0 {
				st = append(st, "INSERT INTO t VALUES "+strings.Join(rows, ", ")+";")
			}
			st = append(st, "SELECT "+strings.Join(sel, ", ")+" FROM t;")
		}
		c.SQL = strings.Join(st, " ")
	}
	return c
}

type clauseTmpl struct{ name, sql string }

var clauseTemplates = []clauseTmpl{
	{"LIMIT", "SELECT * FROM t ORDER BY v LIMIT %1;"},
	{"LIMIT", "SELECT * FROM t LIMIT %1;"},
	{"LIMIT PERCENT", "SELECT * FROM t ORDER BY v LIMIT %1 PERCENT;"},
	{"LIMIT WITH TIES", "SELECT * FROM t ORDER BY v LIMIT %1 WITH TIES;"},
	{"LIMIT PERCENT WITH TIES", "SELECT * FROM t ORDER BY v LIMIT %1 PERCENT WITH TIES;"},
	{"LIMIT OFFSET", "SELECT * FROM t ORDER BY v LIMIT %1 OFFSET %2;"},
	{"LIMIT PERCENT OFFSET", "SELECT * FROM t ORDER BY v LIMIT %1 PERCENT WITH TIES OFFSET %2;"},
	{"OFFSET", "SELECT * FROM t ORDER BY v OFFSET %1;"},
	{"OFFSET FETCH", "SELECT * FROM t ORDER BY v OFFSET %1 ROWS FETCH NEXT %2 ROWS ONLY;"},
	{"FETCH FIRST", "SELECT * FROM t ORDER BY v FETCH FIRST %1 ROWS WITH TIES;"},
	{"FETCH PERCENT", "SELECT * FROM t ORDER BY v FETCH FIRST %1 PERCENT;"},
	{"LIMIT in subquery", "SELECT (SELECT v FROM t ORDER BY v LIMIT %1 OFFSET %2) FROM t;"},
	{"LIMIT in set operation", "SELECT v FROM t UNION ALL SELECT v FROM t LIMIT %1 OFFSET %2;"},
	{"NTILE", "SELECT NTILE(%1) OVER (ORDER BY v) FROM t;"},
	{"NTILE partition", "SELECT NTILE(%1) OVER (PARTITION BY g ORDER BY v) FROM t;"},
	{"NTH_VALUE", "SELECT NTH_VALUE(v, %1) OVER (ORDER BY v) FROM t;"},
	{"NTH_VALUE frame", "SELECT NTH_VALUE(v, %1) IGNORE NULLS OVER (ORDER BY v %F) FROM t;"},
	{"LAG", "SELECT LAG(v, %1) OVER (ORDER BY v) FROM t;"},
	{"LAG default", "SELECT LAG(v, %1, %2) IGNORE NULLS OVER (PARTITION BY g ORDER BY v) FROM t;"},
	{"LEAD", "SELECT LEAD(v, %1, %2) OVER (ORDER BY v) FROM t;"},
	{"frame SUM", "SELECT SUM(v) OVER (ORDER BY v %F), %1 FROM t;"},
	{"frame COUNT", "SELECT COUNT(%1) OVER (PARTITION BY g ORDER BY v %F) FROM t;"},
	{"frame FIRST_VALUE", "SELECT FIRST_VALUE(v) OVER (ORDER BY v %F), LAST_VALUE(%1) IGNORE NULLS OVER (ORDER BY v DESC %F) FROM t;"},
	{"frame MEDIAN", "SELECT MEDIAN(v) OVER (ORDER BY s %F), %1 FROM t;"},
	{"FETCH ABSOLUTE", "DECLARE c CURSOR FOR SELECT v FROM t; OPEN c; VAR @a; FETCH ABSOLUTE %1 c INTO @a; FETCH RELATIVE %2 c INTO @a; SELECT @a; CLOSE c;"},
	{"FETCH RELATIVE", "DECLARE c CURSOR FOR SELECT v FROM t; OPEN c; VAR @a; FETCH RELATIVE %1 c INTO @a; FETCH PRIOR c INTO @a; FETCH LAST c INTO @a; SELECT @a, CURSOR c COUNT, CURSOR c IS IN RANGE;"},
	{"REMOVE FROM DATETIME_FORMAT", "ADD '%Y' TO @@DATETIME_FORMAT; REMOVE %1 FROM @@DATETIME_FORMAT; SELECT @@DATETIME_FORMAT;"},
	{"ORDER BY constant", "SELECT * FROM t ORDER BY %1, %2 DESC NULLS FIRST;"},
	{"GROUP BY constant", "SELECT COUNT(*) FROM t GROUP BY %1 HAVING %2;"},
	{"IN JSON_ROW", "SELECT * FROM t WHERE v IN JSON_ROW(%1, %2);"},
	{"JSON_TABLE", "SELECT * FROM JSON_TABLE(%1, %2);"},
	{"CASE", "SELECT CASE %1 WHEN %2 THEN 1 ELSE v END, CASE WHEN %1 THEN %2 END FROM t;"},
	{"BETWEEN LIKE", "SELECT %1 BETWEEN %2 AND v, %1 LIKE %2, v IN (%1, %2), (%1, %2) = (v, s) FROM t;"},
	{"arithmetic", "SELECT (%1) + (%2), (%1) - (%2), (%1) * (%2), (%1) % (%2), -(%1), (%1) || (%2) FROM t;"},
	{"division", "SELECT (%1) / (%2) FROM t;"},
	{"PRINTF", "PRINTF %1 USING %2, %1;"},
	{"PRINTF list", "PRINTF %1, %2;"},
	{"ECHO", "ECHO %1; PRINT %2;"},
	{"TRIGGER ERROR", "TRIGGER ERROR %I %1;"},
	{"TRIGGER ERROR message", "TRIGGER ERROR %1;"},
	{"EXIT", "EXIT %I;"},
	{"WHILE", "VAR @i := 0; WHILE @i < 3 DO @i := @i + 1; IF %1 THEN CONTINUE; ELSEIF %2 THEN BREAK; END IF; END WHILE; SELECT @i;"},
	{"user function", "DECLARE f FUNCTION (@a, @b DEFAULT %2) AS BEGIN RETURN @a + @b; END; SELECT f(%1), f(%1, %2);"},
	{"user aggregate", "DECLARE ag AGGREGATE (c, @n DEFAULT 1) AS BEGIN VAR @x; FETCH c INTO @x; RETURN @x; END; SELECT ag(v, %1) FROM t; SELECT ag(v) OVER (ORDER BY v) FROM t;"},
	{"INSERT", "INSERT INTO t VALUES (%1, %2, NULL); INSERT INTO t (g) VALUES (%1), (%2); SELECT * FROM t;"},
	{"UPDATE", "UPDATE t SET v = %1 WHERE g = %2; UPDATE t SET s = %2; DELETE FROM t WHERE v = %1; SELECT * FROM t;"},
	{"ALTER TABLE", "ALTER TABLE t ADD (n DEFAULT %1) FIRST; ALTER TABLE t ADD m DEFAULT %2 AFTER v; ALTER TABLE t DROP g; SELECT * FROM t;"},
	{"SUBSTRING FROM FOR", "SELECT SUBSTRING(s FROM %1 FOR %2), SUBSTRING(%2 FROM %1) FROM t;"},
}

var outFormats = []string{"CSV", "TSV", "FIXED", "JSON", "JSONL", "LTSV", "GFM", "ORG", "BOX", "TEXT", "JSONH", "JSONA"}

var outSettings = []string{
	"WRITE_ENCODING TO 'SJIS'", "WRITE_ENCODING TO 'UTF16'", "WRITE_ENCODING TO 'UTF16LEM'", "WRITE_ENCODING TO 'UTF8M'", "WRITE_ENCODING TO 'AUTO'", "WRITE_ENCODING TO 'nosuch'",
	"WRITE_DELIMITER TO '\\t'", "WRITE_DELIMITER TO ';'", "WRITE_DELIMITER TO '\"'", "WRITE_DELIMITER TO 'ab'", "WRITE_DELIMITER TO 'あ'", "WRITE_DELIMITER TO ''",
	"WRITE_DELIMITER_POSITIONS TO 'SPACES'", "WRITE_DELIMITER_POSITIONS TO '[3,6]'", "WRITE_DELIMITER_POSITIONS TO 'S[2,2]'", "WRITE_DELIMITER_POSITIONS TO 'S[2,4,6,8]'", "WRITE_DELIMITER_POSITIONS TO '[0]'", "WRITE_DELIMITER_POSITIONS TO '[-1]'", "WRITE_DELIMITER_POSITIONS TO '[1]'", "WRITE_DELIMITER_POSITIONS TO '[]'", "WRITE_DELIMITER_POSITIONS TO 'S[]'", "WRITE_DELIMITER_POSITIONS TO '[30,60,90,120]'", "WRITE_DELIMITER_POSITIONS TO '[1,2,3,4]'", "WRITE_DELIMITER_POSITIONS TO 'x'",
	"WITHOUT_HEADER TO TRUE", "LINE_BREAK TO 'CRLF'", "LINE_BREAK TO 'CR'", "LINE_BREAK TO 'x'", "ENCLOSE_ALL TO TRUE",
	"JSON_ESCAPE TO 'HEX'", "JSON_ESCAPE TO 'HEXALL'", "JSON_ESCAPE TO 'BACKSLASH'", "JSON_ESCAPE TO 'x'", "PRETTY_PRINT TO TRUE", "SCIENTIFIC_NOTATION TO TRUE",
	"EAST_ASIAN_ENCODING TO TRUE", "COUNT_DIACRITICAL_SIGN TO TRUE", "COUNT_FORMAT_CODE TO TRUE", "STRIP_ENDING_LINE_BREAK TO TRUE", "COLOR TO TRUE",
}

type nameSet struct {
	label string
	names []string
}

// column-name shapes. "path_conflict": a column `a` followed by `a.b` (the
// JSON encoder treats a period as a path separator).
var nameShapeSets = []nameSet{
	{"plain", []string{"a", "b", "c", "d"}},
	{"duplicate", []string{"a", "a", "b", "a"}},
	{"path", []string{"a.b", "a.c", "d.e.f", "g"}},
	{"path_dup", []string{"a.b", "a.b", "c.d", "a"}},
	{"path_conflict_rev", []string{"a.b", "a"}},
	{"path_deeper", []string{"a.b.c", "a.b", "x"}},
	{"empty", []string{"", "a", "", "b"}},
	{"blank", []string{" ", "  ", "a ", " a"}},
	{"bad_path", []string{"a..b", ".a", "a.", "."}},
	{"numeric", []string{"1", "2.5", "-1", "0"}},
	{"wide", []string{"日本", "ｶﾅ", "é", "​"}},
	{"quotes", []string{"x\"y", "x'y", "x\\y", "\"\""}},
	{"control", []string{"x\ny", "x\ty", "x\ry", "x\x00y"}},
	{"symbols", []string{"*", "a,b", "a|b", "c1:c2"}},
	{"brackets", []string{"a[0]", "[0]", "a{}", "{}"}},
	{"long", []string{strings.Repeat("n", 300), strings.Repeat("あ", 100), "a", "b"}},
}

// Genuine defect found by DESIGN.md and confirmed by this check, FIXED in /repo
// (358b2b5): JSON output / JSON_OBJECT with a column `a` followed by a column
// `a.b` (a scalar on the path of a later column) ended in "Fatal Error:
// interface conversion: json.Structure is json.Integer, not json.Object"
// (lib/json/conversion.go, addPathValueToRowStructure); signature
// json_output_path_conflict_fatal. The shapes are generated (false); set to true
// to keep the generator away from them on a tree without the fix.
const avoidKnownJsonPathConflict = false

var nameShapes []string

// hasPathConflict: an earlier name is a proper path prefix of a later one.
func hasPathConflict(names []string) bool {
	for j, later := range names {
		for _, earlier := range names[:j] {
			if earlier != "" && strings.HasPrefix(later, earlier+".") {
				return true
			}
		}
	}
	return false
}

func init() {
	if !avoidKnownJsonPathConflict {
		nameShapeSets = append(nameShapeSets, nameSet{"path_conflict", []string{"a", "a.b"}}, nameSet{"path_conflict_deep", []string{"x", "a.b", "a.b.c"}})
	}
	for _, s := range nameShapeSets {
		if avoidKnownJsonPathConflict && hasPathConflict(s.names) {
			panic("name shape " + s.label + " contains the avoided path conflict")
		}
	}
	seen := map[string]bool{}
	for _, s := range nameShapeSets {
		for _, n := range s.names {
			// JSON_OBJECT aliases are drawn independently: names that can form a
			// scalar-then-path conflict are left out while the defect is open
			if avoidKnownJsonPathConflict && strings.Contains(n, ".") {
				continue
			}
			if !seen[n] && !strings.Contains(n, "`") {
				seen[n] = true
				nameShapes = append(nameShapes, n)
			}
		}
	}
}

var outCells = []string{"NULL", "1", "-1.5", "1e308", "FLOAT('NaN')", "FLOAT('-Inf')", "'a'", "''", "'line\nbreak'", "'tab\tin'", "'q\"uote'", "'a,b'", "'a|b'", "'日本語'", "'ｶﾅ'", "'é'", "TRUE", "UNKNOWN", "DATETIME('2012-02-03 09:18:15')", "' pad '", "'\\\\'", "'{\"k\":[1]}'", "'" + strings.Repeat("w", 3000) + "'", "'\x00'", "'￿'"}

// root causes that are recognised by the function that raised the panic.
var frameSignatures = map[string]string{
	"query.Record.GroupLen":           "zero_column_table_aggregate_fatal",            // open, see avoidKnownZeroColumnAggregate
	"query.(*StringFormatter).Format": "format_string_precision_fatal",                // fixed 9e786ec
	"file.(*Handler).File":            "inline_table_over_cached_file_nil_handler",    // fixed 128f891
	"query.(*View).replace":           "replace_repeated_key_negative_capacity_fatal", // fixed 884b635
	"query.ViewMap.GetWithInternalId": "internal_id_zero_column_header_fatal",         // fixed c963649
	"query.(*View).group":             "group_by_unknown_field_empty_input_fatal",     // fixed c6f7b20
	"query.ParseExecuteStatements":    "execute_non_string_statement_fatal",           // fixed 263e9b2
	"query.joinViews":                 "join_using_repeated_column_negative_capacity_fatal", // fixed 9985959
	"query.joinViews.func1":           "join_column_ambiguous_in_joined_view_fatal",   // fixed PENDING-fix-1 (prog3_test.go)
	"query.Update":                    "update_field_of_other_view_same_name_fatal",   // fixed PENDING-fix-2 (prog3_test.go)
}

// "reached": the built-in itself ran (or rejected its arguments); a name that
// csvq does not know in that position is not a reached built-in.
var notReached = map[string]bool{"E10401": true, "syntax": true}

func checkProg(c progCase) (fw.Outcome, *fw.Violation) {
	if isDeadlockShape(c) {
		return checkDeadlockShape(c)
	}
	o := fw.Outcome{Classes: []string{"kind=" + c.Kind}}
	opt := run.Opt{Dir: progScratch(), CaptureOut: c.Capture}
	if c.Files {
		restoreProgFiles()
	}
	if c.HasStdin {
		opt.HasStdin, opt.Stdin = true, progStdin
	}
	res := execGuarded(opt, c.SQL, nil)
	if res.ParseErr {
		return o, fw.Harness("generated program does not parse: %v\n%s", res.Err, clip(c.SQL, 800))
	}
	class, v := judge(res, c.SQL)
	if v != nil {
		if (v.Sig == "hang" || v.Sig == "runaway_memory") && hugeFrameRe.MatchString(c.SQL) {
			v.Sig = "window_frame_offset_unclamped"
		}
		if strings.HasPrefix(v.Sig, "fatal:") && strings.HasSuffix(v.Sig, "@query.(*View).Limit") && strings.Contains(c.SQL, "PERCENT") {
			v.Sig = "limit_percent_unclamped_fatal"
		}
		for frame, name := range frameSignatures {
			if strings.HasPrefix(v.Sig, "fatal:") && strings.HasSuffix(v.Sig, "@"+frame) {
				v.Sig = name
			}
		}
		if k := knownShapeOf(c); k != nil && (strings.HasPrefix(v.Sig, "fatal:") || v.Sig == "hang" || v.Sig == "runaway_memory" || strings.HasPrefix(v.Sig, "panic_escaped")) {
			v.Sig = k.sig
		}
		return o, v
	}
	outcome := "ok"
	if res.Err != nil {
		outcome = class
	}
	o.Classes = append(o.Classes, "outcome="+outcome)
	switch c.Kind {
	case "func", "aggregate", "analytic":
		o.Classes = append(o.Classes, fmt.Sprintf("%s/nargs=%d", c.Kind, len(c.Args)))
		if len(c.Args) > 0 && !notReached[class] {
			o.Fingerprint = fmt.Sprintf("%s|%s|%s|%s", c.Kind, c.Name, strings.Join(c.Args, ","), outcome)
			o.Classes = append(o.Classes, "reached")
		}
	case "fmtstr", "tablefn", "stmt", "cursor", "flagset", "command", "compose", "join", "parallel", "udf":
		o.Classes = append(o.Classes, c.Kind+"="+c.Name)
		if class != "syntax" {
			o.Fingerprint = fmt.Sprintf("%s|%s|%s|%s", c.Kind, c.Name, strings.Join(c.Args, ","), outcome)
		}
	case "clause", "flag":
		o.Classes = append(o.Classes, "clause="+c.Name)
		if !notReached[class] {
			o.Fingerprint = fmt.Sprintf("%s|%s|%s|%s", c.Kind, c.Name, strings.Join(c.Args, ","), outcome)
		}
	case "format":
		o.Classes = append(o.Classes, "format="+c.Name)
		if res.Err == nil && len(res.Out) > 0 {
			o.Classes = append(o.Classes, "format_written")
		}
		o.Fingerprint = fmt.Sprintf("format|%s|%s|%s", c.Name, strings.Join(c.Args, ","), outcome)
	}
	return o, nil
}

func TestC19Programs(t *testing.T) {
	fw.Run(t, fw.Spec[progCase]{
		ID: "C19", Name: "programs", Quick: 60000, Thorough: 1200000,
		Gen: genProg, Check: checkProg,
		Rule: "syntactically valid programs: every name in query.Functions (+NOW, JSON_OBJECT; CALL excluded), query.AggregateFunctions (+LISTAGG, JSON_AGG) and query.AnalyticFunctions, enumerated at run time, called with 0-4 arguments drawn from ~55 boundary values (0, -1, int64 bounds, beyond int64, 1e308, denormal, NaN/Inf as floats and as text, NULL, '', wrong types, datetimes at year 0/10000, malformed JSON/regex/format strings, 100 000-character strings, column references) in plain / DISTINCT / GROUP BY / WITHIN GROUP / OVER (partition, order, ROWS frames) / IGNORE NULLS forms over a 0-8 row temporary table holding boundary cells; the same values in LIMIT, OFFSET, PERCENT, WITH TIES, FETCH, NTILE, NTH_VALUE, LAG/LEAD, frame offsets, cursor FETCH ABSOLUTE/RELATIVE, @@LIMIT_RECURSION with recursive CTEs, @@CPU, @@WAIT_TIMEOUT, REMOVE FROM @@DATETIME_FORMAT, ORDER/GROUP BY constants, JSON_ROW, JSON_TABLE, CASE, operators, PRINTF, TRIGGER ERROR, EXIT, control flow, user functions/aggregates, INSERT/UPDATE/DELETE/ALTER on the temporary table; and SET @@FORMAT to each of 12 output formats x 0-2 write settings (encodings, delimiters, delimiter positions, line breaks, JSON escapes, ...) x 16 column-name shapes (duplicates, periods, empty, control characters, ...) x boundary cells with the output captured; joins (prog3_test.go): two operands out of 22 (temporary views with NULL / duplicate / mixed-type keys, zero rows, zero columns, header only, files of four formats, grouped and duplicate-name subqueries, JSON_TABLE, table objects, STDIN, DUAL; aliases l/r, none, or twice the same) x 22 join forms (CROSS, comma, INNER, LEFT/RIGHT/FULL [OUTER], NATURAL x 4, each also with a LATERAL subquery that refers to the left operand) x ON (30 conditions incl. boundary values, subqueries, aggregates, analytic functions, unknown and ambiguous fields, row values) or USING (unknown, repeated, all columns) x 27 uses (SELECT forms, GROUP BY, DISTINCT, analytic functions, UPDATE/DELETE ... FROM of one or both operands, INSERT SELECT, cursor, scalar / IN subquery, FOR UPDATE, CREATE TABLE AS, set operation, join of joins, third table, CTE) with @@CPU 1 or 2..16; programs over the file tables big (330 rows, cells = boundary values) and mid (170 rows) with @@CPU 2..16 so that csvq divides records, groups, partitions and join rows between goroutines: every scalar built-in with column arguments in 24 positions (SELECT, WHERE, ORDER BY, GROUP BY, DISTINCT, DML, ALTER DEFAULT, subqueries, join condition, aggregate / analytic argument, set operations, output), a user-defined function that fails for exactly one record (first, last, at the 80-record boundaries) in 11 positions, and 29 plain shapes (sort + LIMIT/OFFSET boundary, set operations, 2..397 groups / partitions with frames, joins, subquery predicates, recursive CTEs, DML, ALTER, cursors, output formats, the table read as another format); user-defined functions and aggregates (prog4_test.go) whose bodies are programs (35 bodies: DML on views and files, SELECT INTO, cursors, nested / recursive calls, COMMIT / ROLLBACK, PREPARE, flags, TRIGGER ERROR, SOURCE, declarations) called from 28 sites (SELECT clauses, subqueries, cursors, control flow, several goroutines, and inside INSERT / UPDATE / DELETE / REPLACE / ALTER ... DEFAULT). Oracle: as load_data (no FatalError, no escaped panic, returns, documented code, memory stays bounded). non-trivial = a built-in reached with >=1 boundary argument (not 'function does not exist'); distinct by (function, argument classes, outcome) / (clause, classes, outcome) / (format, settings, name shape, outcome)",
		Assumptions: []string{
			"integer arguments that determine the size of the result (LPAD/RPAD length, NUMBER_FORMAT/ROUND/ENOTATION precision) are capped at 100 000; LPAD/RPAD lengths are also drawn from 2^53, 2^62, 2^63-2, 2^63-1: a result of that size cannot exist, an error or NULL is the only acceptable answer (lengths between, which a machine with enough memory could serve, are not drawn)",
			"an endless recursive CTE is generated only under @@LIMIT_RECURSION in {0,1,2,1000}",
			"TRIGGER ERROR / EXIT with a user-chosen code: any code the statement accepts is a documented outcome",
			"a function body that takes the operation lock is paired only with call sites outside data-changing statements while the known finding dml_in_function_called_from_dml_deadlock is open (pairs left out: measured.excluded_known_dml_in_function_called_from_dml); the pinned case of that finding runs in the real binary with one 12 s limit",
			"STDIN joined with itself is not generated in joins (a data-changing statement then waits 30 s for its own lock: the documented timeout, known under C05); per-record results of length-like arguments are capped at 300 characters over the 330-row table",
			"unbounded recursion of user-defined functions is not generated (a program that does not terminate; it ends in the Go runtime's stack-overflow abort)",
		},
	})
}
