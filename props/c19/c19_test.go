// Package c19 decides property C19: csvq never fails internally. Whatever
// program, data bytes, options or file-system state it is given, it ends with
// exit code 0 or a documented error; it never reports a "Fatal Error", never
// dies with a Go panic, never hangs, and every table it loads is rectangular.
//
// Sub-checks (cli_programs, url_tables: see their files; cli_subcommands: subcmd_test.go; programs also prog2..prog4_test.go):
//
//	load_data  (load_test.go)  in-process, byte strings x formats x option vectors x three ways of loading
//	programs   (prog_test.go)  in-process, boundary arguments to every clause and built-in function, output formats
//	fs_states  (fs_test.go)    the real binary, run as an unprivileged uid, against hostile file-system states
//	FuzzLoad / FuzzProgram (fuzz_test.go) native fuzz targets with the same oracles
package c19

import (
	"context"
	"fmt"
	"os"
	"regexp"
	"runtime"
	"runtime/debug"
	"runtime/metrics"
	"strings"
	"testing"
	"time"

	"github.com/mithrandie/csvq/lib/parser"
	"github.com/mithrandie/csvq/lib/query"

	"verif/internal/fw"
	"verif/internal/run"
)

func TestMain(m *testing.M) { fw.Main(m) }

// The exit codes the manual documents (command.md, "Return Code"); 128+n is
// handled where signals can occur (CLI only).
var documentedCodes = map[int]bool{0: true, 1: true, 2: true, 4: true, 8: true, 16: true, 32: true, 64: true}

// internalMarkers are texts of Go runtime failures; they never belong to a
// documented csvq message.
var internalMarkers = []string{"runtime error", "interface conversion", "nil pointer", "index out of range", "slice bounds out of range", "makeslice", "goroutine ", "panic:"}

// C19_SLOW=1 logs executions that take more than half a second (tuning aid).
var slowLog = os.Getenv("C19_SLOW")

var digitsRe = regexp.MustCompile(`[0-9]+`)

func firstLine(s string) string {
	if i := strings.IndexByte(s, '\n'); i >= 0 {
		s = s[:i]
	}
	return s
}

func clip(s string, n int) string {
	if len(s) > n {
		return s[:n] + fmt.Sprintf("...(%d bytes)", len(s))
	}
	return s
}

// topFrame extracts, from the stack csvq prints in a FatalError, the first
// function below the runtime's panic machinery: the place that failed.
func topFrame(msg string) string {
	lines := strings.Split(msg, "\n")
	last := -1
	var frames []string
	for _, ln := range lines {
		ln = strings.TrimSpace(ln)
		// "  3: github.com/mithrandie/csvq/lib/json.addPathValueToRowStructure [/repo/lib/json/conversion.go:147]"
		i := strings.Index(ln, ": ")
		if i < 0 || i > 4 || !strings.Contains(ln, " [") {
			continue
		}
		fn := ln[i+2:]
		if j := strings.Index(fn, " ["); j >= 0 {
			fn = fn[:j]
		}
		frames = append(frames, fn)
	}
	for i, fn := range frames {
		if strings.HasPrefix(fn, "runtime.") && i < 8 {
			last = i
		}
	}
	if last >= 0 && last+1 < len(frames) {
		fn := frames[last+1]
		if k := strings.LastIndex(fn, "/"); k >= 0 {
			fn = fn[k+1:]
		}
		return fn
	}
	return "?"
}

// fatalSig names the root cause of an internal failure: the normalised panic
// text plus the function that raised it. Two suspected defects get the names
// used in DESIGN.md.
func fatalSig(msg string) string {
	first := firstLine(msg)
	first = strings.TrimPrefix(first, "[Fatal Error] ")
	if i := strings.Index(first, "Fatal Error"); i >= 0 {
		first = strings.TrimLeft(first[i+len("Fatal Error"):], "]: ")
	}
	frame := topFrame(msg)
	switch {
	case strings.Contains(first, "json.Structure is"):
		return "json_output_path_conflict_fatal"
	case strings.Contains(first, "nil pointer") && (strings.Contains(msg, "cacheViewFromFile") || strings.Contains(msg, "ExecuteStatement")) && (frame == "query.cacheViewFromFile.func1" || strings.Contains(frame, "ExecuteStatement")):
		return "cwd_removed_nil_error"
	}
	norm := digitsRe.ReplaceAllString(first, "N")
	if len(norm) > 90 {
		norm = norm[:90]
	}
	return "fatal:" + norm + "@" + frame
}

// judgeErr applies the error half of the oracle to what Execute returned.
// class is a label for the histogram.
func judgeErr(err error, what string) (class string, v *fw.Violation) {
	if err == nil {
		return "ok", nil
	}
	msg := err.Error()
	switch e := err.(type) {
	case *query.FatalError:
		return "fatal", fw.V(fatalSig(msg), "internal failure reported as Fatal Error\n%s\n%s", clip(what, 1500), clip(msg, 2500))
	case *query.ForcedExit:
		return "exit", nil
	case *query.UserTriggeredError:
		return "user_error", nil
	case query.Error:
		if !documentedCodes[e.Code()] {
			return "err", fw.V("undocumented_exit_code", "error code %d is not a documented return code: %s\n%s", e.Code(), clip(msg, 300), clip(what, 1500))
		}
		return fmt.Sprintf("E%d", e.Number()), nil
	case *parser.SyntaxError:
		return "syntax", nil
	}
	low := msg
	for _, m := range internalMarkers {
		if strings.Contains(low, m) {
			return "other", fw.V("internal_error_text:"+m, "an error that is not a csvq error carries Go runtime text: %s\n%s", clip(msg, 600), clip(what, 1500))
		}
	}
	return "other", nil
}

// rectangular checks len(record) == len(header) for every record of the view.
func rectangular(v *query.View) string {
	if v == nil {
		return ""
	}
	w := len(v.Header)
	for i, rec := range v.RecordSet {
		if len(rec) != w {
			return fmt.Sprintf("record %d has %d fields, header has %d", i, len(rec), w)
		}
	}
	return ""
}

// execOut is everything the oracles need from one execution.
type execOut struct {
	Err      error
	ParseErr bool
	Panic    string // a panic escaped Execute
	Ragged   string // first non-rectangular view
	Records  int    // records of the first result / loaded view
	Fields   int
	Views    int
	Out      string
	TimedOut bool
	Runaway  uint64 // the heap grew by this many bytes before the execution was stopped
	SetupErr error
}

// execGuarded creates a session, runs the program and inspects the views, all
// inside a goroutine so that a call that does not return is detected. A watchdog
// hit is re-tried once in isolation with a four times longer limit; only a
// repeated hit is reported (TimedOut).
func execGuarded(opt run.Opt, sql string, inspect func(s *run.Sess, o *execOut)) execOut {
	if slowLog != "" {
		started := time.Now()
		defer func() {
			if d := time.Since(started); d > 500*time.Millisecond {
				fmt.Fprintf(os.Stderr, "SLOW %v %s\n", d, clip(sql, 500))
			}
		}()
	}
	o := execOnce(opt, sql, inspect, 20*time.Second)
	if o.TimedOut {
		fw.AddExtra("watchdog_retries", 1)
		o = execOnce(opt, sql, inspect, 80*time.Second)
	}
	return o
}

// heapBytes is a cheap reading of the live+garbage heap.
func heapBytes() uint64 {
	sample := []metrics.Sample{{Name: "/memory/classes/heap/objects:bytes"}}
	metrics.Read(sample)
	if sample[0].Value.Kind() == metrics.KindUint64 {
		return sample[0].Value.Uint64()
	}
	return 0
}

// memoryCeiling: a case whose execution grows the heap by more than this is a
// runaway (the largest generated input is 200 KB; legitimate results stay
// below a few dozen MB).
const memoryCeiling = 1 << 30

func execOnce(opt run.Opt, sql string, inspect func(s *run.Sess, o *execOut), limit time.Duration) execOut {
	ch := make(chan execOut, 1)
	ctx, cancel := context.WithCancel(context.Background())
	defer cancel()
	opt.Ctx = ctx
	base := heapBytes()
	go func() {
		var o execOut
		defer func() {
			if r := recover(); r != nil {
				buf := make([]byte, 4000)
				buf = buf[:runtime.Stack(buf, false)]
				o.Panic = fmt.Sprintf("%v\n%s", r, buf)
			}
			ch <- o
		}()
		s, err := run.NewSess(opt)
		if err != nil {
			o.SetupErr = err
			return
		}
		defer s.Close()
		stmts, _, perr := parser.Parse(sql, "", false, false)
		if perr != nil {
			o.Err, o.ParseErr = perr, true
			return
		}
		r := s.ExecStmts(stmts)
		o.Err = r.Err
		o.Views = len(s.Tx.SelectedViews)
		for i, v := range s.Tx.SelectedViews {
			if i == 0 {
				o.Records, o.Fields = len(v.RecordSet), len(v.Header)
			}
			if m := rectangular(v); m != "" && o.Ragged == "" {
				o.Ragged = fmt.Sprintf("result %d: %s", i, m)
			}
		}
		if inspect != nil {
			inspect(s, &o)
		}
		if opt.CaptureOut {
			o.Out = s.Out.String()
		}
	}()
	start := time.Now()
	tick := time.NewTicker(50 * time.Millisecond)
	defer tick.Stop()
	for {
		select {
		case o := <-ch:
			return o
		case <-tick.C:
			over := time.Since(start) > limit
			var grown uint64
			if h := heapBytes(); h > base {
				grown = h - base
			}
			if !over && grown < memoryCeiling {
				continue
			}
			// stop the execution (csvq's loops poll the context) so that the
			// memory is released before the next case
			cancel()
			select {
			case <-ch:
			case <-time.After(15 * time.Second):
			}
			debug.FreeOSMemory()
			if over {
				return execOut{TimedOut: true}
			}
			return execOut{Runaway: grown}
		}
	}
}

// judge applies the whole in-process oracle.
func judge(o execOut, what string) (class string, v *fw.Violation) {
	switch {
	case o.SetupErr != nil:
		return "setup", fw.Harness("session setup failed: %v", o.SetupErr)
	case o.TimedOut:
		return "hang", fw.V("hang", "the call did not return within 20 s and again not within 80 s on an isolated re-run\n%s", clip(what, 3000))
	case o.Runaway > 0:
		return "runaway", fw.V("runaway_memory", "the execution grew the heap by %d MB and was stopped\n%s", o.Runaway>>20, clip(what, 3000))
	case o.Panic != "":
		return "panic", fw.V("panic_escaped:"+digitsRe.ReplaceAllString(clip(firstLine(o.Panic), 80), "N"), "a Go panic escaped Execute\n%s\n%s", clip(what, 1500), clip(o.Panic, 3000))
	}
	class, v = judgeErr(o.Err, what)
	if v != nil {
		return class, v
	}
	if o.Ragged != "" {
		return class, fw.V("non_rectangular_view", "%s\n%s", o.Ragged, clip(what, 1500))
	}
	return class, nil
}

// sqlQuote renders s as a csvq string literal.
func sqlQuote(s string) string {
	s = strings.ReplaceAll(s, `\`, `\\`)
	s = strings.ReplaceAll(s, `'`, `\'`)
	return "'" + s + "'"
}

func boolSQL(b bool) string {
	if b {
		return "TRUE"
	}
	return "FALSE"
}
