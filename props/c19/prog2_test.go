package c19

import (
	"fmt"
	"os"
	"path/filepath"
	"strings"

	"github.com/mithrandie/csvq/lib/option"
	"pgregory.net/rapid"

	"verif/internal/fw"
)

// ---------------------------------------------------------------------
// programs, second part: format strings, table functions over tables that are
// already loaded, statement-level boundary shapes of DML/DDL, cursors and
// prepared statements, every flag, built-in commands.

// The table files these programs refer to. They are restored before every
// case that uses them (a program may COMMIT).
var progFiles = map[string]string{
	"t.csv":     "c1,c2,c3\n1,a,x\n2,b,\n3,,z\n",
	"t2.tsv":    "c1\tc2\n1\ta\n2\tb\n",
	"u.json":    `[{"c1":1,"c2":"a","n":{"k":[1,2]}},{"c1":2,"c2":null}]`,
	"w.txt":     "c1 c2 \n1  a  \n2  b  \n",
	"l.ltsv":    "c1:1\tc2:a\nc1:2\tc2:b\n",
	"j.jsonl":   "{\"c1\":1,\"c2\":\"a\",\"items\":[{\"c2\":\"a\"}],\"e\":[]}\n{\"c1\":2,\"c2\":\"b\",\"items\":[],\"e\":[]}\n",
	"empty.csv": "",
	"hdr.csv":   "c1,c2,c3\n",
	"ok.sql":    "SELECT 1;\nPRINT 'sourced';\n",
	"bad.sql":   "SELECT FROM WHERE;\n",
	"err.sql":   "SELECT 1 / 0;\n",
}

var progDir string

func progScratch() string {
	if progDir == "" {
		progDir = filepath.Join(fw.WorkDir(), "prog")
		_ = os.MkdirAll(progDir, 0755)
		restoreProgFiles()
	}
	return progDir
}

func restoreProgFiles() {
	dir := progScratch()
	ents, _ := os.ReadDir(dir)
	for _, e := range ents {
		if _, keep := progFiles[e.Name()]; !keep {
			_ = os.RemoveAll(filepath.Join(dir, e.Name()))
		}
	}
	for n, content := range progFiles {
		p := filepath.Join(dir, n)
		if b, err := os.ReadFile(p); err != nil || string(b) != content {
			_ = os.WriteFile(p, []byte(content), 0644)
		}
	}
}

const progStdin = "c1,c2\n1,a\n2,b\n"

// ---- format strings ------------------------------------------------------

var fmtFlags = []string{"", "", "+", "-", " ", "0", "#"}
var fmtWidths = []string{"", "", "0", "1", "5", "12", "100000"}
var fmtPrecisions = []string{"", "", ".", ".0", ".1", ".2", ".5", ".20", ".100000", ".3", ".4", ".7", ".12", ".25", ".29", ".31", ".50", ".100", ".119", ".30000"}
var fmtVerbs = []string{"b", "o", "d", "x", "X", "e", "E", "f", "s", "q", "i", "T", "s", "s", "c", "v", "g", "U", "n", "*", "あ", ""}
var fmtLiterals = []string{"", "abc", "あ", " ", "%%", "%%%%", "\\n", "100%%"}
var fmtArgs = []bval{{"'ab'", "short"}, {"'a'", "one_char"}, {"''", "empty"}, {"'あいう'", "wide"}, {"'é'", "accent"}, {"'あいうえおかきくけこ'", "wide10"}, {"'" + strings.Repeat("あ", 40) + "'", "wide40"}, {"'" + strings.Repeat("é", 70) + "'", "accent70"}, {longWide, "long_wide"}, {"'aあ'", "mixed_width"}, {"'éééééééééééé'", "accent12"}, {"NULL", "null"}, {"1", "one"}, {"-1", "neg"}, {"0.5", "frac"}, {"1e308", "f_huge"}, {"FLOAT('NaN')", "nan"}, {"FLOAT('-Inf')", "neginf"},
	{"9223372036854775807", "i64max"}, {"TRUE", "bool"}, {"UNKNOWN", "ternary"}, {"DATETIME('2012-02-03 09:18:15')", "datetime"}, {"'abcdefghijklmnopqrstuvwxyz'", "text26"}, {"'a''b'", "quote"}, {"'a`b'", "backquote"}}

// genFormatString builds a format string from the specifier grammar and
// returns it with the number of value-consuming specifiers.
func genFormatString(t *rapid.T) (string, int, []string) {
	var b strings.Builder
	nspec := 0
	var classes []string
	n := fw.Range(t, "fmtParts", 0, 4)
	for i := 0; i < n; i++ {
		switch fw.Weighted(t, "fmtPart", []int{25, 65, 10}) {
		case 0:
			b.WriteString(fw.PickU(t, "fmtLit", fmtLiterals))
		case 1:
			fl, w, p, v := fw.PickU(t, "fmtFlag", fmtFlags), fw.PickU(t, "fmtWidth", fmtWidths), fw.PickU(t, "fmtPrec", fmtPrecisions), fw.PickU(t, "fmtVerb", fmtVerbs)
			b.WriteString("%" + fl + w + p + v)
			nspec++
			pc := "noprec"
			if p != "" {
				pc = "prec" + p
			}
			classes = append(classes, "%"+pc+v)
		default:
			b.WriteString("%") // dangling or followed by whatever comes next
			classes = append(classes, "%dangling")
		}
	}
	return b.String(), nspec, classes
}

var dtVerbLetters = "aAbBcCdDeEfFgGhHiIjJkKlLmMnNoOpPqQrRsStTuUvVwWxXyYzZ"
var dtValues = []bval{{"'2012-02-03 09:18:15'", "dt_text"}, {"DATETIME('2012-02-03T09:18:15.123456789-08:00')", "datetime"}, {"DATETIME(253402300800)", "year10000"}, {"DATETIME(-62135596801)", "year0"}, {"DATETIME(-99999999999999)", "far_past"}, {"NULL", "null"}, {"'abc'", "text"}, {"0", "zero"}, {"1e18", "f_huge"}, {"'0001-01-01'", "dt_min"}}

func genDatetimeFormat(t *rapid.T) string {
	var b strings.Builder
	n := fw.Range(t, "dtParts", 0, 5)
	for i := 0; i < n; i++ {
		switch fw.Weighted(t, "dtPart", []int{20, 60, 10, 10}) {
		case 0:
			b.WriteString(fw.PickU(t, "dtLit", []string{"-", ":", " ", "T", "あ", "2006", "Jan", "\\", "\\%", "Z07:00", ".000"}))
		case 1:
			b.WriteString("%" + string(dtVerbLetters[fw.Uniform(t, "dtVerb", len(dtVerbLetters))]))
		case 2:
			b.WriteString("%%")
		default:
			b.WriteString("%")
		}
	}
	return b.String()
}

func genFormatCase(t *rapid.T) progCase {
	c := progCase{Kind: "fmtstr"}
	pick := func(label string) bval { return fw.PickU(t, label, fmtArgs) }
	switch fw.Weighted(t, "fmtFn", []int{40, 15, 15, 15, 15}) {
	case 0, 1:
		f, nspec, classes := genFormatString(t)
		nargs := nspec + fw.PickU(t, "argDelta", []int{0, 0, 0, 0, -1, 1, 2})
		if nargs < 0 {
			nargs = 0
		}
		var args []string
		for i := 0; i < nargs; i++ {
			a := pick("fmtArg")
			args = append(args, a.sql)
			classes = append(classes, a.class)
		}
		c.Args = append(classes, fmt.Sprintf("args%+d", nargs-nspec))
		lit := sqlQuote(f)
		switch fw.Uniform(t, "fmtForm", 4) {
		case 0:
			c.Name = "FORMAT"
			c.SQL = "SELECT FORMAT(" + strings.Join(append([]string{lit}, args...), ", ") + ");"
		case 1:
			c.Name = "FORMAT"
			c.SQL = genTable(t) + "SELECT FORMAT(" + strings.Join(append([]string{lit}, args...), ", ") + "), FORMAT(s, v) FROM t;"
		case 2:
			c.Name = "PRINTF"
			c.SQL = "PRINTF " + strings.Join(append([]string{lit}, args...), ", ") + ";"
		default:
			c.Name = "PRINTF USING"
			c.SQL = "PRINTF " + lit
			if len(args) > 0 {
				c.SQL += " USING " + strings.Join(args, ", ")
			}
			c.SQL += ";"
		}
		c.Capture = true
	case 2:
		c.Name = "NUMBER_FORMAT"
		num := fw.PickU(t, "nfNum", []bval{{"1234567.891", "num"}, {"-0.0005", "small_neg"}, {"0", "zero"}, {"1e308", "f_huge"}, {"FLOAT('NaN')", "nan"}, {"FLOAT('Inf')", "inf"}, {"NULL", "null"}, {"'abc'", "text"}, {"9223372036854775807", "i64max"}, {"1e-320", "f_denormal"}})
		prec := fw.PickU(t, "nfPrec", []bval{{"-1", "neg"}, {"0", "zero"}, {"1", "one"}, {"5", "five"}, {"20", "twenty"}, {"400", "prec400"}, {"100000", "len_cap"}, {"NULL", "null"}, {"'a'", "text"}, {"-100", "neg100"}, {"0.5", "frac"}})
		seps := []bval{{"'.'", "dot"}, {"','", "comma"}, {"''", "empty"}, {"' '", "space"}, {"'あ'", "wide"}, {"'ab'", "two"}, {"NULL", "null"}, {"1", "one"}}
		n := fw.Range(t, "nfArgs", 1, 5)
		args := []string{num.sql, prec.sql}
		c.Args = []string{num.class, prec.class}
		for i := 2; i < n; i++ {
			s := fw.PickU(t, "nfSep", seps)
			args = append(args, s.sql)
			c.Args = append(c.Args, s.class)
		}
		if n < 2 {
			args, c.Args = args[:1], c.Args[:1]
		}
		c.SQL = "SELECT NUMBER_FORMAT(" + strings.Join(args, ", ") + ");"
	case 3:
		c.Name = "DATETIME_FORMAT"
		dt := fw.PickU(t, "dtVal", dtValues)
		f := genDatetimeFormat(t)
		c.Args = []string{dt.class, "dtfmt"}
		c.SQL = "SELECT DATETIME_FORMAT(" + dt.sql + ", " + sqlQuote(f) + ");"
	default:
		c.Name = "@@DATETIME_FORMAT"
		f := genDatetimeFormat(t)
		str := fw.PickU(t, "dtStr", []string{"'2012-02-03'", "'03/02/2012 09:18'", "'Feb 3 2012'", "''", "'%Y'", "'2012'", "'12'", "'あ'", "'2012-02-03T09:18:15Z'", "'99999999999999999999'"})
		c.Args = []string{"dtfmt", "dtstr"}
		c.SQL = "ADD " + sqlQuote(f) + " TO @@DATETIME_FORMAT; SELECT DATETIME(" + str + "), " + str + " < '2020-01-01', YEAR(" + str + "); SET @@DATETIME_FORMAT TO " + sqlQuote(f) + "; SELECT DATETIME(" + str + "); REMOVE " + sqlQuote(f) + " FROM @@DATETIME_FORMAT;"
	}
	return c
}

// Known genuine defect (reported, not repaired): an aggregate over a table
// without columns - an empty file, JSON data `[]`, JSON Lines rows `{}`, a table
// whose columns were all dropped - ends in "Fatal Error: index out of range [0]
// with length 0" (Record.GroupLen, lib/query/record.go:79): a grouped record
// keeps its group in its cells, so without cells the size of the group is
// lost. The repair needs the group size to be stored outside the cells. While
// true the generator re-draws programs that aggregate over such a table
// (signature zero_column_table_aggregate_fatal).
const avoidKnownZeroColumnAggregate = true

var aggregateMarks = []string{"COUNT(", "MAX(", "MIN(", "SUM(", "AVG(", "MEDIAN(", "STDEV", "VAR(", "VARP(", "LISTAGG(", "JSON_AGG(", " ag("}
var zeroColumnMarks = []string{" empty", "`empty.csv`", "('empty.csv')", "DATA::('[]')", "DATA::('')", "'{}\\n{}'", "JSON_INLINE('', '')", "CSV_INLINE(',', '')", "DROP (c1, c2, c3)", "DROP c3", "{\"a\":[]}", "{\"a\":{}}", "JSONL('e', ", "JSONL('nosuch', "}

func zeroColumnAggregate(c progCase) bool {
	has := func(marks []string) bool {
		for _, m := range marks {
			if strings.Contains(c.SQL, m) {
				return true
			}
		}
		return false
	}
	// a table function applied to a file of another format (LTSV over JSON, ...) also
	// gives rows without columns: no aggregates over table functions while this is open
	return has(aggregateMarks) && (c.Kind == "tablefn" || has(zeroColumnMarks))
}

// ---- table functions over tables that are already loaded -------------------

type tblRef struct{ ident, file, format string }

var progTables = []tblRef{{"t", "t.csv", "CSV"}, {"t2", "t2.tsv", "TSV"}, {"u", "u.json", "JSON"}, {"w", "w.txt", "FIXED"}, {"l", "l.ltsv", "LTSV"}, {"j", "j.jsonl", "JSONL"}, {"empty", "empty.csv", "CSV"}, {"hdr", "hdr.csv", "CSV"}}

// firstAccess: how the table got into the transaction before the table function sees it.
var firstAccess = []struct{ label, sql string }{
	{"none", ""},
	{"read", "SELECT * FROM {X};"},
	{"read_file_name", "SELECT * FROM `{F}`;"},
	{"for_update", "SELECT * FROM {X} FOR UPDATE;"},
	{"update", "UPDATE {X} SET c2 = 'zz';"},
	{"insert", "INSERT INTO {X} (c1) VALUES (9);"},
	{"delete", "DELETE FROM {X};"},
	{"alter", "ALTER TABLE {X} ADD n1;"},
	{"object_read", "SELECT * FROM CSV(',', {X});"},
	{"inline_read", "SELECT * FROM INLINE::('{F}');"},
	{"subquery_read", "SELECT c1 FROM (SELECT * FROM {X}) s;"},
	{"cursor", "DECLARE cur CURSOR FOR SELECT * FROM {X}; OPEN cur;"},
	{"read_rollback", "SELECT * FROM {X}; ROLLBACK;"},
	{"update_commit", "UPDATE {X} SET c2 = 'zz'; COMMIT;"},
}

// tableForms: ways of naming a table in FROM / INTO; {X} identifier, {F} file name.
var tableForms = []string{
	"{X}", "`{F}`", "FILE::('{F}')", "INLINE::('{F}')",
	"CSV(',', {X})", "CSV(',', `{F}`)", "CSV(';', {X})", "CSV(',', {X}, 'UTF8', TRUE, TRUE)", "CSV(',', {X}, 'SJIS')", "CSV(',', {X}, 'UTF8', FALSE, FALSE, 1)", "CSV(NULL, {X})", "CSV(1, {X})", "CSV('ab', {X})", "CSV(',', FILE::('{F}'))", "CSV(',', INLINE::('{F}'))", "CSV('\\t', {X})",
	"CSV_INLINE(',', {X})", "CSV_INLINE(',', `{F}`)", "CSV_INLINE(',', {X}, 'UTF8', TRUE)", "CSV_INLINE(',', 'a,b\\n1,2')", "CSV_INLINE(',', '')", "CSV_INLINE(NULL, {X})",
	"JSON_INLINE('', {X})", "JSON_INLINE('{}', `{F}`)", "JSON_INLINE('', '[{\"a\":1}]')", "JSON_INLINE('n.k', {X})", "JSON_INLINE('', '')", "JSON_INLINE('[', {X})",
	"JSON_TABLE('', {X})", "JSON_TABLE('{}', '[{\"a\":1},{\"b\":2}]')", "JSON_TABLE('a', '{\"a\":[]}')", "JSON_TABLE('a', '{\"a\":{}}')",
	"JSON('', {X})", "JSON('{}', `{F}`)", "JSON('n', {X})", "JSON('[', {X})", "JSON('', INLINE::('{F}'))", "JSON(NULL, {X})",
	"JSONL('', {X})", "JSONL('items', {X})", "JSONL('e', {X})", "JSONL('items[0]', `{F}`)", "JSONL('{c1}', {X})", "JSONL('nosuch', {X})", "JSONL('', INLINE::('{F}'))",
	"FIXED('SPACES', {X})", "FIXED('[3,6]', {X})", "FIXED('S[3,6]', `{F}`)", "FIXED('[1]', {X}, 'UTF8', TRUE)", "FIXED('x', {X})",
	"LTSV({X})", "LTSV(`{F}`, 'UTF8', TRUE)", "LTSV(INLINE::('{F}'))",
	"DATA::('c1,c2\\n1,2')", "CSV(',', DATA::('c1,c2\\n1,2'))", "JSON('', DATA::('[]'))", "JSON('', DATA::(''))", "JSONL('', DATA::('{}\\n{}'))", "LTSV(DATA::(''))", "FIXED('SPACES', DATA::(''))", "DATA::(NULL)", "FILE::(NULL)", "INLINE::(1)", "FILE::('')",
	"STDIN", "CSV(',', STDIN)", "JSON('', STDIN)", "FIXED('SPACES', STDIN)", "LTSV(STDIN)",
	"tmp", "CSV(',', tmp)", "CSV_INLINE(',', tmp)", "JSON_INLINE('', tmp)", "JSON('', tmp)", "FILE::('tmp')", "INLINE::('tmp')",
	"nosuch", "CSV(',', nosuch)", "CSV_INLINE(',', nosuch)", "INLINE::('nosuch.csv')",
}

// the inline forms are not part of the grammar where a table is changed
func updatableForm(f string) bool {
	return !strings.HasPrefix(f, "CSV_INLINE") && !strings.HasPrefix(f, "JSON_INLINE") && !strings.HasPrefix(f, "JSON_TABLE")
}

// tableUses: statements around a table form {T}; {U} takes only forms the grammar accepts as a target.
var tableUses = []string{
	"SELECT * FROM {T};",
	"SELECT * FROM {T} x;",
	"SELECT COUNT(*) FROM {T} a CROSS JOIN {T} b;",
	"SELECT * FROM {T} a NATURAL JOIN {X} b;",
	"SELECT * FROM {X} a JOIN {T} b ON a.c1 = b.c1;",
	"SELECT * FROM {T} FOR UPDATE;",
	"SELECT (SELECT COUNT(*) FROM {T}) FROM {X};",
	"SELECT * FROM {T} UNION SELECT * FROM {T};",
	"WITH ct AS (SELECT * FROM {T}) SELECT * FROM ct, ct b;",
	"INSERT INTO {U} VALUES (7, 'n', 'n');",
	"INSERT INTO {X} SELECT * FROM {T};",
	"UPDATE {U} SET c1 = 1;",
	"UPDATE {X} SET c2 = (SELECT MAX(c1) FROM {T});",
	"DELETE FROM {U} WHERE c1 = 1;",
	"REPLACE INTO {U} USING (c1) VALUES (1, 'r', 'r');",
	"ALTER TABLE {U} ADD n2;",
	"SHOW FIELDS FROM {U};",
	"DECLARE c2 CURSOR FOR SELECT * FROM {T}; OPEN c2; VAR @z; FETCH c2 INTO @z;",
	"CREATE TABLE `n.csv` AS SELECT * FROM {T};",
	"SELECT * FROM {T}; SELECT * FROM {T}; SELECT * FROM {X};",
}

var tableTails = []string{"", "", "COMMIT;", "ROLLBACK;", "SELECT * FROM {X};", "COMMIT; SELECT * FROM {X};", "SHOW TABLES; SHOW VIEWS;"}

func genTableFnCase(t *rapid.T) progCase {
	c := progCase{Kind: "tablefn", Files: true, HasStdin: true}
	x := fw.PickU(t, "table", progTables)
	first := fw.PickU(t, "firstAccess", firstAccess)
	form := fw.PickU(t, "tableForm", tableForms)
	// most of the time the format function matches the table's format
	if fw.Pct(t, "matchFormat", 50) {
		var own []string
		for _, f := range tableForms {
			if strings.HasPrefix(f, x.format+"(") || strings.HasPrefix(f, x.format+"_") || (x.format == "TSV" && strings.HasPrefix(f, "CSV('\\t'")) || !strings.Contains(f, "(") {
				own = append(own, f)
			}
		}
		form = fw.PickU(t, "ownForm", own)
	}
	use := fw.PickU(t, "tableUse", tableUses)
	tail := fw.PickU(t, "tableTail", tableTails)
	if strings.Contains(use, "{U}") && !updatableForm(form) {
		var ok []string
		for _, f := range tableForms {
			if updatableForm(f) {
				ok = append(ok, f)
			}
		}
		form = fw.PickU(t, "updatableForm", ok)
	}
	sub := func(s string) string {
		s = strings.ReplaceAll(s, "{U}", form)
		s = strings.ReplaceAll(s, "{T}", form)
		s = strings.ReplaceAll(s, "{X}", x.ident)
		return strings.ReplaceAll(s, "{F}", x.file)
	}
	pre := "DECLARE tmp VIEW (c1, c2, c3); INSERT INTO tmp VALUES (1, 'a', 'x'), (2, 'b', NULL); "
	c.Name = first.label
	fl := form
	if i := strings.Index(fl, "("); i > 0 {
		fl = fl[:i]
	}
	c.Args = []string{x.format, first.label, fl, use[:strings.Index(use, " ")]}
	c.SQL = strings.TrimSpace(pre + sub(first.sql) + " " + sub(use) + " " + sub(tail))
	return c
}

// ---- statement-level boundary shapes of DML / DDL --------------------------

var colLists = []string{"c1", "c2", "c1, c2", "c1, c1", "zz", "c1, zz", "c1, c2, c3", "c1, c2, c3, c1", "{T}.c1", "`c1`", "c3, c2, c1", "C1", "c1, c2, c2, c2", "nosuch.c1", "`c1,c2`", "c1, c2, c3, c4"}
var identLists = []string{"c1", "c1, c2", "c1, c1", "c1, c2, c3", "c1, c2, c3, c1", "`c1`", "C1, c1", "`c1,c2`", "``", "`a b`, `あ`", "c1, c2, c3, c4", "`a.b`, a"}
var rowLists = []string{"(1)", "(1, 'a')", "(1, 'a', 'x')", "(1, 'a', 'x', 4)", "(NULL, NULL, NULL)", "(1), (1, 2)", "(1, 'a', 'x'), (1, 'b', 'y')", "(1, 'a', 'x'), (2, 'b', 'y'), (1, 'c', 'z')", "((SELECT 1), 2, 3)", "(c1, c2, c3)", "(1, 1)", "(1, 1, 1, 1, 1, 1, 1, 1)"}
var selectLists = []string{"*", "c1", "c1, c2", "c1, c1", "c1, c2, c3", "c1, c2, c3, c1", "1", "NULL, NULL, NULL", "*, *", "c1 + 1, c2, c3", "COUNT(*)", "zz"}
var assignLists = []string{"c1 = 1", "c1 = 1, c1 = 2", "zz = 1", "c1 = c2, c2 = c1", "c1 = (SELECT MAX(c1) FROM {T})", "c1 = (SELECT c1 FROM {T})", "{T}.c1 = 1", "c1 = %1", "c1 = NULL, c2 = NULL, c3 = NULL", "c1 = (SELECT c1, c2 FROM {T} LIMIT 1)", "c1 = c1 / 0", "c1 = ROW_NUMBER() OVER ()", "c1 = COUNT(*)", "nosuch.c1 = 1"}
var condList = []string{"FALSE", "TRUE", "c1 IN (SELECT c1 FROM {T})", "%1", "c1 = (SELECT MAX(c1) FROM {T})", "EXISTS (SELECT 1 FROM {T} b WHERE b.c1 = {T}.c1)", "zz = 1", "NULL", "c1 / 0 = 1"}
var newColLists = []string{"n1", "n1, n1", "c1", "n1 DEFAULT %1", "n1 DEFAULT c1", "n1 DEFAULT n1", "n1, n2 DEFAULT n1", "n1 DEFAULT (SELECT MAX(c1) FROM {T})", "n1 DEFAULT zz", "`` ", "n1 DEFAULT COUNT(*)", "n1 DEFAULT 1 / 0"}
var newColSingle = []string{"n1", "c1", "n1 DEFAULT %1", "n1 DEFAULT c1", "n1 DEFAULT n1", "`` ", "C1", "n1 DEFAULT (SELECT c1 FROM {T})"}
var addPositions = []string{"", "", "FIRST", "LAST", "AFTER c1", "BEFORE c1", "BEFORE zz", "AFTER n1", "AFTER c3"}
var renamePairs = []string{"c1 TO c2", "c1 TO c1", "zz TO a", "c1 TO ``", "c1 TO `a b`", "c1 TO C1", "{T}.c1 TO x", "c1 TO `{T}.x`"}
var tableAttrs = []string{"FORMAT", "DELIMITER", "DELIMITER_POSITIONS", "JSON_ESCAPE", "ENCODING", "LINE_BREAK", "HEADER", "ENCLOSE_ALL", "PRETTY_PRINT", "NOSUCH"}
var attrValues = []string{"%1", "'CSV'", "'JSON'", "'FIXED'", "'LTSV'", "'GFM'", "'BOX'", "JSONL", "','", "'\\t'", "'ab'", "'SPACES'", "'[1,2]'", "'S[2]'", "'[]'", "'x'", "'UTF16'", "'SJIS'", "'AUTO'", "'CRLF'", "'HEX'", "TRUE", "FALSE", "NULL", "1"}

var stmtTemplates2 = []struct{ name, sql string }{
	{"INSERT VALUES", "INSERT INTO {T} ({cols}) VALUES {rows};"},
	{"INSERT VALUES nocols", "INSERT INTO {T} VALUES {rows};"},
	{"INSERT SELECT self", "INSERT INTO {T} ({cols}) SELECT {sel} FROM {T};"},
	{"INSERT SELECT zero rows", "INSERT INTO {T} ({cols}) SELECT {sel} FROM {T} WHERE FALSE;"},
	{"INSERT SELECT nocols", "INSERT INTO {T} SELECT {sel} FROM {T} WHERE {cond};"},
	{"REPLACE VALUES", "REPLACE INTO {T} ({cols}) USING ({keys}) VALUES {rows};"},
	{"REPLACE VALUES nocols", "REPLACE INTO {T} USING ({keys}) VALUES {rows};"},
	{"REPLACE SELECT self", "REPLACE INTO {T} ({cols}) USING ({keys}) SELECT {sel} FROM {T};"},
	{"REPLACE SELECT nocols", "REPLACE INTO {T} USING ({keys}) SELECT {sel} FROM {T} WHERE {cond};"},
	{"UPDATE", "UPDATE {T} SET {assign};"},
	{"UPDATE WHERE", "UPDATE {T} SET {assign} WHERE {cond};"},
	{"UPDATE FROM", "UPDATE a SET a.c1 = b.c1 FROM {T} a JOIN {T} b ON a.c1 = b.c1 WHERE {cond};"},
	{"UPDATE FROM two", "UPDATE a, b SET a.c1 = 1, b.c1 = 2 FROM {T} a, {T} b;"},
	{"DELETE", "DELETE FROM {T} WHERE {cond};"},
	{"DELETE all", "DELETE FROM {T}; DELETE FROM {T}; SELECT MAX(c1), COUNT(*) FROM {T};"},
	{"DELETE FROM join", "DELETE a FROM {T} a JOIN {T} b ON a.c1 = b.c1 WHERE {cond};"},
	{"DELETE two", "DELETE a, b FROM {T} a, {T} b;"},
	{"ALTER ADD", "ALTER TABLE {T} ADD ({newcols}) {pos};"},
	{"ALTER ADD one", "ALTER TABLE {T} ADD {newcol} {pos};"},
	{"ALTER DROP", "ALTER TABLE {T} DROP ({cols});"},
	{"ALTER DROP all", "ALTER TABLE {T} DROP (c1, c2, c3); SELECT * FROM {T}; INSERT INTO {T} VALUES {rows}; ALTER TABLE {T} ADD n1 FIRST;"},
	{"ALTER DROP one by one", "ALTER TABLE {T} DROP c1; ALTER TABLE {T} DROP c2; ALTER TABLE {T} DROP c3; SELECT * FROM {T}; SELECT COUNT(*) FROM {T};"},
	{"ALTER RENAME", "ALTER TABLE {T} RENAME {rename};"},
	{"ALTER SET", "ALTER TABLE {T} SET {attr} TO {attrval};"},
	{"CREATE TABLE", "CREATE TABLE `n.csv` ({idents});"},
	{"CREATE TABLE AS", "CREATE TABLE `n.csv` ({idents}) AS SELECT {sel} FROM {T};"},
	{"CREATE TABLE AS nocols", "CREATE TABLE `n.json` AS SELECT {sel} FROM {T};"},
	{"CREATE TABLE exists", "CREATE TABLE IF NOT EXISTS `t.csv` ({idents}); CREATE TABLE `t.csv` ({idents});"},
	{"CREATE TABLE twice", "CREATE TABLE `n.txt` ({idents}); CREATE TABLE IF NOT EXISTS `n.txt` (x); CREATE TABLE `n.txt` (y); INSERT INTO `n.txt` VALUES {rows};"},
	{"CREATE TABLE missing dir", "CREATE TABLE `sub/dir/n.csv` ({idents}); INSERT INTO `sub/dir/n.csv` VALUES {rows};"},
	{"DECLARE VIEW", "DECLARE v2 VIEW ({idents}); INSERT INTO v2 VALUES {rows};"},
	{"DECLARE VIEW AS", "DECLARE v2 VIEW ({idents}) AS SELECT {sel} FROM {T};"},
	{"DECLARE VIEW again", "DECLARE tmp VIEW ({idents}); DISPOSE VIEW tmp; SELECT * FROM tmp; DISPOSE VIEW tmp;"},
	{"SELECT INTO", "VAR @a, @b; SELECT {sel} INTO @a, @b FROM {T} WHERE {cond};"},
	{"VALUES row compare", "SELECT * FROM {T} WHERE (c1, c2) IN (SELECT {sel} FROM {T}); SELECT * FROM {T} WHERE (c1, c2, c3) = ANY ({rows});"},
}

var stmtTails = []string{"", "SELECT * FROM {T};", "COMMIT;", "ROLLBACK; SELECT * FROM {T};", "COMMIT; SELECT * FROM {T};", "SELECT @#UNCOMMITTED, @#CREATED, @#UPDATED, @#UPDATED_VIEWS, @#LOADED_TABLES;"}

func genStmtCase(t *rapid.T) progCase {
	c := progCase{Kind: "stmt", Files: true}
	target := fw.PickU(t, "stmtTarget", []string{"tmp", "tmp", "tmp0", "t", "t", "hdr", "empty", "u", "w", "l", "j"})
	tm := fw.PickU(t, "stmtTemplate", stmtTemplates2)
	b1 := drawBoundary(t, "b1", false)
	c.Name = tm.name
	picks := map[string]string{}
	pick := func(key string, pool []string) string {
		v := fw.PickU(t, key, pool)
		picks[key] = v
		return v
	}
	sql := tm.sql + " " + fw.PickU(t, "stmtTail", stmtTails)
	for _, ph := range []struct {
		key  string
		pool []string
	}{{"{cols}", colLists}, {"{idents}", identLists}, {"{keys}", colLists}, {"{rows}", rowLists}, {"{sel}", selectLists}, {"{assign}", assignLists}, {"{cond}", condList}, {"{newcols}", newColLists}, {"{newcol}", newColSingle}, {"{pos}", addPositions}, {"{rename}", renamePairs}, {"{attr}", tableAttrs}, {"{attrval}", attrValues}} {
		for strings.Contains(sql, ph.key) {
			sql = strings.Replace(sql, ph.key, pick(ph.key, ph.pool), 1)
		}
	}
	usesB1 := strings.Contains(sql, "%1")
	sql = strings.ReplaceAll(sql, "%1", b1.sql)
	sql = strings.ReplaceAll(sql, "{T}", target)
	c.Args = []string{target}
	for _, k := range []string{"{cols}", "{idents}", "{keys}", "{rows}", "{assign}", "{newcols}", "{rename}", "{attr}"} {
		if v, ok := picks[k]; ok {
			c.Args = append(c.Args, k+"="+v)
		}
	}
	if usesB1 {
		c.Args = append(c.Args, b1.class)
	}
	c.SQL = "DECLARE tmp VIEW (c1, c2, c3); INSERT INTO tmp VALUES (1, 'a', 'x'), (2, 'b', NULL), (1, 'c', 'z'); DECLARE tmp0 VIEW (c1, c2, c3); " + strings.TrimSpace(sql)
	return c
}

// ---- cursors and prepared statements --------------------------------------

var fetchPositions = []string{"", "NEXT", "PRIOR", "FIRST", "LAST", "ABSOLUTE %1", "RELATIVE %1", "ABSOLUTE %1", "RELATIVE %1"}
var fetchVars = []string{"@a", "@a, @b", "@a, @b, @a", "@a, @nosuch", "@a, @b, @c"}
var prepareTexts = []string{"'SELECT ?'", "'SELECT ?, ?'", "'SELECT :a, :b, :a'", "'SELECT 1'", "'SELECT'", "''", "'SELECT ?; SELECT ?'", "'SELECT * FROM tmp WHERE c1 = ? OR c2 = ?'", "'INSERT INTO tmp VALUES (?, ?, ?)'", "'SELECT ''?'', ?'", "'SELECT ? FROM tmp LIMIT ?'", "'SELECT :a, ?'", "'UPDATE tmp SET c1 = :v WHERE c1 = :v'", "'PREPARE x FROM ''SELECT 1'''", "'SELECT ?'' '", "'%'", "'あ'", "'SELECT :a :b'"}
var usingLists = []string{"", "USING %1", "USING %1, %2", "USING %1 AS a", "USING %1 AS a, %2 AS b", "USING %1 AS a, %2 AS a", "USING %1, %2 AS b", "USING %1, %2, %1, %2, %1", "USING %1 AS v", "USING (SELECT 1)", "USING @nosuch"}

var cursorTemplates = []struct{ name, sql string }{
	{"FETCH", "DECLARE c CURSOR FOR SELECT c1, c2 FROM {T}; OPEN c; VAR @a, @b, @c; FETCH {pos} c INTO {vars}; SELECT @a, @b, CURSOR c IS OPEN, CURSOR c IS IN RANGE, CURSOR c COUNT; CLOSE c; DISPOSE CURSOR c;"},
	{"FETCH loop", "DECLARE c CURSOR FOR SELECT c1 FROM {T}; OPEN c; VAR @a; WHILE @a IN c DO PRINT @a; END WHILE; FETCH {pos} c INTO @a; FETCH {pos} c INTO @a; SELECT @a, CURSOR c IS IN RANGE;"},
	{"FETCH not open", "DECLARE c CURSOR FOR SELECT c1 FROM {T}; VAR @a; FETCH {pos} c INTO @a; SELECT CURSOR c IS OPEN, CURSOR c IS IN RANGE, CURSOR c COUNT;"},
	{"OPEN twice", "DECLARE c CURSOR FOR SELECT c1 FROM {T}; OPEN c; OPEN c; CLOSE c; CLOSE c; VAR @a; FETCH {pos} c INTO @a; DISPOSE CURSOR c; DISPOSE CURSOR c; OPEN c;"},
	{"DECLARE twice", "DECLARE c CURSOR FOR SELECT 1; DECLARE c CURSOR FOR SELECT 2; OPEN nosuch; SELECT CURSOR nosuch COUNT;"},
	{"cursor over changing table", "DECLARE c CURSOR FOR SELECT c1 FROM {T}; OPEN c; DELETE FROM {T}; VAR @a; FETCH {pos} c INTO @a; FETCH c INTO @a; SELECT @a, CURSOR c COUNT;"},
	{"cursor for statement", "PREPARE s FROM {text}; DECLARE c CURSOR FOR s; OPEN c {using}; VAR @a, @b, @c; FETCH {pos} c INTO {vars}; SELECT @a; CLOSE c;"},
	{"PREPARE EXECUTE", "PREPARE s FROM {text}; EXECUTE s {using};"},
	{"EXECUTE twice", "PREPARE s FROM {text}; EXECUTE s {using}; EXECUTE s {using}; DISPOSE PREPARE s; EXECUTE s {using};"},
	{"PREPARE twice", "PREPARE s FROM {text}; PREPARE s FROM {text}; DISPOSE PREPARE nosuch; SHOW STATEMENTS;"},
	{"EXECUTE command", "EXECUTE {fmt} USING %1, %2;"},
	{"EXECUTE command plain", "EXECUTE {fmt};"},
	{"FETCH in function", "DECLARE f FUNCTION (@n) AS BEGIN DECLARE c CURSOR FOR SELECT c1 FROM {T}; OPEN c; VAR @a; FETCH {pos} c INTO @a; RETURN @a; END; SELECT f(%2), f(); SELECT f(1, 2);"},
}

var executeFormats = []string{"'SELECT %s'", "'SELECT %q'", "'SELECT %d, %s'", "'SELECT 1'", "'SELECT'", "''", "'SELECT %'", "'PRINT %q; PRINT %i;'", "'SELECT %.1s'", "'SELECT %.5s'", "'SELECT %T'", "NULL", "%1"}

func genCursorCase(t *rapid.T) progCase {
	c := progCase{Kind: "cursor", Files: true}
	target := fw.PickU(t, "cursorTarget", []string{"tmp", "tmp", "tmp0", "t", "hdr"})
	tm := fw.PickU(t, "cursorTemplate", cursorTemplates)
	b1 := drawBoundary(t, "b1", false)
	b2 := drawBoundary(t, "b2", false)
	c.Name = tm.name
	sql := tm.sql
	c.Args = []string{target}
	for _, ph := range []struct {
		key  string
		pool []string
	}{{"{pos}", fetchPositions}, {"{vars}", fetchVars}, {"{text}", prepareTexts}, {"{using}", usingLists}, {"{fmt}", executeFormats}} {
		for strings.Contains(sql, ph.key) {
			v := fw.PickU(t, ph.key, ph.pool)
			sql = strings.Replace(sql, ph.key, v, 1)
			c.Args = append(c.Args, v)
		}
	}
	if strings.Contains(sql, "%1") {
		c.Args = append(c.Args, b1.class)
	}
	if strings.Contains(sql, "%2") {
		c.Args = append(c.Args, b2.class)
	}
	// the text of a prepared statement is a string literal: a boundary value is used as is
	sql = strings.ReplaceAll(sql, "%1", b1.sql)
	sql = strings.ReplaceAll(sql, "%2", b2.sql)
	sql = strings.ReplaceAll(sql, "{T}", target)
	c.SQL = "DECLARE tmp VIEW (c1, c2, c3); INSERT INTO tmp VALUES (1, 'a', 'x'), (2, 'b', NULL), (3, 'c', 'z'); DECLARE tmp0 VIEW (c1, c2, c3); " + sql
	return c
}

// ---- every flag -----------------------------------------------------------

var flagValues = []string{"TRUE", "FALSE", "'CSV'", "'JSON'", "JSONL", "'FIXED'", "'BOX'", "'UTF8'", "'SJIS'", "'UTF16'", "'AUTO'", "'CRLF'", "'CR'", "','", "'\\t'", "''", "'ab'", "'[1,2]'", "'SPACES'", "'S[1]'", "'[]'", "'[1'", "2", "0", "-1", "1.5", "'Asia/Tokyo'", "'Local'", "'UTC'", "'Nowhere'", "'%Y-%m-%d'", "'[\"%Y\",\"%m\"]'", "'[1]'", "'HEX'", "'HEXALL'", "'.'", "'..'", "'/'", "'nosuch/dir'", "'t.csv'", "NULL", "'{}'", "'c1'", "'['"}

var flagProbes = []string{
	"SELECT * FROM t;",
	"SELECT * FROM t2; SELECT * FROM u; SELECT * FROM w; SELECT * FROM l; SELECT * FROM j;",
	"SELECT c1, COUNT(*) FROM tmp GROUP BY c1 ORDER BY c1;",
	"SELECT NOW(), DATETIME('2012-02-03'), '2012-02-03' < '2012-02-04', 1 = '1', 'A' = 'a';",
	"UPDATE t SET c2 = 'あ'; COMMIT; SELECT * FROM t;",
	"SELECT 'あ' AS `a`, 1e30 AS b, NULL AS c, 'x\ny' AS d;",
	"SELECT * FROM STDIN;",
	"CREATE TABLE `n.csv` (a, b); INSERT INTO `n.csv` VALUES (1, 'あ'); COMMIT;",
	"WITH RECURSIVE r (n) AS (SELECT 1 UNION ALL SELECT n + 1 FROM r WHERE n < 5) SELECT * FROM r;",
	"SHOW FLAGS;",
}

func genFlagCase(t *rapid.T) progCase {
	c := progCase{Kind: "flagset", Files: true, HasStdin: true, Capture: true}
	name := strings.ToUpper(fw.PickU(t, "flag", option.FlagList))
	c.Name = name
	var val, class string
	if fw.Pct(t, "flagBoundary", 50) {
		b := drawBoundary(t, "flagB", false)
		val, class = b.sql, b.class
	} else {
		val = fw.PickU(t, "flagV", flagValues)
		class = val
	}
	c.Args = []string{class}
	probe := fw.PickU(t, "flagProbe", flagProbes)
	c.SQL = fmt.Sprintf("DECLARE tmp VIEW (c1, c2, c3); INSERT INTO tmp VALUES (1, 'a', 'x'), (2, 'b', NULL); SET @@%s TO %s; SHOW @@%s; SELECT @@%s; %s", name, val, name, name, probe)
	if fw.Pct(t, "flagSecond", 30) {
		n2 := strings.ToUpper(fw.PickU(t, "flag2", option.FlagList))
		v2 := fw.PickU(t, "flagV2", flagValues)
		c.SQL = strings.Replace(c.SQL, "SHOW @@", fmt.Sprintf("SET @@%s = %s; SHOW @@", n2, v2), 1)
		c.Args = append(c.Args, n2+"="+v2)
	}
	return c
}

// ---- built-in commands ------------------------------------------------------

var commandTemplates = []struct{ name, sql string }{
	{"ECHO", "ECHO %1; ECHO %2;"},
	{"PRINT", "PRINT %1; PRINT %2;"},
	{"PRINTF", "PRINTF %1; PRINTF %1, %2; PRINTF %1 USING %2;"},
	{"SOURCE missing", "SOURCE `nosuch.sql`;"},
	{"SOURCE value", "SOURCE %1;"},
	{"SOURCE bad", "SOURCE `bad.sql`;"},
	{"SOURCE ok", "SOURCE `ok.sql`; SOURCE 'ok.sql'; SOURCE `err.sql`;"},
	{"SOURCE table", "SOURCE `t.csv`; "},
	{"SOURCE directory", "SOURCE `.`;"},
	{"SOURCE empty", "SOURCE `empty.csv`; SOURCE '';"},
	{"EXECUTE", "EXECUTE %1;"},
	{"SHOW objects", "UPDATE t SET c1 = 1; CREATE TABLE `n.csv` (a); DECLARE c CURSOR FOR SELECT 1; OPEN c; PREPARE s FROM 'SELECT ?'; DECLARE f FUNCTION (@a, @b DEFAULT %1) AS BEGIN RETURN @a; END; DECLARE ag AGGREGATE (cur, @n DEFAULT %2) AS BEGIN RETURN 1; END; SHOW TABLES; SHOW VIEWS; SHOW CURSORS; SHOW FUNCTIONS; SHOW STATEMENTS; SHOW FLAGS; SHOW ENV; SHOW RUNINFO;"},
	{"SHOW objects empty", "SHOW TABLES; SHOW VIEWS; SHOW CURSORS; SHOW FUNCTIONS; SHOW STATEMENTS;"},
	{"SHOW unknown", "SHOW nosuch;"},
	{"SHOW FIELDS", "SHOW FIELDS FROM t; SHOW FIELDS FROM tmp; SHOW FIELDS FROM u; SHOW FIELDS FROM w; UPDATE j SET c1 = 1; SHOW FIELDS FROM j; SHOW FIELDS FROM empty; SHOW FIELDS FROM nosuch;"},
	{"SHOW FIELDS after ALTER", "ALTER TABLE tmp DROP (c1, c2, c3); SHOW FIELDS FROM tmp; ALTER TABLE t ADD (`a b`, `あ`) FIRST; SHOW FIELDS FROM t; SHOW TABLES;"},
	{"SHOW flag", "SHOW @@nosuch;"},
	{"SELECT flag", "SELECT @@nosuch;"},
	{"RELOAD CONFIG", "RELOAD CONFIG; RELOAD CONFIG;"},
	{"SYNTAX", "SYNTAX; SYNTAX %1; SYNTAX 'select', 'from'; SYNTAX %1, %2;"},
	{"PWD", "PWD;"},
	{"environment variable", "SET @%C19_TMP TO %1; SELECT @%C19_TMP, @%`C19_TMP`, @%NOSUCH_C19; UNSET @%C19_TMP; UNSET @%NOSUCH_C19;"},
	{"runtime information", "UPDATE t SET c1 = 1; SELECT @#UNCOMMITTED, @#CREATED, @#UPDATED, @#UPDATED_VIEWS, @#LOADED_TABLES, @#WORKING_DIRECTORY, @#VERSION; SELECT @#NOSUCH;"},
	{"variables", "VAR @a := %1; @a := %2; SELECT @a, @a := @a || 'x'; DISPOSE @a; SELECT @a;"},
	{"variables undeclared", "SELECT @nosuch := 1; DISPOSE @nosuch; VAR @a, @a;"},
	{"TRIGGER ERROR", "TRIGGER ERROR %I %1;"},
	{"EXIT", "UPDATE t SET c1 = 1; EXIT %I; SELECT 1;"},
	{"COMMIT ROLLBACK", "COMMIT; ROLLBACK; UPDATE t SET c1 = %1; ROLLBACK; COMMIT; INSERT INTO tmp VALUES (%1, %2, 1); ROLLBACK; SELECT * FROM tmp;"},
	{"IF CASE", "IF %1 THEN PRINT 1; ELSEIF %2 THEN PRINT 2; ELSE PRINT 3; END IF; CASE %1 WHEN %2 THEN PRINT 1; ELSE PRINT 2; END CASE; CASE WHEN %1 THEN PRINT 1; END CASE;"},
	{"function misuse", "DECLARE f FUNCTION (@a) AS BEGIN RETURN @a; END; SELECT f(), f(1, 2), f(%1); DECLARE f FUNCTION () AS BEGIN RETURN; END; DISPOSE FUNCTION f; DISPOSE FUNCTION f; SELECT f(1);"},
	{"function shadows builtin", "DECLARE now FUNCTION () AS BEGIN RETURN 1; END; DECLARE json_value FUNCTION () AS BEGIN RETURN 1; END; DECLARE abs AGGREGATE (c) AS BEGIN RETURN 1; END;"},
}

func genCommandCase(t *rapid.T) progCase {
	c := progCase{Kind: "command", Files: true, Capture: true}
	tm := fw.PickU(t, "command", commandTemplates)
	b1 := drawBoundary(t, "b1", false)
	b2 := drawBoundary(t, "b2", false)
	c.Name = tm.name
	sql := tm.sql
	if strings.Contains(sql, "%1") {
		c.Args = append(c.Args, b1.class)
	}
	if strings.Contains(sql, "%2") {
		c.Args = append(c.Args, b2.class)
	}
	if strings.Contains(sql, "%I") {
		code := fw.PickU(t, "intLiteral", []string{"0", "1", "3", "64", "255", "256", "2147483648", "9223372036854775807"})
		sql = strings.ReplaceAll(sql, "%I", code)
		c.Args = append(c.Args, "code_"+code)
	}
	sql = strings.ReplaceAll(sql, "%1", b1.sql)
	sql = strings.ReplaceAll(sql, "%2", b2.sql)
	c.SQL = "DECLARE tmp VIEW (c1, c2, c3); INSERT INTO tmp VALUES (1, 'a', 'x'); " + sql
	return c
}

// ---- composed queries -------------------------------------------------------
//
// One feature per query does not reach the state that features share (sort
// value caches, record capacities, grouping): these queries stack them. A
// set operation of branches that project a few columns out of tables of
// DIFFERENT widths sits in FROM; analytic functions with PARTITION BY / ORDER BY
// expressions, GROUP BY and an outer ORDER BY on computed columns work on it.

var composeTables = "DECLARE a VIEW (a1); INSERT INTO a VALUES (3), (1), (NULL), (2); " +
	"DECLARE b VIEW (b1, b2); INSERT INTO b VALUES (2, 'q'), (1, 'p'), (1, NULL), (5, 'r'); " +
	"DECLARE c VIEW (c1, c2, c3); INSERT INTO c VALUES (1, 'a', 'x'), (4, 'b', NULL), (0, 'c', 'z'); " +
	"DECLARE e VIEW (e1, e2, e3, e4, e5); INSERT INTO e VALUES (0, 'm', 1.5, TRUE, 'w'), (7, 'n', NULL, FALSE, 'v'), (-1, 'o', 2, NULL, 'u'), (2, 'm', 3, TRUE, NULL); " +
	"DECLARE z VIEW (z1, z2); "

type composeTable struct {
	name string
	cols []string
}

var composeSources = []composeTable{
	{"a", []string{"a1"}}, {"b", []string{"b1", "b2"}}, {"c", []string{"c1", "c2", "c3"}}, {"e", []string{"e1", "e2", "e3", "e4", "e5"}}, {"z", []string{"z1", "z2"}},
	{"t", []string{"c1", "c2", "c3"}}, {"t2", []string{"c1", "c2"}}, {"u", []string{"c1", "c2", "n"}}, {"l", []string{"c1", "c2"}},
}

// Genuine defect found by this check, FIXED in /repo (c6f7b20): GROUP BY on a field that does not exist
// over an input WITHOUT rows ends in "Fatal Error: index out of range [-1]"
// (View.group, lib/query/view.go:238-240 ignores the error of
// Header.SearchIndex and marks Header[-1] as group key; with rows the key
// expression fails earlier with the documented "field does not exist"). Minimal:
// DECLARE v VIEW (a); SELECT COUNT(*) FROM v GROUP BY nosuch;
// While true the first branch of a set operation always names its columns
// x1..xk, so the outer query never groups by an unknown field (signature
// group_by_unknown_field_empty_input_fatal).
const avoidKnownGroupByUnknownField = false

// genBranch projects k columns (named x1..xk) out of a table; wide: prefer a table wider than k.
// first: the branch that names the columns of the set operation.
func genBranch(t *rapid.T, k int, wide bool, first bool) string {
	var cands []composeTable
	for _, s := range composeSources {
		if (wide && len(s.cols) > k) || (!wide && len(s.cols) == k) {
			cands = append(cands, s)
		}
	}
	if len(cands) == 0 {
		for _, s := range composeSources {
			if len(s.cols) >= k {
				cands = append(cands, s)
			}
		}
	}
	src := fw.PickU(t, "branchTable", cands)
	starPct := 50
	if first {
		starPct = 10
		if avoidKnownGroupByUnknownField {
			starPct = 0
		}
	}
	if !wide && len(src.cols) == k && fw.Pct(t, "branchStar", starPct) {
		return "SELECT * FROM " + src.name
	}
	var proj []string
	for i := 0; i < k; i++ {
		col := src.cols[fw.Uniform(t, "branchCol", len(src.cols))]
		e := col
		switch fw.Weighted(t, "branchExpr", []int{70, 10, 10, 5, 5}) {
		case 1:
			e = col + " + 1"
		case 2:
			e = col + " || '!'"
		case 3:
			e = "NULL"
		case 4:
			e = fmt.Sprintf("%d", fw.Range(t, "branchConst", -1, 3))
		}
		proj = append(proj, fmt.Sprintf("%s AS x%d", e, i+1))
	}
	q := "SELECT " + strings.Join(proj, ", ") + " FROM " + src.name
	if fw.Pct(t, "branchWhere", 25) {
		q += " WHERE " + fw.PickU(t, "branchCond", []string{src.cols[0] + " > 0", src.cols[0] + " IS NOT NULL", "TRUE", "FALSE", src.cols[0] + " IN (1, 2)"})
	}
	return q
}

func genSetOperation(t *rapid.T, k int) string {
	n := 2 + fw.Weighted(t, "setBranches", []int{70, 30})
	parts := []string{genBranch(t, k, fw.Pct(t, "firstWide", 75), true)}
	for i := 1; i < n; i++ {
		op := fw.PickU(t, "setOp", []string{"UNION ALL", "UNION ALL", "UNION ALL", "UNION", "EXCEPT", "INTERSECT", "EXCEPT ALL", "INTERSECT ALL"})
		parts = append(parts, op, genBranch(t, k, fw.Pct(t, "otherWide", 35), false))
	}
	return strings.Join(parts, " ")
}

func genComposeCase(t *rapid.T) progCase {
	c := progCase{Kind: "compose", Files: true}
	k := fw.Range(t, "width", 1, 3)
	x := func(label string) string { return fmt.Sprintf("x%d", 1+fw.Uniform(t, label, k)) }
	setop := genSetOperation(t, k)
	from := "(" + setop + ") s"
	switch fw.Weighted(t, "fromShape", []int{60, 12, 10, 10, 8}) {
	case 1:
		from = "(SELECT * FROM (" + setop + ") i WHERE TRUE) s"
	case 2:
		from = "(" + setop + ") s CROSS JOIN (SELECT 1 AS j1 UNION ALL SELECT 2) j"
	case 3:
		from = "(" + setop + ") s LEFT JOIN b ON s.x1 = b.b1"
	case 4:
		from = "(" + setop + " ORDER BY 1 LIMIT 5) s"
	}
	pexpr := func() string {
		return fw.PickU(t, "partExpr", []string{x("px"), x("px") + " % 2", x("px") + " || 'p'", "1", "NULL", x("px") + ", " + x("px2"), "(" + x("px") + " IS NULL)"})
	}
	oexpr := func() string {
		return fw.PickU(t, "ordExpr", []string{x("ox"), x("ox") + " DESC", x("ox") + " + 0", "-" + x("ox"), x("ox") + " || " + x("ox2"), x("ox") + " DESC NULLS FIRST, " + x("ox2"), "1", "COALESCE(" + x("ox") + ", 0) DESC"})
	}
	analytic := func(alias string) string {
		fn := fw.PickU(t, "anaFn", []string{"ROW_NUMBER()", "RANK()", "DENSE_RANK()", "SUM(" + x("ax") + ")", "COUNT(*)", "LAG(" + x("ax") + ")", "LEAD(" + x("ax") + ", 1, 0)", "FIRST_VALUE(" + x("ax") + ")", "LAST_VALUE(" + x("ax") + ")", "LISTAGG(" + x("ax") + ", ',')", "MAX(" + x("ax") + " || 'm')", "NTILE(2)", "CUME_DIST()", "MEDIAN(" + x("ax") + ")"})
		var parts []string
		if fw.Pct(t, "anaPartition", 70) {
			parts = append(parts, "PARTITION BY "+pexpr())
		}
		if fw.Pct(t, "anaOrder", 85) || strings.HasPrefix(fn, "NTILE") || strings.HasPrefix(fn, "LA") || strings.HasPrefix(fn, "LEAD") {
			parts = append(parts, "ORDER BY "+oexpr())
		}
		return fn + " OVER (" + strings.Join(parts, " ") + ") AS " + alias
	}
	outerOrder := func(aliases []string) string {
		var items []string
		for i, n := 0, 1+fw.Uniform(t, "nOrderItems", 3); i < n; i++ {
			pool := append([]string{x("oo"), x("oo") + " * 2", x("oo") + " || 'o'", "1", "-" + x("oo"), "(" + x("oo") + " IS NULL)"}, aliases...)
			if len(aliases) > 0 && fw.Pct(t, "orderByAlias", 60) {
				pool = aliases
			}
			items = append(items, fw.PickU(t, "orderItem", pool)+fw.PickU(t, "orderDir", []string{"", "", " DESC", " ASC NULLS LAST"}))
		}
		return " ORDER BY " + strings.Join(items, ", ")
	}
	var q string
	switch fw.Weighted(t, "composeShape", []int{45, 15, 12, 10, 8, 10}) {
	case 0: // analytic functions + outer ORDER BY on the computed columns
		sel := []string{"*"}
		aliases := []string{"r1"}
		sel = append(sel, analytic("r1"))
		if fw.Pct(t, "secondAnalytic", 50) {
			sel = append(sel, analytic("r2"))
			aliases = append(aliases, "r2")
		}
		if fw.Pct(t, "computedColumn", 40) {
			sel = append(sel, x("cx")+" + 100 AS k1")
			aliases = append(aliases, "k1")
		}
		q = "SELECT " + strings.Join(sel, ", ") + " FROM " + from
		if fw.Pct(t, "outerWhere", 25) {
			q += " WHERE " + x("wx") + " IS NOT NULL"
		}
		q += outerOrder(aliases)
		if fw.Pct(t, "outerLimit", 30) {
			q += fw.PickU(t, "limit", []string{" LIMIT 2", " LIMIT 1 WITH TIES", " LIMIT 50 PERCENT", " OFFSET 1"})
		}
		c.Name = "analytic+order"
	case 1: // GROUP BY over the set operation, analytic function over the groups
		g := x("gx")
		q = fmt.Sprintf("SELECT %s, COUNT(*) AS n, MAX(%s) AS m, RANK() OVER (ORDER BY COUNT(*) DESC, %s) AS r FROM %s GROUP BY %s", g, x("mx"), g, from, g)
		if fw.Pct(t, "having", 40) {
			q += " HAVING COUNT(*) > 0"
		}
		q += " ORDER BY " + fw.PickU(t, "groupOrder", []string{"r, n", "n DESC, " + g, "m", "r DESC", g + " || 'g'"})
		c.Name = "group+analytic+order"
	case 2: // the analytic query is itself a subquery that is ordered and grouped outside
		q = fmt.Sprintf("SELECT r1, COUNT(*) AS n FROM (SELECT *, %s FROM %s) q GROUP BY r1 ORDER BY n DESC, r1", analytic("r1"), from)
		c.Name = "analytic in subquery+group"
	case 3: // set operation at the top with ORDER BY on position / expression
		q = setop + fw.PickU(t, "topOrder", []string{" ORDER BY 1", " ORDER BY x1 DESC", " ORDER BY 1 DESC LIMIT 2", " ORDER BY x1 || 's'", ""})
		c.Name = "top set operation"
	case 4: // common table expression, used twice
		q = fmt.Sprintf("WITH ct AS (%s) SELECT p.*, %s FROM ct p JOIN ct q ON p.x1 = q.x1%s", setop, strings.Replace(analytic("r1"), "x", "p.x", -1), fw.PickU(t, "cteOrder", []string{" ORDER BY r1", " ORDER BY r1 DESC, p.x1", ""}))
		c.Name = "cte+analytic"
	default: // DISTINCT / IN subquery / scalar subquery over the set operation
		q = fmt.Sprintf("SELECT DISTINCT %s, %s FROM %s WHERE %s IN (SELECT x1 FROM (%s) w) OR (SELECT COUNT(*) FROM (%s) v) > 100%s", x("dx"), analytic("r1"), from, x("ix"), setop, setop, outerOrder([]string{"r1"}))
		c.Name = "distinct+in+analytic"
	}
	c.Args = []string{fmt.Sprintf("k=%d", k), fmt.Sprintf("setops=%d", strings.Count(setop, "SELECT")), fmt.Sprintf("union_all=%v", strings.Contains(setop, "UNION ALL")), fmt.Sprintf("analytics=%d", strings.Count(q, " OVER (")), fmt.Sprintf("partition=%v", strings.Contains(q, "PARTITION BY")), fmt.Sprintf("order_by_alias=%v", strings.Contains(q, "ORDER BY r") || strings.Contains(q, ", r"))}
	if fw.Pct(t, "cpu", 20) {
		q = "SET @@CPU TO 4; " + q
	}
	c.SQL = composeTables + q + ";"
	return c
}
