package c19

import (
	"fmt"
	"os"
	"path/filepath"
	"strings"
	"sync"
	"sync/atomic"
	"syscall"
	"testing"
	"time"

	"pgregory.net/rapid"

	"verif/internal/fw"
	"verif/internal/run"
)

// ---------------------------------------------------------------------
// fs_states: the real binary, run as an unprivileged user, against hostile
// file-system states.

type fsCase struct {
	State   string `json:"state"`
	Variant int    `json:"variant"`
}

// unprivileged uid/gid the child runs as (nobody): permission bits must bite
// although the harness itself is root.
const childUID = 65534

type fsVariant struct {
	args  []string // csvq arguments; {D} is replaced by the case directory
	stdin string
	known string // signature of the reported defect this variant hits ("" = none)
}

// Genuine defect confirmed by this check, FIXED in /repo (f3be4e9): with the working directory removed, any
// reference to a table by a relative name ends in "Fatal Error ... nil pointer
// dereference": cacheViewFromFile (lib/query/load_view.go:897) builds the I/O
// error from the nil named result `err` instead of the error `e` that
// CreateFilePath returned. While true those statements are not generated so
// that the other statements of the state keep being checked; set to false to
// reproduce (signature cwd_removed_nil_error).
const avoidKnownCwdRemovedNil = false

func kq(known, sql string) fsVariant { return fsVariant{args: []string{"-q", sql}, known: known} }

type fsState struct {
	name string
	// setup prepares the case directory (already created, mode 0755, owned by
	// root) and returns the working directory of the child relative to it.
	setup    func(d string) error
	variants []fsVariant
	// shell: run through `sh -c` with this script; "$0" is the binary, "$@" the arguments.
	shell string
}

func q(sql string) fsVariant { return fsVariant{args: []string{"-q", sql}} }

func writeTable(d, name string, mode os.FileMode) error {
	p := filepath.Join(d, name)
	if err := os.WriteFile(p, []byte("a,b\n1,x\n2,y\n"), 0644); err != nil {
		return err
	}
	return os.Chmod(p, mode)
}

var fsStates = []fsState{
	{name: "missing_file", setup: func(d string) error { return nil },
		variants: []fsVariant{q("SELECT * FROM nosuch"), q("SELECT * FROM `nosuch.csv`"), q("UPDATE nosuch SET a = 1"), q("INSERT INTO `nosuch.csv` VALUES (1)"), q("SELECT * FROM CSV(',', `no/such/dir/t.csv`)"), q("SELECT * FROM INLINE::('nosuch.json')"), q("SELECT * FROM `{D}/nosuch.csv`"), q("ALTER TABLE nosuch ADD c"), q("SHOW FIELDS FROM nosuch"), q("SELECT * FROM CSV_INLINE(',', `nosuch.csv`)"), q("SELECT * FROM JSON_INLINE('', nosuch)"), q("SELECT * FROM FILE::('nosuch.csv')"), q("SELECT * FROM FIXED('SPACES', INLINE::('nosuch.txt'))"), {args: []string{"-q", "fields", "nosuch.csv"}}}},
	{name: "dir_as_file", setup: func(d string) error {
		if err := os.Mkdir(filepath.Join(d, "t.csv"), 0755); err != nil {
			return err
		}
		return os.Mkdir(filepath.Join(d, "u"), 0755)
	}, variants: []fsVariant{q("SELECT * FROM `t.csv`"), q("SELECT * FROM t"), q("UPDATE `t.csv` SET a = 1"), q("SELECT * FROM u"), q("CREATE TABLE `t.csv` (a, b)"), q("SELECT * FROM JSON('', `t.csv`)"), q("SELECT * FROM INLINE::('t.csv')"), {args: []string{"-q", "-s", "t.csv"}}, q("SELECT * FROM CSV_INLINE(',', `t.csv`)"), q("SELECT * FROM JSON_INLINE('', `t.csv`)"), q("SELECT * FROM FILE::('t.csv')"), q("SELECT * FROM LTSV(`t.csv`)"), {args: []string{"-q", "fields", "t.csv"}}}},
	{name: "unreadable_file", setup: func(d string) error { return writeTable(d, "t.csv", 0) },
		variants: []fsVariant{q("SELECT * FROM t"), q("UPDATE t SET a = 1"), q("INSERT INTO t VALUES (3, 'z'); COMMIT;"), q("SELECT * FROM INLINE::('t.csv')"), {args: []string{"-q", "-s", "t.csv"}}, q("SOURCE `t.csv`"), q("SELECT * FROM CSV_INLINE(',', `t.csv`)"), q("SELECT * FROM JSON_INLINE('', t)"), q("SELECT * FROM FILE::('t.csv')"), q("SELECT * FROM CSV(',', `t.csv`)"), q("SELECT * FROM CSV(',', INLINE::('t.csv'))"), {args: []string{"-q", "fields", "t.csv"}}}},
	{name: "readonly_dir_update", setup: func(d string) error { return writeTable(d, "t.csv", 0644) }, // directory 0755 root: nobody cannot create lock/temp files
		variants: []fsVariant{q("UPDATE t SET b = 'z'; COMMIT;"), q("INSERT INTO t VALUES (3, 'z');"), q("DELETE FROM t; COMMIT; SELECT * FROM t;"), q("CREATE TABLE `new.csv` (a, b); COMMIT;"), q("SELECT * FROM t"), q("SELECT * FROM t FOR UPDATE"), q("ALTER TABLE t ADD c; COMMIT;"), {args: []string{"-q", "-o", "result.txt", "SELECT * FROM t"}}}},
	{name: "readonly_file_update", setup: func(d string) error {
		if err := os.Chmod(d, 0777); err != nil {
			return err
		}
		return writeTable(d, "t.csv", 0444)
	}, variants: []fsVariant{q("UPDATE t SET b = 'z'; COMMIT;"), q("INSERT INTO t VALUES (3, 'z');"), q("DELETE FROM t; COMMIT; SELECT * FROM t;"), q("SELECT * FROM t FOR UPDATE")}},
	{name: "cwd_removed", setup: func(d string) error {
		if err := os.Chmod(d, 0777); err != nil {
			return err
		}
		if err := writeTable(d, "abs.csv", 0644); err != nil {
			return err
		}
		if err := os.Mkdir(filepath.Join(d, "gone"), 0777); err != nil {
			return err
		}
		return os.Chmod(filepath.Join(d, "gone"), 0777)
	}, shell: `cd gone && rmdir ../gone && exec "$0" "$@"`,
		variants: []fsVariant{q("SELECT 1"), kq("cwd_removed_nil_error", "SELECT * FROM t"), kq("cwd_removed_nil_error", "SELECT * FROM `t.csv`"), q("SELECT * FROM `{D}/abs.csv`"), q("CREATE TABLE IF NOT EXISTS `x.csv` (a)"), q("CREATE TABLE `x.csv` (a); COMMIT;"), q("PWD"), q("CHDIR '{D}'; SELECT * FROM abs;"), kq("cwd_removed_nil_error", "SELECT * FROM CSV(',', t)"), kq("cwd_removed_nil_error", "UPDATE t SET a = 1"), q("SHOW TABLES"), q("SELECT * FROM INLINE::('t.csv')"),
			{args: []string{"-q", "-r", "{D}", "SELECT * FROM abs"}}, {args: []string{"-q", "-s", "x.sql"}}, {args: []string{"-q", "-o", "out.txt", "SELECT 1"}}, q("SOURCE `x.sql`"), kq("cwd_removed_nil_error", "INSERT INTO t VALUES (1)")}},
	{name: "dangling_symlink", setup: func(d string) error {
		if err := os.Chmod(d, 0777); err != nil {
			return err
		}
		return os.Symlink(filepath.Join(d, "nowhere.csv"), filepath.Join(d, "t.csv"))
	}, variants: []fsVariant{q("SELECT * FROM t"), q("SELECT * FROM `t.csv`"), q("UPDATE t SET a = 1"), q("INSERT INTO `t.csv` VALUES (1)"), q("CREATE TABLE `t.csv` (a, b); INSERT INTO `t.csv` VALUES (1, 2); COMMIT;"), q("CREATE TABLE IF NOT EXISTS `t.csv` (a, b)"), {args: []string{"-q", "-o", "t.csv", "SELECT 1"}}, {args: []string{"-q", "-s", "t.csv"}}, q("SELECT * FROM CSV_INLINE(',', `t.csv`)"), q("SELECT * FROM INLINE::('t.csv')"), q("SELECT * FROM FILE::('t.csv')"), q("SELECT * FROM JSON('', `t.csv`)")}},
	{name: "symlink_loop", setup: func(d string) error {
		if err := os.Symlink("b.csv", filepath.Join(d, "a.csv")); err != nil {
			return err
		}
		return os.Symlink("a.csv", filepath.Join(d, "b.csv"))
	}, variants: []fsVariant{q("SELECT * FROM a"), q("UPDATE `a.csv` SET x = 1"), q("CREATE TABLE `a.csv` (x)"), {args: []string{"-q", "-o", "a.csv", "SELECT 1"}}}},
	{name: "fifo_with_writer", setup: func(d string) error { return syscall.Mkfifo(filepath.Join(d, "t.csv"), 0666) },
		variants: []fsVariant{q("SELECT * FROM `t.csv`"), q("SELECT * FROM INLINE::('t.csv')"), q("SELECT * FROM CSV(',', `t.csv`)")}},
	{name: "fifo_without_writer", setup: func(d string) error { return syscall.Mkfifo(filepath.Join(d, "t.csv"), 0666) },
		variants: []fsVariant{q("SELECT * FROM `t.csv`")}},
	{name: "out_existing_file", setup: func(d string) error {
		if err := os.Chmod(d, 0777); err != nil {
			return err
		}
		if err := os.WriteFile(filepath.Join(d, "ro.txt"), []byte("old\n"), 0444); err != nil {
			return err
		}
		if err := os.WriteFile(filepath.Join(d, "rw.txt"), []byte("old\n"), 0666); err != nil {
			return err
		}
		return os.Chmod(filepath.Join(d, "rw.txt"), 0666)
	}, variants: []fsVariant{{args: []string{"-q", "-o", "ro.txt", "SELECT 1"}}, {args: []string{"-q", "-o", "rw.txt", "SELECT 1"}}, {args: []string{"-q", "-o", "{D}/rw.txt", "-f", "JSON", "SELECT 1 AS a"}}, {args: []string{"-q", "-o", "rw.txt", "SELECT * FROM nosuch"}}}},
	{name: "out_is_dir", setup: func(d string) error {
		if err := os.Chmod(d, 0777); err != nil {
			return err
		}
		return os.Mkdir(filepath.Join(d, "sub"), 0777)
	}, variants: []fsVariant{{args: []string{"-q", "-o", "sub", "SELECT 1"}}, {args: []string{"-q", "-o", "{D}", "SELECT 1"}}, {args: []string{"-q", "-o", "sub/", "-f", "CSV", "SELECT 1"}}}},
	{name: "out_missing_dir", setup: func(d string) error { return os.Chmod(d, 0777) },
		variants: []fsVariant{{args: []string{"-q", "-o", "nodir/out.txt", "SELECT 1"}}, {args: []string{"-q", "-o", "{D}/no/such/out.csv", "SELECT 1"}}, {args: []string{"-q", "-o", "", "SELECT 1"}}}},
	{name: "out_unwritable_dir", setup: func(d string) error { return nil },
		variants: []fsVariant{{args: []string{"-q", "-o", "out.txt", "SELECT 1"}}, {args: []string{"-q", "-o", "out.txt", "PRINT 1"}}}},
	{name: "out_dev_full", setup: func(d string) error { return nil },
		variants: []fsVariant{{args: []string{"-q", "-o", "/dev/full", "SELECT 1"}}, {args: []string{"-q", "-o", "/dev/full", "-f", "JSON", "SELECT 1 AS a"}}, {args: []string{"-q", "-o", "/dev/null", "SELECT 1"}}}},
	{name: "missing_source", setup: func(d string) error { return nil },
		variants: []fsVariant{{args: []string{"-q", "-s", "nosuch.sql"}}, {args: []string{"-q", "-s", "{D}/no/such.sql"}}, {args: []string{"-q", "-s", ""}}, q("SOURCE `nosuch.sql`"), q("SOURCE 'nosuch.sql'")}},
	{name: "source_is_dir", setup: func(d string) error { return os.Mkdir(filepath.Join(d, "src.sql"), 0755) },
		variants: []fsVariant{{args: []string{"-q", "-s", "src.sql"}}, {args: []string{"-q", "-s", "{D}"}}, q("SOURCE `src.sql`")}},
	{name: "missing_repository", setup: func(d string) error { return writeTable(d, "t.csv", 0644) },
		variants: []fsVariant{{args: []string{"-q", "-r", "nosuch", "SELECT 1"}}, {args: []string{"-q", "-r", "{D}/no/such", "SELECT * FROM t"}}, {args: []string{"-q", "-r", "t.csv", "SELECT * FROM t"}}, q("SET @@REPOSITORY TO 'nosuch'; SELECT * FROM t;"), q("SET @@REPOSITORY TO 't.csv'; SELECT * FROM t;"), q("CHDIR 'nosuch'"), q("CHDIR 't.csv'")}},
	{name: "unreadable_dir", setup: func(d string) error {
		sub := filepath.Join(d, "sub")
		if err := os.Mkdir(sub, 0755); err != nil {
			return err
		}
		if err := writeTable(sub, "t.csv", 0644); err != nil {
			return err
		}
		return os.Chmod(sub, 0)
	}, variants: []fsVariant{q("SELECT * FROM `sub/t.csv`"), q("SELECT * FROM `sub/t`"), {args: []string{"-q", "-r", "sub", "SELECT * FROM t"}}, q("CHDIR 'sub'"), q("SET @@REPOSITORY TO 'sub'; SHOW TABLES;"), q("UPDATE `sub/t.csv` SET a = 1")}},
	{name: "name_too_long", setup: func(d string) error { return nil },
		variants: []fsVariant{q("SELECT * FROM `" + strings.Repeat("n", 300) + ".csv`"), q("CREATE TABLE `" + strings.Repeat("n", 300) + ".csv` (a); COMMIT;"), {args: []string{"-q", "-o", strings.Repeat("o", 300), "SELECT 1"}}, q("SELECT * FROM `" + strings.Repeat("d/", 3000) + "t.csv`"), q("SELECT * FROM `a\nb.csv`")}},
	{name: "home_missing", setup: func(d string) error { return writeTable(d, "t.csv", 0644) },
		variants: []fsVariant{q("SELECT * FROM t"), q("RELOAD CONFIG"), q("SELECT @#HOME_DIR")}},
	{name: "stdin_states", setup: func(d string) error { return writeTable(d, "t.csv", 0644) }, shell: `exec "$0" "$@" < .`,
		variants: []fsVariant{q("SELECT * FROM STDIN"), q("SELECT 1"), {args: []string{"-q"}}}},
	{name: "stdin_closed", setup: func(d string) error { return writeTable(d, "t.csv", 0644) }, shell: `exec "$0" "$@" <&- >&-`,
		variants: []fsVariant{q("SELECT * FROM STDIN"), q("SELECT * FROM t"), q("PRINT 1")}},
	{name: "stdout_dev_full", setup: func(d string) error { return writeTable(d, "t.csv", 0644) }, shell: `exec "$0" "$@" > /dev/full`,
		variants: []fsVariant{q("SELECT * FROM t"), q("PRINT 1"), {args: []string{"-q", "-f", "JSON", "SELECT * FROM t"}}}},
	{name: "held_control_files", setup: func(d string) error {
		// another process holds the update lock of t.csv, a read lock of u.csv, and left a temporary file of v.csv;
		// the child may create files in the directory and waits 0.3 s for locks
		if err := os.Chmod(d, 0777); err != nil {
			return err
		}
		for _, n := range []string{"t.csv", "u.csv", "v.csv", ".t.csv.lock", ".u.csv.abcdefghijkl.rlock", ".v.csv.temp"} {
			if err := writeTable(d, n, 0666); err != nil {
				return err
			}
		}
		return nil
	}, variants: []fsVariant{q("SELECT * FROM t"), q("SELECT * FROM `t.csv`"), q("SELECT * FROM CSV(',', `t.csv`)"), q("SELECT * FROM CSV_INLINE(',', `t.csv`)"), q("SELECT * FROM INLINE::('t.csv')"), q("SELECT * FROM FILE::('t.csv')"),
		q("SELECT * FROM JSON_INLINE('', `t.csv`)"), q("SELECT * FROM CSV(',', INLINE::('t.csv'))"), q("SELECT * FROM t; SELECT * FROM CSV_INLINE(',', t)"), q("UPDATE t SET a = 1"), q("SELECT * FROM t FOR UPDATE"), q("INSERT INTO t VALUES (1, 2)"),
		q("CREATE TABLE `t.csv` (a)"), q("ALTER TABLE t ADD c"), q("SELECT * FROM u JOIN INLINE::('t.csv') i ON TRUE"), {args: []string{"-q", "-s", "t.csv"}}, {args: []string{"-q", "-o", "t.csv", "SELECT 1"}}, {args: []string{"-q", "fields", "t.csv"}},
		q("SELECT * FROM u"), q("SELECT * FROM INLINE::('u.csv')"), q("UPDATE u SET a = 1; COMMIT;"), q("SELECT * FROM u FOR UPDATE"), q("DELETE FROM u; ROLLBACK;"),
		q("SELECT * FROM v"), q("SELECT * FROM CSV_INLINE(',', v)"), q("UPDATE v SET a = 1; COMMIT;"), q("INSERT INTO v VALUES (1, 2); COMMIT; SELECT * FROM INLINE::('v.csv');")}},
	{name: "empty_and_binary_files", setup: func(d string) error {
		if err := os.WriteFile(filepath.Join(d, "empty.csv"), nil, 0644); err != nil {
			return err
		}
		if err := os.WriteFile(filepath.Join(d, "bin.json"), []byte{0, 1, 2, 0xff, 0xfe}, 0644); err != nil {
			return err
		}
		return os.WriteFile(filepath.Join(d, "empty.sql"), nil, 0644)
	}, variants: []fsVariant{q("SELECT * FROM empty"), q("SELECT * FROM bin"), {args: []string{"-q", "-s", "empty.sql"}}, {args: []string{"-q", "-s", "bin.json"}}, q("INSERT INTO empty VALUES (1)")}},
}

func fsStateByName(n string) *fsState {
	for i := range fsStates {
		if fsStates[i].name == n {
			return &fsStates[i]
		}
	}
	return nil
}

func genFS(t *rapid.T) fsCase {
	var names []string
	for _, s := range fsStates {
		names = append(names, s.name)
	}
	n := fw.PickU(t, "state", names)
	if fw.Pct(t, "heldControlFiles", 14) {
		n = "held_control_files" // the state with the most statements
	}
	var vs []int
	for i, v := range fsStateByName(n).variants {
		if avoidKnownCwdRemovedNil && v.known == "cwd_removed_nil_error" {
			continue
		}
		vs = append(vs, i)
	}
	return fsCase{State: n, Variant: fw.PickU(t, "variant", vs)}
}

var fsSeq int64
var fsRootOnce sync.Once
var fsRoot string

// fsScratch is a directory the unprivileged child can reach: fw.WorkDir() is
// created 0700, so it is opened up (it is private to this process anyway).
func fsScratch() string {
	fsRootOnce.Do(func() {
		_ = os.Chmod(fw.WorkDir(), 0755)
		fsRoot = filepath.Join(fw.WorkDir(), "fs")
		_ = os.MkdirAll(fsRoot, 0755)
	})
	return fsRoot
}

var setuidProbe struct {
	once sync.Once
	ok   bool
	msg  string
}

func checkFS(c fsCase) (fw.Outcome, *fw.Violation) {
	o := fw.Outcome{Classes: []string{"state=" + c.State}}
	st := fsStateByName(c.State)
	if st == nil || c.Variant < 0 || c.Variant >= len(st.variants) {
		o.Discard = true
		return o, nil
	}
	bin, err := run.Binary(fw.WorkDir(), false)
	if err != nil {
		return o, fw.Harness("%v", err)
	}
	root := fsScratch()
	// can this harness start a child under another uid at all?
	setuidProbe.once.Do(func() {
		r := run.CLI(run.CLIOpt{Bin: bin, Dir: root, Home: root, Args: []string{"-q", "SELECT 1"}, UID: childUID, Timeout: 120 * time.Second})
		setuidProbe.ok = r.Code == 0 && !r.TimedOut
		setuidProbe.msg = fmt.Sprintf("exit=%d stderr=%s", r.Code, clip(r.Stderr, 300))
	})
	if !setuidProbe.ok {
		// reported as skipped, never as passed
		fw.AddExtra("fs_states_skipped_no_unprivileged_child", 1)
		o.Discard = true
		o.Classes = append(o.Classes, "skipped_no_setuid")
		return o, nil
	}

	v := st.variants[c.Variant]
	runOnce := func(limit time.Duration) (run.CLIRes, string, error) {
		d := filepath.Join(root, fmt.Sprintf("case-%d", atomic.AddInt64(&fsSeq, 1)))
		_ = os.RemoveAll(d)
		if err := os.Mkdir(d, 0755); err != nil {
			return run.CLIRes{}, d, err
		}
		_ = os.Chmod(d, 0755)
		home := filepath.Join(root, "home")
		_ = os.MkdirAll(home, 0755)
		if c.State == "home_missing" {
			home = filepath.Join(d, "no", "home")
		}
		if err := st.setup(d); err != nil {
			return run.CLIRes{}, d, err
		}
		// a short lock wait: in a directory where no lock file can be created csvq
		// re-tries until --wait-timeout (default 10 s) before it gives up with code 8
		args := []string{"-w", "0.3"}
		for _, a := range v.args {
			args = append(args, strings.ReplaceAll(a, "{D}", d))
		}
		opt := run.CLIOpt{Bin: bin, Dir: d, Home: home, Args: args, Stdin: v.stdin, UID: childUID, Timeout: limit}
		if st.shell != "" {
			opt.Bin = "/bin/sh"
			opt.Args = append([]string{"-c", st.shell, bin}, args...)
		}
		stop := make(chan struct{})
		var wg sync.WaitGroup
		if c.State == "fifo_with_writer" {
			// a writer that shows up as soon as csvq opens the FIFO for reading
			wg.Add(1)
			go func() {
				defer wg.Done()
				p := filepath.Join(d, "t.csv")
				for {
					select {
					case <-stop:
						return
					default:
					}
					fd, err := syscall.Open(p, syscall.O_WRONLY|syscall.O_NONBLOCK, 0)
					if err == nil {
						_, _ = syscall.Write(fd, []byte("a,b\n1,x\n2,y\n"))
						_ = syscall.Close(fd)
						return
					}
					time.Sleep(2 * time.Millisecond)
				}
			}()
		}
		res := run.CLI(opt)
		close(stop)
		wg.Wait()
		return res, d, nil
	}
	res, d, err := runOnce(20 * time.Second)
	if err == nil && res.TimedOut {
		fw.AddExtra("watchdog_retries", 1)
		_ = os.Chmod(filepath.Join(d, "sub"), 0755)
		_ = os.RemoveAll(d)
		res, d, err = runOnce(80 * time.Second)
	}
	defer func() {
		_ = os.Chmod(filepath.Join(d, "sub"), 0755)
		_ = os.RemoveAll(d)
	}()
	if err != nil {
		return o, fw.Harness("setup of state %s failed: %v", c.State, err)
	}
	what := fmt.Sprintf("state %s, variant %d: csvq %s (uid %d%s)\nexit=%d signaled=%v\nstdout: %s\nstderr: %s", c.State, c.Variant, clip(strings.Join(v.args, " "), 400), childUID,
		map[bool]string{true: ", via sh -c '" + st.shell + "'", false: ""}[st.shell != ""], res.Code, res.Signaled, clip(res.Stdout, 300), clip(res.Stderr, 1500))
	if res.Code == -1 {
		return o, fw.Harness("child could not be started: %s", clip(res.Stderr, 400))
	}
	if res.TimedOut {
		return o, fw.V("hang:"+c.State, "the process did not terminate within 20 s and again not within 80 s\n%s", what)
	}
	for _, marker := range []string{"Fatal Error", "panic:", "goroutine "} {
		if strings.Contains(res.Stderr, marker) || strings.Contains(res.Stdout, marker) {
			sig := "fatal_in_state:" + c.State
			if c.State == "cwd_removed" && strings.Contains(res.Stderr, "nil pointer") {
				sig = "cwd_removed_nil_error"
			}
			return o, fw.V(sig, "internal failure text %q in the output\n%s", marker, what)
		}
	}
	if res.Signaled {
		return o, fw.V("killed_by_signal:"+c.State, "the process died of signal %v\n%s", res.Signal, what)
	}
	if !documentedCodes[res.Code] {
		// sh itself reports 126/127 when it cannot exec: that would be a harness problem
		if st.shell != "" && (res.Code == 126 || res.Code == 127) {
			return o, fw.Harness("shell wrapper failed: %s", what)
		}
		return o, fw.V("undocumented_exit_code:"+c.State, "exit code %d is not documented\n%s", res.Code, what)
	}
	o.Classes = append(o.Classes, fmt.Sprintf("exit=%d", res.Code))
	o.Fingerprint = fmt.Sprintf("%s|%d|exit=%d", c.State, c.Variant, res.Code)
	return o, nil
}

func TestC19FSStates(t *testing.T) {
	fw.Run(t, fw.Spec[fsCase]{
		ID: "C19", Name: "fs_states", Quick: 640, Thorough: 12800,
		Gen: genFS, Check: checkFS,
		Rule:        "the csvq binary run as uid/gid 65534 (so permission bits bite) in a fresh directory prepared as one of: missing file | directory in place of a file | unreadable file (mode 000) | read-only directory with UPDATE/INSERT/DELETE/CREATE + COMMIT | read-only file | working directory removed before exec (sh -c 'cd gone && rmdir ../gone && exec csvq') | dangling symlink | symlink loop | FIFO as table with and without a writer | --out to an existing read-only/writable file, a directory, a missing directory, an unwritable directory, /dev/full | missing --source | --source that is a directory | missing --repository / repository that is a file | directory without search permission | over-long, NUL- and newline-containing names | missing HOME | stdin that is a directory / closed stdin and stdout | stdout on /dev/full | control files of another process in place (held update lock .t.csv.lock, held read lock .u.csv.<id>.rlock, left-over .v.csv.temp) with a 0.3 s --wait-timeout, read through plain names, table objects, CSV_INLINE / JSON_INLINE / INLINE:: / FILE::, DML, DDL, --source, --out, the fields subcommand | empty and binary files; x 3-27 statements per state (SELECT, DML, DDL, table objects, INLINE::, SOURCE, CHDIR, flags). Oracle: the process terminates (20 s watchdog, re-tried once with 80 s), is not killed by a signal, exit code in {0,1,2,4,8,16,32,64}, neither stream contains 'Fatal Error', 'panic:' or 'goroutine '. non-trivial = every (state, statement) pair; distinct by (state, statement, exit code)",
		Assumptions: []string{"if the harness cannot start a child under uid 65534 the states are discarded and counted in measured.fs_states_skipped_no_unprivileged_child, not passed"},
	})
}
