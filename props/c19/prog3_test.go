package c19

import (
	"fmt"
	"strings"

	"pgregory.net/rapid"

	"verif/internal/fw"
)

// ---------------------------------------------------------------------
// programs, third part: joins, and programs whose tables are large enough for
// csvq to split the work over several goroutines.
//
// The in-process session of the other program kinds runs with @@CPU = 1 over
// tables of at most eight rows, so none of them ever reaches the code that
// divides records, groups, partitions or join rows between goroutines
// (GoroutineTaskManager, lib/query/goroutine_manager.go; 80 records per core,
// for joins 80 record PAIRS per core) nor the panic capture of those
// goroutines. The kinds "join" and "parallel" set @@CPU to 2..16 and use the
// file tables big (330 rows) and mid (170 rows).

// bigCells: the s column of big.csv cycles through these boundary cells.
var bigCells = []string{"a", "", "1", "-3.5", " 12 ", "NaN", "Inf", "1e308", "9223372036854775807", "-9223372036854775808", "9223372036854775808", "2012-02-03 09:18:15", "0001-01-01", "true", "あいう", "{\"k\":[1,2]}", "[1,2", "%s%d%", "(", "a,b", "x y", "0x1F", "1e400", "NULL", "\\", "%Y-%m-%d", "UTC"}

// 330 rows: four goroutines at 80 records per core.
const bigRows = 330

func bigCSV() string {
	var b strings.Builder
	b.WriteString("g,v,s\n")
	for i := 0; i < bigRows; i++ {
		g := fmt.Sprintf("%d", i%7)
		if i%53 == 0 {
			g = ""
		}
		cell := bigCells[i%len(bigCells)]
		if strings.ContainsAny(cell, ",\"") {
			cell = `"` + strings.ReplaceAll(cell, `"`, `""`) + `"`
		}
		fmt.Fprintf(&b, "%s,%d,%s\n", g, i, cell)
	}
	return b.String()
}

func midCSV() string {
	var b strings.Builder
	b.WriteString("g,w\n")
	for i := 0; i < 170; i++ {
		g := fmt.Sprintf("%d", i%11)
		if i%41 == 0 {
			g = ""
		}
		fmt.Fprintf(&b, "%s,%d\n", g, i*3)
	}
	return b.String()
}

func init() {
	progFiles["big.csv"] = bigCSV()
	progFiles["mid.csv"] = midCSV()
}

func cpuPrefix(t *rapid.T, pctParallel int) (string, string) {
	if !fw.Pct(t, "parallel", pctParallel) {
		return "", "cpu=1"
	}
	n := fw.PickU(t, "cpuN", []string{"2", "3", "4", "16"})
	return "SET @@CPU TO " + n + "; ", "cpu=" + n
}

// ---- joins ------------------------------------------------------------------

const joinPrelude = "DECLARE a VIEW (k, x); INSERT INTO a VALUES (1, 'a1'), (2, 'a2'), (2, 'a2b'), (NULL, 'an'), ('1', 's1'), (1.0, 'f1'); " +
	"DECLARE b VIEW (k, y); INSERT INTO b VALUES (1, 'b1'), (3, 'b3'), (NULL, 'bn'), (2, NULL), (TRUE, 'bt'); " +
	"DECLARE c VIEW (k, x, y, z); INSERT INTO c VALUES (1, 'a1', 'b1', 0), (2, NULL, NULL, NULL); " +
	"DECLARE z0 VIEW (k, x); DECLARE one VIEW (k); INSERT INTO one VALUES (1); "

type joinOperand struct {
	sql   string // the table expression without alias
	label string
	key   string // a column usable as join key
	bare  bool   // takes no alias (DUAL)
}

var joinOperands = []joinOperand{
	{"a", "a", "k", false}, {"b", "b", "k", false}, {"c", "c", "k", false}, {"z0", "zero_rows", "k", false}, {"one", "one", "k", false},
	{"a", "a", "k", false}, {"b", "b", "k", false},
	{"big", "big", "g", false}, {"mid", "mid", "g", false}, {"big", "big", "v", false},
	{"t", "t.csv", "c1", false}, {"hdr", "header_only", "c1", false}, {"empty", "zero_columns", "c1", false}, {"`t2.tsv`", "t2.tsv", "c1", false}, {"u", "u.json", "c1", false},
	{"(SELECT k, x FROM a WHERE k IS NOT NULL)", "subquery", "k", false},
	{"(SELECT 1 AS k, 2 AS k)", "subquery_dup_names", "k", false},
	{"(SELECT g AS k, COUNT(*) AS n FROM mid GROUP BY g)", "subquery_grouped", "k", false},
	{"JSON_TABLE('', '[{\"k\":1},{\"k\":2,\"y\":3}]')", "json_table", "k", false},
	{"CSV(',', t)", "table_object", "c1", false},
	{"STDIN", "stdin", "c1", false},
	{"DUAL", "dual", "k", true},
}

// join forms: {L} {R} operands with their aliases, {C} a join condition, {LAT} a lateral subquery.
var joinForms = []struct{ label, sql string }{
	{"CROSS", "{L} CROSS JOIN {R}"},
	{"COMMA", "{L}, {R}"},
	{"INNER", "{L} JOIN {R} {C}"},
	{"INNER", "{L} INNER JOIN {R} {C}"},
	{"LEFT", "{L} LEFT JOIN {R} {C}"},
	{"LEFT", "{L} LEFT OUTER JOIN {R} {C}"},
	{"RIGHT", "{L} RIGHT JOIN {R} {C}"},
	{"RIGHT", "{L} RIGHT OUTER JOIN {R} {C}"},
	{"FULL", "{L} FULL JOIN {R} {C}"},
	{"FULL", "{L} FULL OUTER JOIN {R} {C}"},
	{"NATURAL", "{L} NATURAL JOIN {R}"},
	{"NATURAL INNER", "{L} NATURAL INNER JOIN {R}"},
	{"NATURAL LEFT", "{L} NATURAL LEFT JOIN {R}"},
	{"NATURAL RIGHT", "{L} NATURAL RIGHT OUTER JOIN {R}"},
	{"NATURAL FULL", "{L} NATURAL FULL JOIN {R}"},
	{"CROSS LATERAL", "{L} CROSS JOIN LATERAL {LAT}"},
	{"INNER LATERAL", "{L} JOIN LATERAL {LAT} {C}"},
	{"LEFT LATERAL", "{L} LEFT JOIN LATERAL {LAT} {C}"},
	{"RIGHT LATERAL", "{L} RIGHT JOIN LATERAL {LAT} {C}"},
	{"FULL LATERAL", "{L} FULL OUTER JOIN LATERAL {LAT} {C}"},
	{"NATURAL LATERAL", "{L} NATURAL JOIN LATERAL {LAT}"},
	{"COMMA LATERAL", "{L}, LATERAL {LAT}"},
}

// {l} {r}: the names the two operands are known by; {lk} {rk}: their key columns; %1: a boundary value.
var joinOnConditions = []string{
	"{l}.{lk} = {r}.{rk}", "{l}.{lk} = {r}.{rk}", "{l}.{lk} = {r}.{rk} AND {l}.{lk} > %1", "%1", "TRUE", "FALSE", "NULL", "{l}.{lk} < {r}.{rk}",
	"{l}.{lk} = {r}.{rk} OR {l}.{lk} IS NULL", "{l}.{lk} IN (SELECT k FROM b)", "{l}.{lk} = (SELECT MAX(k) FROM one)", "COUNT(*) > 0", "ROW_NUMBER() OVER () = 1",
	"{l}.nosuch = {r}.{rk}", "{lk} = {rk}", "{l}.{lk} = {r}.{rk} AND {r}.{rk} = %1", "({l}.{lk}, {l}.{lk}) = ({r}.{rk}, {r}.{rk})", "({l}.{lk}, 1) = ({r}.{rk})",
	"{l}.{lk} || '' = {r}.{rk} || ''", "{l}.{lk} = {r}.{rk} AND {l}.{lk} = {r}.{rk} AND {r}.{rk} = {l}.{lk}", "EXISTS (SELECT 1 FROM one WHERE one.k = {l}.{lk})",
	"{l}.{lk} = {r}.{rk} AND {l}.{lk} IN (SELECT {r}.{rk})", "{l}.{lk} / 0 = {r}.{rk}", "{l}.{lk} = {r}.{rk} AND %1 = %1", "nosuch.k = {r}.{rk}", "{l}.{lk} BETWEEN {r}.{rk} AND %1",
	"{l}.{lk} == {r}.{rk}", "{l}.{lk} LIKE {r}.{rk}", "@nosuch = 1",
}

var joinUsingLists = []string{"k", "k", "k, k", "k, k, k", "nosuch", "k, nosuch", "x", "K", "`k`", "k, x", "k, x, y, z", "x, k", "c1", "c1, c2, c3", "c1, c1, c2, c2, c3, c3, c1", "g", "g, g", "v, g", "y", "`k,x`", "k, k, k, k, k, k, k, k, k, k"}

// {J}: the join; {l} {r}: operand names.
var joinUses = []struct{ label, sql string }{
	{"select_star", "SELECT * FROM {J};"},
	{"select_star", "SELECT * FROM {J};"},
	{"count", "SELECT COUNT(*) FROM {J};"},
	{"qualified_stars", "SELECT {l}.*, {r}.* FROM {J} ORDER BY 1;"},
	{"key_unqualified", "SELECT {lk} FROM {J};"},
	{"where_null", "SELECT {l}.{lk}, {r}.{rk} FROM {J} WHERE {l}.{lk} IS NULL;"},
	{"order_limit", "SELECT * FROM {J} ORDER BY 1 DESC, 2 LIMIT 3 WITH TIES;"},
	{"group", "SELECT {l}.{lk}, COUNT(*), MAX({r}.{rk}) FROM {J} GROUP BY {l}.{lk} ORDER BY 2;"},
	{"distinct", "SELECT DISTINCT * FROM {J};"},
	{"analytic", "SELECT ROW_NUMBER() OVER (PARTITION BY {l}.{lk} ORDER BY {r}.{rk}), SUM({r}.{rk}) OVER (PARTITION BY {l}.{lk}) FROM {J};"},
	{"update_from", "UPDATE {l} SET {l}.{lk} = {r}.{rk} FROM {J}; SELECT * FROM {J};"},
	{"update_both", "UPDATE {l}, {r} SET {l}.{lk} = 0, {r}.{rk} = 0 FROM {J};"},
	{"delete_from", "DELETE {l} FROM {J}; SELECT * FROM {J};"},
	{"delete_both", "DELETE {l}, {r} FROM {J};"},
	{"insert_select", "INSERT INTO z0 SELECT {l}.{lk}, {r}.{rk} FROM {J}; SELECT * FROM z0;"},
	{"cursor", "DECLARE cj CURSOR FOR SELECT * FROM {J}; OPEN cj; VAR @a, @b; FETCH cj INTO @a, @b; FETCH LAST cj INTO @a, @b; SELECT @a, @b, CURSOR cj COUNT;"},
	{"scalar_subquery", "SELECT (SELECT COUNT(*) FROM {J}), (SELECT {l}.{lk} FROM {J} LIMIT 1) FROM one;"},
	{"for_update", "SELECT * FROM {J} FOR UPDATE;"},
	{"create_as", "CREATE TABLE `n.csv` AS SELECT * FROM {J}; SELECT * FROM `n.csv`;"},
	{"in_subquery", "SELECT * FROM a WHERE k IN (SELECT {l}.{lk} FROM {J});"},
	{"set_operation", "SELECT * FROM {J} UNION SELECT * FROM {J};"},
	{"join_of_joins", "SELECT * FROM ({J}) CROSS JOIN one o2;"},
	{"third_table", "SELECT * FROM {J} LEFT JOIN c c3 ON c3.k = {r}.{rk};"},
	{"third_using", "SELECT * FROM c c3 JOIN ({J}) USING (k);"},
	{"third_natural", "SELECT * FROM ({J}) NATURAL JOIN c;"},
	{"cte", "WITH cj AS (SELECT {l}.{lk} AS k1, {r}.{rk} AS k2 FROM {J} LIMIT 40) SELECT * FROM cj p JOIN cj q USING (k1, k2);"},
	{"show_fields", "SELECT {l}.{lk} AS `a.b`, {r}.{rk} AS `a` FROM {J};"},
}

func genJoinCase(t *rapid.T) progCase {
	c := progCase{Kind: "join", Files: true, HasStdin: true}
	lo := fw.PickU(t, "joinLeft", joinOperands)
	ro := fw.PickU(t, "joinRight", joinOperands)
	if fw.Pct(t, "joinSelf", 12) {
		ro = lo
	}
	if lo.sql == "big" && (ro.sql == "big" || ro.sql == "mid") {
		ro = joinOperand{"t", "t.csv", "c1", false} // tens of thousands of row pairs per join are slow, not interesting
	}
	if lo.sql == "mid" && ro.sql == "big" {
		lo = joinOperand{"t", "t.csv", "c1", false}
	}
	if lo.sql == "STDIN" && ro.sql == "STDIN" {
		// a data-changing statement over STDIN joined with itself waits for its own lock until the
		// wait timeout (the known C05 finding): a documented timeout error, but 30 s per case
		ro = joinOperand{"one", "one", "k", false}
	}
	// names of the operands: aliases l / r, no alias (the table's own name), or twice the same alias
	aliasOf := func(o joinOperand, def string, label string) (string, string) {
		if o.bare {
			return o.sql, "nodual" // DUAL has no name: references through this one are rejected
		}
		switch fw.Weighted(t, label, []int{75, 15, 10}) {
		case 1:
			if !strings.ContainsAny(o.sql, "(` ") && o.sql != "STDIN" {
				return o.sql, o.sql
			}
		case 2:
			def = "l"
		}
		return o.sql + " " + def, def
	}
	lsql, lname := aliasOf(lo, "l", "leftAlias")
	rsql, rname := aliasOf(ro, "r", "rightAlias")
	form := fw.PickU(t, "joinForm", joinForms)
	b1 := drawBoundary(t, "b1", false)
	if strings.HasPrefix(b1.class, "long") {
		b1 = bval{"'abc'", "text"}
	}
	condClass := "none"
	cond := ""
	if strings.Contains(form.sql, "{C}") {
		if fw.Pct(t, "joinUsing", 40) {
			u := fw.PickU(t, "usingList", joinUsingLists)
			if fw.Pct(t, "usingOwnKey", 40) {
				u = lo.key
				if fw.Pct(t, "usingRepeat", 40) {
					u = strings.TrimSuffix(strings.Repeat(lo.key+", ", fw.Range(t, "usingRepeatN", 2, 5)), ", ")
				}
			}
			cond, condClass = "USING ("+u+")", "using:"+u
		} else {
			on := fw.PickU(t, "onCond", joinOnConditions)
			cond, condClass = "ON "+on, "on:"+on
		}
	}
	lat := ""
	rk := ro.key
	if strings.Contains(form.sql, "{LAT}") {
		// the right operand is a lateral subquery that refers to the left operand
		l := fw.PickU(t, "lateral", []struct {
			sql, key string
			alias    bool
		}{
			{"(SELECT * FROM b WHERE b.k = {l}.{lk})", "k", true},
			{"(SELECT {l}.{lk} AS k, COUNT(*) AS n FROM mid WHERE mid.g = {l}.{lk})", "k", true},
			{"(SELECT k FROM one WHERE FALSE)", "k", true},
			{"(SELECT {l}.{lk} + 1 AS k)", "k", true},
			{"(SELECT * FROM a i WHERE i.k = {l}.{lk} ORDER BY i.x LIMIT 1)", "k", true},
			{"(SELECT {l}.nosuch AS k)", "k", true},
			{"(SELECT k FROM b WHERE b.k = {l}.{lk} UNION ALL SELECT k FROM one)", "k", true},
			{"(SELECT * FROM {R0} i WHERE i.{rk0} = {l}.{lk})", "", true},
			{"(SELECT * FROM b WHERE b.k = {l}.{lk})", "k", false},
			// the number of columns of the subquery depends on the outer row (inline data read per row)
			{"(SELECT * FROM JSON('', DATA::(CASE WHEN {l}.{lk} = 1 THEN '[{\"k\":1}]' ELSE '[{\"k\":2,\"y\":3}]' END)) jt)", "k", true},
			{"(SELECT * FROM CSV(',', DATA::(CASE WHEN {l}.{lk} IS NULL THEN 'k,y,z\n7,8,9' WHEN {l}.{lk} = 1 THEN 'k\n1' ELSE 'k,y\n2,3' END)) ct)", "k", true},
			{"(SELECT * FROM JSON('', DATA::(CASE WHEN {l}.{lk} = 1 THEN '[]' ELSE '[{\"k\":2}]' END)) jt)", "k", true},
		})
		lat = l.sql
		if strings.Contains(lat, "{R0}") && ro.bare {
			lat = "(SELECT k FROM one)"
			l.key = "k"
		}
		lat = strings.ReplaceAll(lat, "{R0}", ro.sql)
		lat = strings.ReplaceAll(lat, "{rk0}", ro.key)
		if l.key != "" {
			rk = l.key
		}
		if l.alias {
			if rname != "l" {
				rname = "r"
			}
			lat += " " + rname
		} else {
			rname = "b" // not a name of the join: references to it are rejected
		}
	}
	join := form.sql
	join = strings.ReplaceAll(join, "{LAT}", lat)
	join = strings.ReplaceAll(join, "{C}", cond)
	join = strings.ReplaceAll(join, "{L}", lsql)
	join = strings.ReplaceAll(join, "{R}", rsql)
	use := fw.PickU(t, "joinUse", joinUses)
	if strings.HasPrefix(form.label, "COMMA") && (strings.Contains(use.sql, "({J})") || strings.Contains(use.sql, "{J} LEFT JOIN")) {
		use = joinUses[0] // a comma list cannot be parenthesised
	}
	sql := strings.ReplaceAll(use.sql, "{J}", join)
	sql = strings.ReplaceAll(sql, "{l}", lname)
	sql = strings.ReplaceAll(sql, "{r}", rname)
	sql = strings.ReplaceAll(sql, "{lk}", lo.key)
	sql = strings.ReplaceAll(sql, "{rk}", rk)
	usesB1 := strings.Contains(sql, "%1")
	sql = strings.ReplaceAll(sql, "%1", b1.sql)
	cpu, cpuClass := cpuPrefix(t, 55)
	c.Name = form.label
	c.Args = []string{lo.label, ro.label, condClass, use.label, cpuClass}
	if usesB1 {
		c.Args = append(c.Args, b1.class)
	}
	c.SQL = cpu + joinPrelude + sql
	return c
}

// ---- programs over tables that are split between goroutines ------------------

// {E}: a generated call with column references (g, v, s of big); %1 %2: boundary values.
var parallelScalarUses = []struct{ label, sql string }{
	{"select", "SELECT {E} FROM big;"},
	{"select", "SELECT v, {E}, s FROM big;"},
	{"where", "SELECT * FROM big WHERE {E};"},
	{"where_cmp", "SELECT COUNT(*) FROM big WHERE {E} = s OR {E} IS NULL;"},
	{"order_by", "SELECT v FROM big ORDER BY {E}, v DESC;"},
	{"group_by", "SELECT {E}, COUNT(*) FROM big GROUP BY {E};"},
	{"distinct", "SELECT DISTINCT {E} FROM big;"},
	{"update", "UPDATE big SET s = {E}; SELECT COUNT(*) FROM big;"},
	{"update_where", "UPDATE big SET s = %1 WHERE {E}; SELECT @#UNCOMMITTED;"},
	{"delete", "DELETE FROM big WHERE {E}; SELECT COUNT(*) FROM big;"},
	{"insert_select", "INSERT INTO big SELECT g, v, {E} FROM big; SELECT COUNT(*) FROM big;"},
	{"replace_select", "REPLACE INTO big USING (v) SELECT g, v, {E} FROM big;"},
	{"alter_default", "ALTER TABLE big ADD n DEFAULT {E}; SELECT n FROM big LIMIT 2;"},
	{"in_subquery", "SELECT v FROM big WHERE v IN (SELECT {E} FROM t);"},
	{"correlated", "SELECT g, (SELECT COUNT(*) FROM t WHERE t.c1 = big.g AND {E} IS NOT NULL) FROM big;"},
	{"join_on", "SELECT COUNT(*) FROM big JOIN t ON big.g = t.c1 AND {E} IS NOT NULL;"},
	{"having", "SELECT g, COUNT(*) FROM big GROUP BY g HAVING MAX({E}) IS NOT NULL;"},
	{"case", "SELECT CASE WHEN v % 2 = 0 THEN {E} ELSE %1 END FROM big;"},
	{"aggregate_arg", "SELECT g, COUNT({E}), MAX({E}), LISTAGG({E}, ',') FROM big GROUP BY g;"},
	{"analytic_arg", "SELECT SUM({E}) OVER (PARTITION BY g ORDER BY v), LAG({E}) OVER (ORDER BY v) FROM big;"},
	{"set_operation", "SELECT {E} FROM big UNION SELECT w FROM mid;"},
	{"set_operation_all", "SELECT g, {E} FROM big INTERSECT ALL SELECT g, w FROM mid;"},
	{"create_as", "CREATE TABLE `n.csv` (x) AS SELECT {E} FROM big; COMMIT;"},
	{"json_out", "SET @@FORMAT TO 'JSON'; SELECT v AS `a`, {E} AS `b.c` FROM big;"},
}

// one record out of 400 fails: the other goroutines are still at work.
var parallelFailures = []struct{ label, sql string }{
	{"user_error", "DECLARE ferr FUNCTION (@a) AS BEGIN IF @a = %N THEN TRIGGER ERROR 'boom'; END IF; RETURN @a; END; SELECT ferr(v) FROM big;"},
	{"user_error_where", "DECLARE ferr FUNCTION (@a) AS BEGIN IF @a = %N THEN TRIGGER ERROR 'boom'; END IF; RETURN TRUE; END; SELECT COUNT(*) FROM big WHERE ferr(v);"},
	{"user_error_order", "DECLARE ferr FUNCTION (@a) AS BEGIN IF @a = %N THEN TRIGGER ERROR 'boom'; END IF; RETURN @a; END; SELECT v FROM big ORDER BY ferr(v);"},
	{"user_error_group", "DECLARE ferr FUNCTION (@a) AS BEGIN IF @a = %N THEN TRIGGER ERROR 'boom'; END IF; RETURN @a % 3; END; SELECT ferr(v), COUNT(*) FROM big GROUP BY ferr(v);"},
	{"user_error_update", "DECLARE ferr FUNCTION (@a) AS BEGIN IF @a = %N THEN TRIGGER ERROR 'boom'; END IF; RETURN @a; END; UPDATE big SET s = ferr(v); SELECT COUNT(*) FROM big;"},
	{"user_error_join", "DECLARE ferr FUNCTION (@a) AS BEGIN IF @a = %N THEN TRIGGER ERROR 'boom'; END IF; RETURN TRUE; END; SELECT COUNT(*) FROM big JOIN t2 ON big.g = t2.c1 AND ferr(big.v);"},
	{"user_error_analytic", "DECLARE ferr FUNCTION (@a) AS BEGIN IF @a = %N THEN TRIGGER ERROR 'boom'; END IF; RETURN @a; END; SELECT SUM(ferr(v)) OVER (PARTITION BY v % 100) FROM big;"},
	{"user_error_aggregate", "DECLARE ferr FUNCTION (@a) AS BEGIN IF @a = %N THEN TRIGGER ERROR 'boom'; END IF; RETURN @a; END; SELECT v % 100, SUM(ferr(v)) FROM big GROUP BY v % 100;"},
	{"subquery_too_many", "SELECT (SELECT c1 FROM t2 WHERE big.v = %N) FROM big;"},
	{"subquery_too_many_where", "SELECT COUNT(*) FROM big WHERE v = (SELECT c1 FROM t2 WHERE big.v >= %N);"},
	{"two_failures", "DECLARE ferr FUNCTION (@a) AS BEGIN IF @a = %N OR @a = 329 - %N THEN TRIGGER ERROR 'boom'; END IF; RETURN @a; END; SELECT ferr(v), ferr(329 - v) FROM big;"},
}

var parallelPlain = []struct{ label, sql string }{
	{"sort_limit", "SELECT * FROM big ORDER BY s, v DESC LIMIT %1 PERCENT WITH TIES;"},
	{"sort_offset", "SELECT * FROM big ORDER BY g NULLS LAST, s DESC OFFSET %1;"},
	{"limit_ties", "SELECT * FROM big ORDER BY g LIMIT %1 WITH TIES;"},
	{"union", "SELECT g, v FROM big UNION SELECT g, w FROM mid ORDER BY 2 LIMIT 5;"},
	{"except", "SELECT g FROM big EXCEPT ALL SELECT g FROM mid;"},
	{"intersect", "SELECT g, v FROM big INTERSECT SELECT g, w FROM mid;"},
	{"many_groups", "SELECT v % %M, COUNT(*), LISTAGG(s, ',') WITHIN GROUP (ORDER BY s), MEDIAN(v) FROM big GROUP BY v % %M;"},
	{"many_partitions", "SELECT RANK() OVER (PARTITION BY v % %M ORDER BY s), NTILE(%1) OVER (PARTITION BY v % %M ORDER BY v), LAG(v, %2) OVER (PARTITION BY v % %M ORDER BY v) FROM big;"},
	{"frames", "SELECT SUM(v) OVER (PARTITION BY v % %M ORDER BY v {F}), NTH_VALUE(s, %1) OVER (PARTITION BY g ORDER BY v {F}) FROM big;"},
	{"hash_join", "SELECT COUNT(*) FROM big JOIN mid USING (g);"},
	{"cross_join", "SELECT COUNT(*) FROM mid CROSS JOIN mid m2;"},
	{"outer_join", "SELECT COUNT(*), COUNT(mid.w) FROM big FULL JOIN mid ON big.v = mid.w;"},
	{"self_join", "SELECT COUNT(*) FROM mid a JOIN mid b ON a.w = b.w + 3 WHERE a.g = %1;"},
	{"natural_join", "SELECT COUNT(*) FROM mid NATURAL JOIN mid m2;"},
	{"lateral", "SELECT COUNT(*) FROM big CROSS JOIN LATERAL (SELECT COUNT(*) AS n FROM t WHERE t.c1 = big.g) x;"},
	{"in_list", "SELECT COUNT(*) FROM big WHERE v IN (SELECT c1 FROM t) AND s NOT IN (SELECT c2 FROM t WHERE c1 = %1);"},
	{"exists", "SELECT COUNT(*) FROM big WHERE EXISTS (SELECT 1 FROM t WHERE t.c1 = big.v);"},
	{"any_all", "SELECT COUNT(*) FROM big WHERE v > ALL (SELECT c1 FROM t WHERE c1 < %1) OR (g, v) = ANY (SELECT c1, c1 FROM t2);"},
	{"recursive", "WITH RECURSIVE r (n) AS (SELECT 1 UNION ALL SELECT n + 1 FROM r WHERE n < 200) SELECT COUNT(*), SUM(n) FROM r WHERE n IN (SELECT c1 FROM t);"},
	{"recursive_wide", "SET @@LIMIT_RECURSION TO 3; WITH RECURSIVE r (n) AS (SELECT v FROM big UNION SELECT n + 1 FROM r) SELECT COUNT(*) FROM r;"},
	{"update_from_join", "UPDATE big SET big.s = t.c2 FROM big JOIN t ON big.g = t.c1; SELECT COUNT(*) FROM big WHERE s = v;"},
	{"delete_join", "DELETE big FROM big JOIN t ON big.g = t.c1; SELECT COUNT(*) FROM big;"},
	{"insert_values", "INSERT INTO mid SELECT g, v FROM big; INSERT INTO mid SELECT * FROM mid; SELECT COUNT(*) FROM mid;"},
	{"alter_drop_add", "ALTER TABLE big DROP s; ALTER TABLE big ADD (p DEFAULT v * 2, q DEFAULT %1) FIRST; ALTER TABLE big RENAME g TO h; SELECT * FROM big LIMIT 1;"},
	{"cursor", "DECLARE cb CURSOR FOR SELECT v FROM big ORDER BY s; OPEN cb; VAR @a; FETCH ABSOLUTE %1 cb INTO @a; FETCH LAST cb INTO @a; SELECT @a, CURSOR cb COUNT;"},
	{"formats", "SET @@FORMAT TO '%O'; SELECT * FROM big;"},
	{"load_others", "SELECT COUNT(*) FROM big a CROSS JOIN t2 CROSS JOIN u CROSS JOIN w CROSS JOIN l CROSS JOIN j;"},
	{"import_as", "SELECT COUNT(*) FROM %T;"},
	{"commit_reload", "UPDATE big SET s = v; COMMIT; SELECT COUNT(*) FROM big WHERE s = v; INSERT INTO big VALUES (1, 2, 3); ROLLBACK; SELECT COUNT(*) FROM big;"},
}

var parallelImports = []string{"FIXED('SPACES', big)", "LTSV(big)", "JSON('', big)", "JSONL('', big)", "CSV(';', big)", "CSV(',', big, 'UTF8', TRUE)", "CSV(',', big, 'SJIS', FALSE, TRUE)", "CSV(',', big, 'UTF16')", "FIXED('[1,3,5]', big)", "FIXED('S[2,4]', big)", "CSV('\\t', mid)"}

func genParallelCase(t *rapid.T) progCase {
	c := progCase{Kind: "parallel", Files: true}
	cpu, cpuClass := cpuPrefix(t, 88)
	b1 := drawBoundary(t, "b1", false)
	b2 := drawBoundary(t, "b2", false)
	if strings.HasPrefix(b1.class, "long") {
		b1 = bval{"'abc'", "text"}
	}
	if strings.HasPrefix(b2.class, "long") {
		b2 = bval{"'abc'", "text"}
	}
	var sql string
	switch fw.Weighted(t, "parallelShape", []int{45, 20, 35}) {
	case 0: // a built-in evaluated per record inside the worker goroutines
		name := fw.PickU(t, "fn", scalarNames)
		n := drawArity(t, "func/"+name, []int{15, 25, 25, 20, 15})
		args, classes := drawArgs(t, name, n, true)
		hasCol := false
		for i := range args {
			if strings.HasPrefix(classes[i], "long") {
				args[i], classes[i] = "'abc'", "text"
			}
			if classes[i] == "len_cap" {
				args[i] = "300" // per record: 330 results of 100 000 characters each are only slow
			}
			hasCol = hasCol || strings.HasPrefix(classes[i], "col_")
		}
		// the cells of the table are the boundary values: at least one argument is a column
		if n > 0 && !hasCol {
			i := fw.Uniform(t, "colArg", n)
			ok := true
			for _, li := range lengthLike[name] {
				ok = ok && li != i
			}
			if ok {
				args[i], classes[i] = "s", "col_s"
			}
		}
		call := name + "(" + strings.Join(args, ", ") + ")"
		if name == "JSON_OBJECT" {
			call = "JSON_OBJECT(" + strings.Join(args, " AS x, ") + map[bool]string{true: " AS y", false: ""}[n > 0] + ")"
		}
		use := fw.PickU(t, "parallelUse", parallelScalarUses)
		sql = strings.ReplaceAll(use.sql, "{E}", call)
		c.Name = "scalar/" + use.label
		c.Args = append([]string{name}, classes...)
	case 1:
		f := fw.PickU(t, "parallelFailure", parallelFailures)
		sql = strings.ReplaceAll(f.sql, "%N", fw.PickU(t, "failAt", []string{"0", "1", "79", "80", "99", "100", "159", "160", "239", "240", "328", "329", "330"}))
		c.Name = "failure/" + f.label
	default:
		p := fw.PickU(t, "parallelPlain", parallelPlain)
		sql = p.sql
		sql = strings.ReplaceAll(sql, "%M", fw.PickU(t, "modulus", []string{"2", "100", "200", "397"}))
		sql = strings.ReplaceAll(sql, "%O", fw.PickU(t, "outFormat", outFormats))
		sql = strings.ReplaceAll(sql, "%T", fw.PickU(t, "importAs", parallelImports))
		for strings.Contains(sql, "{F}") {
			sql = strings.Replace(sql, "{F}", genFrame(t), 1)
		}
		c.Name = "plain/" + p.label
	}
	if strings.Contains(sql, "%1") {
		c.Args = append(c.Args, b1.class)
	}
	if strings.Contains(sql, "%2") {
		c.Args = append(c.Args, b2.class)
	}
	sql = strings.ReplaceAll(sql, "%1", b1.sql)
	sql = strings.ReplaceAll(sql, "%2", b2.sql)
	c.Args = append(c.Args, cpuClass)
	c.SQL = cpu + sql
	return c
}
