package c19

import (
	"fmt"
	"os"
	"path/filepath"
	"strings"
	"sync/atomic"
	"testing"
	"time"

	"pgregory.net/rapid"

	"verif/internal/fw"
	"verif/internal/run"
)

// ---------------------------------------------------------------------
// cli_subcommands: the parts of the command line that no other sub-check
// reaches. cli_programs always runs the main command with valid option values;
// here the subcommands (fields, calc, syntax, check-update, help) get generated
// arguments and standard inputs, every global option gets boundary values
// (empty, negative, huge, NaN, unknown names, a missing value), the main
// command gets zero, empty and surplus arguments, and the configuration files
// csvq reads at start-up (csvq_env.json, csvqrc in the four documented places)
// hold valid, ill-typed and malformed contents.

type subCase struct {
	Global   []string `json:"global"` // options before the subcommand
	Sub      string   `json:"sub"`    // "" = main command
	Args     []string `json:"args"`
	Stdin    string   `json:"stdin"`
	HasStdin bool     `json:"has_stdin"` // standard input is a pipe holding Stdin (false: /dev/null)
	EnvJSON  string   `json:"env_json,omitempty"`
	RC       string   `json:"rc,omitempty"`
	CfgAt    string   `json:"cfg_at,omitempty"` // xdg | home | csvqdir | cwd
}

// Known genuine finding (reported, not repaired): `csvq help <unknown topic>`
// exits with status 3, which the manual's return codes do not list (the status
// comes from urfave/cli). While true the generator asks help only for existing
// topics (signature sub_undocumented_exit_code:help).
const avoidKnownHelpTopicExitCode = true

var subTables = map[string]string{
	"t.csv":  "c1,c2\n1,a\n2,b\n3,\n",
	"u.json": `[{"k":1,"n":{"x":[1,2]}},{"k":2}]`,
	"w.txt":  "c1 c2 \n1  a  \n",
	"p.sql":  "SELECT 1;\n",
	"e.csv":  "",
}

type optSpec struct {
	name   string
	values []string // nil: boolean option
}

var globalOptions = []optSpec{
	{"--repository", []string{".", "nosuch", "t.csv", "", "/"}},
	{"--timezone", []string{"UTC", "Local", "Nowhere/City", "", "Asia/Tokyo", "../etc/passwd"}},
	{"--datetime-format", []string{"%Y", "[\"%Y\",\"%m\"]", "[", "%", "", "[1]", "null"}},
	{"--ansi-quotes", nil}, {"--strict-equal", nil}, {"--allow-uneven-fields", nil}, {"--no-header", nil}, {"--without-null", nil},
	{"--wait-timeout", []string{"0", "-1", "1e308", "NaN", "Inf", "-Inf", "abc", "0.001", ""}},
	{"--import-format", []string{"CSV", "TSV", "FIXED", "JSON", "JSONL", "LTSV", "nosuch", "", "csv"}},
	{"--delimiter", []string{",", "\\t", "ab", "", "あ", "\"", "\n"}},
	{"--delimiter-positions", []string{"SPACES", "[1,2]", "S[]", "[", "x", "[-1]", "", "[9223372036854775808]", "S[2,1]"}},
	{"--json-query", []string{"", "[", "{}", "n.x", "k", "a..b", "[0]"}},
	{"--encoding", []string{"UTF8", "SJIS", "AUTO", "nosuch", "UTF16", "", "UTF16BEM"}},
	{"--format", []string{"CSV", "TSV", "FIXED", "JSON", "JSONL", "LTSV", "GFM", "ORG", "BOX", "TEXT", "nosuch", ""}},
	{"--write-encoding", []string{"UTF8", "SJIS", "UTF16", "nosuch", "", "AUTO"}},
	{"--write-delimiter", []string{";", "ab", "", "\\t"}},
	{"--write-delimiter-positions", []string{"SPACES", "x", "[0]", "S[]", "[1]", ""}},
	{"--line-break", []string{"CRLF", "CR", "x", ""}},
	{"--json-escape", []string{"HEX", "HEXALL", "BACKSLASH", "x", ""}},
	{"--limit-recursion", []string{"-1", "0", "5", "99999999999999999999", "x", "", "-9223372036854775808"}},
	{"--cpu", []string{"0", "-1", "1", "4", "99999", "x", "", "9223372036854775807"}},
	{"--out", []string{"out.txt", "nodir/out.txt", "", "."}},
	{"--source", []string{"p.sql", "nosuch.sql", "", ".", "t.csv"}},
	{"--stats", nil}, {"--quiet", nil}, {"--color", nil}, {"--pretty-print", nil}, {"--enclose-all", nil}, {"--without-header", nil}, {"--strip-ending-line-break", nil},
	{"--scientific-notation", nil}, {"--east-asian-encoding", nil}, {"--count-diacritical-sign", nil}, {"--count-format-code", nil},
	{"--nosuch", nil}, {"-x", nil}, {"--cpu", nil}, {"--help", nil}, {"--version", nil}, {"-", nil}, {"--", nil},
}

var fieldsArgs = []string{"t.csv", "t", "u", "w", "e", "nosuch", "dual", "DUAL", "t JOIN u", "t, u", "(SELECT 1) x", "(t)", "SELECT 1", "t UNION t", "CSV(',', t)", "CSV(',', `t.csv`)", "JSON('n', u)", "FIXED('SPACES', w)", "STDIN", "stdin",
	"`t.csv`", "''", "", " ", "t; SELECT 1", "FILE::('t.csv')", "INLINE::('t.csv')", "DATA::('a,b')", "JSON_TABLE('', '[{\"a\":1}]')", "JSON_INLINE('', '[{\"a\":1}]')", "CSV_INLINE(',', 'a,b')", "t t2", "t AS x", "LATERAL (SELECT 1) x", "*", "t.c1", "@v", "@@CPU", "@%HOME", "@#VERSION", "1", "NULL",
	"日本", "`a b`", strings.Repeat("n", 300), "./t.csv", "../", ".", "/", "t.csv t.csv", "t WHERE c1 = 1", "t ORDER BY 1", "t FOR UPDATE", "t\n", "t\x00", "-- comment", "/* c */ t", "'t.csv'", "\"t.csv\"", "t)", "(t", "CSV(", "CSV()", "CSV(',')", "CSV(1, 2, 3, 4, 5, 6, 7, 8)", "JSON('', STDIN)", "LTSV(STDIN)"}

var calcExprs = []string{"c1", "c2", "c1 + 1", "c1 || c2", "COUNT(*)", "SUM(c1)", "JSON_OBJECT()", "JSON_OBJECT(c1)", "*", "", " ", "''", "1; SELECT 2", "c1, c2", "(SELECT 1)", "(SELECT c1)", "@a := 1", "@a", "ROW_NUMBER() OVER ()", "SUM(c1) OVER ()", "LISTAGG(c1, ',')", "JSON_AGG(c1)",
	"c999", "c0", "c-1", "NOW()", "1 / 0", "c1 / 0", "NULL", "TRUE", "@@CPU", "@#VERSION", "@%HOME", "nosuch(1)", "c1 FROM t", "1 FROM STDIN", "1 AS x", "c1 AS `a.b`", "CASE WHEN c1 THEN 1 END", "c1 IN (SELECT c1 FROM t)", "(c1, c2) = (1, 2)", "(c1, c2)", "CURSOR c COUNT", "LAG(c1) OVER (ORDER BY c1)",
	"FIRST_VALUE(c1) OVER ()", "COUNT(DISTINCT c1)", "MEDIAN(c1)", "1)", "(1", "'", "\"", "`", "--", "/*", strings.Repeat("(", 300) + "1" + strings.Repeat(")", 300), strings.Repeat("1+", 2000) + "1", "c1\x00", "日本", "STDIN.c1", "t.c1", "c1; c2"}

var calcStdins = []string{"", "\n", "1", "1\n", "1,2", "1,2\n3,4\n", "a,b\n", "\"", "\"a\nb\",2\n", ",", ",,,\n", "\xff\xfe1\x00", "\xef\xbb\xbf1,2\n", strings.Repeat("1,2\n", 400), strings.Repeat("x", 70000), "1\r\n2\r\n", "\x00", "{\"a\":1}", "a\tb\n"}

var syntaxWords = []string{"select", "SELECT", "join", "nosuchword", "", " ", "*", "(", "\\", "[", "%", "日本", strings.Repeat("w", 5000), "string functions", "substring", "@@", "--help", "a\x00b", "\n"}

var mainQueries = []string{"SELECT 1", "SELECT * FROM t", "SELECT * FROM STDIN", "SELECT * FROM u", "SELECT * FROM w", "SELECT * FROM e", "", " ", ";", "nosuchsub", "SELECT", "SHOW FLAGS", "SHOW ENV", "PWD", "RELOAD CONFIG", "SELECT @%HOME, @%C19_FROM_ENV", "SELECT NOW(), DATETIME('2012')", "UPDATE t SET c2 = 'z'", "SELECT \"c1\" FROM t", "SYNTAX", "fields", "calc"}

var envJSONs = []string{
	`{}`, `null`, ``, `[]`, `{`, `"x"`, `1`, "\x00", `{"nosuch":1}`,
	`{"datetime_format":["%Y-%m-%d","%"]}`, `{"datetime_format":null}`, `{"datetime_format":"x"}`, `{"datetime_format":[1]}`,
	`{"timezone":"UTC"}`, `{"timezone":"Nowhere/City"}`, `{"timezone":""}`, `{"timezone":null}`, `{"timezone":1}`,
	`{"ansi_quotes":true}`, `{"ansi_quotes":"x"}`,
	`{"interactive_shell":{"history_file":"","history_limit":-1,"prompt":"${","continuous_prompt":"${nosuch(}","completion":false,"kill_whole_line":true,"vi_mode":true}}`, `{"interactive_shell":null}`, `{"interactive_shell":{"history_limit":99999999999999999999}}`, `{"interactive_shell":{"history_file":"/nosuch/dir/h"}}`,
	`{"environment_variables":{"C19_FROM_ENV":"v"}}`, `{"environment_variables":null}`, `{"environment_variables":{"":"x"}}`, `{"environment_variables":{"A=B":"x"}}`, `{"environment_variables":{"HOME":"/nosuch"}}`, `{"environment_variables":{"TZ":"Nowhere"}}`, `{"environment_variables":{"X":1}}`,
	`{"palette":null}`, `{"palette":{"effectors":null}}`, `{"palette":{"effectors":{"label":null}}}`, `{"palette":{"effectors":{"label":{"effects":["nosuch"],"foreground":"Blue","background":null}}}}`, `{"palette":{"effectors":{"string":{"effects":[],"foreground":"","background":""}}}}`,
	`{"palette":{"effectors":{"nosuch":{"effects":["Bold"],"foreground":"Red","background":"Blue"}}}}`, `{"palette":{"effectors":{"number":{"effects":["Bold","Bold","Blink","Underline"],"foreground":"BrightWhite","background":"Black"}}}}`, `{"palette":{"effectors":{"null":{"effects":null,"foreground":null,"background":null}}}}`, `{"palette":{"effectors":[]}}`,
}

var rcTexts = []string{"SELECT 1;", "", "SET @@CPU TO 2; VAR @rc := 1;", "syntax error here", "TRIGGER ERROR 'rc';", "SELECT * FROM nosuch;", "DECLARE f FUNCTION () AS BEGIN RETURN 1; END;", "SET @@FORMAT TO 'JSON'; SET @@REPOSITORY TO 'nosuch';", "CHDIR 'nosuch';", "UPDATE t SET c2 = 'rc';", "\x00", "SOURCE `p.sql`;", "EXIT;", "SELECT * FROM STDIN;", "ECHO 'rc';"}

func genSub(t *rapid.T) subCase {
	c := subCase{}
	c.Sub = []string{"", "fields", "calc", "syntax", "check-update", "help", "h"}[fw.Weighted(t, "sub", []int{30, 25, 25, 8, 2, 6, 4})]
	for i, n := 0, fw.Weighted(t, "nglobal", []int{40, 30, 20, 10}); i < n; i++ {
		o := fw.PickU(t, "option", globalOptions)
		c.Global = append(c.Global, o.name)
		if o.values != nil {
			c.Global = append(c.Global, fw.PickU(t, "optionValue", o.values))
		}
	}
	argPool := map[string][]string{"fields": fieldsArgs, "calc": calcExprs, "syntax": syntaxWords, "": mainQueries, "check-update": {"x", "--nosuch", "-h", "x y"},
		"help": {"fields", "calc", "syntax", "check-update", "help", "h"}, "h": {"fields", "calc", "syntax", "check-update", "help"}}[c.Sub]
	if (c.Sub == "help" || c.Sub == "h") && !avoidKnownHelpTopicExitCode {
		argPool = append(argPool, "nosuch", "", "--nosuch")
	}
	nargs := fw.Weighted(t, "nargs", []int{8, 80, 9, 3})
	if c.Sub == "check-update" && nargs == 0 {
		nargs = 1 // without arguments the subcommand asks the network for the latest release
	}
	if c.Sub == "syntax" {
		nargs = fw.Weighted(t, "nwords", []int{25, 45, 20, 10})
	}
	if (c.Sub == "help" || c.Sub == "h") && avoidKnownHelpTopicExitCode && nargs > 1 {
		// `help help <topic>` looks the second word up among the topics of help itself: the known exit status 3 again
		nargs = 1
	}
	for i := 0; i < nargs; i++ {
		c.Args = append(c.Args, fw.PickU(t, "arg", argPool))
	}
	if c.Sub != "" && fw.Pct(t, "subFlag", 8) {
		c.Args = append([]string{fw.PickU(t, "subFlagV", []string{"--help", "-h", "--nosuch", "--cpu", "--include-pre-release", "--"})}, c.Args...)
	}
	stdinPct := 25
	if c.Sub == "calc" {
		stdinPct = 88
	}
	if fw.Pct(t, "hasStdin", stdinPct) {
		c.HasStdin = true
		c.Stdin = fw.PickU(t, "stdin", calcStdins)
	}
	if fw.Pct(t, "config", 25) {
		c.CfgAt = fw.PickU(t, "cfgAt", []string{"xdg", "home", "csvqdir", "cwd"})
		if fw.Pct(t, "cfgEnv", 70) {
			c.EnvJSON = fw.PickU(t, "envJSON", envJSONs)
			if c.EnvJSON == "" {
				c.EnvJSON = " "
			}
		}
		if c.EnvJSON == "" || fw.Pct(t, "cfgRC", 40) {
			c.RC = fw.PickU(t, "rc", rcTexts)
			if c.RC == "" {
				c.RC = " "
			}
		}
	}
	// a NUL cannot be passed in an argument vector
	for i := range c.Args {
		c.Args[i] = strings.ReplaceAll(c.Args[i], "\x00", "")
	}
	return c
}

var subSeq int64

func argClass(s string) string {
	s = digitsRe.ReplaceAllString(s, "N")
	if len(s) > 24 {
		s = s[:24]
	}
	return s
}

func checkSub(c subCase) (fw.Outcome, *fw.Violation) {
	o := fw.Outcome{}
	bin, err := run.Binary(fw.WorkDir(), false)
	if err != nil {
		return o, fw.Harness("%v", err)
	}
	for _, a := range append(append([]string{}, c.Global...), c.Args...) {
		if strings.Contains(a, "\x00") {
			o.Discard = true
			return o, nil
		}
	}
	subName := c.Sub
	switch subName {
	case "":
		subName = "main"
	case "h":
		subName = "help" // the alias
	}
	runOnce := func(limit time.Duration) (run.CLIRes, string, error) {
		base := filepath.Join(fw.WorkDir(), fmt.Sprintf("sub-%d", atomic.AddInt64(&subSeq, 1)))
		_ = os.RemoveAll(base)
		dir := filepath.Join(base, "w")
		home := filepath.Join(base, "home")
		for _, d := range []string{dir, home} {
			if err := os.MkdirAll(d, 0755); err != nil {
				return run.CLIRes{}, base, err
			}
		}
		if err := run.WriteFiles(dir, subTables); err != nil {
			return run.CLIRes{}, base, err
		}
		if c.CfgAt != "" {
			var envPath, rcPath string
			switch c.CfgAt {
			case "xdg":
				envPath, rcPath = filepath.Join(home, ".config", "csvq", "csvq_env.json"), filepath.Join(home, ".config", "csvq", "csvqrc")
			case "home":
				envPath, rcPath = filepath.Join(home, ".csvq_env.json"), filepath.Join(home, ".csvqrc")
			case "csvqdir":
				envPath, rcPath = filepath.Join(home, ".csvq", "csvq_env.json"), filepath.Join(home, ".csvq", "csvqrc")
			default:
				envPath, rcPath = filepath.Join(dir, "csvq_env.json"), filepath.Join(dir, "csvqrc")
			}
			_ = os.MkdirAll(filepath.Dir(envPath), 0755)
			if c.EnvJSON != "" {
				if err := os.WriteFile(envPath, []byte(c.EnvJSON), 0644); err != nil {
					return run.CLIRes{}, base, err
				}
			}
			if c.RC != "" {
				if err := os.WriteFile(rcPath, []byte(c.RC), 0644); err != nil {
					return run.CLIRes{}, base, err
				}
			}
		}
		args := append([]string{}, c.Global...)
		if c.Sub != "" {
			args = append(args, c.Sub)
		}
		args = append(args, c.Args...)
		opt := run.CLIOpt{Bin: bin, Dir: dir, Home: home, Args: args, Timeout: limit}
		switch {
		case c.HasStdin && c.Stdin != "":
			opt.Stdin = c.Stdin
		case c.HasStdin:
			// an empty pipe
			opt.Bin = "/bin/sh"
			opt.Args = append([]string{"-c", `printf '' | "$0" "$@"`, bin}, args...)
		}
		return run.CLI(opt), base, nil
	}
	res, base, err := runOnce(20 * time.Second)
	if err == nil && res.TimedOut {
		fw.AddExtra("watchdog_retries", 1)
		_ = os.RemoveAll(base)
		res, base, err = runOnce(80 * time.Second)
	}
	defer os.RemoveAll(base)
	if err != nil {
		return o, fw.Harness("setup failed: %v", err)
	}
	what := fmt.Sprintf("csvq %q %s %q\nstdin (pipe=%v): %q\nconfiguration (%s): csvq_env.json=%q csvqrc=%q\nexit=%d signaled=%v\nstdout: %s\nstderr: %s", c.Global, c.Sub, c.Args, c.HasStdin, clip(c.Stdin, 200), c.CfgAt, c.EnvJSON, c.RC,
		res.Code, res.Signaled, clip(res.Stdout, 300), clip(res.Stderr, 1800))
	if res.Code == -1 {
		return o, fw.Harness("child could not be started: %s", clip(res.Stderr, 400))
	}
	if res.TimedOut {
		return o, fw.V("sub_hang:"+subName, "the process did not terminate within 20 s and again not within 80 s\n%s", what)
	}
	for _, marker := range []string{"Fatal Error", "panic:", "goroutine "} {
		if strings.Contains(res.Stderr, marker) || strings.Contains(res.Stdout, marker) {
			sig := "sub_internal_failure:" + subName
			switch {
			case c.Sub == "fields" && strings.Contains(res.Stderr, "action.ShowFields"):
				sig = "fields_subcommand_table_text_panic"
			case strings.Contains(res.Stderr, "query.JsonObject"):
				sig = "json_object_no_current_record_panic"
			case c.Sub == "calc" && strings.Contains(res.Stderr, "action.Calc(") && strings.Contains(res.Stderr, "interface conversion"):
				sig = "calc_subcommand_not_an_expression_list_panic" // fixed PENDING-fix-3
			}
			return o, fw.V(sig, "internal failure text %q in the output\n%s", marker, what)
		}
	}
	if res.Signaled {
		return o, fw.V("sub_killed_by_signal:"+subName, "the process died of signal %v\n%s", res.Signal, what)
	}
	if !documentedCodes[res.Code] {
		return o, fw.V("sub_undocumented_exit_code:"+subName, "exit code %d is not documented\n%s", res.Code, what)
	}
	if left := run.ControlFiles(filepath.Join(base, "w")); len(left) > 0 {
		return o, fw.V("sub_control_files_left:"+subName, "control files left behind: %v\n%s", left, what)
	}
	var optNames []string
	for _, g := range c.Global {
		if strings.HasPrefix(g, "-") && len(g) > 1 {
			optNames = append(optNames, g)
		}
	}
	o.Classes = []string{"sub=" + subName, fmt.Sprintf("exit=%d", res.Code), fmt.Sprintf("options=%d", len(optNames)), fmt.Sprintf("stdin_pipe=%v", c.HasStdin)}
	for _, n := range optNames {
		o.Classes = append(o.Classes, "opt"+n)
	}
	if c.CfgAt != "" {
		o.Classes = append(o.Classes, "config="+c.CfgAt)
		if c.EnvJSON != "" && strings.Contains(res.Stderr, "configuration loading error") {
			o.Classes = append(o.Classes, "config_rejected")
		}
	}
	first := ""
	if len(c.Args) > 0 {
		first = argClass(c.Args[0])
	}
	o.Fingerprint = fmt.Sprintf("%s|%s|n=%d|%v|exit=%d|pipe=%v|cfg=%s/%s/%s", subName, first, len(c.Args), c.Global, res.Code, c.HasStdin, c.CfgAt, argClass(c.EnvJSON), argClass(c.RC))
	return o, nil
}

func TestC19CLISubcommands(t *testing.T) {
	fw.Run(t, fw.Spec[subCase]{
		ID: "C19", Name: "cli_subcommands", Quick: 1600, Thorough: 32000,
		Gen: genSub, Check: checkSub,
		Rule: "the csvq binary in a fresh directory (CSV, JSON, fixed-length, empty tables, a statement file): main command | fields | calc | syntax | check-update (only with surplus arguments: without them it asks the network) | help / h (one existing topic) with 0-3 arguments from per-subcommand pools (fields: ~75 table texts - identifiers, DUAL, joins, subqueries, set operations, table objects and inline tables, STDIN, variables, unbalanced and over-long texts; calc: ~65 expressions - field references in and out of range, aggregates, analytic functions, JSON_OBJECT, subqueries, several statements, deep nesting; syntax: words; main: queries, empty text, no text = interactive shell on a non-terminal) x 0-3 global options, every option of the command with boundary values (empty, negative, huge, NaN/Inf, unknown names, unknown option, option without value, --help/--version, - and --) x standard input /dev/null or a pipe holding one of 19 byte strings (empty, no line break, quotes, BOMs, UTF-16, NUL, 400 records, one 70 000 byte field) x optionally configuration files csvq_env.json / csvqrc at one of the four places csvq searches ($XDG_CONFIG_HOME/csvq, $HOME/.<name>, $HOME/.csvq, working directory) with ~40 JSON texts (valid, ill-typed members, null members, malformed, invalid palette / timezone / environment variable names) and 15 preload programs (failing, syntax error, SOURCE, EXIT, DML). Oracle: the process terminates (20 s watchdog, re-tried once with 80 s), is not killed by a signal, exit code documented, no 'Fatal Error'/'panic:'/'goroutine ' in either stream, no control files left. non-trivial = every run; distinct by (subcommand, first argument, argument count, options, exit code, stdin kind, configuration)",
		Assumptions: []string{
			"check-update without arguments is not generated (it queries the network)",
			"a preload file that SOURCEs itself is not generated: unbounded recursion (also through user-defined functions) is a program that does not terminate, and it ends in the Go runtime's stack-overflow abort",
			"help is asked only for existing topics while the known finding sub_undocumented_exit_code:help is open (avoidKnownHelpTopicExitCode)",
		},
	})
}
