package c15

import (
	"context"
	"fmt"
	"os"
	"path/filepath"
	"sort"
	"strconv"
	"strings"
	"testing"
	"time"

	"github.com/mithrandie/csvq/lib/parser"
	"github.com/mithrandie/csvq/lib/query"
	"pgregory.net/rapid"

	"verif/internal/fw"
	"verif/internal/ref"
	"verif/internal/run"
)

func TestMain(m *testing.M) { fw.Main(m) }

// csvq (pinned tree) refuses DECLARE ... VIEW whenever a temporary table of
// that name is visible anywhere in the calling chain ("view t is redeclared",
// query.go DeclareView -> ReferenceScope.TemporaryTableExists walks all
// blocks), so a temporary table can never shadow an outer one and a recursive
// function cannot own a local table.  The check reports that shape with the
// signature temp_table_shadow_redeclared.  While this constant is true the
// generator repairs its programs so that no executed table declaration shadows
// an outer table, which lets the search continue past the finding; set it to
// false to let the generator produce the shape again.
const avoidKnownTempTableShadow = true

// SOURCE inside a function that a SELECT invokes from several goroutines fails
// at random with "file ... already opened" (E16/90160: the transaction's file
// container refuses a second handler for the same path while another
// invocation is reading the file).  That is a file-handling limitation, not a
// scoping outcome, so the concurrent check does not generate SOURCE inside
// its functions while this is true.
const avoidConcurrentSource = false

var (
	varPool = []string{"a", "b", "c"}
	funPool = []string{"fa", "fb", "fc"}
	tabPool = []string{"ta", "tb", "tc"}
	curPool = []string{"ca", "cb", "cc"}
)

const (
	maxBlockDepth = 5
	maxFuncDepth  = 2
	stmtBudget    = 40
)

// ---------------------------------------------------------------------
// generator: a static scope tracker steers the program towards declared names
// (so that most programs run long) and injects at most one deliberate
// undeclared / redeclared use.

type gVar struct {
	protected bool // never assigned (loop counters, the parameter that bounds a recursion)
	keep      bool // never disposed
}

// gSig: number of parameters / of required parameters of a declared function.
type gSig struct {
	n, req int
	agg    bool // a user-defined aggregate: called as (SELECT name(column, arguments...) FROM source)
}
type gCur struct {
	open   bool
	pseudo bool // the pseudo cursor of an aggregate function: always open, cannot be opened / closed / disposed
}

type gScope struct {
	parent   *gScope
	boundary bool // function body: variables, cursors and tables of outer scopes are not used
	vars     map[string]*gVar
	curs     map[string]*gCur
	tabs     map[string]bool
	funs     map[string]bool
	sigs     map[string]gSig // signature of funs[name]; missing = one required parameter
	recFun   string          // body of a recursive function of this name: no local function takes the name (the recursive calls must reach the function itself)
	hideFun  string          // body of the function being declared under this name: the name is not called from the
	// generated statements (it would resolve to the function itself whatever an outer block declared under it)
	inLoop    bool
	inFunc    bool
	depth     int
	funcDepth int
	noDecl    map[string]bool
	dynOnly   bool // every declaration written directly in this block goes through EXECUTE / SOURCE
}

func newScope(parent *gScope) *gScope {
	s := &gScope{parent: parent, vars: map[string]*gVar{}, curs: map[string]*gCur{}, tabs: map[string]bool{}, funs: map[string]bool{}, sigs: map[string]gSig{}}
	if parent != nil {
		s.inLoop, s.inFunc, s.depth, s.funcDepth = parent.inLoop, parent.inFunc, parent.depth+1, parent.funcDepth
	}
	return s
}

func (s *gScope) findVar(name string) *gVar {
	for x := s; x != nil; x = x.parent {
		if v, ok := x.vars[name]; ok {
			return v
		}
		if x.boundary {
			break
		}
	}
	return nil
}

func (s *gScope) findCur(name string) *gCur {
	for x := s; x != nil; x = x.parent {
		if v, ok := x.curs[name]; ok {
			return v
		}
		if x.boundary {
			break
		}
	}
	return nil
}

func (s *gScope) findTab(name string) bool {
	for x := s; x != nil; x = x.parent {
		if x.tabs[name] {
			return true
		}
		if x.boundary {
			break
		}
	}
	return false
}

func (s *gScope) findFun(name string) bool {
	for x := s; x != nil; x = x.parent {
		if x.funs[name] {
			return true
		}
		if x.hideFun == name {
			return false
		}
	}
	return false
}

// recName: name is the recursive function whose body (not counting nested function bodies) s belongs to.
func (s *gScope) recName(name string) bool {
	for x := s; x != nil; x = x.parent {
		if x.recFun == name {
			return true
		}
		if x.boundary {
			break
		}
	}
	return false
}

// findSig: the signature of the function a call of name resolves to (as far as the generator tracks).
func (s *gScope) findSig(name string) gSig {
	for x := s; x != nil; x = x.parent {
		if x.funs[name] {
			if sg, ok := x.sigs[name]; ok {
				return sg
			}
			break
		}
	}
	return gSig{n: 1, req: 1}
}

func filter(pool []string, ok func(string) bool) []string {
	var out []string
	for _, n := range pool {
		if ok(n) {
			out = append(out, n)
		}
	}
	return out
}

func (s *gScope) visVars() []string {
	return filter(varPool, func(n string) bool { return s.findVar(n) != nil })
}
func (s *gScope) invisVars() []string {
	return filter(varPool, func(n string) bool { return s.findVar(n) == nil })
}
func (s *gScope) setVars() []string {
	return filter(varPool, func(n string) bool { v := s.findVar(n); return v != nil && !v.protected })
}
func (s *gScope) visCurs() []string {
	return filter(curPool, func(n string) bool { return s.findCur(n) != nil })
}
func (s *gScope) visTabs() []string {
	return filter(tabPool, func(n string) bool { return s.findTab(n) })
}
func (s *gScope) visFuns() []string {
	return filter(funPool, func(n string) bool { return s.findFun(n) })
}

type gen struct {
	t       *rapid.T
	nextID  int
	count   int
	budget  int
	errAt   int // statement count after which one deliberate error may be injected (-1: never)
	errDone bool
	noPrint bool // functions for the concurrent check: no PRINT, no EXIT
	noExit  bool // session check: no EXIT in the segments before the last one
	recHi   int  // >0: recursion bound of recursiveBody (deep check); linear recursion only
	// PREPARE statements collected for the top of the program
	prologue []ref.PStmt
}

func (g *gen) id() int { g.nextID++; return g.nextID }

func (g *gen) chance(label string, pct int) bool { return fw.Chance(g.t, label, pct) }

// pct: a fair draw (chance is skewed towards true: rapid favours small integers).
func (g *gen) pct(label string, pct int) bool    { return fw.Pct(g.t, label, pct) }
func (g *gen) intn(label string, lo, hi int) int { return rapid.IntRange(lo, hi).Draw(g.t, label) }

func (g *gen) wantError() bool {
	if g.errAt < 0 || g.errDone || g.count < g.errAt {
		return false
	}
	return g.chance("inject", 25)
}

func lit(n int64) *ref.PExpr   { return &ref.PExpr{K: "lit", N: n} }
func varE(n string) *ref.PExpr { return &ref.PExpr{K: "var", Name: n} }
func bin(op string, a, b *ref.PExpr) *ref.PExpr {
	return &ref.PExpr{K: "bin", Op: op, A: a, B: b}
}

// simple: a call-free expression.
func (g *gen) simple(sc *gScope, depth int) *ref.PExpr {
	vis := sc.visVars()
	w := g.intn("ek", 0, 99)
	switch {
	case w < 30 || (len(vis) == 0 && w < 75):
		return lit(int64(g.intn("lit", 0, 9)))
	case w < 75:
		if g.wantError() {
			if inv := sc.invisVars(); len(inv) > 0 {
				g.errDone = true
				return varE(fw.Pick(g.t, "uvar", inv))
			}
		}
		return varE(fw.Pick(g.t, "var", vis))
	case w < 88 && depth < 2:
		return bin(fw.Pick(g.t, "op", []string{"+", "-", "*", "+"}), g.simple(sc, depth+1), g.simple(sc, depth+1))
	case w < 94:
		if tabs := sc.visTabs(); len(tabs) > 0 {
			return &ref.PExpr{K: fw.Pick(g.t, "tk", []string{"tcount", "tmax"}), Name: fw.Pick(g.t, "tab", tabs)}
		}
	case w < 98:
		var open []string
		for _, c := range sc.visCurs() {
			if sc.findCur(c).open {
				open = append(open, c)
			}
		}
		if len(open) > 0 {
			return &ref.PExpr{K: "ccount", Name: fw.Pick(g.t, "cur", open)}
		}
	}
	return lit(int64(g.intn("lit", 0, 9)))
}

func (g *gen) callExpr(sc *gScope) *ref.PExpr {
	funs := sc.visFuns()
	if len(funs) == 0 {
		return nil
	}
	var arg *ref.PExpr
	if g.chance("argLit", 55) {
		arg = lit(int64(g.intn("arg", 0, 5)))
	} else {
		arg = g.simple(sc, 1)
	}
	return g.mkCall(sc, fw.Pick(g.t, "fun", funs), arg)
}

// mkCall builds a call of name whose first argument is first. For functions
// with several / optional / no parameters the number of arguments is drawn:
// all required ones plus a prefix of the optional ones (most of the time at
// least one optional argument is omitted, so that its DEFAULT is evaluated);
// the further arguments are literals or call-free expressions of the CALLER's
// scope (which may well hold variables named like the parameters).  One
// deliberate error: an argument count outside [required, parameters].
func (g *gen) mkCall(sc *gScope, name string, first *ref.PExpr) *ref.PExpr {
	sg := sc.findSig(name)
	bad := g.wantError() && g.pct("argCount", 35)
	if sg.agg {
		// the grouped values: the records of a visible temporary table or 1-4 inline records
		c := &ref.PExpr{K: "aggcall", Name: name}
		if tabs := sc.visTabs(); len(tabs) > 0 && g.pct("aggOverTable", 50) {
			c.Tab = fw.PickU(g.t, "aggTab", tabs)
		} else {
			n := fw.Range(g.t, "aggRows", 1, 4)
			for i := 0; i < n; i++ {
				c.Rows = append(c.Rows, int64(fw.Range(g.t, "aggRow", 0, 9)))
			}
		}
		k := sg.n
		if sg.n > sg.req && g.pct("omitOptional", 70) {
			k = fw.Range(g.t, "argc", sg.req, sg.n-1)
		}
		if bad {
			g.errDone = true
			k = sg.n + 1
		}
		for i := 0; i < k; i++ {
			if g.pct("argLit", 50) {
				c.Args = append(c.Args, lit(int64(g.intn("arg", 0, 5))))
			} else {
				c.Args = append(c.Args, g.simple(sc, 1))
			}
		}
		return c
	}
	if sg.n == 1 && sg.req == 1 && !bad {
		return &ref.PExpr{K: "call", Name: name, A: first}
	}
	k := sg.n
	if sg.n > sg.req && g.pct("omitOptional", 70) {
		k = fw.Range(g.t, "argc", sg.req, sg.n-1)
	}
	if bad {
		g.errDone = true
		if sg.req > 0 && g.pct("tooFew", 50) {
			k = sg.req - 1
		} else {
			k = sg.n + 1
		}
	}
	c := &ref.PExpr{K: "call", Name: name, Multi: true, Args: []*ref.PExpr{}}
	for i := 0; i < k; i++ {
		switch {
		case i == 0:
			c.Args = append(c.Args, first)
		case g.chance("argLit", 50):
			c.Args = append(c.Args, lit(int64(g.intn("arg", 0, 5))))
		default:
			c.Args = append(c.Args, g.simple(sc, 1))
		}
	}
	return c
}

// expr: at most one user function call, at the top of the expression.
func (g *gen) expr(sc *gScope) *ref.PExpr {
	if g.chance("call", 22) {
		if c := g.callExpr(sc); c != nil {
			if g.chance("callPlus", 25) {
				return bin(fw.Pick(g.t, "op", []string{"+", "-", "*"}), c, lit(int64(g.intn("lit", 0, 9))))
			}
			return c
		}
	}
	return g.simple(sc, 0)
}

func (g *gen) cond(sc *gScope) ref.PCond {
	w := g.intn("ck", 0, 99)
	switch {
	case w < 12:
		return ref.PCond{K: "true"}
	case w < 20:
		return ref.PCond{K: "false"}
	case w < 28:
		return ref.PCond{K: "isnull", A: g.simple(sc, 1)}
	case w < 40:
		lo := int64(g.intn("lo", 0, 5))
		return ref.PCond{K: "range", A: g.simple(sc, 1), Lo: lo, Hi: lo + int64(g.intn("w", 0, 6))}
	case w < 50:
		if c := g.callExpr(sc); c != nil {
			return ref.PCond{K: "cmp", Op: fw.Pick(g.t, "cop", []string{"=", "<>", "<", "<=", ">", ">="}), A: c, B: lit(int64(g.intn("lit", 0, 9)))}
		}
	}
	return ref.PCond{K: "cmp", Op: fw.Pick(g.t, "cop", []string{"=", "<>", "<", "<=", ">", ">="}), A: g.simple(sc, 1), B: g.simple(sc, 1)}
}

func (g *gen) stmt(k string) ref.PStmt {
	g.count++
	g.budget--
	if g.errDone && g.budget > 1 {
		g.budget = 1
	}
	return ref.PStmt{ID: g.id(), K: k}
}

func (g *gen) printStmt(e *ref.PExpr) ref.PStmt {
	return ref.PStmt{ID: g.id(), K: "print", E: e}
}

// printVisible: observation of every visible variable, and (with some
// probability each) of the visible cursors, temporary tables and functions, at
// block entry / exit and after a nested block has ended.
func (g *gen) printVisible(sc *gScope, out []ref.PStmt) []ref.PStmt {
	if g.noPrint {
		return out
	}
	for _, v := range sc.visVars() {
		out = append(out, g.printStmt(varE(v)))
	}
	if g.chance("obsCur", 40) {
		for _, c := range sc.visCurs() {
			out = append(out, ref.PStmt{ID: g.id(), K: "printopen", Name: c})
			if sc.findCur(c).open && g.chance("obsCount", 60) {
				out = append(out, g.printStmt(&ref.PExpr{K: "ccount", Name: c}))
			}
			if sc.findCur(c).open && g.chance("obsRange", 40) {
				out = append(out, ref.PStmt{ID: g.id(), K: "printrange", Name: c})
			}
			if sc.findCur(c).open && g.chance("obsFetch", 45) {
				out = append(out, g.fetch(sc, c, "")...)
			}
		}
	}
	if g.chance("obsTab", 40) {
		for _, tb := range sc.visTabs() {
			out = append(out, g.printStmt(&ref.PExpr{K: fw.Pick(g.t, "tk", []string{"tcount", "tmax"}), Name: tb}))
		}
	}
	if g.chance("obsFun", 30) {
		for _, f := range sc.visFuns() {
			out = append(out, g.printStmt(g.mkCall(sc, f, lit(int64(g.intn("arg", 0, 4))))))
		}
	}
	return out
}

func isJump(s ref.PStmt) bool {
	switch s.K {
	case "break", "continue", "return", "exit":
		return true
	}
	return false
}

// block generates the statements of one block whose scope is sc.
func (g *gen) block(sc *gScope, lo, hi int) []ref.PStmt {
	var out []ref.PStmt
	if sc.depth > 0 && g.chance("entryPrint", 30) {
		out = g.printVisible(sc, out)
	}
	if sc.depth > 0 && !sc.boundary && g.budget > 4 {
		// shadow scenario: re-declare a cursor / function of an outer block first thing in the block
		if len(sc.visCurs()) > 0 && g.chance("shadowCur", 18) {
			if d, ok := g.cursorDecl(sc); ok {
				out = append(out, d)
				if g.chance("openNow", 70) {
					o := g.stmt("open")
					o.Name = d.Name
					sc.curs[d.Name].open = true
					out = append(out, o)
					if g.chance("fetchInner", 50) {
						out = append(out, g.fetch(sc, d.Name, "")...)
					}
				} else if !g.errDone && (g.wantError() || g.chance("closedShadow", 12)) {
					// the inner cursor is closed while the outer one of the same name may be open
					g.errDone = true
					out = append(out, g.useClosed(sc, d.Name)...)
				}
			}
		}
		if len(sc.visFuns()) > 0 && sc.funcDepth < maxFuncDepth && sc.depth < maxBlockDepth-1 && g.budget >= 8 && g.chance("shadowFun", 14) {
			out = append(out, g.funcStmt(sc)...)
		}
	}
	n := g.intn("n", lo, hi)
	for i := 0; i < n && g.budget > 0; i++ {
		ss := g.statement(sc)
		out = append(out, ss...)
		if len(ss) > 0 && isJump(ss[len(ss)-1]) {
			return out
		}
	}
	if sc.depth > 0 && g.chance("exitPrint", 30) {
		out = g.printVisible(sc, out)
	}
	if len(out) == 0 {
		out = append(out, g.fallback(sc))
	}
	return g.wrapDyn(sc, out)
}

func containsDyn(stmts []ref.PStmt) bool {
	found := false
	ref.WalkProc(stmts, func(s *ref.PStmt, depth int) {
		if s.K == "dyn" {
			found = true
		}
	})
	return found
}

// wrapDyn turns declarations written directly in the block into dynamically
// executed ones: EXECUTE '<text>', EXECUTE of a statement PREPAREd at the top of
// the program, or SOURCE of a generated file. They run in the same block, so
// the reference treats them exactly like the plain declaration.
func (g *gen) wrapDyn(sc *gScope, out []ref.PStmt) []ref.PStmt {
	for i := range out {
		switch out[i].K {
		case "var", "cursor", "table", "func":
		default:
			continue
		}
		pct := 7
		if sc.dynOnly {
			pct = 100
		}
		if !g.chance("dyn", pct) || containsDyn(out[i:i+1]) {
			continue
		}
		d := ref.PStmt{ID: g.id(), K: "dyn", Form: fw.Pick(g.t, "dynForm", []string{"exec", "exec", "prepared", "source"})}
		if d.Form == "source" && g.noPrint && avoidConcurrentSource {
			d.Form = "exec"
		}
		if d.Form == "prepared" {
			d.Name = "p" + strconv.Itoa(d.ID)
			g.prologue = append(g.prologue, ref.PStmt{ID: g.id(), K: "prepare", Name: d.Name, Body: []ref.PStmt{out[i]}})
		} else {
			d.Body = []ref.PStmt{out[i]}
		}
		out[i] = d
	}
	return out
}

func (g *gen) fallback(sc *gScope) ref.PStmt {
	if g.noPrint {
		s := g.stmt("var")
		s.Kw = "VAR"
		s.Name = "z" + strconv.Itoa(s.ID)
		s.E = g.simple(sc, 1)
		return s
	}
	return g.printStmt(g.simple(sc, 0))
}

func (g *gen) declName(sc *gScope) (string, bool) {
	// prefer names that shadow an outer binding
	var free, shadow []string
	for _, n := range varPool {
		if sc.noDecl[n] {
			continue
		}
		if _, here := sc.vars[n]; here {
			continue
		}
		free = append(free, n)
		if sc.findVar(n) != nil {
			shadow = append(shadow, n)
		}
	}
	if len(shadow) > 0 && g.chance("shadow", 65) {
		return fw.Pick(g.t, "dname", shadow), true
	}
	if len(free) > 0 {
		return fw.Pick(g.t, "dname", free), true
	}
	return "", false
}

func (g *gen) statement(sc *gScope) []ref.PStmt {
	w := g.intn("sk", 0, 99)
	deep := sc.depth >= maxBlockDepth
	if sc.inLoop && g.chance("loopJump", 10) {
		w = 90
	} else if sc.inFunc && g.chance("funcReturn", 6) {
		w = 95
	} else if fw.Uniform(g.t, "dispose", 1000) < 35 {
		if d, ok := g.disposeStmt(sc); ok {
			return d
		}
	}
	switch {
	case w < 14: // variable declaration
		if g.wantError() && g.chance("redeclVar", 40) {
			var here []string
			for _, n := range varPool {
				if _, ok := sc.vars[n]; ok {
					here = append(here, n)
				}
			}
			if len(here) > 0 {
				g.errDone = true
				s := g.stmt("var")
				s.Kw, s.Name, s.E = "VAR", fw.Pick(g.t, "redecl", here), g.simple(sc, 1)
				return []ref.PStmt{s}
			}
		}
		name, ok := g.declName(sc)
		if !ok {
			return []ref.PStmt{g.fallback(sc)}
		}
		s := g.stmt("var")
		s.Kw = fw.Pick(g.t, "kw", []string{"VAR", "DECLARE"})
		s.Name = name
		if !g.chance("noInit", 8) {
			s.E = g.expr(sc)
		}
		sc.vars[name] = &gVar{}
		return []ref.PStmt{s}
	case w < 24: // assignment
		names := sc.setVars()
		if g.wantError() {
			if inv := sc.invisVars(); len(inv) > 0 {
				g.errDone = true
				s := g.stmt("set")
				s.Name, s.E = fw.Pick(g.t, "uset", inv), g.simple(sc, 1)
				return []ref.PStmt{s}
			}
		}
		if len(names) == 0 {
			return []ref.PStmt{g.fallback(sc)}
		}
		s := g.stmt("set")
		s.Name = fw.Pick(g.t, "sname", names)
		if g.chance("selfUpdate", 40) {
			s.E = bin(fw.Pick(g.t, "op", []string{"+", "-", "*"}), varE(s.Name), lit(int64(g.intn("lit", 1, 3))))
		} else {
			s.E = g.expr(sc)
		}
		return []ref.PStmt{s}
	case w < 32: // observation
		if g.noPrint {
			return []ref.PStmt{g.fallback(sc)}
		}
		g.count++
		return []ref.PStmt{g.printStmt(g.expr(sc))}
	case w < 50: // IF / CASE
		if deep {
			return []ref.PStmt{g.fallback(sc)}
		}
		return g.ifStmt(sc)
	case w < 59: // WHILE with a bounded counter
		if deep {
			return []ref.PStmt{g.fallback(sc)}
		}
		return g.whileStmt(sc)
	case w < 70: // cursor work
		return g.cursorStmt(sc)
	case w < 78: // temporary table work
		return g.tableStmt(sc)
	case w < 88: // function declaration
		if sc.funcDepth >= maxFuncDepth || sc.depth >= maxBlockDepth-1 || g.budget < 6 {
			if c := g.callExpr(sc); c != nil && !g.noPrint {
				g.count++
				return []ref.PStmt{g.printStmt(c)}
			}
			return []ref.PStmt{g.fallback(sc)}
		}
		if g.pct("aggregate", 35) {
			if a, ok := g.aggStmt(sc); ok {
				return a
			}
		}
		return g.funcStmt(sc)
	case w < 93: // loop control
		if !sc.inLoop {
			if deep {
				return []ref.PStmt{g.fallback(sc)}
			}
			return g.whileStmt(sc)
		}
		j := g.stmt(fw.Pick(g.t, "jump", []string{"break", "continue", "continue"}))
		return g.guarded(sc, j)
	case w < 98: // RETURN
		if !sc.inFunc {
			if deep {
				return []ref.PStmt{g.fallback(sc)}
			}
			return g.ifStmt(sc)
		}
		j := g.stmt("return")
		if !g.chance("bareReturn", 10) {
			j.E = g.simple(sc, 0)
		}
		return g.guarded(sc, j)
	default: // EXIT
		if sc.inFunc || g.noPrint || g.noExit || !g.chance("exit", 35) {
			return []ref.PStmt{g.fallback(sc)}
		}
		ex := g.stmt("exit")
		if g.pct("exitCode", 30) {
			ex.N = int64(g.intn("code", 1, 3))
		}
		return g.guarded(sc, ex)
	}
}

// disposeStmt: DISPOSE @v / DISPOSE FUNCTION f / DISPOSE VIEW t of a visible
// object - declared in this block or in an outer one (then the disposal
// persists after the block), possibly one that shadows an outer object of the
// same name (which is visible again afterwards).  Functions are only disposed
// in the function body (or top-level program) that declared them.
func (g *gen) disposeStmt(sc *gScope) ([]ref.PStmt, bool) {
	vars := filter(sc.setVars(), func(n string) bool { return !sc.findVar(n).keep })
	var funs []string
	for x := sc; x != nil; x = x.parent {
		for _, n := range funPool {
			if x.funs[n] && !contains(funs, n) {
				funs = append(funs, n)
			}
		}
		if x.boundary {
			break
		}
	}
	tabs := sc.visTabs()
	if sc.inLoop && !g.pct("disposeOuterInLoop", 20) {
		// in a loop body: mostly objects of the body's own block (an outer object disposed in the
		// first iteration is missing in the second one, which ends the program early)
		vars = filter(vars, func(n string) bool { _, ok := sc.vars[n]; return ok })
		funs = filter(funs, func(n string) bool { return sc.funs[n] })
		tabs = filter(tabs, func(n string) bool { return sc.tabs[n] })
	}
	if g.wantError() && g.pct("disposeMissing", 50) {
		k := fw.Pick(g.t, "dkind", []string{"disposevar", "disposefun", "disposetab"})
		var inv []string
		switch k {
		case "disposevar":
			inv = sc.invisVars()
		case "disposefun":
			inv = filter(funPool, func(n string) bool { return !sc.findFun(n) })
		default:
			inv = filter(tabPool, func(n string) bool { return !sc.findTab(n) })
		}
		if len(inv) > 0 {
			g.errDone = true
			d := g.stmt(k)
			d.Name = fw.Pick(g.t, "dmiss", inv)
			return []ref.PStmt{d}, true
		}
	}
	var kinds []string
	if len(vars) > 0 {
		kinds = append(kinds, "disposevar")
	}
	if len(funs) > 0 {
		kinds = append(kinds, "disposefun")
	}
	if len(tabs) > 0 {
		kinds = append(kinds, "disposetab")
	}
	if len(kinds) == 0 {
		return nil, false
	}
	d := g.stmt(fw.PickU(g.t, "dkind", kinds))
	switch d.K {
	case "disposevar":
		// prefer a variable that shadows an outer one: the outer one must be back afterwards
		var sh []string
		for _, n := range vars {
			for x := sc; x != nil; x = x.parent {
				if _, ok := x.vars[n]; ok {
					if !x.boundary && x.parent != nil && x.parent.findVar(n) != nil {
						sh = append(sh, n)
					}
					break
				}
			}
		}
		if len(sh) > 0 && g.pct("disposeShadowing", 70) {
			vars = sh
		}
		d.Name = fw.Pick(g.t, "dname", vars)
		for x := sc; x != nil; x = x.parent {
			if _, ok := x.vars[d.Name]; ok {
				delete(x.vars, d.Name)
				break
			}
			if x.boundary {
				break
			}
		}
	case "disposefun":
		d.Name = fw.Pick(g.t, "dname", funs)
		for x := sc; x != nil; x = x.parent {
			if x.funs[d.Name] {
				delete(x.funs, d.Name)
				delete(x.sigs, d.Name)
				break
			}
			if x.boundary {
				break
			}
		}
	default:
		d.Name = fw.Pick(g.t, "dname", tabs)
		for x := sc; x != nil; x = x.parent {
			if x.tabs[d.Name] {
				delete(x.tabs, d.Name)
				break
			}
			if x.boundary {
				break
			}
		}
	}
	out := []ref.PStmt{d}
	if !g.noPrint && g.pct("afterDispose", 60) {
		out = g.printVisible(sc, out)
	}
	return out, true
}

func contains(l []string, s string) bool {
	for _, x := range l {
		if x == s {
			return true
		}
	}
	return false
}

// guarded wraps a control transfer into an IF most of the time.
func (g *gen) guarded(sc *gScope, j ref.PStmt) []ref.PStmt {
	if sc.depth >= maxBlockDepth || g.chance("bare", 25) {
		return []ref.PStmt{j}
	}
	s := g.stmt("if")
	s.Form = "if"
	s.Conds = []ref.PCond{g.cond(sc)}
	inner := newScope(sc)
	var blk []ref.PStmt
	if g.chance("jumpPrefix", 40) {
		blk = append(blk, g.statement(inner)...)
		if len(blk) > 0 && isJump(blk[len(blk)-1]) {
			s.Blocks = [][]ref.PStmt{blk}
			return []ref.PStmt{s}
		}
	}
	blk = append(blk, j)
	s.Blocks = [][]ref.PStmt{blk}
	return []ref.PStmt{s}
}

func (g *gen) ifStmt(sc *gScope) []ref.PStmt {
	s := g.stmt("if")
	s.Form = fw.Pick(g.t, "form", []string{"if", "if", "case", "casev"})
	nb := g.intn("branches", 1, 3)
	if s.Form == "casev" {
		s.E = g.simple(sc, 1)
		for i := 0; i < nb; i++ {
			s.Whens = append(s.Whens, *g.simple(sc, 1))
		}
	} else {
		for i := 0; i < nb; i++ {
			s.Conds = append(s.Conds, g.cond(sc))
		}
	}
	for i := 0; i < nb; i++ {
		s.Blocks = append(s.Blocks, g.block(newScope(sc), 1, 4))
	}
	if g.chance("else", 55) {
		s.HasElse = true
		s.Else = g.block(newScope(sc), 1, 4)
	}
	out := []ref.PStmt{s}
	if g.chance("afterPrint", 45) {
		out = g.printVisible(sc, out)
	}
	return out
}

func (g *gen) whileStmt(sc *gScope) []ref.PStmt {
	if g.chance("condLoop", 35) {
		if out, ok := g.whileCondStmt(sc); ok {
			return out
		}
	}
	d := g.stmt("var")
	d.Kw = "VAR"
	d.Name = "k" + strconv.Itoa(d.ID)
	d.E = lit(0)
	sc.vars[d.Name] = &gVar{protected: true}
	w := g.stmt("while")
	dynOnly := g.chance("dynOnlyLoop", 18)
	iters := g.intn("iters", 0, 3)
	if dynOnly && iters < 2 {
		iters = 2
	}
	w.C = &ref.PCond{K: "cmp", Op: "<", A: varE(d.Name), B: lit(int64(iters))}
	inc := g.stmt("set")
	inc.Name = d.Name
	inc.E = bin("+", varE(d.Name), lit(1))
	body := newScope(sc)
	body.inLoop = true
	body.dynOnly = dynOnly
	w.Body = append([]ref.PStmt{inc}, g.block(body, 1, 4)...)
	out := []ref.PStmt{d, w}
	if g.chance("afterPrint", 45) {
		out = g.printVisible(sc, out)
	}
	return out
}

// whileCondStmt: a WHILE whose CONDITION reads a pool-named variable, calls a
// pool-named function or tests a pool-named cursor, while the body - after
// having advanced the outer object - re-declares that very name.  The
// condition belongs to the enclosing scope: from the second iteration on it
// must not see what the previous iteration's body declared.  A separate
// counter with IF .. THEN BREAK bounds the loop whatever the condition sees.
func (g *gen) whileCondStmt(sc *gScope) ([]ref.PStmt, bool) {
	kind := fw.Pick(g.t, "condKind", []string{"var", "var", "func", "curopen", "currange"})
	iters := g.intn("citers", 2, 3)
	notHere := func(pool []string, here func(string) bool) []string {
		return filter(pool, func(n string) bool { return !here(n) })
	}
	var pre, head []ref.PStmt
	var cond *ref.PCond
	body := newScope(sc)
	body.inLoop = true
	after := func() {}
	k := g.stmt("var")
	k.Kw, k.Name, k.E = "VAR", "k"+strconv.Itoa(k.ID), lit(0)
	rows := func() []int64 {
		r := make([]int64, iters)
		for i := range r {
			r[i] = int64(g.intn("crow", 0, 9))
		}
		return r
	}
	switch kind {
	case "var":
		name := ""
		if vis := sc.setVars(); len(vis) > 0 && g.chance("condOuterVar", 60) {
			name = fw.Pick(g.t, "cvar", vis)
			st := g.stmt("set")
			st.Name, st.E = name, lit(0)
			pre = append(pre, st)
		} else {
			free := notHere(varPool, func(n string) bool { _, ok := sc.vars[n]; return ok || sc.noDecl[n] })
			if len(free) == 0 {
				return nil, false
			}
			name = fw.Pick(g.t, "cvar", free)
			dv := g.stmt("var")
			dv.Kw, dv.Name, dv.E = "VAR", name, lit(0)
			sc.vars[name] = &gVar{}
			pre = append(pre, dv)
		}
		cond = &ref.PCond{K: "cmp", Op: "<", A: varE(name), B: lit(int64(iters))}
		if !g.noPrint {
			head = append(head, g.printStmt(varE(name)))
		}
		adv := g.stmt("set")
		adv.Name, adv.E = name, bin("+", varE(name), lit(1))
		sh := g.stmt("var")
		sh.Kw, sh.Name, sh.E = fw.Pick(g.t, "kw", []string{"VAR", "DECLARE"}), name, lit(int64(fw.Pick(g.t, "shadowVal", []int{100, 0, 1})))
		body.vars[name] = &gVar{}
		head = append(head, adv, sh)
	case "func":
		free := notHere(funPool, func(n string) bool { return sc.funs[n] || sc.recName(n) })
		if len(free) == 0 {
			return nil, false
		}
		name := fw.Pick(g.t, "cfun", free)
		c0 := int64(g.intn("c0", 0, 3))
		mk := func(e *ref.PExpr) ref.PStmt {
			f := g.stmt("func")
			f.Name, f.Var = name, fw.Pick(g.t, "param", varPool)
			r := g.stmt("return")
			if e == nil {
				e = bin("+", varE(f.Var), lit(c0))
			}
			r.E = e
			f.Body = []ref.PStmt{r}
			return f
		}
		pre = append(pre, mk(nil))
		sc.funs[name] = true
		cond = &ref.PCond{K: "cmp", Op: "<", A: &ref.PExpr{K: "call", Name: name, A: varE(k.Name)}, B: lit(int64(iters) + c0)}
		if !g.noPrint {
			head = append(head, g.printStmt(&ref.PExpr{K: "call", Name: name, A: lit(int64(g.intn("arg", 0, 4)))}))
		}
		head = append(head, mk(lit(int64(fw.Pick(g.t, "shadowVal", []int{100, 0})))))
		body.funs[name] = true
	case "curopen", "currange":
		free := notHere(curPool, func(n string) bool { _, ok := sc.curs[n]; return ok })
		tg := sc.setVars()
		if len(free) == 0 || (kind == "currange" && len(tg) == 0) {
			return nil, false
		}
		name := fw.Pick(g.t, "ccur", free)
		dc := g.stmt("cursor")
		dc.Name, dc.Rows = name, rows()
		op := g.stmt("open")
		op.Name = name
		sc.curs[name] = &gCur{open: true}
		pre = append(pre, dc, op)
		sh := g.stmt("cursor")
		sh.Name, sh.Rows = name, rows()
		if kind == "curopen" {
			cond = &ref.PCond{K: "curopen", Name: name}
			if !g.noPrint {
				head = append(head, ref.PStmt{ID: g.id(), K: "printopen", Name: name})
			}
			// the outer cursor is closed in the last wanted iteration, before the body's own cursor exists
			cl := g.stmt("close")
			cl.Name = name
			gi := g.stmt("if")
			gi.Form = "if"
			gi.Conds = []ref.PCond{{K: "cmp", Op: ">=", A: varE(k.Name), B: lit(int64(iters))}}
			gi.Blocks = [][]ref.PStmt{{cl}}
			head = append(head, gi, sh)
			body.curs[name] = &gCur{}
			after = func() { sc.curs[name].open = false }
		} else {
			v := fw.Pick(g.t, "fvar", tg)
			f0 := g.stmt("fetch")
			f0.Name, f0.Var = name, v
			pre = append(pre, f0)
			cond = &ref.PCond{K: "curinrange", Name: name}
			if !g.noPrint {
				head = append(head, g.printStmt(varE(v)))
			}
			f1 := g.stmt("fetch")
			f1.Name, f1.Var = name, v
			// a fetch that runs off the end leaves the variable unpredicted: give it a known value again
			fix := ref.PStmt{ID: g.id(), K: "if", Form: "if", Conds: []ref.PCond{{K: "curinrange", Name: name}}, HasElse: true}
			fix.Blocks = [][]ref.PStmt{{{ID: g.id(), K: "set", Name: v, E: bin("+", varE(v), lit(0))}}}
			fix.Else = []ref.PStmt{{ID: g.id(), K: "set", Name: v, E: lit(int64(g.intn("lit", 0, 9)))}}
			so := g.stmt("open")
			so.Name = name
			head = append(head, f1, fix, sh, so)
			body.curs[name] = &gCur{open: true}
		}
	}
	sc.vars[k.Name] = &gVar{protected: true}
	w := g.stmt("while")
	w.Form = "cond:" + kind
	w.C = cond
	inc := g.stmt("set")
	inc.Name, inc.E = k.Name, bin("+", varE(k.Name), lit(1))
	br := g.stmt("break")
	guard := g.stmt("if")
	guard.Form = "if"
	guard.Conds = []ref.PCond{{K: "cmp", Op: ">", A: varE(k.Name), B: lit(int64(iters + 1))}}
	guard.Blocks = [][]ref.PStmt{{br}}
	w.Body = append([]ref.PStmt{inc, guard}, head...)
	w.Body = append(w.Body, g.block(body, 1, 3)...)
	after()
	out := append(append(pre, k), w)
	if g.chance("afterPrint", 60) {
		out = g.printVisible(sc, out)
	}
	return out, true
}

func (g *gen) cursorDecl(sc *gScope) (ref.PStmt, bool) {
	var free []string
	for _, n := range curPool {
		if _, here := sc.curs[n]; !here {
			free = append(free, n)
		}
	}
	if len(free) == 0 {
		return ref.PStmt{}, false
	}
	s := g.stmt("cursor")
	// prefer a name that shadows
	var shadow []string
	for _, n := range free {
		if sc.findCur(n) != nil {
			shadow = append(shadow, n)
		}
	}
	if len(shadow) > 0 && g.chance("cshadow", 85) {
		s.Name = fw.Pick(g.t, "cname", shadow)
	} else {
		s.Name = fw.Pick(g.t, "cname", free)
	}
	if tabs := sc.visTabs(); len(tabs) > 0 && g.chance("overTable", 40) {
		s.Table = fw.Pick(g.t, "ctab", tabs)
	} else {
		n := g.intn("crows", 1, 5)
		for i := 0; i < n; i++ {
			s.Rows = append(s.Rows, int64(g.intn("crow", 0, 9)))
		}
	}
	sc.curs[s.Name] = &gCur{}
	return s, true
}

func (g *gen) cursorStmt(sc *gScope) []ref.PStmt {
	vis := sc.visCurs()
	w := g.intn("cuk", 0, 99)
	if g.wantError() {
		var closed []string
		for _, n := range vis {
			if !sc.findCur(n).open {
				closed = append(closed, n)
			}
		}
		if len(closed) > 0 && g.chance("useClosed", 60) {
			g.errDone = true
			return g.useClosed(sc, fw.Pick(g.t, "clname", closed))
		}
		inv := filter(curPool, func(n string) bool { return sc.findCur(n) == nil })
		if len(inv) > 0 {
			g.errDone = true
			s := g.stmt(fw.Pick(g.t, "ucur", []string{"open", "close", "printopen", "printrange", "dispose", "fetch"}))
			s.Name = fw.Pick(g.t, "ucname", inv)
			if s.K == "fetch" {
				tg := sc.setVars()
				if len(tg) == 0 {
					s.K = "dispose"
				} else {
					s.Var = fw.Pick(g.t, "fvar", tg)
				}
			}
			return []ref.PStmt{s}
		}
		var here []string
		for _, n := range curPool {
			if _, ok := sc.curs[n]; ok {
				here = append(here, n)
			}
		}
		if len(here) > 0 {
			g.errDone = true
			s := g.stmt("cursor")
			s.Name = fw.Pick(g.t, "rcname", here)
			s.Rows = []int64{1}
			return []ref.PStmt{s}
		}
	}
	if len(vis) == 0 || w < 35 {
		d, ok := g.cursorDecl(sc)
		if !ok {
			return []ref.PStmt{g.fallback(sc)}
		}
		out := []ref.PStmt{d}
		if g.chance("openNow", 80) {
			o := g.stmt("open")
			o.Name = d.Name
			sc.curs[d.Name].open = true
			out = append(out, o)
			if sc.depth < maxBlockDepth && g.chance("loopNow", 50) {
				out = append(out, g.whileIn(sc, d.Name)...)
			}
		}
		return out
	}
	name := fw.Pick(g.t, "cur", vis)
	c := sc.findCur(name)
	if c.pseudo && (w < 45 || (w >= 60 && w < 67)) {
		w = 70 // no OPEN / CLOSE / DISPOSE of a pseudo cursor: fetch instead
	}
	switch {
	case w < 45:
		k := "open"
		if c.open {
			k = "close"
		}
		if g.chance("stateNoise", 6) {
			k = fw.Pick(g.t, "ocn", []string{"open", "close"})
		}
		s := g.stmt(k)
		s.Name = name
		c.open = k == "open"
		return []ref.PStmt{s}
	case w < 50:
		if g.noPrint {
			return []ref.PStmt{g.fallback(sc)}
		}
		s := g.stmt("printopen")
		s.Name = name
		return []ref.PStmt{s}
	case w < 55:
		if g.noPrint || !c.open {
			return []ref.PStmt{g.fallback(sc)}
		}
		g.count++
		return []ref.PStmt{g.printStmt(&ref.PExpr{K: "ccount", Name: name})}
	case w < 60:
		if g.noPrint || !c.open {
			return []ref.PStmt{g.fallback(sc)}
		}
		s := g.stmt("printrange")
		s.Name = name
		return []ref.PStmt{s}
	case w < 67:
		s := g.stmt("dispose")
		s.Name = name
		for x := sc; x != nil; x = x.parent {
			if _, ok := x.curs[name]; ok {
				delete(x.curs, name)
				break
			}
			if x.boundary {
				break
			}
		}
		return []ref.PStmt{s}
	case w < 86:
		var out []ref.PStmt
		if !c.open {
			o := g.stmt("open")
			o.Name = name
			c.open = true
			out = append(out, o)
		}
		pos := fw.Pick(g.t, "fpos", []string{"", "", "", "NEXT", "NEXT", "PRIOR", "FIRST", "LAST", "ABSOLUTE", "RELATIVE"})
		n := g.intn("fetches", 1, 2)
		for i := 0; i < n; i++ {
			out = append(out, g.fetch(sc, name, pos)...)
			pos = ""
		}
		return out
	default:
		if sc.depth >= maxBlockDepth {
			return []ref.PStmt{g.fallback(sc)}
		}
		return g.whileIn(sc, name)
	}
}

// fetch: FETCH [pos] cursor INTO @v, then most of the time an observation of
// the fetched value guarded by IS IN RANGE (the variables of a fetch that finds
// no record are not predicted).
func (g *gen) fetch(sc *gScope, name, pos string) []ref.PStmt {
	tg := sc.setVars()
	if len(tg) == 0 {
		return nil
	}
	s := g.stmt("fetch")
	s.Name, s.Pos, s.Var = name, pos, fw.Pick(g.t, "fvar", tg)
	switch pos {
	case "ABSOLUTE":
		s.N = int64(g.intn("fabs", 0, 4))
	case "RELATIVE":
		s.N = int64(g.intn("frel", -2, 2))
	}
	if g.wantError() && g.chance("fetchLen", 30) {
		g.errDone = true
		s.Var2 = fw.Pick(g.t, "fvar2", tg)
	}
	out := []ref.PStmt{s}
	if g.noPrint {
		return out
	}
	switch w := g.intn("fobs", 0, 99); {
	case w < 65:
		i := ref.PStmt{ID: g.id(), K: "if", Form: "if", Conds: []ref.PCond{{K: "curinrange", Name: name}}}
		i.Blocks = [][]ref.PStmt{{g.printStmt(varE(s.Var))}}
		if g.chance("elseRange", 70) {
			// no record: give the variable a known value again
			i.HasElse = true
			i.Else = []ref.PStmt{{ID: g.id(), K: "set", Name: s.Var, E: lit(int64(g.intn("lit", 0, 9)))}}
		}
		out = append(out, i)
	case w < 80:
		out = append(out, ref.PStmt{ID: g.id(), K: "printrange", Name: name})
	case w < 88:
		out = append(out, g.printStmt(varE(s.Var)))
	}
	return out
}

// useClosed: a cursor that is visible but (as far as the generator tracks)
// closed is fetched from / asked for its status: "cursor is closed" expected.
func (g *gen) useClosed(sc *gScope, name string) []ref.PStmt {
	tg := sc.setVars()
	k := fw.Pick(g.t, "closedUse", []string{"fetch", "fetch", "fetch", "printrange", "ccount", "whilein"})
	if (k == "fetch" && len(tg) == 0) || (g.noPrint && (k == "printrange" || k == "ccount")) {
		k = "whilein"
	}
	switch k {
	case "fetch":
		s := g.stmt("fetch")
		s.Name, s.Var = name, fw.Pick(g.t, "fvar", tg)
		s.Pos = fw.Pick(g.t, "fpos", []string{"", "NEXT", "FIRST", "LAST"})
		return []ref.PStmt{s}
	case "printrange":
		s := g.stmt("printrange")
		s.Name = name
		return []ref.PStmt{s}
	case "ccount":
		g.count++
		return []ref.PStmt{g.printStmt(&ref.PExpr{K: "ccount", Name: name})}
	}
	s := g.stmt("whilein")
	s.Name, s.Decl, s.Var = name, "VAR", fw.Pick(g.t, "wvar", varPool)
	s.Body = []ref.PStmt{g.fallback(sc)}
	return []ref.PStmt{s}
}

// whileIn: [OPEN] WHILE [VAR] @v IN cursor DO ... END WHILE [reset of the fetch variable] [CLOSE]
func (g *gen) whileIn(sc *gScope, name string) []ref.PStmt {
	c := sc.findCur(name)
	var out []ref.PStmt
	if !c.open {
		o := g.stmt("open")
		o.Name = name
		c.open = true
		out = append(out, o)
	}
	s := g.stmt("whilein")
	s.Name = name
	body := newScope(sc)
	body.inLoop = true
	body.dynOnly = g.chance("dynOnlyLoop", 18)
	targets := sc.setVars()
	if len(targets) > 0 && g.chance("fetchOuter", 35) {
		s.Var = fw.Pick(g.t, "wvar", targets)
	} else {
		s.Decl = fw.Pick(g.t, "wdecl", []string{"VAR", "DECLARE"})
		s.Var = fw.Pick(g.t, "wvar", varPool)
		body.vars[s.Var] = &gVar{}
	}
	// loop names re-declared in the body: the per-iteration fetch belongs to the
	// enclosing scope (outer cursor, outer target) however the previous
	// iteration's body shadowed them
	var head []ref.PStmt
	{
		// a counter of the enclosing block bounds every cursor loop whatever cursor its fetch finds
		kd := g.stmt("var")
		kd.Kw, kd.Name, kd.E = "VAR", "k"+strconv.Itoa(kd.ID), lit(0)
		sc.vars[kd.Name] = &gVar{protected: true}
		out = append(out, kd)
		inc := g.stmt("set")
		inc.Name, inc.E = kd.Name, bin("+", varE(kd.Name), lit(1))
		guard := g.stmt("if")
		guard.Form = "if"
		guard.Conds = []ref.PCond{{K: "cmp", Op: ">", A: varE(kd.Name), B: lit(12)}}
		guard.Blocks = [][]ref.PStmt{{g.stmt("break")}}
		head = append(head, inc, guard)
	}
	if g.chance("shadowLoopNames", 40) {
		s.Form = "shadow"
		if !g.noPrint {
			head = append(head, g.printStmt(varE(s.Var)))
		}
		if s.Decl == "" && !body.noDecl[s.Var] && g.chance("shadowTarget", 70) {
			sh := g.stmt("var")
			sh.Kw, sh.Name, sh.E = "VAR", s.Var, lit(int64(g.intn("lit", 0, 9)))
			body.vars[s.Var] = &gVar{}
			head = append(head, sh)
			s.Form += ":var"
		}
		if s.Decl != "" || g.chance("shadowLoopCursor", 60) {
			sh := g.stmt("cursor")
			sh.Name = name
			n := g.intn("crows", 1, 4)
			for i := 0; i < n; i++ {
				sh.Rows = append(sh.Rows, int64(g.intn("crow", 0, 9)))
			}
			body.curs[name] = &gCur{}
			head = append(head, sh)
			if g.chance("openNow", 75) {
				so := g.stmt("open")
				so.Name = name
				body.curs[name].open = true
				head = append(head, so)
			}
			s.Form += ":cursor"
		}
	}
	s.Body = append(head, g.block(body, 1, 4)...)
	out = append(out, s)
	if s.Decl == "" {
		// the value left in the variable by the failing last fetch is not modelled: overwrite it
		r := g.stmt("set")
		r.Name = s.Var
		r.E = lit(int64(g.intn("lit", 0, 9)))
		out = append(out, r)
	}
	if !c.pseudo && g.chance("closeAfter", 40) {
		cl := g.stmt("close")
		cl.Name = name
		c.open = false
		out = append(out, cl)
	}
	return out
}

func (g *gen) tableStmt(sc *gScope) []ref.PStmt {
	vis := sc.visTabs()
	if g.wantError() {
		inv := filter(tabPool, func(n string) bool { return !sc.findTab(n) })
		if len(inv) > 0 && g.chance("utab", 60) {
			g.errDone = true
			name := fw.Pick(g.t, "utname", inv)
			if g.noPrint || g.chance("uins", 50) {
				s := g.stmt("insert")
				s.Name, s.E = name, lit(1)
				return []ref.PStmt{s}
			}
			return []ref.PStmt{g.printStmt(&ref.PExpr{K: "tcount", Name: name})}
		}
		var here []string
		for _, n := range tabPool {
			if sc.tabs[n] {
				here = append(here, n)
			}
		}
		if len(here) > 0 {
			g.errDone = true
			s := g.stmt("table")
			s.Name = fw.Pick(g.t, "rtname", here)
			return []ref.PStmt{s}
		}
	}
	if len(vis) == 0 || g.chance("tdecl", 30) {
		var free, shadow []string
		for _, n := range tabPool {
			if !sc.tabs[n] {
				free = append(free, n)
				if sc.findTab(n) {
					shadow = append(shadow, n)
				}
			}
		}
		if len(free) == 0 {
			return []ref.PStmt{g.fallback(sc)}
		}
		s := g.stmt("table")
		if len(shadow) > 0 && g.chance("tshadow", 60) {
			s.Name = fw.Pick(g.t, "tname", shadow)
		} else {
			s.Name = fw.Pick(g.t, "tname", free)
		}
		sc.tabs[s.Name] = true
		out := []ref.PStmt{s}
		n := g.intn("tins", 0, 2)
		for i := 0; i < n; i++ {
			in := g.stmt("insert")
			in.Name, in.E = s.Name, g.simple(sc, 1)
			out = append(out, in)
		}
		return out
	}
	name := fw.Pick(g.t, "tab", vis)
	if g.noPrint || g.chance("tinsert", 55) {
		s := g.stmt("insert")
		s.Name, s.E = name, g.simple(sc, 1)
		return []ref.PStmt{s}
	}
	return []ref.PStmt{g.printStmt(&ref.PExpr{K: fw.Pick(g.t, "tk", []string{"tcount", "tmax"}), Name: name})}
}

func (g *gen) funcStmt(sc *gScope) []ref.PStmt {
	var free, shadow []string
	for _, n := range funPool {
		if !sc.funs[n] && !sc.recName(n) {
			free = append(free, n)
			if sc.findFun(n) {
				shadow = append(shadow, n)
			}
		}
	}
	if g.wantError() {
		var here []string
		for _, n := range funPool {
			if sc.funs[n] {
				here = append(here, n)
			}
		}
		if len(here) > 0 {
			g.errDone = true
			s := g.stmt("func")
			s.Name, s.Var = fw.Pick(g.t, "rfname", here), "a"
			r := g.stmt("return")
			r.E = lit(0)
			s.Body = []ref.PStmt{r}
			return []ref.PStmt{s}
		}
	}
	if len(free) == 0 {
		return []ref.PStmt{g.fallback(sc)}
	}
	s := g.stmt("func")
	if len(shadow) > 0 && g.chance("fshadow", 85) {
		s.Name = fw.Pick(g.t, "fname", shadow)
	} else {
		s.Name = fw.Pick(g.t, "fname", free)
	}
	recursive := g.chance("recursive", 45)
	// parameters: 1 (45%), 2, 3 or none, under distinct pool names; a suffix of them
	// (sometimes all) is optional, and the DEFAULT of an optional parameter is a
	// literal or - most of the time - an expression over the parameters before it
	names := rapid.Permutation(varPool).Draw(g.t, "params")
	np := 1
	switch w := fw.Uniform(g.t, "nparams", 100); {
	case w < 45:
	case w < 75:
		np = 2
	case w < 94:
		np = 3
	default:
		np = 0
	}
	if recursive {
		np = 1
		if g.pct("recParam2", 50) {
			np = 2
		}
	}
	nopt := 0
	switch {
	case recursive:
		nopt = np - 1
	case np >= 2 && g.pct("optional", 70):
		nopt = fw.Range(g.t, "nopt", 1, np-1)
		if g.pct("allOptional", 15) {
			nopt = np
		}
	case np == 1 && g.pct("optional1", 20):
		nopt = 1
	}
	bs := newScope(sc)
	bs.boundary, bs.inFunc, bs.inLoop = true, true, false
	bs.funcDepth = sc.funcDepth + 1
	bs.hideFun = s.Name
	if recursive {
		bs.recFun = s.Name
	}
	var params []ref.PParam
	for i := 0; i < np; i++ {
		pp := ref.PParam{Name: names[i]}
		if i >= np-nopt {
			pp.Def = g.defaultExpr(names[:i], recursive)
		}
		params = append(params, pp)
		bs.vars[pp.Name] = &gVar{protected: recursive && i == 0, keep: recursive}
	}
	switch {
	case np == 0:
		s.NoParams = true
	case np == 1 && nopt == 0:
		s.Var = names[0]
	default:
		s.Var, s.Params = names[0], params
	}
	if recursive {
		q := ""
		if np == 2 {
			q = names[1]
		}
		s.Body = g.recursiveBody(bs, s.Name, s.Var, q)
	} else {
		s.Body = g.block(bs, 1, 5)
		if n := len(s.Body); n == 0 || s.Body[n-1].K != "return" {
			r := g.stmt("return")
			r.E = g.simple(bs, 0)
			s.Body = append(s.Body, r)
		}
	}
	sc.sigs[s.Name] = gSig{n: np, req: np - nopt}
	sc.funs[s.Name] = true
	out := []ref.PStmt{s}
	// use it right away most of the time
	if g.chance("callNow", 70) {
		call := g.mkCall(sc, s.Name, lit(int64(g.intn("arg", 0, 5))))
		if g.noPrint {
			if name, ok := g.declName(sc); ok {
				v := g.stmt("var")
				v.Kw, v.Name, v.E = "VAR", name, call
				sc.vars[name] = &gVar{}
				out = append(out, v)
			}
		} else {
			out = append(out, g.printStmt(call))
			if g.chance("afterPrint", 50) {
				out = g.printVisible(sc, out)
			}
		}
	}
	return out
}

// recursiveBody: factorial / fibonacci shaped recursion, bounded because the
// recursive calls sit behind `@p >= 1 AND @p <= 4`, take @p - 1 / @p - 2, and
// the parameter can neither be assigned nor shadowed in the block of the calls.
// aggStmt: DECLARE name AGGREGATE (cursor [, parameters]) with a generated body.
// The pseudo cursor carries a pool name (so it shadows an outer cursor of that
// name for the time of the invocation), the parameters follow the rules of
// funcStmt; the body usually walks the grouped values with WHILE .. IN before
// the ordinary generated statements, and the aggregate is used right away most
// of the time.
func (g *gen) aggStmt(sc *gScope) ([]ref.PStmt, bool) {
	free := filter(funPool, func(n string) bool { return !sc.funs[n] && !sc.recName(n) })
	if len(free) == 0 {
		return nil, false
	}
	s := g.stmt("agg")
	if shadow := filter(free, func(n string) bool { return sc.findFun(n) }); len(shadow) > 0 && g.pct("fshadow", 70) {
		s.Name = fw.PickU(g.t, "fname", shadow)
	} else {
		s.Name = fw.PickU(g.t, "fname", free)
	}
	s.Cur = fw.PickU(g.t, "aggCur", curPool)
	if vis := sc.visCurs(); len(vis) > 0 && g.pct("aggCurShadows", 70) {
		// the name of a cursor that is visible where the aggregate is declared (and most likely where it is called)
		s.Cur = fw.PickU(g.t, "aggCur", vis)
	}
	names := rapid.Permutation(varPool).Draw(g.t, "params")
	np := fw.Weighted(g.t, "aggParams", []int{40, 35, 25})
	nopt := 0
	if np > 0 && g.pct("optional", 65) {
		nopt = fw.Range(g.t, "nopt", 1, np)
	}
	bs := newScope(sc)
	bs.boundary, bs.inFunc, bs.inLoop = true, true, false
	bs.funcDepth = sc.funcDepth + 1
	bs.hideFun = s.Name
	bs.curs[s.Cur] = &gCur{open: true, pseudo: true}
	for i := 0; i < np; i++ {
		pp := ref.PParam{Name: names[i]}
		if i >= np-nopt {
			pp.Def = g.defaultExpr(names[:i], false)
		}
		s.Params = append(s.Params, pp)
		bs.vars[pp.Name] = &gVar{}
	}
	if g.pct("aggWalk", 75) {
		// an accumulator under a free pool name (or a private one), then the walk over the grouped values
		acc := g.stmt("var")
		acc.Kw, acc.E = "VAR", lit(0)
		if name, ok := g.declName(bs); ok {
			acc.Name = name
		} else {
			acc.Name = "z" + strconv.Itoa(acc.ID)
		}
		bs.vars[acc.Name] = &gVar{}
		s.Body = append(s.Body, acc)
		s.Body = append(s.Body, g.whileIn(bs, s.Cur)...)
	}
	s.Body = append(s.Body, g.block(bs, 1, 4)...)
	if n := len(s.Body); s.Body[n-1].K != "return" {
		r := g.stmt("return")
		r.E = g.simple(bs, 0)
		s.Body = append(s.Body, r)
	}
	sc.funs[s.Name] = true
	sc.sigs[s.Name] = gSig{n: np, req: np - nopt, agg: true}
	out := []ref.PStmt{s}
	if g.pct("callNow", 75) {
		call := g.mkCall(sc, s.Name, nil)
		if g.noPrint {
			if name, ok := g.declName(sc); ok {
				v := g.stmt("var")
				v.Kw, v.Name, v.E = "VAR", name, call
				sc.vars[name] = &gVar{}
				out = append(out, v)
			}
		} else {
			out = append(out, g.printStmt(call))
			if g.chance("afterPrint", 50) {
				out = g.printVisible(sc, out)
			}
		}
	}
	return out, true
}

// defaultExpr: the DEFAULT value of an optional parameter that follows the parameters earlier.
func (g *gen) defaultExpr(earlier []string, always bool) *ref.PExpr {
	if len(earlier) == 0 || !(always || g.pct("defOverParam", 75)) {
		return lit(int64(g.intn("deflit", 0, 9)))
	}
	p := varE(fw.Pick(g.t, "defp", earlier))
	switch fw.Uniform(g.t, "defk", 5) {
	case 0:
		return p
	case 1:
		return bin("*", p, lit(2))
	case 2:
		return bin("+", p, lit(int64(g.intn("deflit", 1, 9))))
	case 3:
		return bin("+", p, varE(fw.Pick(g.t, "defp2", earlier)))
	}
	return bin("-", lit(int64(g.intn("deflit", 10, 19))), p)
}

// q (optional): a second, optional parameter whose DEFAULT reads the first one;
// the base case returns it, so the result depends on the innermost invocation
// having evaluated the default with ITS OWN first parameter.
func (g *gen) recursiveBody(bs *gScope, name, p, q string) []ref.PStmt {
	others := filter(varPool, func(n string) bool { return n != p })
	x, y := others[0], others[1]
	if g.chance("swapXY", 50) {
		x, y = y, x
	}
	fib := g.chance("fib", 40) && g.recHi == 0
	var body []ref.PStmt
	bs.noDecl = map[string]bool{}
	if g.chance("pre", 50) {
		body = append(body, g.fillers(bs, 1, 2)...)
	}
	ifs := g.stmt("if")
	ifs.Form = fw.Pick(g.t, "rform", []string{"if", "case"})
	ifs.Conds = []ref.PCond{{K: "range", A: varE(p), Lo: 1, Hi: int64(g.intn("rhi", 2, 4))}}
	if g.recHi > 0 {
		ifs.Conds[0].Hi = int64(g.recHi)
	}
	ib := newScope(bs)
	ib.noDecl = map[string]bool{p: true, x: true, y: true}
	var blk []ref.PStmt
	if g.chance("f1", 50) {
		blk = append(blk, g.fillers(ib, 1, 2)...)
	}
	d1 := g.stmt("var")
	d1.Kw, d1.Name = "VAR", x
	d1.E = g.recCall(ib, name, p, q, 1)
	ib.vars[x] = &gVar{keep: true}
	blk = append(blk, d1)
	delete(ib.noDecl, x)
	if g.chance("f2", 60) {
		blk = append(blk, g.fillers(ib, 1, 2)...)
	}
	if !g.noPrint && g.chance("printOwn", 60) {
		blk = append(blk, g.printStmt(varE(p)), g.printStmt(varE(x)))
	}
	ret := g.stmt("return")
	if fib {
		d2 := g.stmt("var")
		d2.Kw, d2.Name = "DECLARE", y
		d2.E = g.recCall(ib, name, p, q, 2)
		ib.vars[y] = &gVar{keep: true}
		blk = append(blk, d2)
		ret.E = bin("+", varE(x), varE(y))
	} else {
		rop := fw.Pick(g.t, "rop", []string{"*", "+"})
		if g.recHi > 0 {
			rop = "+" // a product over 20-90 levels leaves the integer range of the model
		}
		ret.E = bin(rop, varE(p), varE(x))
	}
	blk = append(blk, ret)
	ifs.Blocks = [][]ref.PStmt{blk}
	body = append(body, ifs)
	if g.chance("post", 40) {
		body = append(body, g.fillers(bs, 1, 2)...)
	}
	if n := len(body); body[n-1].K != "return" {
		r := g.stmt("return")
		r.E = lit(int64(g.intn("base", 0, 3)))
		if q != "" {
			r.E = bin("+", varE(q), r.E)
		}
		body = append(body, r)
	}
	return body
}

// recCall: the recursive call name(@p - dec[, second argument]); the optional second argument is omitted most of the time.
func (g *gen) recCall(sc *gScope, name, p, q string, dec int64) *ref.PExpr {
	first := bin("-", varE(p), lit(dec))
	if q == "" {
		return &ref.PExpr{K: "call", Name: name, A: first}
	}
	c := &ref.PExpr{K: "call", Name: name, Multi: true, Args: []*ref.PExpr{first}}
	if g.pct("recPassSecond", 25) {
		c.Args = append(c.Args, lit(int64(g.intn("arg", 0, 5))))
	}
	return c
}

// fillers: ordinary statements that never end the block.
func (g *gen) fillers(sc *gScope, lo, hi int) []ref.PStmt {
	var out []ref.PStmt
	n := g.intn("fill", lo, hi)
	for i := 0; i < n; i++ {
		ss := g.statement(sc)
		if len(ss) > 0 && isJump(ss[len(ss)-1]) {
			continue
		}
		out = append(out, ss...)
	}
	return out
}

func neutralise(prog []ref.PStmt, id int) {
	for i := range prog {
		s := &prog[i]
		if s.ID == id {
			// keep the statement count and ids: the declaration becomes an observation
			*s = ref.PStmt{ID: id, K: "var", Kw: "VAR", Name: "n" + strconv.Itoa(id), E: lit(0)}
			return
		}
		for j := range s.Blocks {
			neutralise(s.Blocks[j], id)
		}
		neutralise(s.Else, id)
		neutralise(s.Body, id)
	}
}

// repairTableShadow removes executed table declarations that would shadow an
// outer temporary table (see avoidKnownTempTableShadow).
func repairTableShadow(prog []ref.PStmt, run func() ref.PResult) {
	if !avoidKnownTempTableShadow {
		return
	}
	for i := 0; i < 12; i++ {
		r := run()
		if r.Stats.TableShadowStmt == 0 {
			return
		}
		neutralise(prog, r.Stats.TableShadowStmt)
	}
}

type progCase struct {
	Prog []ref.PStmt `json:"prog"`
	Text string      `json:"text"` // rendering of Prog, for the reader only
}

func genProg(t *rapid.T) progCase {
	g := &gen{t: t, budget: stmtBudget, errAt: -1}
	if g.chance("withError", 25) {
		g.errAt = g.intn("errAt", 6, 36)
	}
	top := newScope(nil)
	// a few outer declarations first so that inner blocks have something to shadow
	var prog []ref.PStmt
	for _, v := range varPool {
		if g.chance("topVar", 45) {
			s := g.stmt("var")
			s.Kw, s.Name, s.E = "VAR", v, lit(int64(g.intn("lit", 0, 9)))
			top.vars[v] = &gVar{}
			prog = append(prog, s)
		}
	}
	prog = append(prog, g.block(top, 4, 12)...)
	if n := len(prog); !isJump(prog[n-1]) {
		prog = g.printVisible(top, prog)
	}
	prog = append(append([]ref.PStmt{}, g.prologue...), prog...)
	repairTableShadow(prog, func() ref.PResult { return ref.RunProc(prog, ref.POpt{}) })
	return progCase{Prog: prog, Text: ref.RenderProc(prog)}
}

// ---------------------------------------------------------------------
// check: whole procedure against the reference interpreter

var errClassNames = map[string]string{
	"E1/10301":  ref.PErrUndeclVar,
	"E1/10302":  ref.PErrRedeclVar,
	"E1/10401":  ref.PErrUndeclFunc,
	"E1/10501":  ref.PErrRedeclFunc,
	"E1/11001":  ref.PErrRedeclCur,
	"E1/11002":  ref.PErrUndeclCur,
	"E1/11003":  ref.PErrCurClosed,
	"E1/11004":  ref.PErrCurOpen,
	"E1/11007":  ref.PErrFetchLength,
	"E1/11501":  ref.PErrRedeclTable,
	"E16/90181": ref.PErrUndeclTable, // a table name that is not a temporary table falls through to the file system
}

func init() {
	// codes taken from csvq's own constructors so that the table cannot drift
	probe := func(err error, class string) {
		errClassNames[run.ErrClass(err)] = class
	}
	probe(query.NewFunctionArgumentLengthError(parser.Identifier{Literal: "f"}, "f", []int{1}), ref.PErrArgLength)
	probe(query.NewUndeclaredTemporaryTableError(parser.Identifier{Literal: "t"}), ref.PErrUndeclTemp)
}

func csvqErrClass(err error) string {
	if err == nil {
		return ""
	}
	if fe, ok := err.(*query.ForcedExit); ok {
		return ref.PErrForcedExit + ":" + strconv.Itoa(fe.Code())
	}
	c := run.ErrClass(err)
	if n, ok := errClassNames[c]; ok {
		return n
	}
	return c
}

func emptyDir(name string) string {
	d := filepath.Join(fw.WorkDir(), name)
	_ = os.MkdirAll(d, 0755)
	return d
}

type observed struct {
	out  []string
	err  string
	exit bool
	flow query.StatementFlow
	msg  string
}

func splitLines(s string) []string {
	s = strings.TrimSuffix(s, "\n")
	if s == "" {
		return nil
	}
	return strings.Split(s, "\n")
}

func sameLines(a, b []string) bool {
	if len(a) != len(b) {
		return false
	}
	for i := range a {
		if a[i] != b[i] {
			return false
		}
	}
	return true
}

func agrees(w ref.PResult, g observed) bool {
	return sameLines(w.Out, g.out) && w.Err == g.err && w.Exit == g.exit
}

func clipLines(l []string) string {
	if len(l) > 30 {
		return strings.Join(l[:30], ",") + ",…"
	}
	return strings.Join(l, ",")
}

// compare turns a disagreement into a violation with a signature naming its shape.
func compare(prog []ref.PStmt, text string, want ref.PResult, got observed) *fw.Violation {
	if agrees(want, got) {
		switch {
		case got.err != "" && got.flow != query.TerminateWithError,
			got.exit && got.flow != query.Exit,
			got.err == "" && !got.exit && got.flow != query.Terminate:
			return fw.V("flow_value", "flow %d does not match outcome err=%q exit=%v\n%s", got.flow, got.err, got.exit, text)
		}
		return nil
	}
	if want.Stats.TableShadowStmt != 0 {
		if quirk := ref.RunProc(prog, ref.POpt{TableNoShadow: true}); quirk.Discard == "" && agrees(quirk, got) {
			return fw.V("temp_table_shadow_redeclared", "a temporary table declared in an inner block / function invocation under the name of a visible outer table is rejected as redeclared instead of shadowing it (statement id %d): csvq out=[%s] err=%q (%s); expected out=[%s] err=%q\n%s",
				want.Stats.TableShadowStmt, clipLines(got.out), got.err, got.msg, clipLines(want.Out), want.Err, text)
		}
	}
	detail := fmt.Sprintf("csvq out=[%s] err=%q exit=%v (%s); reference out=[%s] err=%q exit=%v\n%s",
		clipLines(got.out), got.err, got.exit, got.msg, clipLines(want.Out), want.Err, want.Exit, text)
	switch {
	case want.Err == "" && got.err != "":
		return fw.V("unexpected_error:"+got.err, "%s", detail)
	case want.Err != "" && got.err == "":
		return fw.V("missing_error:"+want.Err, "%s", detail)
	case want.Err != got.err:
		return fw.V("wrong_error:"+want.Err+"->"+got.err, "%s", detail)
	case want.Exit != got.exit:
		return fw.V("exit_flow", "%s", detail)
	}
	return fw.V("print_sequence", "%s", detail)
}

// writeSources puts the files loaded by SOURCE statements into dir; the returned function removes them.
func writeSources(dir string, prog []ref.PStmt) (func(), error) {
	files := ref.ProcSourceFiles(prog)
	for _, name := range fw.SortedKeys(files) {
		if err := os.WriteFile(filepath.Join(dir, name), []byte(files[name]), 0644); err != nil {
			return func() {}, err
		}
	}
	return func() {
		for name := range files {
			_ = os.Remove(filepath.Join(dir, name))
		}
	}, nil
}

// execProgram runs the program in a fresh session.  The deadline only exists to
// end a csvq that loops forever (the reference has already bounded the work of
// a correct one); so that a loaded machine cannot turn into a verdict, a run
// that hits the first deadline is repeated once with a very long one.
func execProgram(dir, text string, cpu int, capture bool) (run.Res, string, error) {
	r, out, err := execProgramOnce(dir, text, cpu, capture, 20*time.Second)
	if err == nil && r.Err != nil && strings.HasPrefix(run.ErrClass(r.Err), "E8/") {
		fw.AddExtra("deadline_retries", 1)
		return execProgramOnce(dir, text, cpu, capture, 10*time.Minute)
	}
	return r, out, err
}

func execProgramOnce(dir, text string, cpu int, capture bool, limit time.Duration) (run.Res, string, error) {
	ctx, cancel := context.WithTimeout(context.Background(), limit)
	defer cancel()
	s, err := run.NewSess(run.Opt{Dir: dir, CaptureOut: capture, CPU: cpu, Ctx: ctx})
	if err != nil {
		return run.Res{}, "", err
	}
	defer s.Close()
	r := s.Exec(text)
	return r, s.Out.String(), nil
}

func statClasses(o *fw.Outcome, st ref.PStats) {
	for _, k := range fw.SortedKeys(st.Exec) {
		o.Classes = append(o.Classes, "exec:"+k)
	}
	for _, k := range fw.SortedKeys(st.ShadowKinds) {
		o.Classes = append(o.Classes, "shadow_decl:"+k)
	}
	for _, k := range fw.SortedKeys(st.ReadAfterKinds) {
		o.Classes = append(o.Classes, "outer_used_after_shadow:"+k)
	}
	if st.MaxRecDepth >= 2 {
		o.Classes = append(o.Classes, "recursion_depth>=2")
	}
	if st.MaxRecDepth >= 4 {
		o.Classes = append(o.Classes, "recursion_depth>=4")
	}
	o.Classes = append(o.Classes, fmt.Sprintf("block_depth:%d", st.MaxBlockDepth))
	if st.TableShadowStmt != 0 {
		o.Classes = append(o.Classes, "table_shadow_executed")
	}
}

// genClasses labels the loop shapes a program contains whose condition /
// per-iteration fetch uses a name that the loop body re-declares.
func genClasses(o *fw.Outcome, prog []ref.PStmt) {
	seen := map[string]bool{}
	ref.WalkProc(prog, func(s *ref.PStmt, depth int) {
		switch {
		case s.K == "while" && strings.HasPrefix(s.Form, "cond:"):
			seen["gen:while_"+s.Form] = true
		case s.K == "whilein" && strings.HasPrefix(s.Form, "shadow"):
			seen["gen:whilein_"+s.Form] = true
		}
	})
	for _, k := range fw.SortedKeys(seen) {
		o.Classes = append(o.Classes, k)
	}
}

// shape: block tree + name reuse pattern of a program.
func shape(prog []ref.PStmt) string {
	var b strings.Builder
	last := 0
	ref.WalkProc(prog, func(s *ref.PStmt, depth int) {
		for last < depth {
			b.WriteByte('(')
			last++
		}
		for last > depth {
			b.WriteByte(')')
			last--
		}
		b.WriteString(s.K[:2])
		switch s.K {
		case "var", "set", "func", "table", "cursor", "insert", "open", "close", "whilein", "fetch", "dispose":
			if !strings.HasPrefix(s.Name, "k") && !strings.HasPrefix(s.Name, "n") && !strings.HasPrefix(s.Name, "z") && !strings.HasPrefix(s.Name, "g") && !strings.HasPrefix(s.Name, "fx") && !strings.HasPrefix(s.Name, "cu") {
				b.WriteString(s.Name)
			}
		case "if":
			b.WriteString(s.Form)
		case "disposevar", "disposefun", "disposetab":
			b.WriteString(s.K[7:8] + s.Name)
		}
		if s.K == "agg" {
			b.WriteString(s.Name + "~" + s.Cur)
		}
		if (s.K == "func" || s.K == "agg") && (len(s.Params) > 0 || s.NoParams) {
			opt := 0
			for _, p := range s.Params {
				if p.Def != nil {
					opt++
				}
			}
			fmt.Fprintf(&b, "/%d.%d", len(s.Params), opt)
		}
		b.WriteByte(' ')
	})
	return b.String()
}

func checkProg(c progCase) (fw.Outcome, *fw.Violation) { return checkProgOpt(c, ref.POpt{}) }

func checkProgOpt(c progCase, opt ref.POpt) (fw.Outcome, *fw.Violation) {
	o := fw.Outcome{}
	want := ref.RunProc(c.Prog, opt)
	if want.Discard != "" {
		o.Discard = true
		fw.AddExtra("discard:"+want.Discard, 1)
		return o, nil
	}
	dir := emptyDir("c15empty")
	text := ref.RenderProcDir(c.Prog, dir)
	cleanup, err := writeSources(dir, c.Prog)
	defer cleanup()
	if err != nil {
		return o, fw.V("harness_file", "%v", err)
	}
	r, out, err := execProgram(dir, text, 1, true)
	if err != nil {
		return o, fw.V("harness_session", "%v", err)
	}
	if r.ParseErr {
		return o, fw.V("generator_syntax", "the generated program does not parse: %v\n%s", r.Err, text)
	}
	got := observed{out: splitLines(out), err: csvqErrClass(r.Err), flow: r.Flow}
	if r.Err != nil {
		got.msg = r.Err.Error()
	}
	got.exit = r.Err == nil && r.Flow == query.Exit
	switch {
	case want.Err != "":
		o.Classes = append(o.Classes, "end:"+want.Err)
	case want.Exit:
		o.Classes = append(o.Classes, "end:exit")
	default:
		o.Classes = append(o.Classes, "end:ok")
	}
	statClasses(&o, want.Stats)
	genClasses(&o, c.Prog)
	if v := compare(c.Prog, text, want, got); v != nil {
		return o, v
	}
	if want.Stats.ShadowReadAfter > 0 || want.Stats.MaxRecDepth >= 2 || want.Stats.DefaultOverShadow > 0 {
		o.Classes = append(o.Classes, "nontrivial")
		o.Fingerprint = shape(c.Prog)
	}
	return o, nil
}

func TestC15Procedure(t *testing.T) {
	fw.Run(t, fw.Spec[progCase]{
		ID: "C15", Name: "procedure", Quick: 60000, Thorough: 1200000,
		Gen: genProg, Check: checkProg,
		Rule: "procedures of <=40 statements, block depth <=5, nesting IF/ELSEIF/ELSE, CASE (both forms), counter-bounded WHILE, WHILE whose condition reads a pool-named variable / calls a pool-named function / tests a pool-named cursor (IS OPEN, IS IN RANGE) that the body re-declares after advancing the outer one (35% of loops; an outer counter with IF .. THEN BREAK bounds them), WHILE..IN cursor loops (all bounded the same way; 40% re-declare the fetch variable and/or the loop cursor in the body), OPEN/CLOSE/FETCH (all positions)/DISPOSE CURSOR and the cursor status expressions at any depth, declarations of all four kinds also executed dynamically in place (EXECUTE string, EXECUTE of a PREPAREd statement, SOURCE of a generated file; 18% of loops declare only that way), BREAK/CONTINUE/RETURN/EXIT [code 1-3: forced-exit error of that code], (nested, recursive factorial/fibonacci-shaped) scalar functions with 0-3 parameters under permuted pool names of which a suffix (sometimes all) is optional - DEFAULT a literal or, 75%, an expression over the EARLIER parameters (@b DEFAULT @a * 2); half of the recursive functions carry an optional second parameter whose DEFAULT reads the first and which the base case returns -, calls with all required arguments plus a drawn prefix of the optional ones (70% omit at least one; arguments are literals or expressions over the CALLER's variables, which often carry the parameters' names; one deliberate wrong argument count), user-defined AGGREGATE functions (35% of the function declarations: pseudo cursor under a pool name - 70% the name of a cursor visible at the declaration -, 0-2 parameters with the same DEFAULT rules, body = accumulator + WHILE..IN over the pseudo cursor + generated statements incl. FETCH / status expressions on it and inner cursors shadowing it) called as (SELECT ag(v, args..) FROM <visible temporary table | 1-4 inline records>), DISPOSE @variable / DISPOSE FUNCTION / DISPOSE VIEW of objects of the current or an outer block (3.5% of the statements; 70% of the variable disposals pick a variable that shadows an outer one, which must be visible again afterwards; one deliberate DISPOSE of a missing object), with variables, cursors, temporary tables and functions (re)declared under names from 3-name pools at every level; executed in-process and compared (PRINT lines, terminating error class, EXIT flow) with an environment-stack reference interpreter (parameters are bound in declaration order inside the invocation's own block: a DEFAULT sees the parameters before it and nothing of the caller); non-trivial = an outer object is used again after the block / DISPOSE that ended its shadowing, or a recursion depth >= 2, or a DEFAULT was evaluated that reads an earlier parameter while a variable of that name is visible in the caller's chain; distinct by block tree + name pattern + signatures",
		Assumptions: []string{
			"function bodies use only parameters, locals and lexically visible functions; any name that resolves differently under lexical and dynamic (caller chain) scoping discards the case",
			"outcomes that depend on an undocumented evaluation order (two errors in one statement, an error beside a function call with side effects, CLOSE of a closed cursor, the variable left by the failing fetch of WHILE..IN) are discarded or overwritten",
			"a FETCH that finds no record leaves its variables unpredicted (NULL by the manual, unchanged in csvq): reading them before re-assignment discards the case; a relative FETCH after the pointer was sent more than one position out of range is discarded (resting position undocumented)",
			"statements run by EXECUTE / SOURCE act in the block that contains them (manual: SOURCE executes the file 'as a part of the procedure', EXECUTE 'a string as statements'); PREPARE is generated at the top of the program only (prepared statements are not block-scoped)",
			"values are integers and NULL with magnitude <= 2^40; calls deeper than 12 and runs longer than 4000 steps are discarded",
			"avoidKnownTempTableShadow=true: executed temporary-table declarations that would shadow an outer table are removed by the generator (finding temp_table_shadow_redeclared)",
			"a DEFAULT value that reads its own or a later parameter, or that calls a function, is not predicted (discard); DEFAULT values otherwise follow the closedness rule of function bodies (a name that is not an earlier parameter resolves outside the invocation: discard)",
			"a wrong argument count beside another error of the same call, a scalar function used as an aggregate or vice versa (possible through dynamic resolution only), OPEN / CLOSE / DISPOSE of a pseudo cursor, DISPOSE of a function that is running or, from inside a function body, of a function declared outside that body: discarded",
			"the grouped values reach an aggregate's pseudo cursor in record order (single group, CPU 1, < 10 records)",
		},
	})
}

// ---------------------------------------------------------------------
// concurrent invocations: SELECT id, f(n) FROM a table of >= 160 rows, CPU 4

type concCase struct {
	Decls []ref.PStmt `json:"decls"`
	Fn    string      `json:"fn"`
	Args  []int64     `json:"args"`
	CPU   int         `json:"cpu"`
	Text  string      `json:"text"`
	// Form is the statement that invokes the function once per record (see concForms); "" = select.
	Form string `json:"form,omitempty"`
	K    int64  `json:"k,omitempty"`   // where: threshold
	Fn2  string `json:"fn2,omitempty"` // two: the second function
	// further (literal) arguments after INTEGER(n) in the calls of Fn / Fn2; optional parameters beyond them take their DEFAULT
	Extra  []int64 `json:"extra,omitempty"`
	Extra2 []int64 `json:"extra2,omitempty"`
}

// concForms: the per-record evaluation sites from which the invocations are
// started (each is a different goroutine fan-out in csvq: select clause, WHERE
// filter, ORDER BY keys, GROUP BY keys, UPDATE SET values).
var concForms = []string{"select", "select", "select", "where", "where", "orderby", "groupby", "two", "two", "update"}

func genConc(t *rapid.T) concCase {
	g := &gen{t: t, budget: stmtBudget, errAt: -1, noPrint: true}
	top := newScope(nil)
	var prog []ref.PStmt
	for _, v := range varPool {
		if g.chance("topVar", 60) {
			s := g.stmt("var")
			s.Kw, s.Name, s.E = "VAR", v, lit(int64(g.intn("lit", 0, 9)))
			top.vars[v] = &gVar{}
			prog = append(prog, s)
		}
	}
	nf := g.intn("nfun", 1, 3)
	fn := ""
	for i := 0; i < nf; i++ {
		g.budget = 22
		ss := g.funcStmt(top)
		prog = append(prog, ss...)
		if ss[0].K == "func" {
			fn = ss[0].Name
		}
	}
	if fn == "" {
		fn = "fa"
	}
	n := g.intn("rows", 160, 320)
	args := make([]int64, n)
	for i := range args {
		args[i] = int64(g.intn("n", 0, 6))
	}
	prog = append(append([]ref.PStmt{}, g.prologue...), prog...)
	repairTableShadow(prog, func() ref.PResult {
		r, calls := ref.RunProcThenCalls(prog, fn, args, ref.POpt{MaxSteps: 1500})
		_ = calls
		return r
	})
	// further arguments: all required ones, and a drawn prefix of the optional ones (mostly omitted)
	extraFor := func(name string) []int64 {
		sg := top.findSig(name)
		k := sg.req
		if k < 1 {
			k = 1
		}
		if sg.n > k && g.pct("passOptional", 35) {
			k = fw.Range(g.t, "argc", k, sg.n)
		}
		var ex []int64
		for i := 1; i < k; i++ {
			ex = append(ex, int64(g.intn("extra", 0, 6)))
		}
		return ex
	}
	extra := extraFor(fn)
	repairTableShadow(prog, func() ref.PResult {
		r, _ := ref.RunProcThenCallsExtra(prog, fn, args, extra, false, ref.POpt{MaxSteps: 1500})
		return r
	})
	c := concCase{Decls: prog, Fn: fn, Args: args, CPU: 4, Text: ref.RenderProc(prog), Extra: extra}
	c.Form = fw.Pick(t, "form", concForms)
	switch c.Form {
	case "where":
		c.K = int64(g.intn("k", 0, 12))
	case "two":
		c.Fn2 = fn
		if names := fw.SortedKeys(top.funs); len(names) > 0 {
			c.Fn2 = fw.Pick(t, "fn2", names)
		}
	case "select":
		c.Form = ""
	}
	if c.Form != "" {
		c.CPU = fw.Pick(t, "cpu", []int{2, 4, 4, 8})
	}
	if c.Form == "two" {
		c.Extra2 = extra
	}
	if c.Form == "two" && c.Fn2 != fn {
		c.Extra2 = extraFor(c.Fn2)
		repairTableShadow(prog, func() ref.PResult {
			r, _ := ref.RunProcThenCallsExtra(prog, c.Fn2, args, c.Extra2, false, ref.POpt{MaxSteps: 1500})
			return r
		})
		c.Text = ref.RenderProc(prog)
	}
	if avoidKnownDMLSelfDeadlock && c.Form == "update" && performsDML(c.Decls) {
		// finding dml_statement_self_deadlock: not generated
		fw.AddExtra("excluded:update_form_with_dml_in_function", 1)
		c.Form = "two"
		c.Fn2 = fn
		c.Extra2 = c.Extra
	}
	return c
}

func extraSQL(extra []int64) string {
	var b strings.Builder
	for _, x := range extra {
		fmt.Fprintf(&b, ", %d", x)
	}
	return b.String()
}

// csvq holds the transaction's (non-reentrant) operation mutex for the whole of
// an INSERT / UPDATE / REPLACE / DELETE statement, including the evaluation of
// its expressions; a user-defined function that itself runs such a statement
// (e.g. an INSERT into its own local temporary table) therefore blocks for ever
// when it is invoked from one: finding dml_statement_self_deadlock.  While this
// is true the concurrent check does not generate the UPDATE form for functions
// that contain an INSERT.
const avoidKnownDMLSelfDeadlock = true

func performsDML(prog []ref.PStmt) bool {
	found := false
	ref.WalkProc(prog, func(s *ref.PStmt, depth int) {
		if s.K == "insert" {
			found = true
		}
		if s.K == "prepare" || s.K == "dyn" {
			for i := range s.Body {
				if s.Body[i].K == "insert" {
					found = true
				}
			}
		}
	})
	return found
}

// concQuery renders the statement(s) of the case's form.
func concQuery(c concCase) string {
	f := fmt.Sprintf("%s(INTEGER(n)%s)", c.Fn, extraSQL(c.Extra))
	switch c.Form {
	case "where":
		return fmt.Sprintf("SELECT id FROM big WHERE %s >= %d;\n", f, c.K)
	case "orderby":
		return fmt.Sprintf("SELECT id, n FROM big ORDER BY %s NULLS FIRST, INTEGER(id);\n", f)
	case "groupby":
		return fmt.Sprintf("SELECT COUNT(*) AS c, MIN(INTEGER(n)) AS m FROM big GROUP BY %s;\n", f)
	case "two":
		return fmt.Sprintf("SELECT id, n, %s AS r, %s(INTEGER(n)%s) AS r2 FROM big;\n", f, c.Fn2, extraSQL(c.Extra2))
	case "update":
		return fmt.Sprintf("DECLARE c15upd VIEW (id, n, r) AS SELECT id, n, -1 FROM big;\nUPDATE c15upd SET r = %s;\nSELECT id, n, r FROM c15upd;\n", f)
	}
	return fmt.Sprintf("SELECT id, n, %s AS r FROM big;\n", f)
}

func cellIs(w ref.PVal, cell run.Val) bool {
	return (w.Null && cell.K == "N") || (!w.Null && cell.K == "I" && cell.S == strconv.FormatInt(w.N, 10))
}

func checkConc(c concCase) (fw.Outcome, *fw.Violation) {
	o := fw.Outcome{}
	switch c.Form {
	case "", "where", "orderby", "groupby", "two", "update":
	default:
		o.Discard = true
		return o, nil
	}
	text := ref.RenderProcDir(c.Decls, emptyDir("c15conc"))
	want, calls := ref.RunProcThenCallsExtra(c.Decls, c.Fn, c.Args, c.Extra, false, ref.POpt{MaxSteps: 1500})
	if want.Discard != "" || want.Err != "" || want.Exit {
		o.Discard = true
		fw.AddExtra("discard:prefix:"+want.Discard+want.Err, 1)
		return o, nil
	}
	callSets := []map[int64]ref.PCallResult{calls}
	var calls2 map[int64]ref.PCallResult
	if c.Form == "two" {
		var w2 ref.PResult
		w2, calls2 = ref.RunProcThenCallsExtra(c.Decls, c.Fn2, c.Args, c.Extra2, false, ref.POpt{MaxSteps: 1500})
		if w2.Discard != "" || w2.Err != "" || w2.Exit {
			o.Discard = true
			return o, nil
		}
		callSets = append(callSets, calls2)
		if want.Stats.TableShadowStmt == 0 {
			want.Stats.TableShadowStmt = w2.Stats.TableShadowStmt
		}
	}
	errs := map[string]bool{}
	hasNull := false
	for _, cs := range callSets {
		for _, a := range c.Args {
			cr := cs[a]
			if cr.Discard != "" {
				o.Discard = true
				fw.AddExtra("discard:"+cr.Discard, 1)
				return o, nil
			}
			if cr.Err != "" {
				errs[cr.Err] = true
			} else if cr.Val.Null {
				hasNull = true
			}
		}
	}
	if len(errs) > 1 {
		o.Discard = true
		fw.AddExtra("discard:several_error_classes", 1)
		return o, nil
	}
	if c.Form == "groupby" && hasNull && len(errs) == 0 {
		// whether NULL keys form one group is not this property's business
		o.Discard = true
		fw.AddExtra("discard:groupby_null_key", 1)
		return o, nil
	}
	dir := emptyDir("c15conc")
	var b strings.Builder
	b.WriteString("id,n\n")
	for i, a := range c.Args {
		fmt.Fprintf(&b, "%d,%d\n", i, a)
	}
	if err := os.WriteFile(filepath.Join(dir, "big.csv"), []byte(b.String()), 0644); err != nil {
		return o, fw.V("harness_file", "%v", err)
	}
	cleanup, err := writeSources(dir, c.Decls)
	defer cleanup()
	if err != nil {
		return o, fw.V("harness_file", "%v", err)
	}
	cpu := c.CPU
	if cpu < 1 {
		cpu = 4
	}
	full := text + concQuery(c)
	if c.Form == "update" && performsDML(c.Decls) {
		// never generated while avoidKnownDMLSelfDeadlock is true (pinned regression case of the finding)
		r, dead, err := execOrSelfDeadlock(dir, full, cpu)
		if err != nil {
			return o, fw.V("harness_session", "%v", err)
		}
		if dead {
			return o, fw.V("dml_statement_self_deadlock", "UPDATE .. SET r = %s(..) never returns: the function runs an INSERT into its own temporary table while the UPDATE statement holds the transaction's operation mutex (the goroutine waits in sync.Mutex.Lock below query.Insert with query.Update further down its own stack)\n%s", c.Fn, full)
		}
		if r.Err != nil {
			return o, fw.V("concurrent_unexpected_error_update:"+csvqErrClass(r.Err), "%v\n%s", r.Err, full)
		}
	}
	r, _, err := execProgram(dir, full, cpu, false)
	if err != nil {
		return o, fw.V("harness_session", "%v", err)
	}
	if r.ParseErr {
		return o, fw.V("generator_syntax", "the generated program does not parse: %v\n%s", r.Err, full)
	}
	statClasses(&o, want.Stats)
	form := c.Form
	if form == "" {
		form = "select"
	}
	o.Classes = append(o.Classes, "form:"+form, fmt.Sprintf("cpu:%d", cpu))
	sfx := ""
	if c.Form != "" {
		sfx = "_" + c.Form
	}
	got := csvqErrClass(r.Err)
	if len(errs) == 1 {
		wantErr := fw.SortedKeys(errs)[0]
		o.Classes = append(o.Classes, "end:"+wantErr)
		if got != wantErr {
			if wantErr == "" || got == "" {
				return o, fw.V("concurrent_error_presence"+sfx, "%d rows: csvq err=%q (%v), reference err=%q\n%s", len(c.Args), got, r.Err, wantErr, full)
			}
			return o, fw.V("concurrent_wrong_error"+sfx+":"+wantErr+"->"+got, "%d rows: %v\n%s", len(c.Args), r.Err, full)
		}
		return o, nil
	}
	o.Classes = append(o.Classes, "end:ok")
	if r.Err != nil {
		if want.Stats.TableShadowStmt != 0 && got == ref.PErrRedeclTable {
			return o, fw.V("temp_table_shadow_redeclared", "function-local temporary table rejected as redeclared: %v\n%s", r.Err, full)
		}
		if got == "E16/90160" {
			return o, fw.V("concurrent_source_already_opened", "SOURCE inside a function invoked from several goroutines: %v (%d rows, CPU %d)\n%s", r.Err, len(c.Args), cpu, full)
		}
		return o, fw.V("concurrent_unexpected_error"+sfx+":"+got, "%d rows: %v\n%s", len(c.Args), r.Err, full)
	}
	if len(r.Views) != 1 {
		return o, fw.V("concurrent_result_shape"+sfx, "expected one result, got %d\n%s", len(r.Views), full)
	}
	rows := r.Views[0].Rows
	ctxt := func() string { return fmt.Sprintf("(CPU %d, %d rows)\n%s", cpu, len(c.Args), full) }
	rowID := func(row []run.Val) (int, bool) {
		if len(row) == 0 {
			return 0, false
		}
		id, e := strconv.Atoi(row[0].S)
		return id, e == nil && id >= 0 && id < len(c.Args)
	}
	switch c.Form {
	case "where":
		seen := make([]bool, len(c.Args))
		for _, row := range rows {
			id, ok := rowID(row)
			if !ok || len(row) != 1 || seen[id] {
				return o, fw.V("concurrent_result_shape_where", "unexpected row %v %s", row, ctxt())
			}
			seen[id] = true
		}
		for id, a := range c.Args {
			w := calls[a].Val
			if keep := !w.Null && w.N >= c.K; keep != seen[id] {
				return o, fw.V("concurrent_invocation_result_where", "row id=%d: %s(%d) = %s in the reference, so `>= %d` keeps the row: %v, csvq kept it: %v %s", id, c.Fn, a, w, c.K, keep, seen[id], ctxt())
			}
		}
	case "orderby":
		if len(rows) != len(c.Args) {
			return o, fw.V("concurrent_result_shape_orderby", "expected %d rows, got %d %s", len(c.Args), len(rows), ctxt())
		}
		order := make([]int, len(c.Args))
		for i := range order {
			order[i] = i
		}
		sort.SliceStable(order, func(i, j int) bool {
			a, b := calls[c.Args[order[i]]].Val, calls[c.Args[order[j]]].Val
			if a.Null != b.Null {
				return a.Null
			}
			return !a.Null && a.N < b.N
		})
		for i, row := range rows {
			id, ok := rowID(row)
			if !ok || len(row) != 2 {
				return o, fw.V("concurrent_result_shape_orderby", "unexpected row %v %s", row, ctxt())
			}
			if id != order[i] {
				return o, fw.V("concurrent_invocation_result_orderby", "position %d holds id=%d (n=%d), the reference keys put id=%d (n=%d, %s = %s) there %s", i, id, c.Args[id], order[i], c.Args[order[i]], c.Fn, calls[c.Args[order[i]]].Val, ctxt())
			}
		}
	case "groupby":
		type grp struct{ cnt, min int64 }
		groups := map[int64]*grp{}
		for _, a := range c.Args {
			k := calls[a].Val.N
			g := groups[k]
			if g == nil {
				g = &grp{min: a}
				groups[k] = g
			}
			g.cnt++
			if a < g.min {
				g.min = a
			}
		}
		var wantG, gotG []string
		for _, g := range groups {
			wantG = append(wantG, fmt.Sprintf("%d/%d", g.cnt, g.min))
		}
		for _, row := range rows {
			if len(row) != 2 {
				return o, fw.V("concurrent_result_shape_groupby", "unexpected row %v %s", row, ctxt())
			}
			gotG = append(gotG, row[0].S+"/"+row[1].S)
		}
		sort.Strings(wantG)
		sort.Strings(gotG)
		if strings.Join(wantG, ",") != strings.Join(gotG, ",") {
			return o, fw.V("concurrent_invocation_result_groupby", "groups (count/min n) by %s(n): csvq [%s], reference [%s] %s", c.Fn, strings.Join(gotG, ","), strings.Join(wantG, ","), ctxt())
		}
	default: // select, two, update: one row per record with the invocation's value(s)
		if len(rows) != len(c.Args) {
			return o, fw.V("concurrent_result_shape"+sfx, "expected %d rows, got %d %s", len(c.Args), len(rows), ctxt())
		}
		width := 3
		if c.Form == "two" {
			width = 4
		}
		seen := make([]bool, len(c.Args))
		for _, row := range rows {
			id, ok := rowID(row)
			if !ok || len(row) != width || seen[id] {
				return o, fw.V("concurrent_result_shape"+sfx, "unexpected row %v %s", row, ctxt())
			}
			seen[id] = true
			if w := calls[c.Args[id]].Val; !cellIs(w, row[2]) {
				return o, fw.V("concurrent_invocation_result"+sfx, "row id=%d: %s(%d) = %s, reference %s %s", id, c.Fn, c.Args[id], row[2], w, ctxt())
			}
			if c.Form == "two" {
				if w := calls2[c.Args[id]].Val; !cellIs(w, row[3]) {
					return o, fw.V("concurrent_invocation_result_two", "row id=%d: second function %s(%d) = %s, reference %s %s", id, c.Fn2, c.Args[id], row[3], w, ctxt())
				}
			}
		}
	}
	if want.Stats.ShadowReadAfter > 0 || want.Stats.MaxRecDepth >= 2 || want.Stats.DefaultOverShadow > 0 {
		o.Classes = append(o.Classes, "nontrivial")
		distinct := map[int64]bool{}
		for _, a := range c.Args {
			distinct[a] = true
		}
		ks := make([]int, 0, len(distinct))
		for a := range distinct {
			ks = append(ks, int(a))
		}
		sort.Ints(ks)
		o.Fingerprint = shape(c.Decls) + fmt.Sprint(ks) + c.Form + fmt.Sprint(len(c.Extra), len(c.Extra2))
	}
	return o, nil
}

func TestC15Concurrent(t *testing.T) {
	fw.Run(t, fw.Spec[concCase]{
		ID: "C15", Name: "concurrent", Quick: 5000, Thorough: 100000,
		Gen: genConc, Check: checkConc,
		Rule: "1-3 generated scalar functions (0-3 parameters with optional ones whose DEFAULT reads earlier parameters, locals, nested blocks and loops, local cursors/tables/functions/aggregates, DISPOSE, recursion; no PRINT) declared beside top-level variables of the same names, then one statement that invokes f(INTEGER(n)[, literal arguments: all required ones and, 35%, some optional ones]) once per record of a 160-320 row CSV (n in 0..6) so that invocations run concurrently - forms: select clause (CPU 4), WHERE f(n) >= k, ORDER BY f(n), GROUP BY f(n), two functions per record, UPDATE .. SET r = f(n) on a temporary copy (CPU 2/4/8); every row's value / the kept rows / the row order / the groups must equal what the reference interpreter's f(n) gives; non-trivial = recursion depth >= 2, an outer object used after its shadowing block ended, or a DEFAULT evaluated over an earlier parameter whose name a top-level variable carries; distinct by function shapes + argument set + argument counts",
		Assumptions: []string{
			"same closedness / discard rules as the procedure check; functions that PRINT are not generated here because their interleaving is unordered",
			"GROUP BY form: a NULL result of the function discards the case (grouping of NULL keys is not this property's business)",
			"avoidKnownDMLSelfDeadlock=true: the UPDATE form is not generated for functions that contain an INSERT (finding dml_statement_self_deadlock; the pinned case is recognised by the goroutine dump - a goroutine waiting in sync.Mutex.Lock under query.Insert with query.Update further down its own stack - not by a time limit)",
		},
	})
}

// ---------------------------------------------------------------------
// aggregate_args: a user-defined AGGREGATE with extra parameters used as an
// analytic function; the partitions are evaluated by several goroutines and
// every invocation must see the arguments of its own record.

type aggRow struct {
	G int      `json:"g"`
	V int64    `json:"v"`
	P [3]int64 `json:"p"`
}

type aggCase struct {
	Params     []string `json:"params"` // parameter names (also declared as top-level variables)
	Kind       string   `json:"kind"`   // sum count max
	Slow       int      `json:"slow"`   // index of the argument wrapped in a slow scalar function (-1: none)
	SlowLoops  int      `json:"slow_loops"`
	Partitions int      `json:"partitions"`
	Rows       []aggRow `json:"rows"`
	CPU        int      `json:"cpu"`
	Repeats    int      `json:"repeats"`
	// the last Optional parameters are declared with DEFAULT (a literal for the first parameter, else
	// `@<previous parameter> * 2 + 1`); the last Omit (<= Optional) arguments are left out of the calls
	Optional int `json:"optional,omitempty"`
	Omit     int `json:"omit,omitempty"`
}

func genAgg(t *rapid.T) aggCase {
	c := aggCase{Kind: fw.Pick(t, "kind", []string{"sum", "count", "max"}), CPU: fw.Pick(t, "cpu", []int{2, 4, 8}), Repeats: 6}
	np := rapid.IntRange(1, 3).Draw(t, "nparams")
	perm := rapid.Permutation(varPool).Draw(t, "names")
	c.Params = perm[:np]
	c.Slow = rapid.IntRange(-1, np-1).Draw(t, "slow")
	if fw.Pct(t, "optional", 60) {
		c.Optional = fw.Range(t, "noptional", 1, np)
		c.Omit = fw.Range(t, "omit", 0, c.Optional)
	}
	c.SlowLoops = rapid.IntRange(0, 60).Draw(t, "loops")
	c.Partitions = rapid.IntRange(4, 12).Draw(t, "partitions")
	n := rapid.IntRange(96, 240).Draw(t, "rows")
	c.Rows = make([]aggRow, n)
	for i := range c.Rows {
		r := aggRow{G: rapid.IntRange(0, c.Partitions-1).Draw(t, "g"), V: int64(rapid.IntRange(0, 9).Draw(t, "v"))}
		for j := 0; j < np; j++ {
			r.P[j] = int64(rapid.IntRange(0, 99).Draw(t, "p"))
		}
		c.Rows[i] = r
	}
	return c
}

func (c aggCase) program() string {
	var b strings.Builder
	for i, p := range varPool {
		fmt.Fprintf(&b, "VAR @%s := %d;\n", p, 700+i)
	}
	fmt.Fprintf(&b, "DECLARE slow FUNCTION (@a) AS BEGIN\n  VAR @k := 0;\n  WHILE @k < %d DO\n    @k := @k + 1;\n  END WHILE;\n  RETURN @a;\nEND;\n", c.SlowLoops)
	// the local accumulator / fetch variable use the pool names the parameters left over, or private names
	b.WriteString("DECLARE ag AGGREGATE (cur")
	for i, p := range c.Params {
		b.WriteString(", @" + p)
		if i >= len(c.Params)-c.Optional {
			if i == 0 {
				b.WriteString(" DEFAULT 7")
			} else {
				fmt.Fprintf(&b, " DEFAULT @%s * 2 + 1", c.Params[i-1])
			}
		}
	}
	b.WriteString(") AS BEGIN\n  VAR @s := 0;\n  VAR @x;\n  WHILE @x IN cur DO\n")
	switch c.Kind {
	case "sum":
		b.WriteString("    @s := @s + @x;\n")
	case "count":
		b.WriteString("    @s := @s + 1;\n")
	default:
		b.WriteString("    IF @x > @s THEN\n      @s := @x;\n    END IF;\n")
	}
	b.WriteString("  END WHILE;\n  RETURN @s * 1000000")
	coef := []int{10000, 100, 1}
	for i, p := range c.Params {
		fmt.Fprintf(&b, " + @%s * %d", p, coef[i])
	}
	b.WriteString(";\nEND;\n")
	args := ""
	for i := range c.Params[:len(c.Params)-c.Omit] {
		a := fmt.Sprintf("INTEGER(p%d)", i+1)
		if i == c.Slow {
			a = "slow(" + a + ")"
		}
		args += ", " + a
	}
	for i := 0; i < c.Repeats; i++ {
		fmt.Fprintf(&b, "SELECT id, ag(INTEGER(v)%s) OVER (PARTITION BY g) AS r FROM big;\n", args)
	}
	return b.String()
}

func checkAgg(c aggCase) (fw.Outcome, *fw.Violation) {
	o := fw.Outcome{}
	if len(c.Params) < 1 || len(c.Params) > 3 || len(c.Rows) == 0 || c.Repeats < 1 || c.Optional < 0 || c.Optional > len(c.Params) || c.Omit < 0 || c.Omit > c.Optional {
		o.Discard = true
		return o, nil
	}
	// model: per record, aggregate of its partition's v and the record's own arguments
	agg := map[int]int64{}
	for _, r := range c.Rows {
		switch c.Kind {
		case "sum":
			agg[r.G] += r.V
		case "count":
			agg[r.G]++
		default:
			if r.V > agg[r.G] {
				agg[r.G] = r.V
			}
		}
	}
	coef := []int64{10000, 100, 1}
	want := make([]int64, len(c.Rows))
	for i, r := range c.Rows {
		w := agg[r.G] * 1000000
		var eff [3]int64 // the value every parameter has in this record's invocation
		for j := range c.Params {
			switch {
			case j < len(c.Params)-c.Omit:
				eff[j] = r.P[j]
			case j == 0:
				eff[j] = 7
			default:
				eff[j] = eff[j-1]*2 + 1
			}
			w += eff[j] * coef[j]
		}
		want[i] = w
	}
	dir := emptyDir("c15agg")
	var b strings.Builder
	b.WriteString("id,g,v,p1,p2,p3\n")
	for i, r := range c.Rows {
		fmt.Fprintf(&b, "%d,%d,%d,%d,%d,%d\n", i, r.G, r.V, r.P[0], r.P[1], r.P[2])
	}
	if err := os.WriteFile(filepath.Join(dir, "big.csv"), []byte(b.String()), 0644); err != nil {
		return o, fw.V("harness_file", "%v", err)
	}
	text := c.program()
	r, _, err := execProgram(dir, text, c.CPU, false)
	if err != nil {
		return o, fw.V("harness_session", "%v", err)
	}
	if r.ParseErr {
		return o, fw.V("generator_syntax", "%v\n%s", r.Err, text)
	}
	if r.Err != nil {
		return o, fw.V("aggregate_unexpected_error:"+csvqErrClass(r.Err), "%v\n%s", r.Err, text)
	}
	if len(r.Views) != c.Repeats {
		return o, fw.V("aggregate_result_shape", "expected %d results, got %d", c.Repeats, len(r.Views))
	}
	for run, v := range r.Views {
		if len(v.Rows) != len(c.Rows) {
			return o, fw.V("aggregate_result_shape", "run %d: expected %d rows, got %d", run, len(c.Rows), len(v.Rows))
		}
		seen := make([]bool, len(c.Rows))
		for _, row := range v.Rows {
			id, e := strconv.Atoi(row[0].S)
			if e != nil || len(row) != 2 || id < 0 || id >= len(c.Rows) || seen[id] {
				return o, fw.V("aggregate_result_shape", "run %d: unexpected row %v", run, row)
			}
			seen[id] = true
			if row[1].K != "I" || row[1].S != strconv.FormatInt(want[id], 10) {
				return o, fw.V("aggregate_invocation_arguments", "run %d (cpu %d, %d rows, %d partitions): record id=%d g=%d p=%v got %s, expected %d: the invocation did not see its own record's arguments / partition\n%s",
					run, c.CPU, len(c.Rows), c.Partitions, id, c.Rows[id].G, c.Rows[id].P[:len(c.Params)], row[1], want[id], text)
			}
		}
	}
	o.Classes = append(o.Classes, "kind:"+c.Kind, fmt.Sprintf("params:%d", len(c.Params)), fmt.Sprintf("cpu:%d", c.CPU), fmt.Sprintf("slow_arg:%v", c.Slow >= 0),
		fmt.Sprintf("optional:%d", c.Optional), fmt.Sprintf("omitted:%d", c.Omit))
	if c.Omit > 0 && c.Omit < len(c.Params) {
		o.Classes = append(o.Classes, "default_reads_earlier_parameter")
	}
	if len(agg) >= 2 && len(c.Rows)*len(agg) > 80 {
		o.Classes = append(o.Classes, "nontrivial")
		o.Fingerprint = fmt.Sprintf("%s|%v|%d|%d|%d|%d|%d|%d.%d", c.Kind, c.Params, c.Slow, c.SlowLoops/10, len(agg), c.CPU, len(c.Rows)/16, c.Optional, c.Omit)
	}
	return o, nil
}

func TestC15AggregateArgs(t *testing.T) {
	fw.Run(t, fw.Spec[aggCase]{
		ID: "C15", Name: "aggregate_args", Quick: 400, Thorough: 8000,
		Gen: genAgg, Check: checkAgg,
		Rule:        "a user-defined AGGREGATE with 1-3 extra parameters (named like top-level variables; in 60% of the cases the last 1..n of them are optional with DEFAULT 7 for the first parameter and DEFAULT @<previous parameter> * 2 + 1 otherwise, and 0..all of the optional arguments are omitted from the calls) called as ag(v, p1[, slow(p2)][, p3]) OVER (PARTITION BY g) on 96-240 records in 4-12 partitions with cpu in {2,4,8}, the statement repeated 6 times per case; every record's value must be aggregate(partition) * 10^6 + its own arguments, an omitted argument being the DEFAULT computed from that record's own earlier parameter and never from the top-level variable of the same name (closed-form model); non-trivial = >= 2 partitions and records*partitions > 80 (csvq's threshold for evaluating partitions in several goroutines); distinct by (kind, parameter names, slow argument, partitions, cpu, size bucket)",
		Assumptions: []string{"no race-detector mode in this check: each case repeats the statement 6 times (quick: 400 cases = 2400 concurrent statements); C13 covers the same sharing under -race"},
	})
}
