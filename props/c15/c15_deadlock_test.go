package c15

import (
	"context"
	"regexp"
	"runtime"
	"strings"
	"time"

	"verif/internal/run"
)

// A statement that blocks on a lock which a frame further down the SAME
// goroutine holds can never proceed; no clock is needed to conclude that.
// execOrSelfDeadlock runs the program on its own goroutine and, while it has not
// returned, looks at the goroutine dump for exactly that picture: a goroutine
// parked in sync.(*Mutex).Lock called from one of csvq's data-modifying
// statement functions (which take Transaction.operationMutex first thing and
// keep it until they return) with another such function below it on the stack.
// The blocked session is abandoned (it is unreachable for everything else).

var dmlFrame = regexp.MustCompile(`lib/query\.(Insert|Update|Replace|Delete|CreateTable|AddColumns|DropColumns|RenameColumn|SetTableAttribute)\(`)

func selfDeadlocked() bool {
	buf := make([]byte, 8<<20)
	buf = buf[:runtime.Stack(buf, true)]
	for _, gr := range strings.Split(string(buf), "\n\n") {
		if !strings.Contains(gr, "[sync.Mutex.Lock") && !strings.Contains(gr, "[semacquire") {
			continue
		}
		lines := strings.Split(gr, "\n")
		first, count := -1, 0
		for i, ln := range lines {
			if dmlFrame.MatchString(ln) {
				if first < 0 {
					first = i
				}
				count++
			}
		}
		// the innermost csvq frame is the DML function that waits for the mutex, and an outer DML frame holds it
		if count >= 2 && first >= 0 && first <= 8 && strings.Contains(strings.Join(lines[:first], "\n"), "sync.(*Mutex).Lock") {
			return true
		}
	}
	return false
}

type execOut struct {
	r   run.Res
	out string
	err error
}

func execOrSelfDeadlock(dir, text string, cpu int) (run.Res, bool, error) {
	done := make(chan execOut, 1)
	go func() {
		s, err := run.NewSess(run.Opt{Dir: dir, CPU: cpu, Ctx: context.Background()})
		if err != nil {
			done <- execOut{err: err}
			return
		}
		r := s.Exec(text)
		s.Close()
		done <- execOut{r: r}
	}()
	tick := time.NewTicker(200 * time.Millisecond)
	defer tick.Stop()
	for {
		select {
		case o := <-done:
			return o.r, false, o.err
		case <-tick.C:
			if selfDeadlocked() {
				return run.Res{}, true, nil
			}
		}
	}
}
