package c15

import (
	"fmt"
	"strconv"
	"strings"
	"testing"

	"pgregory.net/rapid"

	"verif/internal/fw"
	"verif/internal/ref"
)

// deep: the quantifier says "to any depth", the procedure generator stops at
// five lexical blocks and recursion depth 12.  This generator builds ONE chain
// of 8-36 nested blocks (IF / CASE / WHILE / WHILE..IN / function invocation),
// every level re-declaring pool names, assigning to outer variables and
// printing everything visible again after the inner levels have ended; or a
// recursion 20-90 invocations deep in which every invocation owns locals that
// are read after the inner invocations returned.  Same oracle as the procedure
// check (reference interpreter), with larger step / call-depth limits.

var deepOpt = ref.POpt{MaxSteps: 60000, MaxDepth: 200}

type deepGen struct {
	*gen
	target int
	loops  int // levels that iterate twice (work doubles with each)
}

func (d *deepGen) decls(sc *gScope, level int) []ref.PStmt {
	g := d.gen
	var out []ref.PStmt
	if g.chance("dVar", 80) {
		if name, ok := g.declName(sc); ok {
			s := g.stmt("var")
			s.Kw, s.Name = fw.Pick(g.t, "kw", []string{"VAR", "DECLARE"}), name
			if g.chance("dLit", 50) {
				s.E = lit(int64(level % 10))
			} else {
				s.E = g.simple(sc, 0)
			}
			sc.vars[name] = &gVar{}
			out = append(out, s)
		}
	}
	if g.chance("dCur", 30) {
		if c, ok := g.cursorDecl(sc); ok {
			out = append(out, c)
			if g.chance("openNow", 70) {
				o := g.stmt("open")
				o.Name = c.Name
				sc.curs[c.Name].open = true
				out = append(out, o)
			}
		}
	}
	if g.chance("dFun", 25) {
		if free := filter(funPool, func(n string) bool { return !sc.funs[n] }); len(free) > 0 {
			f := g.stmt("func")
			f.Name, f.Var = fw.Pick(g.t, "fname", free), fw.Pick(g.t, "param", varPool)
			r := g.stmt("return")
			r.E = bin("+", varE(f.Var), lit(int64(level%10)))
			f.Body = []ref.PStmt{r}
			sc.funs[f.Name] = true
			out = append(out, f)
		}
	}
	if names := sc.setVars(); len(names) > 0 && g.chance("dSet", 50) {
		s := g.stmt("set")
		s.Name = fw.Pick(g.t, "sname", names)
		s.E = bin("+", varE(s.Name), lit(int64(g.intn("lit", 1, 3))))
		out = append(out, s)
	}
	if g.chance("dFill", 25) {
		out = append(out, g.fillers(sc, 1, 2)...)
	}
	return out
}

// far is a variable declared once at the start of the current program / function
// body under a name outside the pools: nothing shadows it, so deep levels reach
// it through every block in between.
func (d *deepGen) level(sc *gScope, level int, far string) []ref.PStmt {
	g := d.gen
	out := d.decls(sc, level)
	if g.chance("farUse", 60) {
		s := g.stmt("set")
		s.Name, s.E = far, bin("+", varE(far), lit(1))
		out = append(out, s, g.printStmt(varE(far)))
	}
	if level < d.target && !g.errDone {
		out = append(out, d.wrap(sc, level, far)...)
	}
	out = g.printVisible(sc, out)
	if g.chance("farRead", 40) {
		out = append(out, g.printStmt(varE(far)))
	}
	return g.wrapDyn(sc, out)
}

func (d *deepGen) wrap(sc *gScope, level int, far string) []ref.PStmt {
	g := d.gen
	kind := fw.Pick(g.t, "wrap", []string{"if", "if", "case", "casev", "while", "whilein", "if", "case", "while", "call"})
	twice := false
	if (kind == "while" || kind == "whilein") && d.loops < 3 && g.chance("twice", 50) {
		twice = true
		d.loops++
	}
	child := newScope(sc)
	switch kind {
	case "while":
		k := g.stmt("var")
		k.Kw, k.Name, k.E = "VAR", "k"+strconv.Itoa(k.ID), lit(0)
		sc.vars[k.Name] = &gVar{protected: true}
		n := int64(1)
		if twice {
			n = 2
		}
		w := g.stmt("while")
		w.C = &ref.PCond{K: "cmp", Op: "<", A: varE(k.Name), B: lit(n)}
		inc := g.stmt("set")
		inc.Name, inc.E = k.Name, bin("+", varE(k.Name), lit(1))
		child.inLoop = true
		w.Body = append([]ref.PStmt{inc}, d.level(child, level+1, far)...)
		return []ref.PStmt{k, w}
	case "whilein":
		c := g.stmt("cursor")
		c.Name = "cu" + strconv.Itoa(c.ID)
		c.Rows = []int64{int64(level % 10)}
		if twice {
			c.Rows = append(c.Rows, int64((level+1)%10))
		}
		o := g.stmt("open")
		o.Name = c.Name
		w := g.stmt("whilein")
		w.Name, w.Decl, w.Var = c.Name, "VAR", fw.Pick(g.t, "wvar", varPool)
		child.inLoop = true
		child.vars[w.Var] = &gVar{}
		w.Body = d.level(child, level+1, far)
		return []ref.PStmt{c, o, w}
	case "call":
		f := g.stmt("func")
		f.Name, f.Var = "fx"+strconv.Itoa(f.ID), fw.Pick(g.t, "param", varPool)
		child.boundary, child.inFunc, child.inLoop = true, true, false
		child.funcDepth = sc.funcDepth + 1
		child.vars[f.Var] = &gVar{}
		fv := g.stmt("var")
		fv.Kw, fv.Name, fv.E = "VAR", "g"+strconv.Itoa(fv.ID), lit(int64(level%10))
		f.Body = append([]ref.PStmt{fv}, d.level(child, level+1, fv.Name)...)
		if n := len(f.Body); n == 0 || f.Body[n-1].K != "return" {
			r := g.stmt("return")
			r.E = g.simple(child, 0)
			f.Body = append(f.Body, r)
		}
		return []ref.PStmt{f, g.printStmt(&ref.PExpr{K: "call", Name: f.Name, A: lit(int64(g.intn("arg", 0, 5)))})}
	}
	s := g.stmt("if")
	s.Form = kind
	nb := g.intn("branches", 1, 3)
	taken := g.intn("taken", 0, nb) // nb = the ELSE branch
	for i := 0; i < nb; i++ {
		if kind == "casev" {
			w := lit(0)
			if i == taken {
				w = lit(1)
			}
			s.Whens = append(s.Whens, *w)
		} else if i == taken {
			s.Conds = append(s.Conds, ref.PCond{K: "true"})
		} else {
			s.Conds = append(s.Conds, ref.PCond{K: "false"})
		}
		if i == taken {
			s.Blocks = append(s.Blocks, d.level(child, level+1, far))
		} else {
			s.Blocks = append(s.Blocks, []ref.PStmt{g.fallback(newScope(sc))})
		}
	}
	if kind == "casev" {
		s.E = lit(1)
	}
	if taken == nb {
		s.HasElse = true
		s.Else = d.level(child, level+1, far)
	}
	return []ref.PStmt{s}
}

func genDeep(t *rapid.T) progCase {
	g := &gen{t: t, budget: 1 << 20, errAt: -1}
	top := newScope(nil)
	var prog []ref.PStmt
	for _, v := range varPool {
		if g.chance("topVar", 60) {
			s := g.stmt("var")
			s.Kw, s.Name, s.E = "VAR", v, lit(int64(g.intn("lit", 0, 9)))
			top.vars[v] = &gVar{}
			prog = append(prog, s)
		}
	}
	if g.chance("recursion", 35) {
		// one recursive function, 20-90 invocations deep, each with its own parameter and locals
		depth := g.intn("recDepth", 20, 90)
		g.recHi = depth
		f := g.stmt("func")
		f.Name, f.Var = fw.Pick(g.t, "fname", funPool), fw.Pick(g.t, "param", varPool)
		bs := newScope(top)
		bs.boundary, bs.inFunc, bs.funcDepth = true, true, 1
		bs.recFun, bs.hideFun = f.Name, f.Name
		bs.vars[f.Var] = &gVar{protected: true}
		q := ""
		if g.pct("recParam2", 50) {
			// a second, optional parameter whose DEFAULT reads the first: every one of the 20-90 live invocations has its own
			q = fw.Pick(g.t, "param2", filter(varPool, func(n string) bool { return n != f.Var }))
			f.Params = []ref.PParam{{Name: f.Var}, {Name: q, Def: g.defaultExpr([]string{f.Var}, true)}}
			bs.vars[q] = &gVar{keep: true}
			top.sigs[f.Name] = gSig{n: 2, req: 1}
		}
		f.Body = g.recursiveBody(bs, f.Name, f.Var, q)
		g.recHi = 0
		top.funs[f.Name] = true
		prog = append(prog, f, g.printStmt(g.mkCall(top, f.Name, lit(int64(depth-g.intn("short", 0, 3))))))
		prog = g.printVisible(top, prog)
	} else {
		if g.chance("withError", 15) {
			g.errAt = g.intn("errAt", 10, 120)
		}
		d := &deepGen{gen: g, target: g.intn("depth", 8, 36)}
		fv := g.stmt("var")
		fv.Kw, fv.Name, fv.E = "VAR", "g"+strconv.Itoa(fv.ID), lit(0)
		prog = append(prog, fv)
		prog = append(prog, d.level(top, 1, fv.Name)...)
	}
	prog = append(append([]ref.PStmt{}, g.prologue...), prog...)
	repairTableShadow(prog, func() ref.PResult { return ref.RunProc(prog, deepOpt) })
	return progCase{Prog: prog, Text: ref.RenderProc(prog)}
}

func checkDeep(c progCase) (fw.Outcome, *fw.Violation) {
	o, v := checkProgOpt(c, deepOpt)
	if o.Discard || v != nil {
		return o, v
	}
	st := ref.RunProc(c.Prog, deepOpt).Stats
	bucket := func(n int) string {
		switch {
		case n >= 64:
			return "64+"
		case n >= 32:
			return "32-63"
		case n >= 16:
			return "16-31"
		case n >= 8:
			return "8-15"
		}
		return "<8"
	}
	kept := o.Classes[:0]
	for _, cl := range o.Classes {
		if !strings.HasPrefix(cl, "block_depth:") {
			kept = append(kept, cl)
		}
	}
	o.Classes = kept
	o.Classes = append(o.Classes, "deep_blocks:"+bucket(st.MaxBlockDepth), "deep_recursion:"+bucket(st.MaxRecDepth))
	o.Fingerprint = ""
	if st.MaxBlockDepth >= 16 && (st.ShadowReadAfter > 0 || st.MaxRecDepth >= 16) {
		o.Classes = append(o.Classes, "nontrivial_deep")
		o.Fingerprint = fmt.Sprintf("%d|%d|%s", st.MaxBlockDepth, st.MaxRecDepth, shape(c.Prog))
	}
	return o, nil
}

func TestC15Deep(t *testing.T) {
	fw.Run(t, fw.Spec[progCase]{
		ID: "C15", Name: "deep", Quick: 1600, Thorough: 32000,
		Gen: genDeep, Check: checkDeep,
		Rule:        "one chain of 8-36 nested blocks (IF/ELSEIF/ELSE, both CASE forms, WHILE, WHILE..IN, invocation of a function declared at that level; at most three levels iterate twice), every level declaring variables / cursors / functions under the pool names, assigning to visible outer variables and printing everything visible after the inner levels ended; or (35%) one recursive function called 17-90 invocations deep whose invocations read their own parameter and locals after the inner invocation returned (half of them with an optional second parameter whose DEFAULT is computed from the first parameter of the SAME invocation - the caller's parameter of that name is one block further out - and returned by the base case); same reference interpreter as the procedure check with limits 60000 steps / call depth 200; non-trivial = executed block depth >= 16 and (an outer object used again after its shadowing block ended, or recursion depth >= 16); distinct by depths + block tree + name pattern",
		Assumptions: []string{"same discard rules as the procedure check; the chain's own functions carry names outside the pools so that nothing else calls them (work stays linear in the depth)"},
	})
}
