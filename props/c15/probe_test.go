package c15

import (
	"pgregory.net/rapid"
	"verif/internal/ref"
	"fmt"
	"os"
	"strings"
	"testing"

	"verif/internal/fw"
	"verif/internal/run"
)


func TestProbe(t *testing.T) {
	b, err := os.ReadFile(os.Getenv("PROBE_FILE"))
	if err != nil {
		t.Skip()
	}
	for i, prog := range strings.Split(string(b), "\n====\n") {
		s, _ := run.NewSess(run.Opt{Dir: fw.WorkDir(), CaptureOut: true, CPU: 4})
		r := s.Exec(prog)
		fmt.Printf("--- program %d ---\n%s\n--- out ---\n%s--- flow=%d err=%v class=%s views=%d\n", i, prog, s.Out.String(), r.Flow, r.Err, run.ErrClass(r.Err), len(r.Views))
		s.Close()
	}
}

func TestSamples(t *testing.T) {
	if os.Getenv("C15_SAMPLES") == "" {
		t.Skip()
	}
	n := 0
	rapid.Check(t, func(rt *rapid.T) {
		c := genProg(rt)
		w := ref.RunProc(c.Prog, ref.POpt{})
		if f := os.Getenv("C15_FILTER"); f != "" && w.Err != f && w.Discard != f {
			return
		}
		n++
		if n <= 6 {
			fmt.Printf("=== sample %d\n%s--- out=%v err=%q exit=%v discard=%q stats=%+v\n", n, c.Text, w.Out, w.Err, w.Exit, w.Discard, w.Stats)
		}
	})
}
