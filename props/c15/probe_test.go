package c15

import (
	"fmt"
	"os"
	"strings"
	"testing"

	"verif/internal/fw"
	"verif/internal/run"
)

func TestMain(m *testing.M) { fw.Main(m) }

func TestProbe(t *testing.T) {
	b, err := os.ReadFile(os.Getenv("PROBE_FILE"))
	if err != nil {
		t.Skip()
	}
	for i, prog := range strings.Split(string(b), "\n====\n") {
		s, _ := run.NewSess(run.Opt{Dir: fw.WorkDir(), CaptureOut: true, CPU: 4})
		r := s.Exec(prog)
		fmt.Printf("--- program %d ---\n%s\n--- out ---\n%s--- flow=%d err=%v class=%s views=%d\n", i, prog, s.Out.String(), r.Flow, r.Err, run.ErrClass(r.Err), len(r.Views))
		s.Close()
	}
}
