package c15

import (
	"context"
	"fmt"
	"runtime"
	"strings"
	"testing"
	"time"

	"github.com/mithrandie/csvq/lib/query"
	"pgregory.net/rapid"

	"verif/internal/fw"
	"verif/internal/ref"
	"verif/internal/run"
)

// session: "a declaration exists only until that block or invocation ends" -
// a block also ends when an error leaves it.  The other checks run one program
// per session, so what an error deep inside nested blocks / invocations / loop
// iterations leaves behind (a scope released twice, not released, released
// while a caller still uses it) was only ever seen by whatever unrelated case
// the same process happened to run next, and such a sighting does not replay.
// Here one case is a HISTORY of 2-3 program segments executed one after the
// other on one session, like the inputs of the interactive shell: the earlier
// segments mostly end with an error raised inside a nest; the next segment
// keeps working - in freshly opened nests - with the top-level objects that the
// earlier ones left.  Oracle: the reference interpreter run over the same
// history (its top-level environment lives on, every inner frame of a failed
// segment is gone).

type seqCase struct {
	Segs [][]ref.PStmt `json:"segs"`
	Text []string      `json:"text"` // rendering, for the reader only
}

func genSeq(t *rapid.T) seqCase {
	g := &gen{t: t, errAt: -1}
	top := newScope(nil)
	nseg := fw.Range(g.t, "segments", 2, 3)
	var c seqCase
	for i := 0; i < nseg; i++ {
		last := i == nseg-1
		g.budget, g.count, g.errDone, g.errAt = 16, 0, false, -1
		g.noExit = !last
		if last {
			g.budget = 22
			if g.chance("withError", 20) {
				g.errAt = g.intn("errAt", 4, 16)
			}
		} else if g.pct("segError", 80) {
			g.errAt = fw.Range(g.t, "errAt", 2, 9)
		}
		var seg []ref.PStmt
		if i == 0 {
			for _, v := range varPool {
				if g.chance("topVar", 60) {
					s := g.stmt("var")
					s.Kw, s.Name, s.E = "VAR", v, lit(int64(g.intn("lit", 0, 9)))
					top.vars[v] = &gVar{}
					seg = append(seg, s)
				}
			}
		}
		seg = append(seg, g.block(top, 3, 8)...)
		if n := len(seg); !isJump(seg[n-1]) {
			seg = g.printVisible(top, seg)
		}
		seg = append(append([]ref.PStmt{}, g.prologue...), seg...)
		g.prologue = nil
		c.Segs = append(c.Segs, seg)
	}
	if avoidKnownTempTableShadow {
		for i := 0; i < 12; i++ {
			id := 0
			for _, r := range ref.RunProcSeq(c.Segs, ref.POpt{}) {
				if id == 0 {
					id = r.Stats.TableShadowStmt
				}
			}
			if id == 0 {
				break
			}
			for _, seg := range c.Segs {
				neutralise(seg, id)
			}
		}
	}
	for _, seg := range c.Segs {
		c.Text = append(c.Text, ref.RenderProc(seg))
	}
	return c
}

// drainScopePool empties csvq's pool of block scopes (sync.Pool: per-P caches,
// other Ps' caches and the victim cache are all searched by Get before a new
// scope is made), so that whatever an EARLIER case left in the pool - possibly
// a scope that was released twice - cannot decide this case: every scope the
// history uses is either new or was released by the history itself.  This is
// what makes a violation of this check replay on its own.
func drainScopePool() {
	for i := 0; i < 512; i++ {
		_ = query.GetBlockScope()
	}
}

func checkSeq(c seqCase) (fw.Outcome, *fw.Violation) {
	o := fw.Outcome{}
	if len(c.Segs) < 1 {
		o.Discard = true
		return o, nil
	}
	wants := ref.RunProcSeq(c.Segs, ref.POpt{})
	if wants[0].Discard != "" {
		o.Discard = true
		fw.AddExtra("discard:"+wants[0].Discard, 1)
		return o, nil
	}
	drainScopePool()
	dir := emptyDir("c15seq")
	for _, seg := range c.Segs {
		cleanup, err := writeSources(dir, seg)
		defer cleanup()
		if err != nil {
			return o, fw.V("harness_file", "%v", err)
		}
	}
	// the limit only ends a csvq that loops for ever (the reference has bounded the work of a correct one)
	ctx, cancel := context.WithTimeout(context.Background(), 10*time.Minute)
	defer cancel()
	s, err := run.NewSess(run.Opt{Dir: dir, CaptureOut: true, CPU: 1, Ctx: ctx})
	if err != nil {
		return o, fw.V("harness_session", "%v", err)
	}
	defer s.Close()
	var history strings.Builder
	executed, failedDeep, afterFailure := 0, 0, false
	nontrivial := false
	for i, seg := range c.Segs {
		want := wants[i]
		if want.Discard != "" {
			fw.AddExtra("segment_discard:"+want.Discard, 1)
			break
		}
		text := ref.RenderProcDir(seg, dir)
		fmt.Fprintf(&history, "-- segment %d\n%s", i+1, text)
		s.Out.Reset()
		r := s.Exec(text)
		if r.ParseErr {
			return o, fw.V("generator_syntax", "the generated segment does not parse: %v\n%s", r.Err, text)
		}
		got := observed{out: splitLines(s.Out.String()), err: csvqErrClass(r.Err), flow: r.Flow}
		if r.Err != nil {
			got.msg = r.Err.Error()
		}
		got.exit = r.Err == nil && r.Flow == query.Exit
		executed++
		if v := compare(seg, history.String(), want, got); v != nil {
			if i > 0 && !strings.HasPrefix(v.Sig, "temp_table") && v.Sig != "flow_value" {
				v.Sig = "session_" + v.Sig
				if afterFailure {
					v.Sig = "session_after_error_" + strings.TrimPrefix(v.Sig, "session_")
				}
			}
			return o, v
		}
		statClasses(&o, want.Stats)
		switch {
		case want.Err != "":
			o.Classes = append(o.Classes, fmt.Sprintf("segment%d_end:%s", i+1, want.Err), fmt.Sprintf("error_block_depth:%d", want.Stats.ErrDepth))
			afterFailure = true
			if want.Stats.ErrDepth >= 2 {
				failedDeep++
			}
		case want.Exit:
			o.Classes = append(o.Classes, fmt.Sprintf("segment%d_end:exit", i+1))
		default:
			o.Classes = append(o.Classes, fmt.Sprintf("segment%d_end:ok", i+1))
		}
		if i > 0 && failedDeep > 0 && want.Stats.ShadowDecls > 0 && want.Stats.MaxBlockDepth >= 2 {
			nontrivial = true
		}
		if want.Exit || strings.HasPrefix(want.Err, ref.PErrForcedExit) {
			break
		}
	}
	o.Classes = dedup(o.Classes)
	o.Classes = append(o.Classes, fmt.Sprintf("segments_executed:%d", executed))
	if nontrivial {
		o.Classes = append(o.Classes, "nontrivial")
		var b strings.Builder
		for _, seg := range c.Segs {
			b.WriteString(shape(seg))
			b.WriteString("|")
		}
		o.Fingerprint = b.String()
	}
	return o, nil
}

func dedup(l []string) []string {
	seen := map[string]bool{}
	out := l[:0]
	for _, x := range l {
		if !seen[x] {
			seen[x] = true
			out = append(out, x)
		}
	}
	return out
}

func TestC15Session(t *testing.T) {
	// One P for the duration of this check: csvq's scope pool is a sync.Pool with
	// per-P caches, so with several Ps it depends on goroutine migration whether a
	// scope that a failed segment released twice is handed out twice afterwards.
	// The histories run with CPU 1 and need no parallelism; with a single P (and
	// the pool drained before every case) a violation replays on its own.
	prev := runtime.GOMAXPROCS(1)
	defer runtime.GOMAXPROCS(prev)
	fw.Run(t, fw.Spec[seqCase]{
		ID: "C15", Name: "session", Quick: 12000, Thorough: 160000,
		Gen: genSeq, Check: checkSeq,
		Rule: "a history of 2-3 program segments (<= 16 / 22 statements each, same statement generator as the procedure check incl. multi-parameter functions with DEFAULTs, DISPOSE, dynamic declarations) executed one after the other by ONE session, like inputs of the interactive shell; 80% of the non-final segments contain one deliberate error (undeclared / redeclared object, closed cursor, fetch length, argument count, DISPOSE of a missing object) that is raised inside whatever nest of IF/CASE/WHILE/WHILE..IN blocks and function invocations the generator was in; the following segment re-declares, shadows, reads and assigns the top-level objects the earlier ones left and opens new nests; every segment's PRINT lines, terminating error class and flow are compared with the reference interpreter run over the same history (top-level environment persists, every inner frame of a failed segment is gone); EXIT is generated in the last segment only; non-trivial = a segment ended with an error raised at block depth >= 2 and a later segment executed a shadowing declaration inside a child block; distinct by the block trees + name patterns of all segments",
		Assumptions: []string{
			"same discard rules as the procedure check; a segment whose outcome the reference does not predict ends the comparison of the history there (the segments before it still count)",
			"what a failing statement itself leaves behind is only relied on where the procedure model already defines it (the statement has no effect; FETCH with a wrong number of variables moves the pointer first) - csvq's own behaviour on the unchanged tree agrees in all generated histories",
			"no COMMIT / ROLLBACK between the segments; the session is closed (rollback) after the last one",
		},
	})
}
