package c03

// Extensions of the C03 select check: behaviour inside the property statement
// that the generator of TestC03Select never produces.
//
//	subquery_predicates  nested queries inside conditions and select lists
//	                     ([NOT] EXISTS, [NOT] IN (query), op ANY/ALL (query),
//	                     scalar subqueries), correlated with the enclosing row,
//	                     in WHERE, ON and the select list, also over tables big
//	                     enough for the filter / join goroutines
//	deep_nesting         queries nested 4-7 levels deep (subqueries, LATERAL
//	                     chains that refer to columns several levels up, WITH
//	                     clauses inside subqueries)
//	table_sources        the same relational operators over every kind of table
//	                     the FROM clause accepts: CSV/TSV/JSON/JSONL/LTSV files
//	                     named bare, with extension, through CSV()/JSON()/
//	                     JSONL()/LTSV(), FILE::(), INLINE::(), and STDIN
//	recursive_union      WITH RECURSIVE combined by UNION (the form the manual
//	                     calls usual) and UNION ALL over chains, trees, DAGs
//	                     with diamonds and cyclic graphs, with
//	                     @@LIMIT_RECURSION set: the result must be the documented
//	                     iteration, or the limit error when the iteration
//	                     cannot end within the limit
//
// All of them use the reference interpreter of the select check as oracle.

import (
	"encoding/json"
	"fmt"
	"sort"
	"strings"
	"testing"

	"pgregory.net/rapid"

	"verif/internal/fw"
	"verif/internal/ref"
	"verif/internal/run"
	"verif/internal/val"
)

func nRows(res run.Res) int {
	if len(res.Views) == 0 {
		return 0
	}
	return len(res.Views[0].Rows)
}

// ---------------------------------------------------------------------
// files of the other formats

func jsonCell(v val.Val) string {
	switch v.K {
	case "N":
		return "null"
	case "I":
		return v.S
	}
	b, _ := json.Marshal(v.S)
	return string(b)
}

func jsonObject(tb ref.SelTable, r []val.Val) string {
	parts := make([]string, len(r))
	for i, v := range r {
		parts[i] = fmt.Sprintf("%q:%s", tb.Cols[i], jsonCell(v))
	}
	return "{" + strings.Join(parts, ",") + "}"
}

func fileText(tb ref.SelTable) string {
	switch tb.Format {
	case "tsv":
		return strings.ReplaceAll(csvText(tb), ",", "\t") // cells never hold a comma (tablesInDomain)
	case "json":
		rows := make([]string, len(tb.Rows))
		for i, r := range tb.Rows {
			rows[i] = jsonObject(tb, r)
		}
		return "[" + strings.Join(rows, ",\n") + "]\n"
	case "jsonl":
		var b strings.Builder
		for _, r := range tb.Rows {
			b.WriteString(jsonObject(tb, r) + "\n")
		}
		return b.String()
	case "ltsv":
		var b strings.Builder
		for _, r := range tb.Rows {
			for i, v := range r {
				if i > 0 {
					b.WriteString("\t")
				}
				b.WriteString(tb.Cols[i] + ":")
				if !v.IsNull() {
					b.WriteString(v.S)
				}
			}
			b.WriteString("\n")
		}
		return b.String()
	}
	return csvText(tb)
}

// ---------------------------------------------------------------------
// generator extensions

// subPredExpr builds a condition with a nested query; the nested query sees
// the columns of the enclosing queries (g.predScope) and mostly refers to them.
func (g *genCtx) subPredExpr(refs []colRef) *ref.SelExpr {
	scope, depth := g.predScope, g.predDepth
	defer func() { g.predScope, g.predDepth = scope, depth }()
	nested := func(one bool) *ref.SelQuery {
		g.wantOne = one
		inner, restore := g.innerCTEs(depth + 1)
		q, _ := g.query(depth+1, scope, false)
		q.With = inner
		restore()
		return q
	}
	switch fw.Weighted(g.t, "subPredKind", []int{30, 30, 27, 13}) {
	case 0:
		return &ref.SelExpr{Kind: "exists", Neg: fw.Pct(g.t, "notExists", 40), Sub: nested(false)}
	case 1:
		a := g.operand(refs, true)
		return &ref.SelExpr{Kind: "insub", Neg: fw.Pct(g.t, "notInSub", 40), Args: []*ref.SelExpr{a}, Sub: nested(true)}
	case 2:
		a := g.operand(refs, true)
		return &ref.SelExpr{Kind: "quant", Op: fw.PickU(g.t, "quantOp", cmpOps), Quant: fw.PickU(g.t, "quant", []string{"ANY", "ALL"}),
			Args: []*ref.SelExpr{a}, Sub: nested(true)}
	}
	a := g.operand(refs, true)
	sc := &ref.SelExpr{Kind: "scalar", Sub: g.scalarQuery(scope, depth)}
	args := []*ref.SelExpr{a, sc}
	if fw.Pct(g.t, "scalarLeft", 30) {
		args = []*ref.SelExpr{sc, a}
	}
	return &ref.SelExpr{Kind: "cmp", Op: fw.PickU(g.t, "cmpOp", cmpOps), Args: args}
}

// scalarQuery: a nested query with one field that tends to return at most one
// record (no FROM clause, or one small source filtered by an equality with a
// column of the enclosing row); the cases in which it returns more are put
// aside by the check.
func (g *genCtx) scalarQuery(scope []ref.SelCol, depth int) *ref.SelQuery {
	orefs := g.refsFor(scope, scope)
	if len(orefs) > 0 && fw.Pct(g.t, "scalarNoFrom", 35) {
		return &ref.SelQuery{Fields: []ref.SelField{{Expr: g.arith(orefs)}}}
	}
	g.wantOne = true
	q, _ := g.query(depth+1, scope, false)
	return q
}

func (g *genCtx) scalarSub(visible []ref.SelCol, depth int) *ref.SelExpr {
	scope, d := g.predScope, g.predDepth
	defer func() { g.predScope, g.predDepth = scope, d }()
	return &ref.SelExpr{Kind: "scalar", Sub: g.scalarQuery(visible, depth)}
}

// innerCTEs: with probability innerWith the next nested query gets a WITH
// clause of its own; the common table expression is visible inside that query
// only (restore ends its scope).
func (g *genCtx) innerCTEs(depth int) ([]ref.SelCTE, func()) {
	if g.innerWith == 0 || depth >= g.maxDepth || !fw.Pct(g.t, "innerWith", g.innerWith) {
		return nil, func() {}
	}
	savedPending, savedN, savedDepth := g.pending, len(g.ctes), g.cteDepth
	savedScope, savedPD, savedOne := g.predScope, g.predDepth, g.wantOne
	g.pending, g.cteDepth, g.wantOne = nil, depth+1, false
	// shadowing: the inner expression takes the name of a visible outer one,
	// which is hidden inside this query (the body of the inner one still sees it)
	shadow := -1
	if savedN > 0 && fw.Pct(g.t, "shadowCTE", 25) {
		shadow = fw.Uniform(g.t, "shadowed", savedN)
		g.cteName = g.ctes[shadow].name
	}
	g.cte()
	inner := g.pending
	g.pending, g.cteDepth = savedPending, savedDepth
	g.predScope, g.predDepth, g.wantOne = savedScope, savedPD, savedOne
	var hidden cteInfo
	if shadow >= 0 {
		hidden = g.ctes[shadow]
		g.ctes[shadow] = g.ctes[len(g.ctes)-1]
		g.ctes = g.ctes[:len(g.ctes)-1]
	}
	return inner, func() {
		g.ctes = g.ctes[:savedN]
		if shadow >= 0 {
			g.ctes[shadow] = hidden
		}
	}
}

// sourceForm decides how a file table is written; true: an alias is needed.
func (g *genCtx) sourceForm(s *ref.SelSource, tb ref.SelTable) bool {
	s.Fmt = tb.Format
	if tb.Format == "stdin" {
		s.Ext = false
		return true
	}
	switch fw.Weighted(g.t, "sourceForm", []int{40, 30, 12, 18}) {
	case 1:
		s.Form = "func"
	case 2:
		s.Form = "file"
	case 3:
		s.Form = "inline"
	}
	return s.Form != ""
}

// assignFormats gives the file tables a format; JSON formats carry integers as
// integers, LTSV has no empty strings, formats without a header line need a
// record; at most one table is the standard input.
func assignFormats(t *rapid.T, tables []ref.SelTable) {
	stdin := false
	for i := range tables {
		tb := &tables[i]
		if !tb.File && fw.Pct(t, "moreFiles", 50) && len(tb.Rows) <= 30 {
			// a temporary table becomes a file: its integers become text
			tb.File = true
			for _, r := range tb.Rows {
				for j, v := range r {
					if v.K == "I" {
						r[j] = val.Str(v.S)
					}
				}
			}
		}
		if !tb.File {
			continue
		}
		f := []string{"", "tsv", "json", "jsonl", "ltsv", "stdin"}[fw.Weighted(t, "format", []int{16, 16, 20, 16, 18, 14})]
		if f == "stdin" && stdin {
			f = "tsv"
		}
		if len(tb.Rows) == 0 && (f == "json" || f == "jsonl" || f == "ltsv") {
			f = ""
		}
		switch f {
		case "stdin":
			stdin = true
		case "json", "jsonl":
			for _, r := range tb.Rows {
				for j, v := range r {
					if i, ok := ref.AsInteger(v); ok && v.K == "S" && v.S == fmt.Sprintf("%d", i) && fw.Pct(t, "jsonNumber", 70) {
						r[j] = val.Int(i)
					}
				}
			}
		case "ltsv":
			for _, r := range tb.Rows {
				for j, v := range r {
					if v.K == "S" && v.S == "" {
						r[j] = val.Null
					}
				}
			}
		}
		tb.Format = f
	}
}

// ---------------------------------------------------------------------
// static description of the extensions

type extWalk struct {
	srcForms  map[string]bool
	predPos   map[string]bool
	innerWith int
	maxLat    int
	shadow    bool
	names     []string // names of the common table expressions visible at the point of the walk
}

func (w *extWalk) query(q *ref.SelQuery, top bool, lat int) {
	if q == nil {
		return
	}
	if !top && len(q.With) > 0 {
		w.innerWith++
	}
	nNames := len(w.names)
	defer func() { w.names = w.names[:nNames] }()
	for _, c := range q.With {
		w.query(c.Query, false, 0)
		w.query(c.Step, false, 0)
		for _, n := range w.names[:nNames] {
			if n == c.Name {
				w.shadow = true
			}
		}
		w.names = append(w.names, c.Name)
	}
	for _, s := range q.From {
		w.source(s, lat)
	}
	w.expr(q.Where, "where", lat)
	for _, f := range q.Fields {
		w.expr(f.Expr, "select", lat)
	}
}

func (w *extWalk) source(s *ref.SelSource, lat int) {
	if s == nil {
		return
	}
	switch s.Kind {
	case "table":
		if s.Fmt != "" || s.Form != "" || s.Ext {
			form := s.Form
			if form == "" {
				form = "name"
				if s.Ext {
					form = "name_ext"
				}
			}
			f := s.Fmt
			if f == "" {
				f = "csv"
			}
			w.srcForms[f+":"+form] = true
		}
	case "sub":
		l := lat
		if s.Lateral {
			l++
			if l > w.maxLat {
				w.maxLat = l
			}
		}
		w.query(s.Sub, false, l)
	case "join":
		w.source(s.Left, lat)
		w.source(s.Right, lat)
		w.expr(s.On, "on", lat)
	}
}

func (w *extWalk) expr(e *ref.SelExpr, pos string, lat int) {
	if e == nil {
		return
	}
	if e.Sub != nil {
		name := e.Kind
		switch e.Kind {
		case "quant":
			name = strings.ToLower(e.Quant)
		case "exists", "insub":
			if e.Neg {
				name = "not_" + name
			}
		}
		w.predPos[name+"@"+pos] = true
		w.query(e.Sub, false, lat)
	}
	for _, a := range e.Args {
		w.expr(a, pos, lat)
	}
}

// eachQuery visits q and every query nested in it (CTE bodies, subqueries in
// FROM, nested queries of expressions); eachSource every table source.
func eachQuery(q *ref.SelQuery, fq func(*ref.SelQuery), fs func(*ref.SelSource)) {
	if q == nil {
		return
	}
	fq(q)
	var inExpr func(e *ref.SelExpr)
	var inSource func(s *ref.SelSource)
	inExpr = func(e *ref.SelExpr) {
		if e == nil {
			return
		}
		eachQuery(e.Sub, fq, fs)
		for _, a := range e.Args {
			inExpr(a)
		}
	}
	inSource = func(s *ref.SelSource) {
		switch {
		case s == nil:
		case s.Kind == "table":
			fs(s)
		case s.Kind == "sub":
			eachQuery(s.Sub, fq, fs)
		case s.Kind == "join":
			inSource(s.Left)
			inSource(s.Right)
			inExpr(s.On)
		}
	}
	for _, c := range q.With {
		eachQuery(c.Query, fq, fs)
		eachQuery(c.Step, fq, fs)
	}
	for _, s := range q.From {
		inSource(s)
	}
	inExpr(q.Where)
	for _, f := range q.Fields {
		inExpr(f.Expr)
	}
}

// A query without FROM clause reads the standard input when csvq has one
// (`cat f.csv | csvq "SELECT c1"`), not the one-record DUAL table: with a
// STDIN table the reference interpreter is only an oracle for queries in which
// every SELECT has a FROM clause.
func hasFromless(q *ref.SelQuery) bool {
	found := false
	eachQuery(q, func(x *ref.SelQuery) {
		if len(x.From) == 0 {
			found = true
		}
	}, func(*ref.SelSource) {})
	return found
}

func stdinTable(tables []ref.SelTable) int {
	for i, tb := range tables {
		if tb.Format == "stdin" {
			return i
		}
	}
	return -1
}

func describeExt(q *ref.SelQuery) *extWalk {
	w := &extWalk{srcForms: map[string]bool{}, predPos: map[string]bool{}}
	w.query(q, true, 0)
	return w
}

func stepsBucket(n int) string {
	switch {
	case n == 0:
		return "0"
	case n <= 2:
		return "1-2"
	case n <= 5:
		return "3-5"
	}
	return "6+"
}

func extClasses(c selCase, mode string, st ref.SelStats, limitExceeded bool) []string {
	if mode == "select" {
		return nil
	}
	w := describeExt(c.Query)
	var out []string
	for _, k := range fw.SortedKeys(w.predPos) {
		out = append(out, "nested:"+k)
	}
	for _, k := range fw.SortedKeys(w.srcForms) {
		out = append(out, "src:"+k)
	}
	if w.innerWith > 0 {
		out = append(out, "inner_with")
	}
	if w.shadow {
		out = append(out, "inner_with_shadows_outer_name")
	}
	if w.maxLat > 1 {
		out = append(out, fmt.Sprintf("lateral_chain:%d", w.maxLat))
	}
	if st.SubEvals > 0 {
		out = append(out, "nested_query_evaluated")
		if st.SubTrue > 0 && st.SubNotTrue > 0 {
			out = append(out, "nested_predicate_both_outcomes")
		}
		if st.SubUnknown > 0 {
			out = append(out, "nested_predicate_unknown")
		}
		if st.ScalarEmpty > 0 {
			out = append(out, "scalar_without_record")
		}
	}
	if mode == "recursive_union" {
		for _, cte := range c.Query.With {
			if cte.Recursive && cte.Distinct {
				out = append(out, "rec:union")
			} else if cte.Recursive {
				out = append(out, "rec:union_all")
			}
		}
		out = append(out, "rec:steps:"+stepsBucket(st.RecSteps))
		if st.RecDupRemoved > 0 {
			out = append(out, "rec:duplicates_removed")
		}
		if c.Limit > 0 {
			out = append(out, "rec:limit_set")
		}
		if limitExceeded {
			out = append(out, "rec:limit_error_expected")
		}
	}
	return out
}

// extFingerprint: "" = the case does not exercise what the mode is about.
func extFingerprint(c selCase, mode string, st ref.SelStats, limitErr bool) string {
	w := describeExt(c.Query)
	ops, depth, _, _, _ := ref.SelOps(c.Query)
	size := sizeClass(c.Tables)
	switch mode {
	case "subquery_predicates":
		if st.SubEvals == 0 || len(w.predPos) == 0 {
			return ""
		}
		return fmt.Sprintf("%s|%s|both%v|unk%v|empty%v", strings.Join(fw.SortedKeys(w.predPos), ","), size,
			st.SubTrue > 0 && st.SubNotTrue > 0, st.SubUnknown > 0, st.ScalarEmpty > 0)
	case "deep_nesting":
		if depth < 4 {
			return ""
		}
		return fmt.Sprintf("%s|d%d|with%v|lat%d", strings.Join(ops, ","), depth, w.innerWith > 0, w.maxLat)
	case "table_sources":
		if len(w.srcForms) == 0 {
			return ""
		}
		return fmt.Sprintf("%s|%s", strings.Join(fw.SortedKeys(w.srcForms), ","), strings.Join(ref.SelOpNames(c.Query), ","))
	case "recursive_union":
		if st.RecSteps == 0 {
			return ""
		}
		kind := ""
		for _, cte := range c.Query.With {
			if cte.Recursive {
				kind += fmt.Sprintf("%dcols,distinct%v;", len(cte.Cols), cte.Distinct)
			}
		}
		return fmt.Sprintf("%s|steps%s|dups%v|limit%v|err%v|%s", kind, stepsBucket(st.RecSteps), st.RecDupRemoved > 0, c.Limit > 0, limitErr,
			strings.Join(ref.SelOpNames(c.Query), ","))
	}
	return ""
}

// ---------------------------------------------------------------------
// generators of the modes that reuse the query generator

func genModeCase(mode string) func(t *rapid.T) selCase {
	return func(t *rapid.T) selCase {
		var sizeW []int
		switch mode {
		case "subquery_predicates":
			sizeW = []int{62, 24, 14}
		case "deep_nesting":
			sizeW = []int{100, 0, 0}
		default:
			sizeW = []int{70, 20, 10}
		}
		size := []string{"small", "medium", "large"}[fw.Weighted(t, "size", sizeW)]
		c := selCase{Tables: genTables(t, size)}
		switch size {
		case "small":
			c.CPU = fw.PickU(t, "cpu", []int{1, 1, 1, 4})
		case "medium":
			c.CPU = fw.PickU(t, "cpuMedium", []int{4, 2, 1, 3, 8})
		default:
			// worker counts that do not divide the row counts evenly
			c.CPU = fw.PickU(t, "cpuLarge", []int{4, 2, 3, 5, 7, 8, 13, 16})
		}
		g := &genCtx{t: t, used: map[string]bool{}, maxDepth: 2, hints: map[string][]val.Val{}, noComma3: true}
		if size == "large" {
			g.maxDepth = 1
		}
		switch mode {
		case "subquery_predicates":
			g.subPred, g.scalarFld, g.wherePct = 45, 8, 85
		case "deep_nesting":
			// tiny tables: every level multiplies the work
			for i := range c.Tables {
				if n := fw.Range(t, "deepRows", 1, 3); len(c.Tables[i].Rows) > n {
					c.Tables[i].Rows = c.Tables[i].Rows[:n]
				}
			}
			g.maxDepth = fw.Range(t, "maxDepth", 3, 6)
			g.subWeight, g.innerWith, g.subPred = 90, 30, 12
			g.lateralPc, g.deepJoins = 40, true
		case "table_sources":
			assignFormats(t, c.Tables)
			g.sources = true
		}
		g.tables, g.pool = c.Tables, valuePool(c.Tables)
		if fw.Pct(t, "with", 35) {
			g.cte()
			if fw.Pct(t, "with2", 30) {
				g.cte()
			}
		}
		q, _ := g.query(0, nil, false)
		q.With = g.pending
		joinBindsRightShape(q, true) // reported by the select check: written with parentheses here
		if i := stdinTable(c.Tables); i >= 0 && hasFromless(q) {
			// the standard input would be read by the SELECTs without FROM: the table is a CSV file instead
			c.Tables[i].Format = ""
			eachQuery(q, func(*ref.SelQuery) {}, func(s *ref.SelSource) {
				if s.Fmt == "stdin" {
					s.Fmt = ""
				}
			})
		}
		if size != "large" && q.Where != nil {
			if r, err := ref.SelEval(c.Tables, q, ref.SelReading{}); err == nil && len(r.Rows) == 0 && fw.Pct(t, "dropEmptyWhere", 75) {
				q.Where = nil
			}
		}
		c.Query = q
		c.SQL = ref.SelSQL(q)
		return c
	}
}

// ---------------------------------------------------------------------
// recursive_union: generator

func genRecCase(t *rapid.T) selCase {
	c := selCase{CPU: fw.PickU(t, "cpu", []int{1, 1, 4})}
	file := fw.Pct(t, "file", 50)
	cell := func(i int) val.Val {
		if file {
			return val.Str(fmt.Sprintf("%d", i))
		}
		return val.Int(int64(i))
	}
	nNodes := fw.Range(t, "nNodes", 3, 6)
	graph := fw.PickU(t, "graph", []string{"chain", "tree", "dag", "dag", "cyclic", "cyclic"})
	type edge struct{ a, b int }
	var edges []edge
	switch graph {
	case "chain":
		for i := 0; i+1 < nNodes; i++ {
			edges = append(edges, edge{i, i + 1})
		}
	case "tree":
		for j := 1; j < nNodes; j++ {
			edges = append(edges, edge{fw.Uniform(t, "parent", j), j})
		}
	default:
		for i, n := 0, fw.Range(t, "nEdges", 2, 7); i < n; i++ {
			a := fw.Uniform(t, "from", nNodes-1)
			edges = append(edges, edge{a, a + 1 + fw.Uniform(t, "to", nNodes-1-a)})
		}
		if graph == "cyclic" {
			for i, n := 0, fw.Range(t, "nBack", 1, 2); i < n; i++ {
				b := fw.Uniform(t, "backFrom", nNodes)
				edges = append(edges, edge{b, fw.Uniform(t, "backTo", b+1)})
			}
		}
	}
	if fw.Pct(t, "dupEdge", 30) {
		edges = append(edges, edges[fw.Uniform(t, "dupOf", len(edges))])
	}
	e := ref.SelTable{Name: "t1", File: file, Cols: []string{"src", "dst"}}
	swap := fw.Pct(t, "swapCols", 30)
	if swap {
		e.Cols = []string{"dst", "src"}
	}
	row := func(a, b val.Val) []val.Val {
		if swap {
			return []val.Val{b, a}
		}
		return []val.Val{a, b}
	}
	for _, ed := range edges {
		e.Rows = append(e.Rows, row(cell(ed.a), cell(ed.b)))
	}
	if fw.Pct(t, "nullDst", 20) {
		e.Rows = append(e.Rows, row(cell(fw.Uniform(t, "nullDstFrom", nNodes)), val.Null))
	}
	if fw.Pct(t, "nullSrc", 12) {
		e.Rows = append(e.Rows, row(val.Null, cell(fw.Uniform(t, "nullSrcTo", nNodes))))
	}
	perm := rapid.Permutation(e.Rows).Draw(t, "edgeOrder")
	e.Rows = perm
	lab := ref.SelTable{Name: "t2", File: fw.Pct(t, "file2", 50), Cols: []string{"k", "b1"}}
	for i := 0; i < nNodes; i++ {
		if fw.Pct(t, "labelled", 70) {
			k := val.Int(int64(i))
			if lab.File {
				k = val.Str(fmt.Sprintf("%d", i))
			}
			lab.Rows = append(lab.Rows, []val.Val{k, val.Str(fw.PickU(t, "label", []string{"a", "b", "ab", "c"}))})
		}
	}
	c.Tables = []ref.SelTable{e, lab}

	col := func(view, name string) *ref.SelExpr { return colE(colRef{View: view, Col: name}) }
	intLit := func(i int) *ref.SelExpr { return litE(val.Int(int64(i))) }
	cmp := func(op string, a, b *ref.SelExpr) *ref.SelExpr {
		return &ref.SelExpr{Kind: "cmp", Op: op, Args: []*ref.SelExpr{a, b}}
	}
	cte := ref.SelCTE{Name: "r", Recursive: true, Distinct: fw.Pct(t, "distinct", 60)}
	rec := &ref.SelSource{Kind: "table", Name: "r"}
	rv := "r"
	if fw.Pct(t, "recAlias", 35) {
		rec.Alias = "w"
		rv = "w"
	}
	edgeSrc := &ref.SelSource{Kind: "table", Name: "t1", Alias: "e"}
	start := fw.Uniform(t, "start", 2)
	baseQ := func(withDepth bool) *ref.SelQuery {
		var q *ref.SelQuery
		switch fw.Weighted(t, "base", []int{45, 30, 25}) {
		case 0:
			q = &ref.SelQuery{Fields: []ref.SelField{{Expr: litE(cell(start))}}}
		case 1:
			q = &ref.SelQuery{From: []*ref.SelSource{{Kind: "table", Name: "t1", Alias: "b"}},
				Where:  cmp("=", col("b", "src"), intLit(start)),
				Fields: []ref.SelField{{Expr: col("b", "src")}}}
		default:
			q = &ref.SelQuery{From: []*ref.SelSource{{Kind: "table", Name: "t1", Alias: "b"}},
				Where:  &ref.SelExpr{Kind: "isnull", Neg: true, Args: []*ref.SelExpr{col("b", "src")}},
				Fields: []ref.SelField{{Expr: col("b", "src")}}}
		}
		if withDepth {
			q.Fields = append(q.Fields, ref.SelField{Expr: intLit(0)})
		}
		return q
	}
	link := cmp("=", col("e", "src"), col(rv, "node"))
	form := []string{"reach", "depth", "counter", "flip"}[fw.Weighted(t, "form", []int{45, 25, 15, 15})]
	first := "node"
	switch form {
	case "reach":
		cte.Cols = []string{"node"}
		cte.Query = baseQ(false)
		step := &ref.SelQuery{Fields: []ref.SelField{{Expr: col("e", "dst")}}}
		switch fw.Weighted(t, "stepKind", []int{38, 20, 14, 14, 14}) {
		case 0:
			step.From = []*ref.SelSource{{Kind: "join", JoinType: "INNER", Left: rec, Right: edgeSrc, On: link}}
			if fw.Pct(t, "skipNull", 50) {
				step.Where = &ref.SelExpr{Kind: "isnull", Neg: true, Args: []*ref.SelExpr{col("e", "dst")}}
			}
		case 1:
			step.From = []*ref.SelSource{rec, edgeSrc}
			step.Where = link
		case 2: // the temporary view inside IN (query)
			step.From = []*ref.SelSource{edgeSrc}
			step.Where = &ref.SelExpr{Kind: "insub", Args: []*ref.SelExpr{col("e", "src")},
				Sub: &ref.SelQuery{From: []*ref.SelSource{rec}, Fields: []ref.SelField{{Expr: col(rv, "node")}}}}
		case 3: // ... inside a correlated EXISTS
			step.From = []*ref.SelSource{edgeSrc}
			step.Where = &ref.SelExpr{Kind: "exists",
				Sub: &ref.SelQuery{From: []*ref.SelSource{rec}, Where: link, Fields: []ref.SelField{{Expr: intLit(1)}}}}
		default: // ... inside a derived table
			step.From = []*ref.SelSource{{Kind: "sub", Alias: "s", Sub: &ref.SelQuery{
				From:   []*ref.SelSource{{Kind: "join", JoinType: "INNER", Left: rec, Right: edgeSrc, On: link}},
				Fields: []ref.SelField{{Expr: col("e", "dst")}}}}}
			step.Fields = []ref.SelField{{Expr: col("s", "dst")}}
		}
		cte.Step = step
	case "depth":
		cte.Cols = []string{"node", "d"}
		cte.Query = baseQ(true)
		bound := fw.Range(t, "bound", 1, 5)
		cte.Step = &ref.SelQuery{
			From:  []*ref.SelSource{{Kind: "join", JoinType: "INNER", Left: rec, Right: edgeSrc, On: link}},
			Where: cmp("<", col(rv, "d"), intLit(bound)),
			Fields: []ref.SelField{{Expr: col("e", "dst")},
				{Expr: &ref.SelExpr{Kind: "arith", Op: "+", Args: []*ref.SelExpr{col(rv, "d"), intLit(1)}}}},
		}
	case "counter":
		first = "n"
		cte.Cols = []string{"n"}
		lo := fw.Range(t, "lo", 0, 2)
		hi := lo + fw.Range(t, "span", 0, 9)
		cte.Query = &ref.SelQuery{Fields: []ref.SelField{{Expr: intLit(lo)}}}
		cte.Step = &ref.SelQuery{From: []*ref.SelSource{rec},
			Where:  cmp("<", col(rv, "n"), intLit(hi)),
			Fields: []ref.SelField{{Expr: &ref.SelExpr{Kind: "arith", Op: "+", Args: []*ref.SelExpr{col(rv, "n"), intLit(fw.PickU(t, "inc", []int{1, 1, 2}))}}}}}
	default: // flip: n -> m - n never ends
		first = "n"
		cte.Cols = []string{"n"}
		cte.Query = &ref.SelQuery{Fields: []ref.SelField{{Expr: intLit(fw.Range(t, "flipStart", 0, 2))}}}
		cte.Step = &ref.SelQuery{From: []*ref.SelSource{rec},
			Fields: []ref.SelField{{Expr: &ref.SelExpr{Kind: "arith", Op: "-", Args: []*ref.SelExpr{intLit(fw.Range(t, "flipSum", 1, 4)), col(rv, "n")}}}}}
	}
	// the limit: always set where the iteration may not end by itself
	if form == "flip" || graph == "cyclic" && form == "reach" || fw.Pct(t, "limit", 55) {
		c.Limit = fw.Range(t, "limitValue", 1, 9)
	}
	q := &ref.SelQuery{With: []ref.SelCTE{cte}}
	switch fw.Weighted(t, "main", []int{30, 20, 20, 15, 15}) {
	case 0:
		q.From = []*ref.SelSource{{Kind: "table", Name: "r"}}
		q.Fields = []ref.SelField{{Star: true}}
	case 1:
		q.From = []*ref.SelSource{{Kind: "table", Name: "r", Alias: "x"}}
		q.Where = cmp(fw.PickU(t, "mainOp", []string{">=", "<>", "<", "="}), col("x", first), intLit(fw.Range(t, "mainLit", 0, 3)))
		q.Fields = []ref.SelField{{Expr: col("x", first)}}
	case 2:
		q.From = []*ref.SelSource{{Kind: "join", JoinType: fw.PickU(t, "mainJoin", []string{"LEFT", "INNER", "FULL"}),
			Left: &ref.SelSource{Kind: "table", Name: "r", Alias: "x"}, Right: &ref.SelSource{Kind: "table", Name: "t2", Alias: "y"},
			On: cmp("=", col("y", "k"), col("x", first))}}
		q.Fields = []ref.SelField{{Expr: col("x", first)}, {Expr: col("y", "b1")}}
	case 3:
		q.From = []*ref.SelSource{{Kind: "join", JoinType: "INNER",
			Left: &ref.SelSource{Kind: "table", Name: "r", Alias: "x"}, Right: &ref.SelSource{Kind: "table", Name: "r", Alias: "y"},
			On: cmp(fw.PickU(t, "selfOp", []string{"=", "<"}), col("x", first), col("y", first))}}
		q.Fields = []ref.SelField{{Expr: col("x", first)}, {Expr: col("y", first), Alias: "y1"}}
	default:
		q.From = []*ref.SelSource{{Kind: "table", Name: "t2", Alias: "y"}}
		q.Where = &ref.SelExpr{Kind: "insub", Neg: fw.Pct(t, "mainNotIn", 30), Args: []*ref.SelExpr{col("y", "k")},
			Sub: &ref.SelQuery{From: []*ref.SelSource{{Kind: "table", Name: "r"}}, Fields: []ref.SelField{{Expr: col("r", first)}}}}
		q.Fields = []ref.SelField{{Star: true}}
	}
	c.Query = q
	c.SQL = ref.SelSQL(q)
	return c
}

// ---------------------------------------------------------------------
// tests

const assumeKnownShapes = "the four defect shapes the select check reports (known_findings.jsonl) are not judged again: join_after_cross_or_natural_binds_right and the three-item comma list are avoided by construction, lateral_empty_left_header_lost and star_duplicate_using_column cases are put aside and counted (discarded_known_defect_shape)"

func TestC03SubqueryPredicates(t *testing.T) {
	fw.Run(t, fw.Spec[selCase]{
		ID: "C03", Name: "subquery_predicates", Quick: 3000, Thorough: 60000,
		Gen: genModeCase("subquery_predicates"), Check: func(c selCase) (fw.Outcome, *fw.Violation) { return checkSel(c, "subquery_predicates") },
		Rule: "the tables and the query IR of the select check (62% small, 24% 7-30 rows, 14% with a 160-400 row table and --cpu 2-16; a WHERE clause in 85% of the queries) where 45% of the condition leaves (WHERE, ON, conditions of nested queries) are [NOT] EXISTS (query), x [NOT] IN (query), x op ANY|ALL (query) or a comparison with a scalar subquery, and 8% of the select-list items are scalar subqueries; the nested query is a full query of the IR (joins, WHERE, LATERAL, further nesting up to depth 3) that sees the columns of all enclosing queries and is correlated with them in 80% of the cases; oracle: the reference interpreter (EXISTS: at least one record; IN = '= ANY', NOT IN = '<> ALL'; ANY: TRUE if a comparison is TRUE, else UNKNOWN if one is UNKNOWN, else FALSE, FALSE without records; ALL dually, TRUE without records; scalar subquery: its only value, NULL without record), result compared as a multiset (sequence for a single source); non-trivial = a nested query of an expression was evaluated and (the result is non-empty or a WHERE kept a strict non-empty subset); distinct by (set of nested forms x position, size class, both outcomes seen, UNKNOWN seen, scalar without record seen)",
		Assumptions: []string{
			"a scalar subquery that returns more than one record is an error in csvq only where the expression is really evaluated (AND/OR are short-circuited, the manual does not fix the evaluation order): cases in which the reference meets one are put aside (discarded_scalar_many)",
			"row values ((a, b) IN (query)) are not generated: the manual does not define the UNKNOWN cases of row value comparisons",
			assumeKnownShapes,
		},
	})
}

func TestC03DeepNesting(t *testing.T) {
	fw.Run(t, fw.Spec[selCase]{
		ID: "C03", Name: "deep_nesting", Quick: 4000, Thorough: 80000,
		Gen: genModeCase("deep_nesting"), Check: func(c selCase) (fw.Outcome, *fw.Violation) { return checkSel(c, "deep_nesting") },
		Rule: "2-4 tables of 1-3 rows and the query IR of the select check with the nesting bound raised to 4-7 levels (subqueries are 3 of 5 base sources, nested queries keep joining 2-3 sources, 40% of the joined sources are LATERAL subqueries), LATERAL subqueries inside LATERAL subqueries that refer to columns two and more levels up, WITH clauses (plain and recursive) inside 30% of the nested queries (visible in that query only, may use the common table expressions of the enclosing queries; a quarter of them take the name of an enclosing one, which they hide inside that query), 12% nested-query predicates; oracle: the reference interpreter; non-trivial = nesting depth >= 4 and (non-empty result or a WHERE keeping a strict non-empty subset); distinct by (operator multiset, depth, inner WITH present, longest LATERAL chain)",
		Assumptions: []string{
			"a common table expression declared in a nested query hides one of the same name declared further out (SQL scoping; the manual only says it 'can be referenced in a single query')",
			"a WITH RECURSIVE inside the body of a recursive common table expression is refused by csvq ('recursive queries are nested'): recursive bodies contain no nested query",
			assumeKnownShapes,
		},
	})
}

func TestC03TableSources(t *testing.T) {
	fw.Run(t, fw.Spec[selCase]{
		ID: "C03", Name: "table_sources", Quick: 4000, Thorough: 80000,
		Gen: genModeCase("table_sources"), Check: func(c selCase) (fw.Outcome, *fw.Violation) { return checkSel(c, "table_sources") },
		Rule: "the tables and the query IR of the select check (--cpu 2-16 for the cases with a 160-400 row table), but three quarters of the tables are files of a drawn format (CSV, TSV, JSON, JSONL, LTSV, or CSV text on the standard input) and every reference to a file table draws its form: bare name, `name.ext`, the format function CSV(',', `f`) / CSV('\\t', `f`) / JSON('', `f`) / JSONL('', `f`) / LTSV(`f`), FILE::('f') or INLINE::('f'), STDIN; the same file may be read through several forms in one query; JSON formats carry integers as numbers, the text formats as text; oracle: the reference interpreter over the same rows; non-trivial = at least one source that is not a temporary table or a bare CSV name and (non-empty result or strict WHERE); distinct by (set of format:form pairs, operator names)",
		Assumptions: []string{
			"JSON, JSONL and LTSV files have at least one record (they have no header line otherwise) and LTSV cells are never empty strings (an empty LTSV value is NULL)",
			"sources written as a function, FILE::, INLINE:: or STDIN always carry an alias",
			assumeKnownShapes,
		},
	})
}

func TestC03RecursiveUnion(t *testing.T) {
	fw.Run(t, fw.Spec[selCase]{
		ID: "C03", Name: "recursive_union", Quick: 4000, Thorough: 80000,
		Gen: genRecCase, Check: func(c selCase) (fw.Outcome, *fw.Violation) { return checkSel(c, "recursive_union") },
		Rule: "an edge table (chain, tree, DAG with diamonds, cyclic graph with back edges and self loops; duplicate edges, NULL ends; file or temporary table) and WITH RECURSIVE r AS (base UNION [ALL] step) in four forms (reachability without bound - the recursive member reads the temporary view in a join, a comma list, IN (query), a correlated EXISTS or a derived table -, traversal with a depth bound, counter, a counter that flips for ever), 60% UNION without ALL, @@LIMIT_RECURSION set to 1-9 in 55% of the cases and whenever the iteration may not end; the main query reads r plainly, filtered, joined with a label table, joined with itself, or inside IN (query); oracle: the iteration the manual defines (the temporary view is replaced by the result of the recursive member, which is executed until its result is empty; all results are combined by UNION [ALL]) - when the recursive member yields rows more often than the limit allows csvq must end with the recursion-limit error, otherwise with exactly the reference rows; non-trivial = the recursive member yielded rows at least once; distinct by (columns, UNION or UNION ALL, steps bucket, duplicates removed, limit set, limit error, operators of the main query)",
		Assumptions: []string{
			"whether the final, empty execution of the recursive member counts against @@LIMIT_RECURSION is not documented: cases that need exactly <limit> non-empty executions are put aside (discarded_limit_boundary_open)",
			"which of two rows that are equal as values but differ in type or spelling a UNION shows belongs to C04: such cases are put aside (discarded_union_representative_open)",
			"without a limit only iterations that end within 64 steps are judged",
		},
	})
}

var _ = sort.Strings

// tableSource: an aliased reference to a table (in the forms of its format
// when the mode draws them).
func (g *genCtx) tableSource(tb ref.SelTable, alias string) *ref.SelSource {
	s := &ref.SelSource{Kind: "table", Name: tb.Name, Alias: alias}
	if g.sources && tb.File {
		g.sourceForm(s, tb)
	}
	return s
}
