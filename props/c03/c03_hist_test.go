package c03

// Round-5 extensions of the C03 check.
//
//	session_history  several statements in ONE session (a shell session, a
//	                 program using the library): queries of the select check,
//	                 executed plainly, twice, through DECLARE VIEW AS, INSERT
//	                 ... SELECT (also inside an IF block) or PREPARE/EXECUTE,
//	                 after other queries and after statements that FAIL in
//	                 every clause of a SELECT (WITH body, FROM, WHERE, select
//	                 list, ORDER BY, OFFSET, LIMIT, INTO, UNION, scalar
//	                 subquery, recursion limit; plain, inside an IF block,
//	                 inside a user defined function). Every query must return
//	                 the reference rows whatever ran before it in the session.
//	                 Common table expressions take the name of a file or of a
//	                 temporary table in 45% of the WITH clauses (the expression
//	                 hides the table inside its query).
//	row_errors       an evaluation error that only ONE row (or a few rows) of a
//	                 1-400 row table raises - at any position, also in the part
//	                 of a goroutine that is not the first - must end the query
//	                 with an error and never with a result.

import (
	"encoding/json"
	"fmt"
	"os"
	"sort"
	"strings"
	"testing"
	"time"

	"pgregory.net/rapid"

	"verif/internal/fw"
	"verif/internal/ref"
	"verif/internal/run"
	"verif/internal/val"
)

// ---------------------------------------------------------------------
// shared: reference outcome of one query and comparison of one result

// refOutcome: the reference result under the base reading; skip != "" when the
// query is not judged (too big for the reference, a scalar subquery with more
// than one record, one of the defect shapes the select check reports).
func refOutcome(tables []ref.SelTable, q *ref.SelQuery) (want *ref.SelResult, skip string, hv *fw.Violation) {
	r, err := ref.SelEvalOpt(tables, q, ref.SelOptions{})
	if err != nil {
		if se, ok := err.(*ref.SelError); ok && (se.Kind == "too_big" || se.Kind == "no_termination" || se.Kind == "scalar_many") {
			return r, se.Kind, nil
		}
		return nil, "", fw.Harness("the reference cannot evaluate %s: %v", ref.SelSQL(q), err)
	}
	st := r.Stats
	if st.RecLimitOpen || st.DistinctOpen {
		return r, "open_outcome", nil
	}
	if commaListDefectShape(q) || joinBindsRightShape(q, false) || st.LateralEmptyLeft || st.DupJoinStar {
		return r, "known_defect_shape", nil
	}
	return r, "", nil
}

// judgeView compares one result of csvq with the reference (all readings of
// the outcomes the manual leaves open). names: the column names are compared.
func judgeView(got run.Tbl, tables []ref.SelTable, q *ref.SelQuery, want *ref.SelResult, names bool) (sig, msg string, hv *fw.Violation) {
	if len(got.Header) != len(want.Labels) {
		return "field_count", fmt.Sprintf("%d columns %v, expected %d %v", len(got.Header), got.Header, len(want.Labels), want.Labels), nil
	}
	if names {
		for i, l := range want.Labels {
			if l != "" && got.Header[i] != l {
				return "column_name", fmt.Sprintf("column %d is named %q, expected %q (%v)", i+1, got.Header[i], l, got.Header), nil
			}
		}
	}
	for _, r := range got.Rows {
		if len(r) != len(want.Labels) {
			return "field_count", fmt.Sprintf("a row has %d fields, expected %d", len(r), len(want.Labels)), nil
		}
	}
	sig, msg = compareRows(got.Rows, want.Rows, want.Ordered)
	if sig != "" && (want.Stats.OpenCmp || want.Stats.RightUsingOpen) {
		for _, rd := range []ref.SelReading{{RightUsing: true}, {OpenText: true}, {OpenText: true, RightUsing: true}} {
			alt, err := ref.SelEvalOpt(tables, q, ref.SelOptions{Reading: rd})
			if err != nil {
				return "", "", fw.Harness("the reference cannot evaluate %s under %+v: %v", ref.SelSQL(q), rd, err)
			}
			if len(alt.Labels) != len(want.Labels) {
				continue
			}
			if s2, _ := compareRows(got.Rows, alt.Rows, alt.Ordered); s2 == "" {
				return "", "", nil
			}
		}
	}
	return sig, msg, nil
}

// ---------------------------------------------------------------------
// session_history

type histStep struct {
	Kind    string        `json:"kind"`              // query | fail
	Query   *ref.SelQuery `json:"query"`             // the query (query), the query the failing statement is made of (fail)
	Carrier string        `json:"carrier,omitempty"` // query: plain twice view insert insert_block prepared; fail: plain block function
	Fail    string        `json:"fail,omitempty"`    // fail: how the statement fails
	Repeat  int           `json:"repeat,omitempty"`  // query: number of executions (1-3)
}

type histCase struct {
	Tables []ref.SelTable `json:"tables"`
	CPU    int            `json:"cpu"`
	Steps  []histStep     `json:"steps"`
	SQL    []string       `json:"sql"` // informational
}

var histFailKinds = []string{
	"offset_string", "offset_null", "offset_variable", "limit_offset_string", "order_offset_null",
	"limit_string", "limit_variable", "order_unknown",
	"with_body_unknown", "from_missing", "where_unknown", "field_unknown",
	"union_field_count", "into_undeclared", "into_many", "scalar_many", "recursion_limit",
}
var histFailWeights = []int{14, 6, 6, 8, 6, 6, 4, 6, 8, 6, 7, 7, 5, 2, 3, 4, 2}

var histQueryCarriers = []string{"plain", "twice", "view", "insert", "insert_block", "prepared"}
var histQueryCarrierWeights = []int{44, 10, 13, 11, 9, 13}

func knownFail(k string) bool {
	for _, x := range histFailKinds {
		if x == k {
			return true
		}
	}
	return false
}

func knownCarrier(k string, fail bool) bool {
	if fail {
		return k == "plain" || k == "block" || k == "function"
	}
	for _, x := range histQueryCarriers {
		if x == k {
			return true
		}
	}
	return false
}

// genHistQuery: one query of the select check's IR over the tables, with the
// weights shifted towards WITH clauses, subqueries in FROM next to references
// to the common table expressions, and nested queries in conditions.
func genHistQuery(t *rapid.T, tables []ref.SelTable, simple bool) *ref.SelQuery {
	g := &genCtx{t: t, used: map[string]bool{}, maxDepth: 2, hints: map[string][]val.Val{}, noComma3: true,
		subWeight: 45, cteWeight: 60, subPred: 15, scalarFld: 4}
	if simple {
		g.maxDepth, g.subPred, g.scalarFld = 1, 0, 0
	}
	g.tables = append([]ref.SelTable{}, tables...)
	g.pool = valuePool(tables)
	withPct := 70
	if simple {
		withPct = 35
	}
	if fw.Pct(t, "with", withPct) {
		for i, n := 0, 1+fw.Weighted(t, "nWith", []int{60, 40}); i < n; i++ {
			shadow := ""
			if len(g.tables) >= 2 && fw.Pct(t, "shadowTable", 45) {
				// the common table expression takes the name of a table, which it
				// hides from here on (its own body still reads the table)
				shadow = fw.PickU(t, "shadowed", g.tables).Name
				g.cteName, g.avoidEdge = shadow, shadow
			}
			g.cte()
			g.avoidEdge = ""
			if shadow != "" {
				var rest []ref.SelTable
				for _, tb := range g.tables {
					if tb.Name != shadow {
						rest = append(rest, tb)
					}
				}
				g.tables = rest
			}
		}
	}
	q, _ := g.query(0, nil, false)
	q.With = g.pending
	joinBindsRightShape(q, true)
	if q.Where != nil {
		if r, err := ref.SelEval(tables, q, ref.SelReading{}); err == nil && len(r.Rows) == 0 && fw.Pct(t, "dropEmptyWhere", 75) {
			q.Where = nil
		}
	}
	return q
}

func genHistCase(t *rapid.T) histCase {
	size := []string{"small", "medium"}[fw.Weighted(t, "size", []int{85, 15})]
	c := histCase{Tables: genTables(t, size), CPU: fw.PickU(t, "cpu", []int{1, 1, 2, 4})}
	n := fw.Range(t, "nSteps", 2, 6)
	for i := 0; i < n; i++ {
		st := histStep{}
		failPct := 45
		if i == n-1 {
			failPct = 10 // a session mostly ends with a query that is judged
		}
		if fw.Pct(t, "failStep", failPct) {
			st.Kind = "fail"
			st.Fail = histFailKinds[fw.Weighted(t, "failKind", histFailWeights)]
			st.Carrier = []string{"plain", "block", "function"}[fw.Weighted(t, "failCarrier", []int{70, 15, 15})]
			st.Query = genHistQuery(t, c.Tables, fw.Pct(t, "simpleFail", 50))
		} else {
			st.Kind = "query"
			st.Carrier = histQueryCarriers[fw.Weighted(t, "carrier", histQueryCarrierWeights)]
			st.Repeat = 1 + fw.Weighted(t, "repeat", []int{55, 30, 15})
			st.Query = genHistQuery(t, c.Tables, false)
		}
		c.Steps = append(c.Steps, st)
	}
	for i, st := range c.Steps {
		c.SQL = append(c.SQL, stepSQL(c.Tables, st, i, 0, 1))
	}
	return c
}

func firstTableWithRows(tables []ref.SelTable, min int) *ref.SelTable {
	for i := range tables {
		if len(tables[i].Rows) >= min {
			return &tables[i]
		}
	}
	return &tables[0]
}

// failSQL: the SELECT statement of a failing step.
func failSQL(tables []ref.SelTable, st histStep) string {
	q := *st.Query // shallow copy: the slices that are changed are rebuilt
	unknown := &ref.SelExpr{Kind: "col", Col: "zz9"}
	one := val.Int(1)
	bad := &ref.SelExpr{Kind: "cmp", Op: "=", Args: []*ref.SelExpr{unknown, {Kind: "lit", Lit: &one}}}
	tb := firstTableWithRows(tables, 1)
	switch st.Fail {
	case "offset_string":
		return ref.SelSQL(&q) + " OFFSET 'x'"
	case "offset_null":
		return ref.SelSQL(&q) + " OFFSET NULL"
	case "offset_variable":
		return ref.SelSQL(&q) + " OFFSET @zz9"
	case "limit_offset_string":
		return ref.SelSQL(&q) + " LIMIT 1 OFFSET 'x'"
	case "order_offset_null":
		return ref.SelSQL(&q) + " ORDER BY 1 OFFSET NULL"
	case "limit_string":
		return ref.SelSQL(&q) + " LIMIT 'x'"
	case "limit_variable":
		return ref.SelSQL(&q) + " LIMIT @zz9"
	case "order_unknown":
		return ref.SelSQL(&q) + " ORDER BY zz9"
	case "with_body_unknown":
		body := &ref.SelQuery{From: []*ref.SelSource{{Kind: "table", Name: tb.Name, Alias: "zx"}}, Fields: []ref.SelField{{Expr: unknown}}}
		q.With = append(append([]ref.SelCTE{}, q.With...), ref.SelCTE{Name: "zzc", Query: body})
		return ref.SelSQL(&q)
	case "from_missing":
		// the common table expressions are loaded, then the FROM clause fails
		q.From = []*ref.SelSource{{Kind: "table", Name: "zzmissing", Alias: "zx"}}
		q.Where = nil
		q.Fields = []ref.SelField{{Star: true}}
		return ref.SelSQL(&q)
	case "where_unknown":
		if q.Where != nil {
			q.Where = &ref.SelExpr{Kind: "and", Args: []*ref.SelExpr{q.Where, bad}}
		} else {
			q.Where = bad
		}
		return ref.SelSQL(&q)
	case "field_unknown":
		q.Fields = append(append([]ref.SelField{}, q.Fields...), ref.SelField{Expr: unknown})
		return ref.SelSQL(&q)
	case "union_field_count":
		return ref.SelSQL(&q) + " UNION ALL SELECT 1, 2, 3, 4, 5, 6, 7, 8, 9, 10, 11, 12, 13, 14, 15, 16, 17, 18, 19, 20, 21, 22, 23, 24, 25"
	case "into_undeclared":
		return "SELECT 1 INTO @zz9"
	case "into_many":
		t2 := firstTableWithRows(tables, 2)
		return "SELECT zx." + t2.Cols[0] + " INTO @zzinto FROM " + t2.Name + " zx"
	case "scalar_many":
		t2 := firstTableWithRows(tables, 2)
		q.Fields = append(append([]ref.SelField{}, q.Fields...), ref.SelField{Expr: &ref.SelExpr{Kind: "scalar",
			Sub: &ref.SelQuery{From: []*ref.SelSource{{Kind: "table", Name: t2.Name, Alias: "zx"}},
				Fields: []ref.SelField{{Expr: &ref.SelExpr{Kind: "col", View: "zx", Col: t2.Cols[0]}}}}}})
		return ref.SelSQL(&q)
	case "recursion_limit":
		return "WITH RECURSIVE zzr (n) AS (SELECT 1 UNION ALL SELECT n + 1 FROM zzr) SELECT n FROM zzr"
	}
	return "SELECT zz9"
}

func colList(n int) string {
	cs := make([]string, n)
	for i := range cs {
		cs[i] = fmt.Sprintf("c%d", i+1)
	}
	return strings.Join(cs, ", ")
}

// stepSQL: the program text of step i (execution rep); nf = number of result
// columns of the query (carriers view / insert).
func stepSQL(tables []ref.SelTable, st histStep, i, rep, nf int) string {
	if st.Kind == "fail" {
		sql := failSQL(tables, st)
		carrier := st.Carrier
		if strings.HasPrefix(st.Fail, "into_") && carrier == "function" {
			carrier = "block" // SELECT ... INTO is a statement, not a subquery
		}
		switch carrier {
		case "block":
			return "IF TRUE THEN " + sql + "; END IF;"
		case "function":
			return fmt.Sprintf("DECLARE zf%d FUNCTION () AS BEGIN RETURN (%s); END; SELECT zf%d();", i, sql, i)
		}
		return sql + ";"
	}
	sql := ref.SelSQL(st.Query)
	hv := fmt.Sprintf("hv%d_%d", i, rep)
	switch st.Carrier {
	case "twice":
		return sql + "; " + sql + ";"
	case "view":
		return fmt.Sprintf("DECLARE %s VIEW (%s) AS %s; SELECT * FROM %s; DISPOSE VIEW %s;", hv, colList(nf), sql, hv, hv)
	case "insert":
		return fmt.Sprintf("DECLARE %s VIEW (%s); INSERT INTO %s %s; SELECT * FROM %s; DISPOSE VIEW %s;", hv, colList(nf), hv, sql, hv, hv)
	case "insert_block":
		return fmt.Sprintf("DECLARE %s VIEW (%s); IF TRUE THEN INSERT INTO %s %s; END IF; SELECT * FROM %s; DISPOSE VIEW %s;", hv, colList(nf), hv, sql, hv, hv)
	case "prepared":
		return fmt.Sprintf("PREPARE hp%d_%d FROM '%s'; EXECUTE hp%d_%d; DISPOSE PREPARE hp%d_%d;", i, rep, strings.ReplaceAll(sql, "'", "''"), i, rep, i, rep)
	}
	return sql + ";"
}

// histShape: static description of a query for the evidence.
type histShape struct {
	shadow      bool // a common table expression has the name of a table
	nested      bool // a subquery / nested query of an expression / a second common table expression
	cte         bool
	cteAndOther bool // a common table expression and at least one other nested SELECT: the shape in which the scopes of two SELECTs of one statement are alive together
}

func describeHist(tables []ref.SelTable, q *ref.SelQuery) histShape {
	var h histShape
	tn := map[string]bool{}
	for _, tb := range tables {
		tn[tb.Name] = true
	}
	nQueries := 0
	eachQuery(q, func(x *ref.SelQuery) {
		nQueries++
		for _, c := range x.With {
			h.cte = true
			if tn[c.Name] {
				h.shadow = true
			}
		}
	}, func(*ref.SelSource) {})
	nBodies := 0
	for _, c := range q.With {
		nBodies++
		if c.Recursive {
			nBodies++
		}
	}
	h.nested = nQueries > 1
	h.cteAndOther = len(q.With) >= 2 || (len(q.With) == 1 && nQueries > 1+nBodies)
	return h
}

func clipSQL(s string) string {
	if len(s) > 700 {
		return s[:700] + " ..."
	}
	return s
}

func checkHistCase(c histCase) (fw.Outcome, *fw.Violation) {
	o := fw.Outcome{}
	if !tablesInDomain(c.Tables) || c.CPU < 1 || c.CPU > 64 || len(c.Steps) == 0 || len(c.Steps) > 12 {
		o.Discard = true
		return o, nil
	}
	for _, tb := range c.Tables {
		if tb.Format != "" || len(tb.Rows) > 60 {
			o.Discard = true
			return o, nil
		}
	}
	for _, st := range c.Steps {
		if st.Query == nil || (st.Kind != "query" && st.Kind != "fail") || !knownCarrier(st.Carrier, st.Kind == "fail") ||
			(st.Kind == "fail" && !knownFail(st.Fail)) || (st.Kind == "query" && (st.Repeat < 1 || st.Repeat > 4)) {
			o.Discard = true
			return o, nil
		}
	}
	o.Classes = []string{fmt.Sprintf("steps:%d", len(c.Steps)), fmt.Sprintf("cpu:%d", c.CPU), "size:" + sizeClass(c.Tables)}
	classes := map[string]bool{}
	s, cleanup, hv := openSession(c.Tables, c.CPU)
	if hv != nil {
		return o, hv
	}
	defer cleanup()

	var history []string // what ran before, for the message
	failsBefore := map[string]bool{}
	var fps []string
	judgedSteps := 0
	for i, st := range c.Steps {
		if st.Kind == "fail" {
			// the failure strikes only after (part of) the underlying query was evaluated: a query the reference gives
			// up as too big (joins of joins of 30-row tables reach 10^7 rows) is not run at all
			if _, skip, _ := refOutcome(c.Tables, st.Query); skip == "too_big" || skip == "no_termination" {
				classes["fail_step_not_run:"+skip] = true
				fw.AddExtra("history_fail_steps_not_run_"+skip, 1)
				continue
			}
			sql := stepSQL(c.Tables, st, i, 0, 1)
			res, slow := s.ExecTimeout(sql, 20*time.Second)
			if slow {
				// the failure strikes only after (part of) the underlying query was evaluated, and csvq can need far longer
				// for it than the reference's size budget suggests (a thorough shard spent 24 minutes in one such statement):
				// the session is given up, nothing is judged after this point
				classes["fail_step_gave_up_after_20s"] = true
				fw.AddExtra("history_fail_steps_gave_up_slow", 1)
				break
			}
			if res.ParseErr {
				return o, fw.Harness("generated statement does not parse: %s: %v", sql, res.Err)
			}
			classes["fail:"+st.Fail] = true
			classes["fail_carrier:"+st.Carrier] = true
			if res.Err != nil {
				if cl := run.ErrClass(res.Err); cl == "fatal" || cl == "other" {
					return o, fw.V("session_internal_error", "step %d: %s: %v", i+1, clipSQL(sql), res.Err)
				}
				classes["failed_as_meant:"+st.Fail] = true
				failsBefore[st.Fail+"/"+st.Carrier] = true
				history = append(history, "[fails] "+clipSQL(sql))
			} else {
				history = append(history, "[ok] "+clipSQL(sql))
			}
			continue
		}
		want, skip, hv := refOutcome(c.Tables, st.Query)
		if hv != nil {
			return o, hv
		}
		if skip != "" {
			classes["step_not_judged:"+skip] = true
			fw.AddExtra("history_steps_not_judged_"+skip, 1)
			continue
		}
		shape := describeHist(c.Tables, st.Query)
		sql := ref.SelSQL(st.Query)
		for rep := 0; rep < st.Repeat; rep++ {
			text := stepSQL(c.Tables, st, i, rep, len(want.Labels))
			res := s.Exec(text)
			where := fmt.Sprintf("step %d of %d (%s, execution %d, cpu %d) %s; before it in the session: %s", i+1, len(c.Steps), st.Carrier, rep+1, c.CPU,
				clipSQL(text), strings.Join(history, " | "))
			if res.ParseErr {
				return o, fw.Harness("generated statement does not parse: %s: %v", text, res.Err)
			}
			fresh := func() string {
				// the same statement in a session of its own (diagnosis only)
				s2, cleanup2, hv2 := openSession(c.Tables, c.CPU)
				if hv2 != nil {
					return "fresh session: not available"
				}
				defer cleanup2()
				r2 := s2.Exec(text)
				if r2.Err != nil || len(r2.Views) == 0 {
					return fmt.Sprintf("in a session of its own: error %v", r2.Err)
				}
				if sg, _, _ := judgeView(r2.Views[len(r2.Views)-1], c.Tables, st.Query, want, false); sg != "" {
					return "in a session of its own the result is wrong as well (" + sg + ")"
				}
				return "in a session of its own the result is right"
			}
			if res.Err != nil {
				return o, fw.V("session_select_error", "%s: %v; %s", where, res.Err, fresh())
			}
			nViews := 1
			if st.Carrier == "twice" {
				nViews = 2
			}
			if len(res.Views) != nViews {
				return o, fw.Harness("%s: %d results", where, len(res.Views))
			}
			for _, got := range res.Views {
				names := st.Carrier == "plain" || st.Carrier == "twice" || st.Carrier == "prepared"
				sig, msg, hv := judgeView(got, c.Tables, st.Query, want, names)
				if hv != nil {
					return o, hv
				}
				if sig != "" {
					return o, fw.V("session_"+sig, "%s: %s; %s", where, msg, fresh())
				}
			}
		}
		judgedSteps++
		classes["carrier:"+st.Carrier] = true
		if st.Repeat > 1 {
			classes["repeated"] = true
		}
		if shape.shadow {
			classes["cte_named_like_table"] = true
		}
		if shape.cteAndOther {
			classes["cte_and_other_nested_select"] = true
		}
		if len(failsBefore) > 0 {
			classes["judged_after_failed_statement"] = true
		}
		// non-trivial: a judged query with a nested SELECT and a non-empty
		// result that is not the first statement of the session
		if len(history) > 0 && shape.nested && len(want.Rows) > 0 {
			fps = append(fps, fmt.Sprintf("%s|after:%s|shadow%v|cteAndNested%v|%s", st.Carrier, strings.Join(fw.SortedKeys(failsBefore), ","),
				shape.shadow, shape.cteAndOther, strings.Join(ref.SelOpNames(st.Query), ",")))
		}
		history = append(history, "[ok] "+clipSQL(sql))
	}
	o.Classes = append(o.Classes, fw.SortedKeys(classes)...)
	o.Classes = append(o.Classes, fmt.Sprintf("judged_queries:%d", judgedSteps))
	if len(fps) > 0 {
		o.Fingerprint = fps[len(fps)-1]
		o.More = fps[:len(fps)-1]
		o.Classes = append(o.Classes, "nontrivial")
	}
	return o, nil
}

func TestC03SessionHistory(t *testing.T) {
	fw.Run(t, fw.Spec[histCase]{
		ID: "C03", Name: "session_history", Quick: 1400, Thorough: 18000,
		Gen: genHistCase, Check: checkHistCase,
		Rule: "2-4 tables of the select check (0-6 rows, 15% 7-30 rows; CSV files and temporary tables; --cpu 1-4) and a history of 2-6 statements executed in ONE session: queries of the select check's IR (70% with a WITH clause of 1-2 common table expressions, which in 45% of the cases take the name of a file or temporary table and hide it; subqueries and references to the common table expressions are as frequent as tables among the sources; 15% nested-query predicates) run plainly, twice in one program, through DECLARE v VIEW (..) AS query, INSERT INTO v query (also inside an IF block) or PREPARE/EXECUTE, each 1-3 times; in between (45% of the steps) statements meant to fail, made of such a query: a tail OFFSET 'x' / OFFSET NULL / OFFSET @undeclared / LIMIT 1 OFFSET 'x' / ORDER BY 1 OFFSET NULL / LIMIT 'x' / LIMIT @undeclared / ORDER BY unknown, a further common table expression whose body fails, a missing table, an unknown column in WHERE or in the select list, a UNION with another field count, INTO an undeclared variable / with several records, a scalar subquery with several records, a recursion that exceeds the limit - plainly, inside an IF block or inside a user defined function; oracle: every query must return the reference interpreter's columns and rows (multiset; sequence for a single source) whatever ran before it in the session - the statements meant to fail are not judged (whether they failed is recorded in the histogram); non-trivial = a judged query with a nested SELECT and a non-empty result that is not the first statement of the session; distinct by (carrier, set of failed statement kinds before it, common table expression named like a table, common table expression next to another nested SELECT, operator names)",
		Assumptions: []string{
			"a common table expression whose name is the name of a file or temporary table hides that table inside its query, its own (non-recursive) body still reads the table (SQL scoping; the lookup order of csvq: recursive view, common table expression, temporary table, file); a file written with its extension (`t1.csv`) is never hidden - tables hidden by a common table expression are not referenced again in that query",
			"the tables are not modified by the history (no DML on them); the temporary tables the carriers declare are disposed in the same program",
			"a SELECT inside an IF block is not stored as a result by the library, so the block carrier goes through INSERT ... SELECT",
			assumeKnownShapes + " (such queries of a history are executed by nobody and not judged: step_not_judged)",
		},
	})
}

// ---------------------------------------------------------------------
// row_errors

type rowErrCase struct {
	N      int    `json:"n"`      // rows of t1
	CPU    int    `json:"cpu"`    //
	Poison []int  `json:"poison"` // positions (0-based) of the rows whose evaluation fails
	Form   string `json:"form"`   // where_scalar field_scalar on_scalar left_on_scalar lateral_scalar where_lazy_name on_lazy_name
	File   bool   `json:"file"`   // t1 is a CSV file
}

var rowErrForms = []string{"where_scalar", "field_scalar", "on_scalar", "left_on_scalar", "lateral_scalar", "where_lazy_name", "on_lazy_name"}

func genRowErrCase(t *rapid.T) rowErrCase {
	c := rowErrCase{Form: fw.PickU(t, "form", rowErrForms), File: fw.Pct(t, "file", 50)}
	switch fw.Weighted(t, "size", []int{30, 20, 50}) {
	case 0:
		c.N, c.CPU = fw.Range(t, "nSmall", 1, 8), fw.PickU(t, "cpu", []int{1, 4})
	case 1:
		c.N, c.CPU = fw.Range(t, "nMedium", 9, 159), fw.PickU(t, "cpu", []int{1, 2, 4})
	default:
		c.N, c.CPU = fw.Range(t, "nLarge", 160, 400), fw.PickU(t, "cpu", []int{2, 3, 4, 5, 8})
	}
	nPoison := fw.Weighted(t, "nPoison", []int{12, 64, 16, 8})
	if strings.HasSuffix(c.Form, "lazy_name") && nPoison == 0 {
		nPoison = 1
	}
	seen := map[int]bool{}
	for i := 0; i < nPoison; i++ {
		var p int
		switch fw.Weighted(t, "where", []int{40, 15, 15, 30}) {
		case 0:
			p = fw.Uniform(t, "pos", c.N)
		case 1:
			p = 0
		case 2:
			p = c.N - 1
		default:
			// around the boundaries of the goroutines' ranges
			w := fw.Range(t, "worker", 1, c.CPU)
			p = c.N/c.CPU*w + fw.Range(t, "off", -1, 1)
		}
		if p < 0 {
			p = 0
		}
		if p >= c.N {
			p = c.N - 1
		}
		if !seen[p] {
			seen[p] = true
			c.Poison = append(c.Poison, p)
		}
	}
	sort.Ints(c.Poison)
	return c
}

func (c rowErrCase) tables() []ref.SelTable {
	cell := func(i int) val.Val {
		if c.File {
			return val.Str(fmt.Sprintf("%d", i))
		}
		return val.Int(int64(i))
	}
	poison := map[int]bool{}
	for _, p := range c.Poison {
		poison[p] = true
	}
	t1 := ref.SelTable{Name: "t1", File: c.File, Cols: []string{"k", "a1"}}
	for i := 0; i < c.N; i++ {
		k := i % 4
		if poison[i] {
			k = 7
		}
		t1.Rows = append(t1.Rows, []val.Val{cell(k), val.Str([]string{"a", "b", "c"}[i%3])})
	}
	// k = 7 has two records (a scalar subquery over it fails), k = 3 has none
	t2 := ref.SelTable{Name: "t2", Cols: []string{"k", "b1"}, Rows: [][]val.Val{
		{val.Int(0), val.Str("a")}, {val.Int(7), val.Str("a")}, {val.Int(1), val.Str("b")}, {val.Int(2), val.Str("c")}, {val.Int(7), val.Str("b")}}}
	t3 := ref.SelTable{Name: "t3", Cols: []string{"c1", "c2"}, Rows: [][]val.Val{{val.Str("a"), val.Int(1)}, {val.Str("b"), val.Int(2)}}}
	return []ref.SelTable{t1, t2, t3}
}

func (c rowErrCase) query() *ref.SelQuery {
	col := func(v, n string) *ref.SelExpr { return &ref.SelExpr{Kind: "col", View: v, Col: n} }
	lit := func(v val.Val) *ref.SelExpr { return &ref.SelExpr{Kind: "lit", Lit: &v} }
	cmp := func(op string, a, b *ref.SelExpr) *ref.SelExpr {
		return &ref.SelExpr{Kind: "cmp", Op: op, Args: []*ref.SelExpr{a, b}}
	}
	x := &ref.SelSource{Kind: "table", Name: "t1", Alias: "x"}
	z := &ref.SelSource{Kind: "table", Name: "t3", Alias: "z"}
	scalar := func() *ref.SelExpr {
		return &ref.SelExpr{Kind: "scalar", Sub: &ref.SelQuery{From: []*ref.SelSource{{Kind: "table", Name: "t2", Alias: "y"}},
			Where: cmp("=", col("y", "k"), col("x", "k")), Fields: []ref.SelField{{Expr: col("y", "b1")}}}}
	}
	// evaluated (and unresolvable) exactly for the rows with k = 7
	lazy := &ref.SelExpr{Kind: "or", Args: []*ref.SelExpr{cmp("<>", col("x", "k"), lit(val.Int(7))), cmp("=", col("", "zz9"), lit(val.Int(1)))}}
	switch c.Form {
	case "where_scalar":
		return &ref.SelQuery{From: []*ref.SelSource{x}, Where: cmp("=", col("x", "a1"), scalar()), Fields: []ref.SelField{{Expr: col("x", "k")}, {Expr: col("x", "a1")}}}
	case "field_scalar":
		return &ref.SelQuery{From: []*ref.SelSource{x}, Fields: []ref.SelField{{Expr: col("x", "a1")}, {Expr: scalar(), Alias: "s"}}}
	case "on_scalar", "left_on_scalar":
		jt := "INNER"
		if c.Form == "left_on_scalar" {
			jt = "LEFT"
		}
		return &ref.SelQuery{From: []*ref.SelSource{{Kind: "join", JoinType: jt, Left: x, Right: z, On: cmp("=", col("z", "c1"), scalar())}},
			Fields: []ref.SelField{{Expr: col("x", "k")}, {Expr: col("z", "c2")}}}
	case "lateral_scalar":
		l := &ref.SelSource{Kind: "sub", Lateral: true, Alias: "l", Sub: &ref.SelQuery{Fields: []ref.SelField{{Expr: scalar(), Alias: "s"}}}}
		return &ref.SelQuery{From: []*ref.SelSource{{Kind: "join", JoinType: "CROSS", Left: x, Right: l}},
			Fields: []ref.SelField{{Expr: col("x", "k")}, {Expr: col("l", "s")}}}
	case "where_lazy_name":
		return &ref.SelQuery{From: []*ref.SelSource{x}, Where: lazy, Fields: []ref.SelField{{Expr: col("x", "k")}}}
	case "on_lazy_name":
		return &ref.SelQuery{From: []*ref.SelSource{{Kind: "join", JoinType: "INNER", Left: x, Right: z, On: lazy}},
			Fields: []ref.SelField{{Expr: col("x", "k")}, {Expr: col("z", "c2")}}}
	}
	return nil
}

func checkRowErrCase(c rowErrCase) (fw.Outcome, *fw.Violation) {
	o := fw.Outcome{}
	q := c.query()
	ok := q != nil && c.N >= 1 && c.N <= 2000 && c.CPU >= 1 && c.CPU <= 64 && len(c.Poison) <= 8
	for i, p := range c.Poison {
		if p < 0 || p >= c.N || (i > 0 && p <= c.Poison[i-1]) {
			ok = false
		}
	}
	lazy := strings.HasSuffix(c.Form, "lazy_name")
	if lazy && len(c.Poison) == 0 {
		// a reference that is never evaluated is not reported by csvq (name_errors)
		ok = false
	}
	if !ok {
		o.Discard = true
		return o, nil
	}
	tables := c.tables()
	sql := ref.SelSQL(q)
	size := "small"
	switch {
	case c.N >= 160:
		size = "large"
	case c.N > 8:
		size = "medium"
	}
	o.Classes = []string{"form:" + c.Form, "size:" + size, fmt.Sprintf("cpu:%d", c.CPU), fmt.Sprintf("failing_rows:%d", len(c.Poison))}
	want, err := ref.SelEvalOpt(tables, q, ref.SelOptions{})
	wantErr := ""
	if err != nil {
		se, isSel := err.(*ref.SelError)
		if !isSel || (se.Kind != "scalar_many" && se.Kind != "unknown_column") {
			return o, fw.Harness("the reference cannot evaluate %s: %v", sql, err)
		}
		wantErr = se.Kind
	}
	if (wantErr != "") != (len(c.Poison) > 0) {
		return o, fw.Harness("%s: %d failing rows but the reference says %q", sql, len(c.Poison), wantErr)
	}
	s, cleanup, hv := openSession(tables, c.CPU)
	if hv != nil {
		return o, hv
	}
	defer cleanup()
	res := s.Exec(sql)
	if res.ParseErr {
		return o, fw.Harness("generated query does not parse: %s: %v", sql, res.Err)
	}
	if wantErr == "" {
		o.Classes = append(o.Classes, "control_without_failing_row")
		if res.Err != nil {
			return o, fw.V("select_error", "%s (%d rows, cpu %d): %v", sql, c.N, c.CPU, res.Err)
		}
		if len(res.Views) != 1 {
			return o, fw.Harness("%s: %d results", sql, len(res.Views))
		}
		if sig, msg, hv := judgeView(res.Views[0], tables, q, want, true); hv != nil || sig != "" {
			if hv != nil {
				return o, hv
			}
			return o, fw.V(sig, "%s (%d rows, cpu %d): %s", sql, c.N, c.CPU, msg)
		}
		return o, nil
	}
	if res.Err == nil {
		return o, fw.V("row_error_swallowed:"+c.Form, "%s over %d rows with cpu %d: the evaluation fails for the rows at positions %v (%s) but the query ended without error with %d rows", sql, c.N, c.CPU, c.Poison, wantErr, nRows(res))
	}
	class := run.ErrClass(res.Err)
	if class == "fatal" || class == "other" {
		return o, fw.V("row_error_internal_error", "%s: %v", sql, res.Err)
	}
	if len(res.Views) != 0 {
		return o, fw.V("row_error_with_result", "%s: error %v and %d results", sql, res.Err, len(res.Views))
	}
	o.Classes = append(o.Classes, "error_class:"+wantErr+":"+class)
	// where the first failing row lies among the goroutines' ranges
	workers := c.CPU
	if c.N/80 < workers {
		workers = c.N / 80
	}
	if workers < 1 {
		workers = 1
	}
	part := c.Poison[0] / (c.N / workers)
	bucket := "first_range"
	if part > 0 {
		bucket = "later_range"
		o.Classes = append(o.Classes, "first_failing_row_in_later_range")
	}
	o.Fingerprint = fmt.Sprintf("%s|%s|workers%d|%s|n%d", c.Form, size, workers, bucket, len(c.Poison))
	o.Classes = append(o.Classes, "nontrivial")
	return o, nil
}

func TestC03RowErrors(t *testing.T) {
	fw.Run(t, fw.Spec[rowErrCase]{
		ID: "C03", Name: "row_errors", Quick: 1200, Thorough: 16000,
		Gen: genRowErrCase, Check: checkRowErrCase,
		Rule: "a table of 1-400 rows (30% 1-8, 20% 9-159, 50% 160-400 rows with --cpu 2-8; file or temporary table) in which 0-3 rows at drawn positions (uniform, first, last, around the boundaries of the goroutines' ranges) make the evaluation fail: a correlated scalar subquery that returns two records for exactly these rows - in the WHERE clause, the select list, the ON condition of an inner or left join, the select list of a LATERAL subquery - or a reference that cannot be resolved behind `x.k <> 7 OR ...`, which is evaluated for exactly these rows (WHERE, ON); oracle: with at least one failing row the query must end with an ordinary error and without a result (the reference interpreter reports the same failure), without a failing row (12% controls) it must return the reference rows; non-trivial = an error was expected and delivered; distinct by (form, size class, goroutines, first failing row in the first / a later goroutine range, number of failing rows)",
		Assumptions: []string{
			"each condition consists of the failing term alone, or has it behind an OR whose left operand is FALSE for exactly the failing rows, so no evaluation order and no short-circuit rule can avoid the failing evaluation",
			"error class only (recorded in the histogram), not the message or which of several failing rows is reported",
		},
	})
}

var _ = os.Getenv

// ---------------------------------------------------------------------
// reference_forms: the same query with its references written in the other
// documented spellings (character case is insensitive; table.column_number)

type refFormCase struct {
	Tables []ref.SelTable `json:"tables"`
	Query  *ref.SelQuery  `json:"query"` // canonical spelling (what the reference interprets)
	CPU    int            `json:"cpu"`
	Mask   []int          `json:"mask"` // per reference (cyclic): 0 as is, 1 qualifier in upper case, 2 column in upper case, 3 column number (else both in upper case)
	SQL    string         `json:"sql"`  // informational: the respelled text
}

func genRefFormCase(t *rapid.T) refFormCase {
	base := genModeCase("reference_forms")(t)
	c := refFormCase{Tables: base.Tables, Query: base.Query, CPU: base.CPU}
	for i := 0; i < 40; i++ {
		c.Mask = append(c.Mask, fw.Weighted(t, "spelling", []int{25, 20, 20, 35}))
	}
	v, _ := respell(c.Tables, c.Query, c.Mask)
	c.SQL = ref.SelSQL(v)
	return c
}

func cloneQuery(q *ref.SelQuery) *ref.SelQuery {
	b, err := json.Marshal(q)
	if err != nil {
		panic(err)
	}
	out := &ref.SelQuery{}
	if err := json.Unmarshal(b, out); err != nil {
		panic(err)
	}
	return out
}

// respell returns a copy of q whose references are written differently and
// the kinds of respelling applied (kind@position).
func respell(tables []ref.SelTable, q *ref.SelQuery, mask []int) (*ref.SelQuery, map[string]bool) {
	v := cloneQuery(q)
	applied := map[string]bool{}
	byName := map[string][]string{}
	for _, tb := range tables {
		byName[tb.Name] = tb.Cols
	}
	// view name -> columns, for the views that are real tables (view names are
	// unique in the whole query; common table expressions are never named like a table here)
	cteNames := map[string]bool{}
	eachQuery(v, func(x *ref.SelQuery) {
		for _, c := range x.With {
			cteNames[c.Name] = true
		}
	}, func(*ref.SelSource) {})
	viewCols := map[string][]string{}
	eachQuery(v, func(*ref.SelQuery) {}, func(s *ref.SelSource) {
		if cols, ok := byName[s.Name]; ok && !cteNames[s.Name] {
			view := s.Alias
			if view == "" {
				view = s.Name
			}
			viewCols[view] = cols
		}
	})
	n := 0
	next := func() int {
		m := 0
		if len(mask) > 0 {
			m = mask[n%len(mask)]
		}
		n++
		return m
	}
	// noNumber: the expression is a select-list item without alias of a nested
	// query: a column number would change the name under which the enclosing
	// query refers to it
	noNumber := false
	var inExpr func(e *ref.SelExpr, pos string)
	inExpr = func(e *ref.SelExpr, pos string) {
		if e == nil {
			return
		}
		if e.Kind == "col" {
			switch m := next(); {
			case m == 1 && e.View != "":
				e.View = strings.ToUpper(e.View)
				applied["qualifier_upper@"+pos] = true
			case m == 2 || (m == 1 && e.View == ""):
				e.Col = strings.ToUpper(e.Col)
				applied["column_upper@"+pos] = true
			case m == 3:
				idx := -1
				for i, cn := range viewCols[e.View] {
					if cn == e.Col {
						idx = i
					}
				}
				if e.View != "" && idx >= 0 && !noNumber {
					e.Col = fmt.Sprintf("%d", idx+1)
					applied["column_number@"+pos] = true
					if n%2 == 0 {
						e.View = strings.ToUpper(e.View)
					}
				} else {
					e.View, e.Col = strings.ToUpper(e.View), strings.ToUpper(e.Col)
					applied["both_upper@"+pos] = true
				}
			}
		}
		for _, a := range e.Args {
			inExpr(a, pos)
		}
		// the nested query is visited by eachQuery
	}
	var inSource func(s *ref.SelSource)
	inSource = func(s *ref.SelSource) {
		if s == nil {
			return
		}
		switch s.Kind {
		case "table":
			if cteNames[s.Name] && next()%2 == 1 {
				s.Name = strings.ToUpper(s.Name)
				applied["cte_name_upper@from"] = true
			}
		case "join":
			inSource(s.Left)
			inSource(s.Right)
			inExpr(s.On, "on")
			for i := range s.Using {
				if next()%2 == 1 {
					s.Using[i] = strings.ToUpper(s.Using[i])
					applied["column_upper@using"] = true
				}
			}
		}
	}
	eachQuery(v, func(x *ref.SelQuery) {
		for _, s := range x.From {
			inSource(s)
		}
		inExpr(x.Where, "where")
		for i := range x.Fields {
			f := &x.Fields[i]
			if f.Star && f.View != "" && next()%2 == 1 {
				f.View = strings.ToUpper(f.View)
				applied["qualifier_upper@star"] = true
			}
			noNumber = x != v && f.Alias == ""
			inExpr(f.Expr, "select")
			noNumber = false
		}
	}, func(*ref.SelSource) {})
	return v, applied
}

func checkRefFormCase(c refFormCase) (fw.Outcome, *fw.Violation) {
	o := fw.Outcome{}
	if c.Query == nil || !tablesInDomain(c.Tables) || c.CPU < 1 || c.CPU > 64 || len(c.Mask) == 0 || len(c.Mask) > 200 {
		o.Discard = true
		return o, nil
	}
	tn := map[string]bool{}
	for _, tb := range c.Tables {
		tn[tb.Name] = true
		if tb.Format != "" {
			o.Discard = true
			return o, nil
		}
	}
	clash := false
	eachQuery(c.Query, func(x *ref.SelQuery) {
		for _, ct := range x.With {
			if tn[ct.Name] {
				clash = true
			}
		}
	}, func(*ref.SelSource) {})
	for _, m := range c.Mask {
		if m < 0 || m > 3 {
			clash = true
		}
	}
	if clash {
		o.Discard = true
		return o, nil
	}
	want, skip, hv := refOutcome(c.Tables, c.Query)
	if hv != nil {
		return o, hv
	}
	if skip != "" {
		o.Discard = true
		fw.AddExtra("reference_forms_discarded_"+skip, 1)
		return o, nil
	}
	v, applied := respell(c.Tables, c.Query, c.Mask)
	sql := ref.SelSQL(v)
	o.Classes = []string{"size:" + sizeClass(c.Tables), fmt.Sprintf("cpu:%d", c.CPU)}
	for _, k := range fw.SortedKeys(applied) {
		o.Classes = append(o.Classes, "respelled:"+k)
	}
	s, cleanup, hv := openSession(c.Tables, c.CPU)
	if hv != nil {
		return o, hv
	}
	defer cleanup()
	res := s.Exec(sql)
	if res.ParseErr {
		return o, fw.Harness("generated query does not parse: %s: %v", sql, res.Err)
	}
	if res.Err != nil {
		return o, fw.V("respelled_reference_error", "%s: %v (canonical spelling: %s)", sql, res.Err, ref.SelSQL(c.Query))
	}
	if len(res.Views) != 1 {
		return o, fw.Harness("%s: %d results", sql, len(res.Views))
	}
	sig, msg, hv := judgeView(res.Views[0], c.Tables, c.Query, want, false)
	if hv != nil {
		return o, hv
	}
	if sig == "field_count" && applied["qualifier_upper@star"] {
		// SELECT X1.* FROM t1 x1: the columns of x1.* are silently missing
		return o, fw.V("star_qualifier_case_sensitive", "%s (cpu %d): %s (canonical spelling: %s)", sql, c.CPU, msg, ref.SelSQL(c.Query))
	}
	if sig != "" {
		return o, fw.V("respelled_"+sig, "%s (cpu %d): %s (canonical spelling: %s)", sql, c.CPU, msg, ref.SelSQL(c.Query))
	}
	if len(applied) > 0 && len(want.Rows) > 0 {
		o.Fingerprint = strings.Join(fw.SortedKeys(applied), ",") + "|" + sizeClass(c.Tables)
		o.Classes = append(o.Classes, "nontrivial")
	}
	return o, nil
}

func TestC03ReferenceForms(t *testing.T) {
	fw.Run(t, fw.Spec[refFormCase]{
		ID: "C03", Name: "reference_forms", Quick: 1600, Thorough: 20000,
		Gen: genRefFormCase, Check: checkRefFormCase,
		Rule: "the tables and the query IR of the select check (70% small, 20% 7-30 rows, 10% with a 160-400 row table and --cpu 2-16) whose references are respelled before the text is given to csvq, each by a drawn choice: the qualifier in upper case (X1.k), the column name in upper case (x1.K, bare K, USING (K)), both, the column number instead of the name (x1.2, for qualified references to columns of files and temporary tables), the name of a common table expression in upper case in FROM, the qualifier of x1.* in upper case; definitions (aliases, column lists) keep their spelling; oracle: the reference interpreter over the canonical spelling (the manual: character case is insensitive except file paths; table_name.column_number starting with 1) - rows as a multiset (sequence for a single source) and field count, column names are not compared; non-trivial = at least one reference respelled and a non-empty result; distinct by (set of respelling kind x position, size class)",
		Assumptions: []string{
			"column numbers are only written for qualified references, which the generator never uses for merged USING/NATURAL columns; table names in FROM keep their case (file paths)",
			"the name of an output column written as a column number is not documented (csvq shows x1.2): a select-list item without alias of a nested query is never written as a column number, so the enclosing query can still refer to it by name; column names of the result are not compared",
			assumeKnownShapes,
		},
	})
}
