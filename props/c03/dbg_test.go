package c03

import (
	"fmt"
	"testing"
	"time"

	"pgregory.net/rapid"
	"verif/internal/ref"
)

func TestDbgTime(t *testing.T) {
	tot := map[string]time.Duration{}
	cnt := map[string]int{}
	var worst time.Duration
	var worstSQL string
	rapid.Check(t, func(rt *rapid.T) {
		c := genCase(rt)
		sz := sizeClass(c.Tables)
		t0 := time.Now()
		_, err := ref.SelEval(c.Tables, c.Query, false)
		d1 := time.Since(t0)
		t0 = time.Now()
		_, v := checkCase(c)
		d2 := time.Since(t0)
		if v != nil { fmt.Println("V:", v.Sig, v.Msg) }
		tot[sz+"_ref"] += d1
		tot[sz+"_all"] += d2
		cnt[sz]++
		if err != nil { cnt[sz+"_err"]++ }
		if d2 > worst { worst = d2; worstSQL = c.SQL }
	})
	fmt.Println(cnt)
	for k, v := range tot { fmt.Println(k, v) }
	fmt.Println("worst", worst, worstSQL)
}
