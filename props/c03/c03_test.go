package c03

import (
	"fmt"
	"os"
	"sort"
	"strings"
	"sync/atomic"
	"testing"

	"github.com/mithrandie/csvq/lib/query"
	"pgregory.net/rapid"

	"verif/internal/fw"
	"verif/internal/ref"
	"verif/internal/run"
	"verif/internal/val"
)

func TestMain(m *testing.M) { fw.Main(m) }

// Shapes on which csvq genuinely violates the property (reported with their
// own signatures). While a flag is true, cases of that exact shape are put
// aside (discarded before the oracle runs) so that the search continues past
// the defect; set it to false once the defect is fixed in /repo or listed in
// known_findings.jsonl.
const (
	// A LATERAL join whose left side has no rows loses the whole header
	// (load_view.go: hfields is only set while processing row 0): `*` yields
	// no columns, later ON/USING references fail
	// -> signature lateral_empty_left_header_lost.
	avoidKnownLateralEmptyLeft = false
	// `*` over a relation holding two merged USING/NATURAL columns of the
	// same name (e.g. (a JOIN b USING (k)) CROSS JOIN (c JOIN d USING (k)))
	// shows the first merged column twice: `*` is expanded to references by
	// name and a bare name resolves to the first join column
	// -> signature star_duplicate_using_column.
	avoidKnownStarDuplicateUsingColumn = false
	// The grammar of a comma separated FROM list only continues after a
	// subquery item (parser.y joinable_tables lacks `table ',' joinable_tables`):
	// FROM t1, t2, t3 is a syntax error although the manual documents
	// FROM table [, {table|LATERAL laterable_table} ...]
	// -> signature from_comma_list_syntax_error.
	avoidKnownCommaListSyntax = false
	// After a join without trailing condition (CROSS JOIN, NATURAL JOIN) a
	// further join that starts with INNER, LEFT or RIGHT (the tokens missing
	// from `%left CROSS FULL NATURAL JOIN` in parser.y) is attached to the
	// right operand only: a CROSS JOIN b LEFT JOIN c ON c.x = a.x parses
	// as a CROSS JOIN (b LEFT JOIN c ON ...) ("field a.x does not exist";
	// RIGHT joins silently pad differently), whereas a following plain
	// JOIN / CROSS JOIN / NATURAL JOIN / FULL JOIN is attached to the whole left side
	// -> signature join_after_cross_or_natural_binds_right. Avoided by
	// writing the left operand in parentheses.
	avoidKnownJoinBindsRight = false
)

// joinBindsRightShape visits every join written as `L <kw> JOIN r` where L is
// an unparenthesised CROSS/NATURAL join and <kw> is INNER/LEFT/RIGHT.
func joinBindsRightShape(q *ref.SelQuery, fix bool) bool {
	found := false
	var inSource func(s *ref.SelSource)
	inSource = func(s *ref.SelSource) {
		if s == nil || s.Kind != "join" {
			return
		}
		l := s.Left
		kw := !s.Natural && (s.JoinType == "LEFT" || s.JoinType == "RIGHT" || (s.JoinType == "INNER" && s.InnerKw))
		if kw && l.Kind == "join" && !l.Paren && (l.JoinType == "CROSS" || l.Natural) {
			found = true
			if fix {
				l.Paren = true
			}
		}
		inSource(s.Left)
		inSource(s.Right)
	}
	// every query: CTE bodies, subqueries in FROM, nested queries of expressions
	eachQuery(q, func(x *ref.SelQuery) {
		for _, s := range x.From {
			inSource(s)
		}
	}, func(*ref.SelSource) {})
	return found
}

// commaListDefectShape: some FROM list has an item that is neither the first
// nor the last and is not a subquery.
func commaListDefectShape(q *ref.SelQuery) bool {
	found := false
	eachQuery(q, func(x *ref.SelQuery) {
		for i := 1; i+1 < len(x.From); i++ {
			if x.From[i].Kind != "sub" {
				found = true
			}
		}
	}, func(*ref.SelSource) {})
	return found
}

// ---------------------------------------------------------------------
// case

type selCase struct {
	Tables []ref.SelTable `json:"tables"`
	Query  *ref.SelQuery  `json:"query"`
	CPU    int            `json:"cpu"`
	SQL    string         `json:"sql"`             // informational: the text csvq is given (re-rendered from Query by the check)
	Limit  int            `json:"limit,omitempty"` // > 0: SET @@LIMIT_RECURSION TO <limit> before the query
}

// ---------------------------------------------------------------------
// generator

type cteInfo struct {
	name string
	cols []string
}

type colRef struct {
	View, Col string
	Hint      []val.Val // values the column is likely to hold (generation hint only)
}

type genCtx struct {
	t        *rapid.T
	tables   []ref.SelTable
	ctes     []cteInfo
	used     map[string]bool
	nAlias   int
	nLabel   int
	pool     []val.Val
	maxDepth int
	pending  []ref.SelCTE
	hints    map[string][]val.Val

	// extensions (all zero for the plain select check: no extra draws)
	subPred   int  // % of predicate leaves that are nested-query predicates (EXISTS, IN, ANY/ALL, scalar comparison)
	scalarFld int  // % of select-list items that are scalar subqueries
	innerWith int  // % of subqueries that carry their own WITH clause
	subWeight int  // weight of a subquery among the base sources (0: 24)
	sources   bool // file tables are written in all their forms (name, `file`, format function, FILE::, INLINE::, STDIN)
	predScope []ref.SelCol
	predDepth int
	wantOne   bool // the next select list has exactly one value field
	nCTE      int
	cteDepth  int    // nesting depth of the body of the next CTE (0: 1)
	noComma3  bool   // no FROM a, b, c (from_comma_list_syntax_error is reported by the select check)
	wherePct  int    // > 0: probability of a WHERE clause at every level
	lateralPc int    // > 0: probability that a joined source is a LATERAL subquery (default 16)
	cteName   string // name of the next CTE (shadowing), else c<n>
	deepJoins bool   // nested queries keep joining (2-3 sources) instead of reading mostly one source
	cteWeight int    // > 0: weight of a CTE reference among the base sources that are not the first one (default 18)
	avoidEdge string // the traversal form of WITH RECURSIVE does not use this table as its edge table
}

func (g *genCtx) setHint(view, name string, vs []val.Val) {
	if len(vs) == 0 {
		return
	}
	g.hints[view+"."+name] = vs
	g.hints["."+name] = vs
}

func (g *genCtx) hint(view, name string) []val.Val {
	if v, ok := g.hints[view+"."+name]; ok {
		return v
	}
	return g.hints["."+name]
}

// labelHints registers value hints for the output columns of a nested query.
func (g *genCtx) labelHints(view string, q *ref.SelQuery, labels []string) {
	for _, l := range labels {
		var vs []val.Val
		for _, f := range q.Fields {
			if f.Alias == l && f.Expr != nil && f.Expr.Kind == "col" {
				vs = g.hint(f.Expr.View, f.Expr.Col)
			}
		}
		if vs == nil {
			vs = g.hints["."+l]
		}
		if vs != nil {
			g.hints[view+"."+l] = vs
		}
	}
}

func columnSamples(tb ref.SelTable, col int) []val.Val {
	seen := map[val.Val]bool{}
	var out []val.Val
	step := 1
	if len(tb.Rows) > 24 {
		step = len(tb.Rows) / 24
	}
	for i := 0; i < len(tb.Rows) && len(out) < 8; i += step {
		v := tb.Rows[i][col]
		if !v.IsNull() && v.S != "" && !seen[v] {
			seen[v] = true
			out = append(out, v)
		}
	}
	return out
}

func intLike(vs []val.Val) bool {
	for _, v := range vs {
		if _, ok := ref.AsInteger(v); !ok {
			return false
		}
	}
	return len(vs) > 0
}

var ownPrefix = []string{"a", "b", "c", "d"}

func genCell(t *rapid.T, kind string, keyDomain int, file bool) val.Val {
	str := func() val.Val {
		s := fw.PickU(t, "str", []string{"a", "b", "ab", "c", "a", "b"})
		if fw.Pct(t, "variantStr", 4) {
			s = strings.ToUpper(s)
		}
		return val.Str(s)
	}
	integer := func(lo, hi int) val.Val {
		i := fw.Range(t, "int", lo, hi)
		if file {
			if fw.Pct(t, "variantInt", 3) {
				return val.Str(fmt.Sprintf(" %d", i))
			}
			return val.Str(fmt.Sprintf("%d", i))
		}
		if fw.Pct(t, "intAsText", 8) {
			return val.Str(fmt.Sprintf("%d", i))
		}
		return val.Int(int64(i))
	}
	switch kind {
	case "key":
		switch {
		case fw.Pct(t, "keyNull", 12):
			return val.Null
		case fw.Pct(t, "keyStr", 7):
			return str()
		}
		return integer(0, keyDomain)
	case "int":
		if fw.Pct(t, "intNull", 15) {
			return val.Null
		}
		return integer(-1, 4)
	case "str":
		switch {
		case fw.Pct(t, "strNull", 15):
			return val.Null
		case file && fw.Pct(t, "emptyStr", 3):
			return val.Str("")
		}
		return str()
	}
	// mixed
	switch fw.Uniform(t, "mixed", 5) {
	case 0:
		return val.Null
	case 1, 2:
		return integer(-1, 4)
	}
	return str()
}

func genTables(t *rapid.T, size string) []ref.SelTable {
	n := fw.Range(t, "nTables", 2, 4)
	largeIdx := fw.Uniform(t, "largeIdx", n)
	large2 := -1
	if size == "large" && fw.Pct(t, "twoLarge", 18) {
		large2 = (largeIdx + 1 + fw.Uniform(t, "large2", n-1)) % n
	}
	tables := make([]ref.SelTable, n)
	for i := 0; i < n; i++ {
		tb := ref.SelTable{Name: fmt.Sprintf("t%d", i+1), File: fw.Pct(t, "file", 50)}
		kPct := 65
		if i < 2 {
			kPct = 88
		}
		if fw.Pct(t, "hasK", kPct) {
			tb.Cols = append(tb.Cols, "k")
		}
		if fw.Pct(t, "hasK2", 25) {
			tb.Cols = append(tb.Cols, "k2")
		}
		nOwn := fw.Range(t, "nOwn", 1, 2)
		if len(tb.Cols) == 0 {
			nOwn = 2
		}
		for j := 1; j <= nOwn; j++ {
			tb.Cols = append(tb.Cols, fmt.Sprintf("%s%d", ownPrefix[i], j))
		}
		if fw.Pct(t, "shuffleCols", 30) {
			tb.Cols = rapid.Permutation(tb.Cols).Draw(t, "colOrder")
		}
		var rows int
		switch {
		case size == "large" && i == largeIdx:
			rows = fw.Range(t, "rowsLarge", 160, 400)
			if fw.Pct(t, "rowsHuge", 10) {
				// beyond every size the code may treat specially (1000+ rows, all cores busy)
				rows = fw.Range(t, "rowsHugeN", 1000, 1500)
			}
		case size == "large" && i == large2:
			rows = fw.Range(t, "rowsLarge2", 160, 220)
		case size == "medium" && (i == largeIdx || fw.Pct(t, "mediumToo", 60)):
			rows = fw.Range(t, "rowsMedium", 7, 30)
		case fw.Pct(t, "emptyTable", 4):
			rows = 0
		default:
			rows = fw.Range(t, "rows", 1, 6)
		}
		keyDomain := 3
		if rows/8 > keyDomain {
			keyDomain = rows / 8
		}
		kinds := make([]string, len(tb.Cols))
		for j, c := range tb.Cols {
			switch {
			case c == "k" || c == "k2":
				kinds[j] = "key"
			default:
				kinds[j] = []string{"int", "int", "str", "str", "mixed"}[fw.Uniform(t, "colKind", 5)]
			}
		}
		dupPct := fw.Range(t, "dupPct", 0, 30)
		for r := 0; r < rows; r++ {
			if r > 0 && fw.Pct(t, "dupRow", dupPct) {
				src := tb.Rows[fw.Uniform(t, "dupOf", r)]
				tb.Rows = append(tb.Rows, append([]val.Val{}, src...))
				continue
			}
			row := make([]val.Val, len(tb.Cols))
			for j := range row {
				row[j] = genCell(t, kinds[j], keyDomain, tb.File)
			}
			tb.Rows = append(tb.Rows, row)
		}
		tables[i] = tb
	}
	return tables
}

func (g *genCtx) alias() string {
	for {
		g.nAlias++
		a := fmt.Sprintf("x%d", g.nAlias)
		if !g.used[a] {
			g.used[a] = true
			return a
		}
	}
}

func (g *genCtx) label() string {
	g.nLabel++
	return fmt.Sprintf("y%d", g.nLabel)
}

func colE(r colRef) *ref.SelExpr { return &ref.SelExpr{Kind: "col", View: r.View, Col: r.Col} }
func litE(v val.Val) *ref.SelExpr {
	vv := v
	return &ref.SelExpr{Kind: "lit", Lit: &vv}
}

// refsFor lists the references the model resolves without doubt: a column is
// named bare only when its name is unique among everything visible, qualified
// otherwise (merged columns have no qualifier and are skipped when shadowed).
func (g *genCtx) refsFor(cols []ref.SelCol, visible []ref.SelCol) []colRef {
	count := map[string]int{}
	for _, c := range visible {
		count[c.Name]++
	}
	var out []colRef
	for _, c := range cols {
		switch {
		case c.Join || c.View == "":
			if count[c.Name] == 1 {
				out = append(out, colRef{"", c.Name, g.hint(c.View, c.Name)})
			}
		case count[c.Name] == 1 && fw.Pct(g.t, "bareRef", 30):
			out = append(out, colRef{"", c.Name, g.hint(c.View, c.Name)})
		default:
			out = append(out, colRef{c.View, c.Name, g.hint(c.View, c.Name)})
		}
	}
	return out
}

func (g *genCtx) lit() val.Val {
	if len(g.pool) > 0 && fw.Pct(g.t, "litFromData", 55) {
		v := fw.PickU(g.t, "poolLit", g.pool)
		if v.K == "S" {
			if i, ok := ref.AsInteger(v); ok && fw.Pct(g.t, "litAsInt", 70) {
				return val.Int(i)
			}
			if v.S == "" {
				return val.Str("a")
			}
		}
		return v
	}
	switch fw.Weighted(g.t, "litKind", []int{4, 10, 10, 10, 66}) {
	case 0:
		return val.Null
	case 1, 2, 3:
		return val.Str(fw.PickU(g.t, "litStr", []string{"a", "b", "ab", "B"}))
	}
	return val.Int(int64(fw.Range(g.t, "litInt", -1, 4)))
}

// litFor draws a literal to compare the operand with: mostly one of the
// values the column holds.
func (g *genCtx) litFor(e *ref.SelExpr, refs []colRef) val.Val {
	if e.Kind == "col" && fw.Pct(g.t, "litFromColumn", 75) {
		for _, r := range refs {
			if r.View == e.View && r.Col == e.Col && len(r.Hint) > 0 {
				v := fw.PickU(g.t, "hintLit", r.Hint)
				if i, ok := ref.AsInteger(v); ok && (v.K == "I" || fw.Pct(g.t, "litAsInt", 70)) {
					return val.Int(i + int64(fw.PickU(g.t, "litShift", []int{0, 0, 0, 1, -1})))
				}
				return v
			}
		}
	}
	if e.Kind == "arith" && fw.Pct(g.t, "litIntForArith", 85) {
		return val.Int(int64(fw.Range(g.t, "litInt", -1, 5)))
	}
	return g.lit()
}

// sameClass picks a reference whose values are of the class (integer-like or
// not) of r's, if there is one.
func (g *genCtx) sameClass(r colRef, refs []colRef) colRef {
	if fw.Pct(g.t, "anyClass", 20) {
		return fw.PickU(g.t, "ref2", refs)
	}
	var same []colRef
	for _, x := range refs {
		if len(x.Hint) > 0 && len(r.Hint) > 0 && intLike(x.Hint) == intLike(r.Hint) {
			same = append(same, x)
		}
	}
	if len(same) == 0 {
		return fw.PickU(g.t, "ref2", refs)
	}
	return fw.PickU(g.t, "ref2same", same)
}

func refOf(e *ref.SelExpr, refs []colRef) (colRef, bool) {
	if e.Kind == "col" {
		for _, r := range refs {
			if r.View == e.View && r.Col == e.Col {
				return r, true
			}
		}
	}
	return colRef{}, false
}

func (g *genCtx) operand(refs []colRef, allowArith bool) *ref.SelExpr {
	if len(refs) == 0 {
		return litE(g.lit())
	}
	if allowArith && fw.Pct(g.t, "arith", 15) {
		return g.arith(refs)
	}
	return colE(fw.PickU(g.t, "ref", refs))
}

func (g *genCtx) arith(refs []colRef) *ref.SelExpr {
	op := fw.PickU(g.t, "arithOp", []string{"+", "+", "-", "*"})
	var ints []colRef
	for _, r := range refs {
		if intLike(r.Hint) {
			ints = append(ints, r)
		}
	}
	if len(ints) > 0 && fw.Pct(g.t, "arithOnInts", 85) {
		refs = ints
	}
	a := colE(fw.PickU(g.t, "arithRef", refs))
	var b *ref.SelExpr
	if fw.Pct(g.t, "arithCol", 25) {
		b = colE(fw.PickU(g.t, "arithRef2", refs))
	} else {
		b = litE(val.Int(int64(fw.Range(g.t, "arithLit", 0, 3))))
	}
	if fw.Pct(g.t, "arithSwap", 20) {
		a, b = b, a
	}
	return &ref.SelExpr{Kind: "arith", Op: op, Args: []*ref.SelExpr{a, b}}
}

var cmpOps = []string{"=", "=", "=", "<>", "<", "<=", ">", ">="}

func (g *genCtx) pred(refs []colRef, depth int) *ref.SelExpr {
	if depth > 0 && fw.Pct(g.t, "logic", 35) {
		switch fw.Weighted(g.t, "logicKind", []int{3, 0, 5, 0, 2}) {
		case 0, 1:
			return &ref.SelExpr{Kind: "and", Args: []*ref.SelExpr{g.pred(refs, depth-1), g.pred(refs, depth-1)}}
		case 2, 3:
			return &ref.SelExpr{Kind: "or", Args: []*ref.SelExpr{g.pred(refs, depth-1), g.pred(refs, depth-1)}}
		}
		return &ref.SelExpr{Kind: "not", Args: []*ref.SelExpr{g.pred(refs, depth-1)}}
	}
	if g.subPred > 0 && g.predDepth < g.maxDepth && fw.Pct(g.t, "subPred", g.subPred) {
		return g.subPredExpr(refs)
	}
	switch fw.Weighted(g.t, "leaf", []int{36, 20, 12, 12, 10, 10}) {
	case 0:
		a := g.operand(refs, true)
		return &ref.SelExpr{Kind: "cmp", Op: fw.PickU(g.t, "cmpOp", cmpOps), Args: []*ref.SelExpr{a, litE(g.litFor(a, refs))}}
	case 1:
		a := g.operand(refs, true)
		b := g.operand(refs, false)
		if r, ok := refOf(a, refs); ok {
			b = colE(g.sameClass(r, refs))
		}
		return &ref.SelExpr{Kind: "cmp", Op: fw.PickU(g.t, "cmpOp", cmpOps), Args: []*ref.SelExpr{a, b}}
	case 2:
		return &ref.SelExpr{Kind: "isnull", Neg: fw.Pct(g.t, "isNotNull", 50), Args: []*ref.SelExpr{g.operand(refs, true)}}
	case 3:
		args := []*ref.SelExpr{g.operand(refs, false)}
		for i, n := 0, fw.Range(g.t, "inItems", 1, 3); i < n; i++ {
			if fw.Pct(g.t, "inCol", 15) {
				args = append(args, g.operand(refs, false))
			} else {
				args = append(args, litE(g.litFor(args[0], refs)))
			}
		}
		return &ref.SelExpr{Kind: "in", Neg: fw.Pct(g.t, "notIn", 30), Args: args}
	case 4:
		a := g.operand(refs, true)
		lo, hi := g.litFor(a, refs), g.litFor(a, refs)
		if rel, _ := ref.Compare(lo, hi); rel == ref.RelGt && fw.Pct(g.t, "orderBounds", 85) {
			lo, hi = hi, lo
		}
		return &ref.SelExpr{Kind: "between", Neg: fw.Pct(g.t, "notBetween", 30), Args: []*ref.SelExpr{a, litE(lo), litE(hi)}}
	}
	// literal-only or mixed comparison the other way round
	return &ref.SelExpr{Kind: "cmp", Op: fw.PickU(g.t, "cmpOp", cmpOps), Args: []*ref.SelExpr{litE(g.lit()), g.operand(refs, false)}}
}

func concatCols(a, b []ref.SelCol) []ref.SelCol {
	out := make([]ref.SelCol, 0, len(a)+len(b))
	out = append(out, a...)
	return append(out, b...)
}

func mergeViews(a, b map[string]int) map[string]int {
	out := map[string]int{}
	for k, v := range a {
		out[k] = v
	}
	for k, v := range b {
		out[k] = v
	}
	return out
}

// base: table | CTE reference | subquery.
func (g *genCtx) base(depth int, preferCTE bool) (*ref.SelSource, []ref.SelCol, map[string]int) {
	wCTE, wSub := 0, 0
	if len(g.ctes) > 0 {
		wCTE = 18
		if g.cteWeight > 0 {
			wCTE = g.cteWeight
		}
		if preferCTE {
			wCTE = 150
		}
	}
	if depth < g.maxDepth {
		wSub = 24
		if g.subWeight > 0 {
			wSub = g.subWeight
		}
	}
	switch fw.Weighted(g.t, "baseKind", []int{60, wCTE, wSub}) {
	case 1:
		c := fw.PickU(g.t, "cte", g.ctes)
		s := &ref.SelSource{Kind: "table", Name: c.name}
		view := c.name
		if g.used[c.name] || fw.Pct(g.t, "cteAlias", 40) {
			s.Alias, s.As = g.alias(), fw.Pct(g.t, "as", 40)
			view = s.Alias
		}
		g.used[view] = true
		cols := make([]ref.SelCol, len(c.cols))
		for i, n := range c.cols {
			cols[i] = ref.SelCol{View: view, Name: n}
			if vs := g.hints[c.name+"."+n]; vs != nil {
				g.hints[view+"."+n] = vs
			}
		}
		return s, cols, map[string]int{view: len(cols)}
	case 2:
		return g.subquery(depth, nil, false)
	}
	tb := fw.PickU(g.t, "table", g.tables)
	s := &ref.SelSource{Kind: "table", Name: tb.Name}
	if tb.File {
		s.Ext = fw.Pct(g.t, "ext", 25)
	}
	forceAlias := false
	if g.sources && tb.File {
		forceAlias = g.sourceForm(s, tb)
	}
	view := tb.Name
	if forceAlias || g.used[tb.Name] || fw.Pct(g.t, "tableAlias", 65) {
		s.Alias, s.As = g.alias(), fw.Pct(g.t, "as", 40)
		view = s.Alias
	}
	g.used[view] = true
	cols := make([]ref.SelCol, len(tb.Cols))
	for i, n := range tb.Cols {
		cols[i] = ref.SelCol{View: view, Name: n}
		g.setHint(view, n, columnSamples(tb, i))
	}
	return s, cols, map[string]int{view: len(cols)}
}

func (g *genCtx) subquery(depth int, outer []ref.SelCol, lateral bool) (*ref.SelSource, []ref.SelCol, map[string]int) {
	inner, restore := g.innerCTEs(depth + 1)
	q, labels := g.query(depth+1, outer, true)
	q.With = inner
	restore()
	s := &ref.SelSource{Kind: "sub", Sub: q, Lateral: lateral, Alias: g.alias(), As: fw.Pct(g.t, "as", 40)}
	cols := make([]ref.SelCol, len(labels))
	for i, n := range labels {
		cols[i] = ref.SelCol{View: s.Alias, Name: n}
	}
	g.labelHints(s.Alias, q, labels)
	return s, cols, map[string]int{s.Alias: len(cols)}
}

type joinKind struct {
	typ     string
	natural bool
	using   bool
}

var joinKinds = []joinKind{
	{"CROSS", false, false}, {"INNER", false, false}, {"LEFT", false, false}, {"RIGHT", false, false}, {"FULL", false, false},
	{"INNER", true, false}, {"LEFT", true, false}, {"RIGHT", true, false}, {"FULL", true, false},
	{"INNER", false, true}, {"LEFT", false, true}, {"RIGHT", false, true}, {"FULL", false, true},
}
var joinWeights = []int{8, 20, 16, 9, 11, 6, 5, 3, 4, 7, 6, 3, 5}
var lateralWeights = []int{25, 25, 25, 0, 0, 6, 6, 0, 0, 7, 6, 0, 0}

// uniqueCommon: names present exactly once on either side (eligible for USING)
// and whether every name present on both sides is of that kind (NATURAL is
// then unambiguous).
func uniqueCommon(l, r []ref.SelCol) (eligible []string, naturalOK bool) {
	cl, cr := map[string]int{}, map[string]int{}
	for _, c := range l {
		cl[c.Name]++
	}
	for _, c := range r {
		cr[c.Name]++
	}
	naturalOK = true
	seen := map[string]bool{}
	for _, c := range l {
		if seen[c.Name] || cr[c.Name] == 0 {
			continue
		}
		seen[c.Name] = true
		if cl[c.Name] == 1 && cr[c.Name] == 1 {
			eligible = append(eligible, c.Name)
		} else {
			naturalOK = false
		}
	}
	return eligible, naturalOK
}

func (g *genCtx) joinCond(lcols, rcols, outer []ref.SelCol) *ref.SelExpr {
	visible := concatCols(concatCols(lcols, rcols), outer)
	g.predScope = visible
	lrefs, rrefs := g.refsFor(lcols, visible), g.refsFor(rcols, visible)
	all := append(append([]colRef{}, lrefs...), rrefs...)
	if len(lrefs) == 0 || len(rrefs) == 0 {
		return g.pred(all, 1)
	}
	keyFirst := func(refs []colRef, label string) colRef {
		var keys []colRef
		for _, r := range refs {
			if r.Col == "k" || r.Col == "k2" || r.Col == "n" || r.Col == "node" {
				keys = append(keys, r)
			}
		}
		if len(keys) > 0 && fw.Pct(g.t, label+"Key", 75) {
			return fw.PickU(g.t, label, keys)
		}
		return fw.PickU(g.t, label, refs)
	}
	switch fw.Weighted(g.t, "onKind", []int{62, 12, 6, 20}) {
	case 0:
		a, b := colE(keyFirst(lrefs, "onL")), colE(keyFirst(rrefs, "onR"))
		if fw.Pct(g.t, "onSwap", 30) {
			a, b = b, a
		}
		eq := &ref.SelExpr{Kind: "cmp", Op: "=", Args: []*ref.SelExpr{a, b}}
		if fw.Pct(g.t, "onExtra", 25) {
			kind := "and"
			if fw.Pct(g.t, "onOr", 30) {
				kind = "or"
			}
			return &ref.SelExpr{Kind: kind, Args: []*ref.SelExpr{eq, g.pred(all, 0)}}
		}
		return eq
	case 1:
		op := fw.PickU(g.t, "onOp", []string{"<", "<=", ">", "<>", ">="})
		return &ref.SelExpr{Kind: "cmp", Op: op, Args: []*ref.SelExpr{colE(keyFirst(lrefs, "onL")), colE(keyFirst(rrefs, "onR"))}}
	case 2:
		return litE(val.Tern(1))
	}
	return g.pred(all, 1)
}

// fromItem builds one join tree over n base sources.
func (g *genCtx) fromItem(depth, n int, outer []ref.SelCol, preferCTE bool) (*ref.SelSource, []ref.SelCol, map[string]int) {
	left, lcols, lviews := g.base(depth, preferCTE)
	for i := 1; i < n; i++ {
		latPct := 16
		if g.lateralPc > 0 {
			latPct = g.lateralPc
		}
		lateral := depth < g.maxDepth && fw.Pct(g.t, "lateral", latPct)
		var right *ref.SelSource
		var rcols []ref.SelCol
		var rviews map[string]int
		weights := joinWeights
		switch {
		case lateral:
			right, rcols, rviews = g.subquery(depth, concatCols(lcols, outer), true)
			weights = lateralWeights
		case i+1 < n && fw.Pct(g.t, "parenRight", 25):
			right, rcols, rviews = g.fromItem(depth, n-i, outer, false)
			if right.Kind == "join" {
				right.Paren = true
			}
			i = n
		default:
			right, rcols, rviews = g.base(depth, false)
		}
		jk := joinKinds[fw.Weighted(g.t, "joinKind", weights)]
		j := &ref.SelSource{Kind: "join", Left: left, Right: right, JoinType: jk.typ}
		switch jk.typ {
		case "INNER":
			j.InnerKw = fw.Pct(g.t, "innerKw", 35)
		case "LEFT", "RIGHT", "FULL":
			j.OuterKw = fw.Pct(g.t, "outerKw", 35)
		}
		eligible, naturalOK := uniqueCommon(lcols, rcols)
		switch {
		case jk.natural && naturalOK && (len(eligible) > 0 || fw.Pct(g.t, "naturalNoCommon", 15)):
			j.Natural = true
		case (jk.using || jk.natural) && len(eligible) > 0:
			names := eligible
			if len(names) > 1 {
				names = rapid.Permutation(names).Draw(g.t, "usingOrder")
				names = names[:fw.Range(g.t, "nUsing", 1, len(names))]
			}
			j.Using = names
		case jk.typ != "CROSS":
			g.predDepth = depth
			j.On = g.joinCond(lcols, rcols, outer)
		}
		cols, _, _, _, err := ref.SelJoinCols(lcols, rcols, j.Natural, j.Using)
		if err != nil {
			panic("generator: " + err.Error())
		}
		left, lcols, lviews = j, cols, mergeViews(lviews, rviews)
	}
	return left, lcols, lviews
}

func hasDupJoinCol(cols []ref.SelCol) bool {
	seen := map[string]bool{}
	for _, c := range cols {
		if c.Join {
			if seen[c.Name] {
				return true
			}
			seen[c.Name] = true
		}
	}
	return false
}

// fields builds the select list. needLabels: every output column gets a
// distinct, known name (subqueries and CTE bodies).
func (g *genCtx) fields(cols []ref.SelCol, views map[string]int, outer []ref.SelCol, needLabels bool, one bool, depth int) ([]ref.SelField, []string) {
	visible := concatCols(cols, outer)
	g.predScope, g.predDepth = visible, depth
	refs := g.refsFor(cols, visible)
	allRefs := refs
	if len(outer) > 0 && fw.Pct(g.t, "outerInFields", 35) {
		allRefs = append(append([]colRef{}, refs...), g.refsFor(outer, visible)...)
	}
	namesUnique := func(names []string, taken map[string]bool) bool {
		seen := map[string]bool{}
		for _, n := range names {
			if seen[n] || taken[n] {
				return false
			}
			seen[n] = true
		}
		return true
	}
	allNames := make([]string, len(cols))
	for i, c := range cols {
		allNames[i] = c.Name
	}
	if !one && len(cols) > 0 && fw.Pct(g.t, "star", 25) && (!needLabels || namesUnique(allNames, nil)) {
		return []ref.SelField{{Star: true}}, allNames
	}
	// views whose columns are all still addressable as view.*
	var starViews []string
	for _, v := range fw.SortedKeys(views) {
		n := 0
		for _, c := range cols {
			if !c.Join && c.View == v {
				n++
			}
		}
		if n == views[v] && n > 0 {
			starViews = append(starViews, v)
		}
	}
	var fields []ref.SelField
	var labels []string
	taken := map[string]bool{}
	add := func(f ref.SelField, names ...string) {
		fields = append(fields, f)
		for _, n := range names {
			labels = append(labels, n)
			taken[n] = true
		}
	}
	nf := 1
	if !one {
		nf = fw.Range(g.t, "nFields", 1, 4)
	}
	for i := 0; i < nf; i++ {
		if g.scalarFld > 0 && depth < g.maxDepth && fw.Pct(g.t, "scalarField", g.scalarFld) {
			f := ref.SelField{Expr: g.scalarSub(visible, depth), Alias: g.label()}
			add(f, f.Alias)
			g.predScope, g.predDepth = visible, depth
			continue
		}
		kind := fw.Weighted(g.t, "fieldKind", []int{50, 12, 16, 8, 14})
		if kind == 1 && (len(starViews) == 0 || one) {
			kind = 0
		}
		if len(allRefs) == 0 && kind != 1 {
			kind = 3
		}
		switch kind {
		case 0, 4: // column, possibly with alias
			r := fw.PickU(g.t, "fieldRef", allRefs)
			f := ref.SelField{Expr: colE(r)}
			name := r.Col
			if kind == 4 || (needLabels && taken[name]) {
				f.Alias = g.label()
				name = f.Alias
			}
			add(f, name)
		case 1: // view.*
			v := fw.PickU(g.t, "starView", starViews)
			var names []string
			for _, c := range cols {
				if !c.Join && c.View == v {
					names = append(names, c.Name)
				}
			}
			if needLabels && !namesUnique(names, taken) {
				continue
			}
			add(ref.SelField{Star: true, View: v}, names...)
		case 2: // arithmetic
			f := ref.SelField{Expr: g.arith(allRefs)}
			name := ""
			if needLabels || fw.Pct(g.t, "exprAlias", 60) {
				f.Alias = g.label()
				name = f.Alias
			}
			add(f, name)
		case 3: // literal
			f := ref.SelField{Expr: litE(g.lit())}
			name := ""
			if needLabels || fw.Pct(g.t, "litAlias", 60) {
				f.Alias = g.label()
				name = f.Alias
			}
			add(f, name)
		}
	}
	if len(fields) == 0 {
		f := ref.SelField{Expr: litE(val.Int(1)), Alias: g.label()}
		add(f, f.Alias)
	}
	return fields, labels
}

// query builds one SELECT of the given nesting depth (0 = outermost).
func (g *genCtx) query(depth int, outer []ref.SelCol, needLabels bool) (*ref.SelQuery, []string) {
	var w []int
	switch depth {
	case 0:
		w = []int{24, 46, 30}
	case 1:
		w = []int{58, 36, 6}
	default:
		w = []int{85, 15, 0}
	}
	if g.deepJoins && depth > 0 {
		w = []int{50, 42, 8}
	}
	one := g.wantOne
	g.wantOne = false
	nsrc := 1 + fw.Weighted(g.t, "nSources", w)
	q := &ref.SelQuery{}
	var cols []ref.SelCol
	views := map[string]int{}
	// split the sources over comma separated items
	items := []int{nsrc}
	if nsrc >= 2 && fw.Pct(g.t, "comma", 25) {
		items = []int{nsrc - 1, 1}
		if nsrc == 3 && !g.noComma3 && fw.Pct(g.t, "comma3", 30) {
			items = []int{1, 1, 1}
		}
	}
	for i, n := range items {
		var s *ref.SelSource
		var c []ref.SelCol
		var v map[string]int
		middle := i > 0 && i+1 < len(items)
		if middle && avoidKnownCommaListSyntax && depth >= g.maxDepth {
			continue
		}
		if i > 0 && depth < g.maxDepth && fw.Pct(g.t, "commaLateral", 30) {
			s, c, v = g.subquery(depth, concatCols(cols, outer), true)
		} else if middle && avoidKnownCommaListSyntax {
			s, c, v = g.subquery(depth, nil, false)
		} else {
			s, c, v = g.fromItem(depth, n, outer, depth == 0 && i == 0)
		}
		q.From = append(q.From, s)
		cols = concatCols(cols, c)
		views = mergeViews(views, v)
	}
	visible := concatCols(cols, outer)
	wherePct := 60
	if depth > 0 {
		wherePct = 40
	}
	if len(outer) > 0 {
		wherePct = 85
	}
	if g.wherePct > 0 && wherePct < g.wherePct {
		wherePct = g.wherePct
	}
	g.predScope, g.predDepth = visible, depth
	if fw.Pct(g.t, "where", wherePct) {
		refs := g.refsFor(cols, visible)
		if len(outer) > 0 {
			// correlate: compare an own column with a column of the left side
			orefs := g.refsFor(outer, visible)
			if len(refs) > 0 && len(orefs) > 0 && fw.Pct(g.t, "correlate", 80) {
				op := fw.PickU(g.t, "corrOp", []string{"=", "=", "=", "<", ">=", "<>"})
				corr := &ref.SelExpr{Kind: "cmp", Op: op, Args: []*ref.SelExpr{colE(fw.PickU(g.t, "corrOwn", refs)), g.operand(orefs, true)}}
				if fw.Pct(g.t, "corrExtra", 30) {
					q.Where = &ref.SelExpr{Kind: fw.PickU(g.t, "corrLogic", []string{"and", "or"}), Args: []*ref.SelExpr{corr, g.pred(append(refs, orefs...), 0)}}
				} else {
					q.Where = corr
				}
			} else {
				q.Where = g.pred(append(refs, orefs...), 1)
			}
		} else {
			q.Where = g.pred(refs, 1+fw.Uniform(g.t, "whereDepth", 2))
		}
	}
	var labels []string
	q.Fields, labels = g.fields(cols, views, outer, needLabels, one, depth)
	return q, labels
}

func (g *genCtx) smallTables() []ref.SelTable {
	var out []ref.SelTable
	for _, tb := range g.tables {
		if len(tb.Rows) <= 30 {
			out = append(out, tb)
		}
	}
	return out
}

func (g *genCtx) cte() {
	g.nCTE++
	name := fmt.Sprintf("c%d", g.nCTE)
	if g.cteName != "" {
		name, g.cteName = g.cteName, ""
	}
	g.used[name] = true
	bodyDepth := 1
	if g.cteDepth > 0 {
		bodyDepth = g.cteDepth
	}
	intLit := func(i int) *ref.SelExpr { return litE(val.Int(int64(i))) }
	small := g.smallTables()
	if g.avoidEdge != "" {
		var keep []ref.SelTable
		for _, tb := range small {
			if tb.Name != g.avoidEdge {
				keep = append(keep, tb)
			}
		}
		small = keep
	}
	kind := fw.Weighted(g.t, "cteKind", []int{50, 28, 22})
	if kind == 2 && len(small) == 0 {
		kind = 1
	}
	switch kind {
	case 0: // plain
		q, labels := g.query(bodyDepth, nil, true)
		c := ref.SelCTE{Name: name, Query: q}
		cols := labels
		if fw.Pct(g.t, "cteCols", 45) {
			cols = make([]string, len(labels))
			for i := range cols {
				if i == 0 && fw.Pct(g.t, "cteColK", 45) {
					cols[i] = "k"
				} else {
					cols[i] = fmt.Sprintf("p%d", i+1)
				}
			}
			c.Cols = cols
		}
		g.labelHints(name, q, labels)
		if len(c.Cols) > 0 {
			for i, l := range labels {
				if vs := g.hints[name+"."+l]; vs != nil {
					g.hints[name+"."+c.Cols[i]] = vs
				}
			}
		}
		g.ctesAppend(c, cols)
	case 1: // bounded counter
		col := fw.PickU(g.t, "countCol", []string{"n", "k"})
		lo := fw.Range(g.t, "countLo", 0, 2)
		hi := lo + fw.Range(g.t, "countSpan", 0, 5)
		inc := fw.PickU(g.t, "countInc", []int{1, 1, 1, 2})
		rec := &ref.SelSource{Kind: "table", Name: name}
		view := name
		if fw.Pct(g.t, "recAlias", 40) {
			rec.Alias, rec.As = g.alias(), fw.Pct(g.t, "as", 40)
			view = rec.Alias
		}
		cr := colRef{View: view, Col: col}
		if fw.Pct(g.t, "recBare", 50) {
			cr.View = ""
		}
		step := &ref.SelQuery{
			From:   []*ref.SelSource{rec},
			Where:  &ref.SelExpr{Kind: "cmp", Op: "<", Args: []*ref.SelExpr{colE(cr), intLit(hi)}},
			Fields: []ref.SelField{{Expr: &ref.SelExpr{Kind: "arith", Op: "+", Args: []*ref.SelExpr{colE(cr), intLit(inc)}}}},
		}
		c := ref.SelCTE{Name: name, Cols: []string{col}, Recursive: true,
			Query: &ref.SelQuery{Fields: []ref.SelField{{Expr: intLit(lo)}}}, Step: step}
		g.hints[name+"."+col] = []val.Val{val.Int(int64(lo)), val.Int(int64(lo + 1)), val.Int(int64(hi))}
		g.ctesAppend(c, c.Cols)
	case 2: // bounded traversal of an edge table
		e := fw.PickU(g.t, "edgeTable", small)
		perm := rapid.Permutation(e.Cols).Draw(g.t, "edgeCols")
		src, dst := perm[0], perm[1]
		node := fw.PickU(g.t, "nodeCol", []string{"node", "k"})
		bound := fw.Range(g.t, "depthBound", 1, 3)
		if len(e.Rows) > 12 {
			bound = 1
		}
		var base *ref.SelQuery
		if fw.Pct(g.t, "baseFromTable", 50) && len(e.Rows) <= 12 {
			a := g.alias()
			base = &ref.SelQuery{
				From:   []*ref.SelSource{g.tableSource(e, a)},
				Where:  &ref.SelExpr{Kind: "isnull", Neg: true, Args: []*ref.SelExpr{colE(colRef{View: a, Col: src})}},
				Fields: []ref.SelField{{Expr: colE(colRef{View: a, Col: src})}, {Expr: intLit(0)}},
			}
		} else {
			base = &ref.SelQuery{Fields: []ref.SelField{{Expr: litE(g.lit())}, {Expr: intLit(0)}}}
		}
		rec := &ref.SelSource{Kind: "table", Name: name}
		rview := name
		if fw.Pct(g.t, "recAlias", 40) {
			rec.Alias = g.alias()
			rview = rec.Alias
		}
		ea := g.alias()
		edge := g.tableSource(e, ea)
		link := &ref.SelExpr{Kind: "cmp", Op: "=", Args: []*ref.SelExpr{colE(colRef{View: ea, Col: src}), colE(colRef{View: rview, Col: node})}}
		limit := &ref.SelExpr{Kind: "cmp", Op: "<", Args: []*ref.SelExpr{colE(colRef{View: rview, Col: "d"}), intLit(bound)}}
		step := &ref.SelQuery{Fields: []ref.SelField{
			{Expr: colE(colRef{View: ea, Col: dst})},
			{Expr: &ref.SelExpr{Kind: "arith", Op: "+", Args: []*ref.SelExpr{colE(colRef{View: rview, Col: "d"}), intLit(1)}}},
		}}
		if fw.Pct(g.t, "stepJoin", 60) {
			step.From = []*ref.SelSource{{Kind: "join", JoinType: "INNER", Left: rec, Right: edge, On: link}}
			step.Where = limit
		} else {
			step.From = []*ref.SelSource{rec, edge}
			step.Where = &ref.SelExpr{Kind: "and", Args: []*ref.SelExpr{link, limit}}
		}
		c := ref.SelCTE{Name: name, Cols: []string{node, "d"}, Recursive: true, Query: base, Step: step}
		for i, cn := range e.Cols {
			if cn == dst {
				g.hints[name+"."+node] = columnSamples(e, i)
			}
		}
		g.hints[name+".d"] = []val.Val{val.Int(0), val.Int(1), val.Int(2)}
		g.ctesAppend(c, c.Cols)
	}
}

func (g *genCtx) ctesAppend(c ref.SelCTE, cols []string) {
	g.ctes = append(g.ctes, cteInfo{name: c.Name, cols: cols})
	g.pending = append(g.pending, c)
}

func valuePool(tables []ref.SelTable) []val.Val {
	seen := map[val.Val]bool{}
	var pool []val.Val
	for _, tb := range tables {
		step := 1
		if len(tb.Rows) > 40 {
			step = len(tb.Rows) / 40
		}
		for i := 0; i < len(tb.Rows); i += step {
			for _, v := range tb.Rows[i] {
				if !v.IsNull() && !seen[v] {
					seen[v] = true
					pool = append(pool, v)
				}
			}
		}
	}
	return pool
}

func genCase(t *rapid.T) selCase {
	size := []string{"small", "medium", "large"}[fw.Weighted(t, "size", []int{70, 15, 15})]
	c := selCase{Tables: genTables(t, size)}
	switch size {
	case "small":
		c.CPU = fw.PickU(t, "cpu", []int{1, 1, 1, 4})
	case "medium":
		c.CPU = fw.PickU(t, "cpuMedium", []int{4, 4, 2, 1})
	default:
		c.CPU = fw.PickU(t, "cpuLarge", []int{4, 4, 4, 2, 3})
	}
	g := &genCtx{t: t, tables: c.Tables, used: map[string]bool{}, pool: valuePool(c.Tables), maxDepth: 2, hints: map[string][]val.Val{}}
	if size == "large" {
		g.maxDepth = 1
	}
	if fw.Pct(t, "with", 35) {
		g.cte()
		if fw.Pct(t, "with2", 30) {
			g.cte()
		}
	}
	q, _ := g.query(0, nil, false)
	q.With = g.pending
	if avoidKnownJoinBindsRight {
		joinBindsRightShape(q, true)
	}
	if size != "large" && q.Where != nil {
		// too many generated conditions select nothing: drop the outermost
		// WHERE of most queries whose result would be empty
		if r, err := ref.SelEval(c.Tables, q, ref.SelReading{}); err == nil && len(r.Rows) == 0 && fw.Pct(t, "dropEmptyWhere", 75) {
			q.Where = nil
		}
	}
	c.Query = q
	c.SQL = ref.SelSQL(q)
	return c
}

// ---------------------------------------------------------------------
// execution

func csvText(tb ref.SelTable) string {
	var b strings.Builder
	b.WriteString(strings.Join(tb.Cols, ","))
	b.WriteString("\n")
	for _, r := range tb.Rows {
		for i, v := range r {
			if i > 0 {
				b.WriteString(",")
			}
			if !v.IsNull() {
				b.WriteString(`"` + strings.ReplaceAll(v.S, `"`, `""`) + `"`)
			}
		}
		b.WriteString("\n")
	}
	return b.String()
}

func declareSQL(tb ref.SelTable) string {
	var b strings.Builder
	b.WriteString("DECLARE " + tb.Name + " VIEW (" + strings.Join(tb.Cols, ", ") + ");\n")
	if len(tb.Rows) > 0 {
		b.WriteString("INSERT INTO " + tb.Name + " VALUES ")
		for i, r := range tb.Rows {
			if i > 0 {
				b.WriteString(", ")
			}
			b.WriteString("(")
			for j, v := range r {
				if j > 0 {
					b.WriteString(", ")
				}
				b.WriteString(v.SQL())
			}
			b.WriteString(")")
		}
		b.WriteString(";\n")
	}
	return b.String()
}

var identRe = func(s string) bool {
	if s == "" || len(s) > 12 {
		return false
	}
	for i, r := range s {
		if !(r >= 'a' && r <= 'z') && !(i > 0 && r >= '0' && r <= '9') {
			return false
		}
	}
	return true
}

func tablesInDomain(tables []ref.SelTable) bool {
	if len(tables) == 0 {
		return false
	}
	names := map[string]bool{}
	nStdin := 0
	for _, tb := range tables {
		if !identRe(tb.Name) || names[tb.Name] || len(tb.Cols) < 2 {
			return false
		}
		typed := false // the format carries integers as integers
		switch tb.Format {
		case "":
		case "csv", "tsv":
			if !tb.File {
				return false
			}
		case "stdin":
			nStdin++
			if !tb.File || nStdin > 1 {
				return false
			}
		case "json", "jsonl", "ltsv":
			// no header without a record
			if !tb.File || len(tb.Rows) == 0 {
				return false
			}
			typed = tb.Format != "ltsv"
		default:
			return false
		}
		names[tb.Name] = true
		cn := map[string]bool{}
		for _, c := range tb.Cols {
			if !identRe(c) || cn[c] {
				return false
			}
			cn[c] = true
		}
		for _, r := range tb.Rows {
			if len(r) != len(tb.Cols) {
				return false
			}
			for _, v := range r {
				switch v.K {
				case "N":
				case "I":
					if (tb.File && !typed) || v.AsInt() < -1000 || v.AsInt() > 1000 {
						return false
					}
				case "S":
					if len(v.S) > 4 || (v.S == "" && (!tb.File || tb.Format == "ltsv")) {
						return false
					}
					for _, r := range v.S {
						if !(r == ' ' || r == '-' || (r >= '0' && r <= '9') || (r >= 'a' && r <= 'c') || (r >= 'A' && r <= 'C')) {
							return false
						}
					}
					if _, isInt := ref.AsInteger(v); !isInt && strings.ContainsAny(v.S, "0123456789- ") {
						return false
					}
				default:
					return false
				}
			}
		}
	}
	return true
}

// session: directory with the CSV files, temporary tables declared.
func openSession(tables []ref.SelTable, cpu int) (*run.Sess, func(), *fw.Violation) {
	dir, err := os.MkdirTemp(fw.WorkDir(), "c03-")
	if err != nil {
		return nil, nil, fw.Harness("mkdir: %v", err)
	}
	files := map[string]string{}
	var decl strings.Builder
	opt := run.Opt{Dir: dir, CPU: cpu}
	for _, tb := range tables {
		switch {
		case tb.File && tb.Format == "stdin":
			opt.Stdin, opt.HasStdin = csvText(tb), true
		case tb.File:
			files[tb.Name+"."+ref.SelFileExt(tb.Format)] = fileText(tb)
		default:
			decl.WriteString(declareSQL(tb))
		}
	}
	if err := run.WriteFiles(dir, files); err != nil {
		_ = os.RemoveAll(dir)
		return nil, nil, fw.Harness("write files: %v", err)
	}
	s, err := run.NewSess(opt)
	if err != nil {
		_ = os.RemoveAll(dir)
		return nil, nil, fw.Harness("session: %v", err)
	}
	cleanup := func() {
		s.Close()
		_ = os.RemoveAll(dir)
	}
	if decl.Len() > 0 {
		if r := s.Exec(decl.String()); r.Err != nil {
			cleanup()
			return nil, nil, fw.Harness("setup: %v", r.Err)
		}
	}
	return s, cleanup, nil
}

func rowKey(r []val.Val) string {
	var b strings.Builder
	for _, v := range r {
		if v.IsNull() {
			b.WriteString("N\x1f")
		} else {
			b.WriteString("V" + v.S + "\x1f")
		}
	}
	return b.String()
}

func showRow(r []val.Val) string {
	parts := make([]string, len(r))
	for i, v := range r {
		if v.IsNull() {
			parts[i] = "NULL"
		} else {
			parts[i] = "'" + v.S + "'"
		}
	}
	return "(" + strings.Join(parts, ", ") + ")"
}

// compareRows: "" when got matches want (sequence when ordered, multiset otherwise).
func compareRows(got, want [][]val.Val, ordered bool) (sig, msg string) {
	count := map[string]int{}
	example := map[string][]val.Val{}
	for _, r := range want {
		k := rowKey(r)
		count[k]++
		example[k] = r
	}
	for _, r := range got {
		k := rowKey(r)
		count[k]--
		example[k] = r
	}
	var missing, extra []string
	for _, k := range fw.SortedKeys(count) {
		switch n := count[k]; {
		case n > 0:
			missing = append(missing, fmt.Sprintf("%s x%d", showRow(example[k]), n))
		case n < 0:
			extra = append(extra, fmt.Sprintf("%s x%d", showRow(example[k]), -n))
		}
	}
	clip := func(xs []string) string {
		if len(xs) > 6 {
			return strings.Join(xs[:6], " ") + fmt.Sprintf(" ... (%d distinct)", len(xs))
		}
		return strings.Join(xs, " ")
	}
	switch {
	case len(missing) > 0 && len(extra) > 0:
		return "rows_differ", fmt.Sprintf("%d rows, expected %d; missing: %s; unexpected: %s", len(got), len(want), clip(missing), clip(extra))
	case len(missing) > 0:
		return "rows_missing", fmt.Sprintf("%d rows, expected %d; missing: %s", len(got), len(want), clip(missing))
	case len(extra) > 0:
		return "rows_extra", fmt.Sprintf("%d rows, expected %d; unexpected: %s", len(got), len(want), clip(extra))
	}
	if ordered {
		for i := range want {
			if rowKey(got[i]) != rowKey(want[i]) {
				return "single_source_row_order", fmt.Sprintf("row %d is %s, the source order gives %s", i+1, showRow(got[i]), showRow(want[i]))
			}
		}
	}
	return "", ""
}

func sizeClass(tables []ref.SelTable) string {
	max := 0
	for _, tb := range tables {
		if len(tb.Rows) > max {
			max = len(tb.Rows)
		}
	}
	switch {
	case max >= 160:
		return "large"
	case max > 6:
		return "medium"
	}
	return "small"
}

func checkCase(c selCase) (fw.Outcome, *fw.Violation) { return checkSel(c, "select") }

// checkSel is the oracle shared by the select check and its extensions
// (mode: select, subquery_predicates, deep_nesting, table_sources,
// recursive_union). The extensions put the defect shapes already reported by
// the select check aside (they are listed in known_findings.jsonl for that
// check) and count them.
func checkSel(c selCase, mode string) (fw.Outcome, *fw.Violation) {
	o := fw.Outcome{}
	if c.Query == nil || !tablesInDomain(c.Tables) || c.CPU < 1 || c.Limit < 0 || c.Limit > 1000 {
		o.Discard = true
		return o, nil
	}
	if stdinTable(c.Tables) >= 0 && hasFromless(c.Query) {
		o.Discard = true
		return o, nil
	}
	sql := ref.SelSQL(c.Query)
	// reference under the base reading of the outcomes the manual leaves open
	limitExceeded := false
	evalRef := func(rd ref.SelReading) (*ref.SelResult, bool, *fw.Violation) {
		r, err := ref.SelEvalOpt(c.Tables, c.Query, ref.SelOptions{Reading: rd, LimitRecursion: c.Limit})
		if err != nil {
			if se, ok := err.(*ref.SelError); ok && (se.Kind == "too_big" || se.Kind == "no_termination" || se.Kind == "scalar_many") {
				fw.AddExtra("discarded_"+se.Kind, 1)
				return nil, true, nil
			}
			if se, ok := err.(*ref.SelError); ok && se.Kind == "recursion_limit" {
				limitExceeded = true
				return r, false, nil
			}
			return nil, false, fw.Harness("the reference cannot evaluate %s: %v", sql, err)
		}
		return r, false, nil
	}
	want, discard, hv := evalRef(ref.SelReading{})
	if discard || hv != nil {
		o.Discard = discard
		return o, hv
	}
	st := want.Stats
	if st.RecLimitOpen || st.DistinctOpen {
		// outcomes the manual leaves open (see the Assumptions of recursive_union)
		o.Discard = true
		if st.RecLimitOpen {
			fw.AddExtra("discarded_limit_boundary_open", 1)
		} else {
			fw.AddExtra("discarded_union_representative_open", 1)
		}
		return o, nil
	}
	commaDefect := commaListDefectShape(c.Query)
	bindsRight := joinBindsRightShape(c.Query, false)
	avoid := mode != "select"
	if ((avoidKnownJoinBindsRight || avoid) && bindsRight) || ((avoidKnownLateralEmptyLeft || avoid) && st.LateralEmptyLeft) || ((avoidKnownStarDuplicateUsingColumn || avoid) && st.DupJoinStar) || ((avoidKnownCommaListSyntax || avoid) && commaDefect) {
		o.Discard = true
		fw.AddExtra("discarded_known_defect_shape", 1)
		return o, nil
	}
	ops, depth, hasJoin, hasNested, hasOuter := ref.SelOps(c.Query)
	size := sizeClass(c.Tables)
	o.Classes = []string{"size:" + size, fmt.Sprintf("cpu:%d", c.CPU), fmt.Sprintf("depth:%d", depth)}
	for _, n := range ref.SelOpNames(c.Query) {
		o.Classes = append(o.Classes, "op:"+n)
	}
	if !hasJoin && !hasNested {
		o.Classes = append(o.Classes, "plain_single_table")
	}
	if want.Ordered {
		o.Classes = append(o.Classes, "ordered_single_source")
	}
	if st.OpenCmp {
		o.Classes = append(o.Classes, "open_text_rung_compared")
	}
	if st.RightUsingOpen {
		o.Classes = append(o.Classes, "right_using_values_differ")
	}
	if len(want.Rows) == 0 {
		o.Classes = append(o.Classes, "empty_result")
	}
	if st.Padded > 0 {
		o.Classes = append(o.Classes, "padded_rows")
	}

	o.Classes = append(o.Classes, extClasses(c, mode, st, limitExceeded)...)

	s, cleanup, hv := openSession(c.Tables, c.CPU)
	if hv != nil {
		return o, hv
	}
	defer cleanup()
	if c.Limit > 0 {
		if r := s.Exec(fmt.Sprintf("SET @@LIMIT_RECURSION TO %d;", c.Limit)); r.Err != nil {
			return o, fw.Harness("set limit: %v", r.Err)
		}
	}
	par0 := atomic.LoadInt64(&query.VerifParallelTasks)
	res := s.Exec(sql)
	if atomic.LoadInt64(&query.VerifParallelTasks) > par0 {
		o.Classes = append(o.Classes, "parallel")
		fw.AddExtra("parallel_cases", 1)
	}
	if res.ParseErr && commaDefect {
		return o, fw.V("from_comma_list_syntax_error", "%s: %v", sql, res.Err)
	}
	if res.ParseErr {
		return o, fw.Harness("generated query does not parse: %s: %v", sql, res.Err)
	}
	if _, isLimit := res.Err.(*query.RecursionExceededLimitError); isLimit || limitExceeded {
		switch {
		case isLimit && limitExceeded:
			o.Fingerprint = extFingerprint(c, mode, st, true)
			o.Classes = append(o.Classes, "nontrivial")
			return o, nil
		case isLimit:
			return o, fw.V("recursion_limit_premature", "%s with @@LIMIT_RECURSION %d: %v, but the recursive member is executed only %d times with a result and once without", sql, c.Limit, res.Err, st.RecSteps)
		case res.Err == nil:
			return o, fw.V("recursion_limit_not_enforced", "%s with @@LIMIT_RECURSION %d: a result of %d rows although the recursive member yields rows more than %d times", sql, c.Limit, nRows(res), c.Limit)
		}
		return o, fw.V("recursion_limit_other_error", "%s with @@LIMIT_RECURSION %d: %v instead of the limit error", sql, c.Limit, res.Err)
	}
	special := func(sig string) string {
		switch {
		case bindsRight:
			return "join_after_cross_or_natural_binds_right"
		case st.LateralEmptyLeft:
			return "lateral_empty_left_header_lost"
		case st.DupJoinStar:
			return "star_duplicate_using_column"
		}
		return sig
	}
	if res.Err != nil {
		return o, fw.V(special("select_error"), "%s: %v", sql, res.Err)
	}
	if len(res.Views) != 1 {
		return o, fw.Harness("%s: %d results", sql, len(res.Views))
	}
	got := res.Views[0]
	if len(got.Header) != len(want.Labels) {
		return o, fw.V(special("field_count"), "%s: %d columns %v, expected %d %v", sql, len(got.Header), got.Header, len(want.Labels), want.Labels)
	}
	for i, l := range want.Labels {
		if l != "" && got.Header[i] != l {
			return o, fw.V(special("column_name"), "%s: column %d is named %q, expected %q (%v)", sql, i+1, got.Header[i], l, got.Header)
		}
	}
	for _, r := range got.Rows {
		if len(r) != len(want.Labels) {
			return o, fw.V(special("field_count"), "%s: a row has %d fields, expected %d", sql, len(r), len(want.Labels))
		}
	}
	for _, r := range got.Rows {
		for i, v := range r {
			// numbers of JSON files are floats: -1 * 0 is the float -0 (number
			// formatting belongs to C07, not to the relational operators)
			if v.K == "F" && v.S == "-0" {
				r[i] = val.Float(0)
			}
		}
	}
	sig, msg := compareRows(got.Rows, want.Rows, want.Ordered)
	reading := ref.SelReading{}
	if sig != "" && (st.OpenCmp || st.RightUsingOpen) {
		// the other readings (whole query under one reading)
		for _, rd := range []ref.SelReading{{RightUsing: true}, {OpenText: true}, {OpenText: true, RightUsing: true}} {
			alt, discard, hv := evalRef(rd)
			if discard || hv != nil {
				o.Discard = discard
				return o, hv
			}
			if len(alt.Labels) != len(want.Labels) {
				continue
			}
			if s2, _ := compareRows(got.Rows, alt.Rows, alt.Ordered); s2 == "" {
				sig, reading, want, st = "", rd, alt, alt.Stats
				break
			}
		}
	}
	if sig != "" {
		return o, fw.V(special(sig), "%s (cpu %d): %s", sql, c.CPU, msg)
	}
	if st.OpenCmp {
		o.Classes = append(o.Classes, fmt.Sprintf("reading:open_rung_as_text=%v", reading.OpenText))
	}
	if st.RightUsingOpen {
		o.Classes = append(o.Classes, fmt.Sprintf("reading:right_using_shows_right=%v", reading.RightUsing))
	}
	// non-trivial: >=1 join or nested query, a non-empty result and (for outer
	// joins) a padded row; or a WHERE keeping a strict non-empty subset
	structural := (hasJoin || hasNested) && len(want.Rows) > 0 && (!hasOuter || st.Padded > 0)
	if mode != "select" {
		if fp := extFingerprint(c, mode, st, false); fp != "" && (len(want.Rows) > 0 || st.WhereStrict) {
			o.Fingerprint = fp
			o.Classes = append(o.Classes, "nontrivial")
		}
		return o, nil
	}
	if structural || (st.WhereStrict && len(want.Rows) > 0) {
		o.Fingerprint = fmt.Sprintf("%s|d%d|%s|padded%v", strings.Join(ops, ","), depth, size, st.Padded > 0)
		o.Classes = append(o.Classes, "nontrivial")
	}
	return o, nil
}

func TestC03Select(t *testing.T) {
	fw.Run(t, fw.Spec[selCase]{
		ID: "C03", Name: "select", Quick: 9000, Thorough: 180000,
		Gen: genCase, Check: checkCase,
		Rule: "2-4 tables (CSV files and temporary tables; 0-6 rows, 15% 7-30 rows, 15% with a 160-400 row table and --cpu 2-4; small integers, short strings, NULL, empty strings, duplicates, empty tables, a few case/blank spelling variants) x a query IR of depth <= 3 (tables, subqueries, CTEs incl. bounded WITH RECURSIVE counters and traversals, comma lists, CROSS/INNER/LEFT/RIGHT/FULL joins ON, NATURAL, USING, LATERAL, parenthesised join trees, WHERE over comparisons/IS NULL/AND/OR/NOT/IN/BETWEEN/integer arithmetic, select lists with *, view.*, columns, expressions, aliases) rendered to SQL text; the result must have the reference interpreter's field count, column names (columns and aliases) and rows as a multiset (as a sequence when the query has a single source); non-trivial = (>=1 join or subquery/CTE, non-empty result, and >=1 padded row if there is an outer join) or a WHERE keeping a strict non-empty subset; distinct by (operator multiset, nesting depth, size class, padded>0)",
		Assumptions: []string{
			"values are integers, short non-numeric strings and NULL; an Integer compared with a non-numeric String ends at the text rung, which the manual leaves open: csvq must agree with the reference under one of the two readings (UNKNOWN / comparison of the texts) for the whole query",
			"column names differ between tables except k/k2 (meant for NATURAL/USING); references are qualified, or bare only when the name is unique among all visible columns; merged USING/NATURAL columns are referenced bare; view.* is only used for views without merged columns; subqueries are always aliased and have distinct output names",
			"merged columns: COALESCE(left, right), first in USING/left-side order, then the remaining left and right columns (SQL standard; the manual is silent); for RIGHT joins a merged value whose spelling or type differs between the sides may be either side's (one reading for the whole query)",
			"NATURAL JOIN without common columns is a join without condition (every pair matches)",
			"recursive CTEs only in forms that terminate by a bound on a counter column and use UNION ALL",
			fmt.Sprintf("cases of reported defect shapes are put aside while these are true: avoidKnownLateralEmptyLeft=%v avoidKnownStarDuplicateUsingColumn=%v avoidKnownCommaListSyntax=%v avoidKnownJoinBindsRight=%v", avoidKnownLateralEmptyLeft, avoidKnownStarDuplicateUsingColumn, avoidKnownCommaListSyntax, avoidKnownJoinBindsRight),
		},
	})
}

// ---------------------------------------------------------------------
// name_errors: a reference the reference interpreter cannot resolve (unknown
// column, unknown qualifier) or that is ambiguous must be an error in csvq
// when it is evaluated for at least one row.

type nameCase struct {
	Tables []ref.SelTable `json:"tables"`
	Join   string         `json:"join"` // comma cross inner left
	Kind   string         `json:"kind"` // unknown_bare unknown_qualified unknown_view ambiguous
	Pos    string         `json:"pos"`  // select where on
	CPU    int            `json:"cpu"`
}

func genNameCase(t *rapid.T) nameCase {
	c := nameCase{CPU: fw.PickU(t, "cpu", []int{1, 4})}
	for i, p := range []string{"a", "b"} {
		tb := ref.SelTable{Name: fmt.Sprintf("t%d", i+1), File: fw.Pct(t, "file", 50), Cols: []string{"k", p + "1"}}
		for r, n := 0, fw.Range(t, "rows", 1, 4); r < n; r++ {
			tb.Rows = append(tb.Rows, []val.Val{genCell(t, "key", 2, tb.File), genCell(t, "mixed", 2, tb.File)})
		}
		c.Tables = append(c.Tables, tb)
	}
	c.Join = fw.PickU(t, "join", []string{"comma", "cross", "inner", "left"})
	c.Kind = fw.PickU(t, "kind", []string{"unknown_bare", "unknown_qualified", "unknown_view", "ambiguous"})
	c.Pos = fw.PickU(t, "pos", []string{"select", "where", "on"})
	if c.Pos == "on" && (c.Join == "comma" || c.Join == "cross") {
		c.Join = "inner"
	}
	return c
}

func (c nameCase) query() *ref.SelQuery {
	var bad *ref.SelExpr
	switch c.Kind {
	case "unknown_bare":
		bad = colE(colRef{View: "", Col: "zz"})
	case "unknown_qualified":
		bad = colE(colRef{View: "x", Col: "zz"})
	case "unknown_view":
		bad = colE(colRef{View: "q", Col: "k"})
	default:
		bad = colE(colRef{View: "", Col: "k"})
	}
	x := &ref.SelSource{Kind: "table", Name: "t1", Alias: "x"}
	y := &ref.SelSource{Kind: "table", Name: "t2", Alias: "y"}
	tru := litE(val.Tern(1))
	badCond := &ref.SelExpr{Kind: "cmp", Op: "=", Args: []*ref.SelExpr{bad, litE(val.Int(1))}}
	q := &ref.SelQuery{Fields: []ref.SelField{{Expr: colE(colRef{View: "x", Col: "a1"})}}}
	on := tru
	if c.Pos == "on" {
		on = badCond
	}
	switch c.Join {
	case "comma":
		q.From = []*ref.SelSource{x, y}
	case "cross":
		q.From = []*ref.SelSource{{Kind: "join", JoinType: "CROSS", Left: x, Right: y}}
	case "inner":
		q.From = []*ref.SelSource{{Kind: "join", JoinType: "INNER", Left: x, Right: y, On: on}}
	default:
		q.From = []*ref.SelSource{{Kind: "join", JoinType: "LEFT", Left: x, Right: y, On: on}}
	}
	switch c.Pos {
	case "select":
		q.Fields = append(q.Fields, ref.SelField{Expr: bad})
	case "where":
		q.Where = badCond
	}
	return q
}

func checkNameCase(c nameCase) (fw.Outcome, *fw.Violation) {
	o := fw.Outcome{}
	ok := len(c.Tables) == 2 && tablesInDomain(c.Tables) && c.CPU >= 1
	if ok {
		for i, tb := range c.Tables {
			// every position is evaluated for at least one row: both tables have rows
			if tb.Name != fmt.Sprintf("t%d", i+1) || len(tb.Rows) == 0 || tb.Cols[0] != "k" {
				ok = false
			}
		}
	}
	switch c.Join {
	case "comma", "cross":
		ok = ok && c.Pos != "on"
	case "inner", "left":
	default:
		ok = false
	}
	if !ok {
		o.Discard = true
		return o, nil
	}
	q := c.query()
	sql := ref.SelSQL(q)
	o.Classes = []string{"kind:" + c.Kind, "pos:" + c.Pos, "join:" + c.Join}
	_, err := ref.SelEval(c.Tables, q, ref.SelReading{})
	se, isSel := err.(*ref.SelError)
	wantKind := "unknown_column"
	if c.Kind == "ambiguous" {
		wantKind = "ambiguous_column"
	}
	if !isSel || se.Kind != wantKind {
		return o, fw.Harness("%s: the reference was expected to fail with %s, got %v", sql, wantKind, err)
	}
	s, cleanup, hv := openSession(c.Tables, c.CPU)
	if hv != nil {
		return o, hv
	}
	defer cleanup()
	res := s.Exec(sql)
	if res.ParseErr {
		return o, fw.Harness("generated query does not parse: %s: %v", sql, res.Err)
	}
	if res.Err == nil {
		return o, fw.V("unresolvable_reference_accepted:"+c.Kind, "%s: %s reference evaluated without error: %v", sql, c.Kind, res.Views)
	}
	class := run.ErrClass(res.Err)
	if class == "fatal" || class == "other" {
		return o, fw.V("unresolvable_reference_internal_error", "%s: %v", sql, res.Err)
	}
	o.Classes = append(o.Classes, "error_class:"+c.Kind+":"+class)
	o.Fingerprint = c.Kind + "|" + c.Pos + "|" + c.Join
	return o, nil
}

func TestC03NameErrors(t *testing.T) {
	fw.Run(t, fw.Spec[nameCase]{
		ID: "C03", Name: "name_errors", Quick: 600, Thorough: 12000,
		Gen: genNameCase, Check: checkNameCase,
		Rule:        "two non-empty tables sharing column k, joined by comma/CROSS/INNER/LEFT; one reference the reference interpreter cannot resolve (unknown bare name, unknown column of a known qualifier, unknown qualifier) or that is ambiguous (bare k) is placed in the select list, the WHERE or the ON condition where it is evaluated for at least one row: csvq must end with an ordinary error (error class only; recorded in the histogram); distinct by (kind, position, join)",
		Assumptions: []string{"csvq resolves names when an expression is evaluated: a bad reference that is never evaluated (empty input, short-circuited AND/OR) is not reported by csvq; such placements are not generated"},
	})
}

var _ = sort.Strings
