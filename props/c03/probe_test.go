package c03

import (
	"fmt"
	"os"
	"testing"

	"verif/internal/fw"
	"verif/internal/run"
)

func TestMain(m *testing.M) { fw.Main(m) }

func TestProbe(t *testing.T) {
	dir, _ := os.MkdirTemp(fw.WorkDir(), "p")
	defer os.RemoveAll(dir)
	run.WriteFiles(dir, map[string]string{
		"t1.csv": "k,a1,a2\n\"1\",\"a\",\n\"2\",\"b\",\"1\"\n,\"c\",\"3\"\n\"2\",\"B\",\"\"\n",
		"t2.csv": "k,b1\n\"2\",\"x\"\n\"3\",\"y\"\n,\"z\"\n\" 1\",\"w\"\n",
		"t3.csv": "k,c1\n",
	})
	s, err := run.NewSess(run.Opt{Dir: dir, CPU: 4})
	if err != nil {
		t.Fatal(err)
	}
	defer s.Close()
	if r := s.Exec("DECLARE t4 VIEW (k, d1); INSERT INTO t4 VALUES (1, 'a'), (2, NULL), (NULL, 'q');"); r.Err != nil {
		t.Fatal(r.Err)
	}
	qs := []string{
		"SELECT x.k FROM t3 x WHERE x.nope = 1",
		"SELECT x.nope FROM t3 x",
		"SELECT x.k FROM t3 x JOIN t1 y ON y.nope = 1",
		"SELECT x.k FROM t1 x JOIN t3 y ON y.nope = 1",
		"SELECT k FROM t3 x, t3 y",
		"SELECT 1 AS one FROM t3 x, t1 y WHERE k = 1",
		"SELECT 1 AS one FROM t1 y WHERE y.a1 = 'zz' AND y.nope = 1",
		"SELECT 1 AS one FROM t1 y WHERE y.a1 = 'a' OR y.nope = 1",
		"SELECT 1 AS one FROM t1 y WHERE y.a1 = 'zz' AND nope = 1",
	}
	for _, q := range qs {
		tbl, err := s.Query(q)
		if err != nil {
			fmt.Printf("Q: %s\n  ERR %s: %v\n", q, run.ErrClass(err), err)
			continue
		}
		fmt.Printf("Q: %s\n%s", q, tbl.String())
	}
}
