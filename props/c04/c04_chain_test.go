package c04

// C04 set_chain: set operators applied to the RESULTS of set operators
// (parenthesised subqueries, the documented precedence INTERSECT over
// UNION/EXCEPT and left-to-right, derived tables and common table expressions
// holding a set operation, SELECT DISTINCT leaves). The single-operator checks
// never give an operator a left side that an earlier operator has already
// deduplicated, merged or filtered.

import (
	"fmt"
	"os"
	"sort"
	"strings"
	"testing"

	"pgregory.net/rapid"

	"verif/internal/fw"
	"verif/internal/ref"
	"verif/internal/run"
	"verif/internal/val"
)

type chainNode struct {
	// leaf
	Leaf     int  `json:"leaf,omitempty"` // 1-based table number; 0: operator node
	Distinct bool `json:"distinct,omitempty"`
	// operator
	Op   string     `json:"op,omitempty"`
	All  bool       `json:"all,omitempty"`
	L    *chainNode `json:"l,omitempty"`
	R    *chainNode `json:"r,omitempty"`
	Bare bool       `json:"bare,omitempty"` // written without parentheses where the documented precedence gives the same tree
	Wrap string     `json:"wrap,omitempty"` // "" | sub (SELECT keys FROM (node) AS s) | cte
}

type chainCase struct {
	Src    string        `json:"src"`
	Strict bool          `json:"strict"`
	CPU    int           `json:"cpu"`
	NKeys  int           `json:"nkeys"`
	Tables [][][]val.Val `json:"tables"`
	Tree   *chainNode    `json:"tree"`
}

var chainTableNames = []string{"a", "b", "c", "d"}

func genChainNode(t *rapid.T, depth int, nTables int, next *int) *chainNode {
	if depth == 0 || (depth < 2 && fw.Pct(t, "leafEarly", 35)) {
		// leaves use the tables in turn first so that every table takes part
		tb := *next%nTables + 1
		*next++
		if fw.Pct(t, "anyTable", 25) {
			tb = 1 + fw.Uniform(t, "table", nTables)
		}
		return &chainNode{Leaf: tb, Distinct: fw.Pct(t, "leafDistinct", 20)}
	}
	n := &chainNode{Op: fw.PickU(t, "op", []string{"UNION", "EXCEPT", "INTERSECT"}), All: fw.Pct(t, "all", 40)}
	n.L = genChainNode(t, depth-1, nTables, next)
	n.R = genChainNode(t, depth-1, nTables, next)
	n.Bare = fw.Pct(t, "bare", 50)
	switch fw.Weighted(t, "wrap", []int{70, 20, 10}) {
	case 1:
		n.Wrap = "sub"
	case 2:
		n.Wrap = "cte"
	}
	return n
}

func (n *chainNode) ops() int {
	if n == nil || n.Leaf > 0 {
		return 0
	}
	return 1 + n.L.ops() + n.R.ops()
}

func genChain(t *rapid.T) chainCase {
	c := chainCase{Src: "temp", CPU: 1}
	if fw.Pct(t, "csv", 40) {
		c.Src = "csv"
	}
	csv := c.Src == "csv"
	c.Strict = fw.Pct(t, "strict", 35)
	c.NKeys = 1 + fw.Weighted(t, "nKeys", []int{35, 45, 20})
	nTables := 3 + fw.Uniform(t, "fourTables", 2)
	large := fw.Pct(t, "large", 5)
	pools := genKeyPools(t, c.NKeys)
	for k := range pools {
		if len(pools[k]) > 3 {
			pools[k] = pools[k][:3]
		}
	}
	sp := spellingPools(pools, csv)
	// certainly-equal spellings only: the result of every operator is determined up to the choice of spelling
	reduceCertain(t, sp, c.Strict, nil)
	for i := 0; i < nTables; i++ {
		var n int
		switch {
		case large:
			n = fw.Range(t, "nLarge", 90, 200)
		case fw.Pct(t, "emptyTable", 5):
			n = 0
		default:
			n = fw.Range(t, "n", 1, 8)
		}
		rows := [][]val.Val{}
		for j := 0; j < n; j++ {
			r := make([]val.Val, c.NKeys)
			for k := range r {
				r[k] = genSpelling(t, sp[k])
			}
			rows = append(rows, r)
		}
		c.Tables = append(c.Tables, rows)
	}
	if large {
		c.CPU = fw.PickU(t, "cpuLarge", []int{2, 4})
	} else if fw.Pct(t, "cpu2", 15) {
		c.CPU = 2
	}
	next := 0
	depth := 2 + fw.Weighted(t, "depth", []int{70, 30})
	c.Tree = genChainNode(t, depth, nTables, &next)
	for c.Tree.ops() < 2 {
		next = 0
		c.Tree = &chainNode{Op: fw.PickU(t, "topOp", []string{"UNION", "EXCEPT", "INTERSECT"}), All: fw.Pct(t, "topAll", 40),
			L: genChainNode(t, 1, nTables, &next), R: genChainNode(t, 1, nTables, &next), Bare: true}
		if c.Tree.ops() < 2 {
			c.Tree.L = &chainNode{Op: "UNION", All: fw.Pct(t, "innerAll", 50), L: &chainNode{Leaf: 1}, R: &chainNode{Leaf: 2}, Bare: fw.Pct(t, "innerBare", 50)}
		}
	}
	return c
}

func chainPrec(op string) int {
	if op == "INTERSECT" {
		return 2
	}
	return 1
}

func (c chainCase) keyList() string {
	cols := make([]string, c.NKeys)
	for k := range cols {
		cols[k] = kName(k)
	}
	return strings.Join(cols, ", ")
}

// render returns the SQL of the node as a select_set_entity operand; ctes collects WITH items.
func (c chainCase) render(n *chainNode, ctes *[]string) (sql string, isSet bool) {
	if n.Leaf > 0 {
		d := ""
		if n.Distinct {
			d = "DISTINCT "
		}
		return "SELECT " + d + c.keyList() + " FROM " + chainTableNames[n.Leaf-1], false
	}
	operand := func(child *chainNode, right bool) string {
		s, set := c.render(child, ctes)
		if !set {
			return s
		}
		// an operator node without wrapper: parentheses unless the documented precedence yields this tree anyway
		pc, pp := chainPrec(child.Op), chainPrec(n.Op)
		if child.Bare && (pc > pp || (!right && pc == pp)) {
			return s
		}
		return "(" + s + ")"
	}
	l := operand(n.L, false)
	r := operand(n.R, true)
	op := n.Op
	if n.All {
		op += " ALL"
	}
	s := l + " " + op + " " + r
	switch n.Wrap {
	case "sub":
		return "SELECT " + c.keyList() + " FROM (" + s + ") AS s", false
	case "cte":
		name := fmt.Sprintf("w%d", len(*ctes))
		*ctes = append(*ctes, name+" AS ("+s+")")
		return "SELECT " + c.keyList() + " FROM " + name, false
	}
	return s, true
}

func (c chainCase) sql() string {
	var ctes []string
	s, _ := c.render(c.Tree, &ctes)
	if len(ctes) > 0 {
		return "WITH " + strings.Join(ctes, ", ") + " " + s
	}
	return s
}

// evalChain: the multiset of value classes the node yields (order: the manual promises none).
func evalChain(n *chainNode, tables [][]int) []int {
	dedupe := func(xs []int) []int {
		seen := map[int]bool{}
		var out []int
		for _, x := range xs {
			if !seen[x] {
				seen[x] = true
				out = append(out, x)
			}
		}
		return out
	}
	if n.Leaf > 0 {
		rows := append([]int(nil), tables[n.Leaf-1]...)
		if n.Distinct {
			rows = dedupe(rows)
		}
		return rows
	}
	l, r := evalChain(n.L, tables), evalChain(n.R, tables)
	inR := map[int]bool{}
	for _, x := range r {
		inR[x] = true
	}
	var out []int
	switch n.Op {
	case "UNION":
		out = append(append(out, l...), r...)
	case "EXCEPT":
		for _, x := range l {
			if !inR[x] {
				out = append(out, x)
			}
		}
	default:
		for _, x := range l {
			if inR[x] {
				out = append(out, x)
			}
		}
	}
	if !n.All {
		out = dedupe(out)
	}
	return out
}

func checkChain(c chainCase) (fw.Outcome, *fw.Violation) {
	o := fw.Outcome{Classes: []string{"src:" + c.Src, fmt.Sprintf("nkeys:%d", c.NKeys), fmt.Sprintf("strict:%v", c.Strict), fmt.Sprintf("cpu:%d", c.CPU), fmt.Sprintf("tables:%d", len(c.Tables)), fmt.Sprintf("ops:%d", c.Tree.ops())}}
	var all [][]val.Val
	for _, tb := range c.Tables {
		if outsideModel(tb) {
			o.Discard = true
			return o, nil
		}
		all = append(all, tb...)
	}
	strict := c.Strict
	norms := make([]ref.C04Tuple, len(all))
	for i, r := range all {
		norms[i] = ref.C04NormaliseTuple(r, strict)
	}
	// value classes; every pair must be certainly equal or certainly different
	classOf := make([]int, len(all))
	var reps []int
	for i := range all {
		classOf[i] = -1
		for g, rep := range reps {
			es, el := ref.C04EStrictTuple(norms[i], norms[rep], strict), ref.C04ELooseTuple(norms[i], norms[rep], strict)
			if es != el {
				o.Discard = true
				fw.AddExtra("chain_open_pair", 1)
				return o, nil
			}
			if es {
				classOf[i] = g
				break
			}
		}
		if classOf[i] < 0 {
			classOf[i] = len(reps)
			reps = append(reps, i)
		}
	}
	tables := make([][]int, len(c.Tables))
	p := 0
	for ti, tb := range c.Tables {
		tables[ti] = []int{}
		for range tb {
			tables[ti] = append(tables[ti], classOf[p])
			p++
		}
	}

	dir := fw.WorkDir()
	if c.Src == "csv" {
		d, err := os.MkdirTemp(fw.WorkDir(), "c04-")
		if err != nil {
			return o, fw.Harness("mkdir: %v", err)
		}
		defer os.RemoveAll(d)
		dir = d
		files := map[string]string{}
		for ti, tb := range c.Tables {
			files[chainTableNames[ti]+".csv"] = csvText(append([]string{"z"}, strings.Split(c.keyList(), ", ")...), withZ(tb))
		}
		if err := run.WriteFiles(dir, files); err != nil {
			return o, fw.Harness("write: %v", err)
		}
	}
	s, hv := openSession(dir, c.CPU, c.Strict)
	if hv != nil {
		return o, hv
	}
	defer s.Close()
	if c.Src == "temp" {
		setup := ""
		for ti, tb := range c.Tables {
			setup += declareSQL(chainTableNames[ti], append([]string{"z"}, strings.Split(c.keyList(), ", ")...), withZ(tb))
		}
		if r := s.Exec(setup); r.Err != nil {
			return o, fw.Harness("setup failed: %v\n%s", r.Err, setup)
		}
	}
	sql := c.sql()
	tbl, err := s.Query(sql)
	if err != nil {
		return o, fw.V("query_error", "%s: %v", sql, err)
	}
	want := evalChain(c.Tree, tables)
	wantCount := map[int]int{}
	for _, x := range want {
		wantCount[x]++
	}
	gotCount := map[int]int{}
	for _, r := range tbl.Rows {
		if len(r) != c.NKeys {
			return o, fw.Harness("%s: result has %d columns", sql, len(r))
		}
		if countIdentical(all, r) == 0 {
			return o, fw.V("set_chain_row_not_from_input", "%s: result row %s is not a row of any table", sql, fmtTuple(r))
		}
		rn := ref.C04NormaliseTuple(r, strict)
		g := -1
		for k, rep := range reps {
			if ref.C04EStrictTuple(rn, norms[rep], strict) {
				g = k
				break
			}
		}
		if g < 0 {
			return o, fw.Harness("%s: result row %s has no class", sql, fmtTuple(r))
		}
		gotCount[g]++
	}
	describe := func(cnt map[int]int) string {
		var ks []int
		for k := range cnt {
			ks = append(ks, k)
		}
		sort.Ints(ks)
		var parts []string
		for _, k := range ks {
			parts = append(parts, fmt.Sprintf("%s x%d", fmtTuple(all[reps[k]]), cnt[k]))
		}
		return "[" + strings.Join(parts, " ") + "]"
	}
	for g := range reps {
		if gotCount[g] != wantCount[g] {
			sig := "set_chain_lost_row"
			switch {
			case gotCount[g] > wantCount[g] && wantCount[g] == 0:
				sig = "set_chain_kept_row"
			case gotCount[g] > wantCount[g]:
				sig = "set_chain_not_distinct"
			}
			if anyCollisionShaped(all...) {
				// the same tables under one operator are collision_set's subject; keep its signature
				sig = "key_delimiter_collision"
			}
			return o, fw.V(sig, "%s (strict_equal=%v): rows equal to %s: %d in the result, expected %d (result %s, expected %s)", sql, strict, fmtTuple(all[reps[g]]), gotCount[g], wantCount[g], describe(gotCount), describe(wantCount))
		}
	}
	// what makes the case more than a single operator: an operator node whose operand is an operator node
	// that changed something
	var shape func(n *chainNode) string
	shape = func(n *chainNode) string {
		if n.Leaf > 0 {
			if n.Distinct {
				return "d"
			}
			return "t"
		}
		op := n.Op[:1]
		if n.All {
			op += "a"
		}
		w := ""
		if n.Wrap != "" {
			w = n.Wrap[:1]
		}
		return w + "(" + shape(n.L) + op + shape(n.R) + ")"
	}
	if len(all) >= 90 {
		o.Classes = append(o.Classes, "large")
	}
	if strings.Contains(sql, "WITH ") {
		o.Classes = append(o.Classes, "wrap:cte")
	}
	if strings.Contains(sql, " AS s") {
		o.Classes = append(o.Classes, "wrap:derived_table")
	}
	if !strings.Contains(sql, "(") {
		o.Classes = append(o.Classes, "flat_precedence_chain")
	}
	tr := traitsOf(all, c.NKeys, strict)
	if len(want) == 0 {
		tr.empty = true
	}
	finishOutcome(&o, tr, false)
	if tr.nonTrivial() {
		o.Fingerprint = tr.fingerprint("set_chain:"+shape(c.Tree), c.NKeys, strict)
	}
	return o, nil
}

func TestC04SetChain(t *testing.T) {
	fw.Run(t, fw.Spec[chainCase]{
		ID: "C04", Name: "set_chain", Quick: 2000, Thorough: 40000,
		Gen: genChain, Check: checkChain,
		Rule: "3-4 tables (temp typed / CSV text, 0-8 rows, 5% 90-200 rows with CPU 2-4) of 1-3 key columns from the clusters reduced to certainly-equal spellings; an expression tree of 2-7 UNION|EXCEPT|INTERSECT [ALL] nodes over SELECT [DISTINCT] keys FROM table leaves; an operator operand that is an operator node is parenthesised, or written bare where the documented precedence (INTERSECT over UNION/EXCEPT, left-to-right) gives the same tree, or wrapped in a derived table (SELECT keys FROM (...) AS s) or a common table expression; reference: rows as value classes (E_strict = E_loose on all pairs, else discarded), UNION ALL = multiset sum, EXCEPT/INTERSECT [ALL] = left rows without/with a match on the right, without ALL one row per class; the result must hold exactly the expected number of rows of every class and only rows of the tables; non-trivial as in group (empty = empty result); distinct by (tree shape with operators and wrappers, #keys, traits, cell classes, strict)",
		Assumptions: append([]string{"which spelling of a class survives a distinguishing operator and the order of the result are not asserted"}, setAssumptions...),
	})
}
