package c04

// C04 multi_window: several analytic functions in ONE select (select list and
// ORDER BY clause), each with its own PARTITION BY subset and its own ORDER BY.
// csvq evaluates them one after the other on the same view: every function's
// ORDER BY re-sorts the view and the per-cell SortValue cache, the record order
// and the cells appended by earlier functions are carried from one function to
// the next. Each function is judged on its own against the reference partition
// of ITS key subset: the partition must be the same whatever happened before.

import (
	"fmt"
	"os"
	"sort"
	"strconv"
	"strings"
	"testing"

	"pgregory.net/rapid"

	"verif/internal/fw"
	"verif/internal/ref"
	"verif/internal/run"
	"verif/internal/val"
)

type ordItem struct {
	Col   string `json:"col"` // id | x | o1 | o2 | k<n>
	Desc  bool   `json:"desc,omitempty"`
	Nulls string `json:"nulls,omitempty"` // "" | FIRST | LAST
}

type winFn struct {
	// LISTAGG | JSON_IDS | COUNT_STAR | COUNT_X | SUM_X | UCNT | RUNNING_COUNT |
	// ROW_NUMBER | RANK | FIRST_ID | LAG_ID | LEAD_ID
	Kind  string    `json:"kind"`
	Part  []int     `json:"part,omitempty"`  // key numbers; none: no PARTITION BY
	Order []ordItem `json:"order,omitempty"` // ORDER BY inside OVER
}

type mwCase struct {
	Src        string      `json:"src"`
	Strict     bool        `json:"strict"`
	CPU        int         `json:"cpu"`
	NKeys      int         `json:"nkeys"`
	Rows       [][]val.Val `json:"rows"` // id, k1..kn, x, o1, o2
	Fns        []winFn     `json:"fns"`
	OrdFn      *winFn      `json:"ord_fn,omitempty"` // COUNT_STAR as first item of the ORDER BY clause
	OrdDesc    bool        `json:"ord_desc,omitempty"`
	Final      []ordItem   `json:"final,omitempty"` // further items of the ORDER BY clause
	WhereMinID int         `json:"where_min_id,omitempty"`
}

var mwKinds = []string{"LISTAGG", "JSON_IDS", "COUNT_STAR", "COUNT_X", "SUM_X", "UCNT", "RUNNING_COUNT", "ROW_NUMBER", "RANK", "FIRST_ID", "LAG_ID", "LEAD_ID"}
var mwKindWeights = []int{34, 5, 9, 6, 10, 4, 7, 8, 4, 5, 4, 4}

func genOrdItems(t *rapid.T, label string, nKeys int, min int) []ordItem {
	n := min + fw.Weighted(t, label+"N", []int{60, 30, 10})
	if min == 0 {
		n = fw.Weighted(t, label+"N", []int{25, 50, 20, 5})
	}
	var out []ordItem
	for i := 0; i < n; i++ {
		var col string
		switch fw.Weighted(t, label+"Col", []int{30, 30, 12, 10, 18}) {
		case 0:
			col = "o1"
		case 1:
			col = "o2"
		case 2:
			col = "id"
		case 3:
			col = "x"
		default:
			col = kName(fw.Uniform(t, label+"Key", nKeys))
		}
		it := ordItem{Col: col, Desc: fw.Pct(t, label+"Desc", 45)}
		switch fw.Weighted(t, label+"Nulls", []int{70, 15, 15}) {
		case 1:
			it.Nulls = "FIRST"
		case 2:
			it.Nulls = "LAST"
		}
		out = append(out, it)
	}
	return out
}

func genWinFn(t *rapid.T, nKeys int, kind string) winFn {
	f := winFn{Kind: kind}
	if !fw.Pct(t, "noPartition", 8) {
		f.Part = genSubset(t, "part", nKeys)
		if len(f.Part) > 1 && fw.Pct(t, "permutePart", 30) {
			f.Part = rapid.Permutation(f.Part).Draw(t, "partPerm")
		}
	}
	min := 0
	if kind == "RUNNING_COUNT" || fw.Pct(t, "ordered", 70) {
		min = 1
	}
	if min == 1 {
		f.Order = genOrdItems(t, "ord", nKeys, 1)
	}
	return f
}

func genMW(t *rapid.T) mwCase {
	c := mwCase{Src: "temp", CPU: 1}
	if fw.Pct(t, "csv", 40) {
		c.Src = "csv"
	}
	csv := c.Src == "csv"
	c.Strict = fw.Pct(t, "strict", 30)
	c.NKeys = 1 + fw.Weighted(t, "nKeys", []int{35, 45, 20})
	var n int
	size := fw.Weighted(t, "size", []int{78, 14, 8})
	switch size {
	case 0:
		n = fw.Range(t, "n", 3, 16)
		if fw.Pct(t, "cpu2", 25) {
			c.CPU = 2 + 2*fw.Uniform(t, "cpu4", 2)
		}
	case 1:
		n = fw.Range(t, "nMid", 17, 70)
		c.CPU = fw.PickU(t, "cpuMid", []int{1, 2, 4})
	default:
		n = fw.Range(t, "nLarge", 80, 340)
		c.CPU = fw.PickU(t, "cpuLarge", []int{2, 3, 4})
	}
	pools := genKeyPools(t, c.NKeys)
	for k := range pools {
		max := 3
		if size > 0 {
			max = 2
		}
		if len(pools[k]) > max {
			pools[k] = pools[k][:max]
		}
	}
	sp := spellingPools(pools, csv)
	if fw.Pct(t, "certain", 70) {
		reduceCertain(t, sp, c.Strict, nil)
	}
	ids := make([]int, n)
	for i := range ids {
		ids[i] = i + 1
	}
	ids = rapid.Permutation(ids).Draw(t, "ids")
	nullPct := fw.Range(t, "nullPct", 0, 35)
	oRange := fw.PickU(t, "oRange", []int{2, 4, 9, 40})
	for i := 0; i < n; i++ {
		row := []val.Val{val.Int(int64(ids[i]))}
		for k := 0; k < c.NKeys; k++ {
			row = append(row, genSpelling(t, sp[k]))
		}
		x := val.Null
		if !fw.Pct(t, "xNull", nullPct) {
			x = val.Int(int64(fw.Range(t, "x", -3, 9)))
		}
		o1 := val.Int(int64(fw.Range(t, "o1", 0, oRange)))
		o2 := val.Null
		if !fw.Pct(t, "o2Null", 15) {
			o2 = val.Int(int64(fw.Range(t, "o2", -oRange, oRange)))
		}
		row = append(row, x, o1, o2)
		if csv {
			for j := range row {
				if j == 0 || j > c.NKeys {
					row[j] = csvForm(row[j])
				}
			}
		}
		c.Rows = append(c.Rows, row)
	}
	nf := 2 + fw.Weighted(t, "nFns", []int{35, 35, 20, 10})
	if size == 2 {
		nf = 2 + fw.Weighted(t, "nFnsLarge", []int{60, 40})
	}
	for i := 0; i < nf; i++ {
		kind := mwKinds[fw.Weighted(t, "kind", mwKindWeights)]
		f := genWinFn(t, c.NKeys, kind)
		if i > 0 && fw.Pct(t, "samePartitionAsBefore", 25) {
			f.Part = append([]int(nil), c.Fns[i-1].Part...)
		}
		c.Fns = append(c.Fns, f)
	}
	if fw.Pct(t, "orderByFn", 30) {
		f := genWinFn(t, c.NKeys, "COUNT_STAR")
		if len(f.Part) == 0 {
			f.Part = genSubset(t, "ordFnPart", c.NKeys)
		}
		c.OrdFn = &f
		c.OrdDesc = fw.Pct(t, "ordFnDesc", 50)
	}
	if fw.Pct(t, "finalOrder", 40) {
		c.Final = genOrdItems(t, "final", c.NKeys, 1)
	}
	if fw.Pct(t, "where", 10) {
		c.WhereMinID = fw.Range(t, "whereMin", 1, n/3+1)
	}
	return c
}

func (it ordItem) sql() string {
	s := it.Col
	if it.Desc {
		s += " DESC"
	}
	if it.Nulls != "" {
		s += " NULLS " + it.Nulls
	}
	return s
}

func ordItemsSQL(items []ordItem) string {
	parts := make([]string, len(items))
	for i, it := range items {
		parts[i] = it.sql()
	}
	return strings.Join(parts, ", ")
}

const fullFrame = " ROWS BETWEEN UNBOUNDED PRECEDING AND UNBOUNDED FOLLOWING"

func (f winFn) sql() string {
	var over []string
	if len(f.Part) > 0 {
		over = append(over, "PARTITION BY "+kNames(f.Part))
	}
	ordered := len(f.Order) > 0
	if ordered {
		over = append(over, "ORDER BY "+ordItemsSQL(f.Order))
	}
	clause := strings.Join(over, " ")
	frame := ""
	if ordered {
		frame = fullFrame
	}
	switch f.Kind {
	case "LISTAGG":
		return "LISTAGG(id, ',') OVER (" + clause + ")"
	case "JSON_IDS":
		return "JSON_AGG(id) OVER (" + clause + ")"
	case "COUNT_STAR":
		return "COUNT(*) OVER (" + clause + frame + ")"
	case "COUNT_X":
		return "COUNT(x) OVER (" + clause + frame + ")"
	case "SUM_X":
		return "SUM(x) OVER (" + clause + frame + ")"
	case "UCNT":
		return "ucnt(x) OVER (" + clause + frame + ")"
	case "RUNNING_COUNT":
		return "COUNT(*) OVER (" + clause + ")"
	case "ROW_NUMBER":
		return "ROW_NUMBER() OVER (" + clause + ")"
	case "RANK":
		return "RANK() OVER (" + clause + ")"
	case "FIRST_ID":
		return "FIRST_VALUE(id) OVER (" + clause + ")"
	case "LAG_ID":
		return "LAG(id) OVER (" + clause + ")"
	case "LEAD_ID":
		return "LEAD(id) OVER (" + clause + ")"
	}
	return "NULL"
}

func (c mwCase) sql() string {
	items := []string{"id"}
	for i, f := range c.Fns {
		items = append(items, fmt.Sprintf("%s AS f%d", f.sql(), i))
	}
	q := "SELECT " + strings.Join(items, ", ") + " FROM t"
	if c.WhereMinID > 0 {
		q += fmt.Sprintf(" WHERE id > %d", c.WhereMinID)
	}
	var ord []string
	if c.OrdFn != nil {
		s := c.OrdFn.sql()
		if c.OrdDesc {
			s += " DESC"
		}
		ord = append(ord, s)
	}
	if len(c.Final) > 0 {
		ord = append(ord, ordItemsSQL(c.Final))
	}
	if len(ord) > 0 {
		q += " ORDER BY " + strings.Join(ord, ", ")
	}
	return q
}

func (c mwCase) colNames() []string {
	cols := []string{"id"}
	for k := 0; k < c.NKeys; k++ {
		cols = append(cols, kName(k))
	}
	return append(cols, "x", "o1", "o2")
}

// mwRef: the reference partition of one key subset.
type mwRef struct {
	determined bool    // no open pair: the strict classes are THE partition
	classOf    []int   // strict class of each row
	classes    [][]int // rows of each class, input order
	norms      []ref.C04Tuple
}

func buildMWRef(norms []ref.C04Tuple, part []int, strict bool) *mwRef {
	r := &mwRef{determined: true, classOf: make([]int, len(norms)), norms: make([]ref.C04Tuple, len(norms))}
	for i := range norms {
		r.norms[i] = sub(norms[i], part)
	}
	for i := range norms {
		r.classOf[i] = -1
		for g, members := range r.classes {
			if ref.C04EStrictTuple(r.norms[i], r.norms[members[0]], strict) {
				r.classOf[i] = g
				r.classes[g] = append(r.classes[g], i)
				break
			}
		}
		if r.classOf[i] < 0 {
			r.classOf[i] = len(r.classes)
			r.classes = append(r.classes, []int{i})
		}
	}
	// determined: loose equality adds no pair (checked against class representatives and all members)
	for i := 0; i < len(norms) && r.determined; i++ {
		for j := i + 1; j < len(norms); j++ {
			if ref.C04ELooseTuple(r.norms[i], r.norms[j], strict) != ref.C04EStrictTuple(r.norms[i], r.norms[j], strict) {
				r.determined = false
				break
			}
		}
	}
	return r
}

func checkMW(c mwCase) (fw.Outcome, *fw.Violation) {
	o := fw.Outcome{Classes: []string{"src:" + c.Src, fmt.Sprintf("nkeys:%d", c.NKeys), fmt.Sprintf("strict:%v", c.Strict), fmt.Sprintf("cpu:%d", c.CPU), fmt.Sprintf("fns:%d", len(c.Fns))}}
	var keyRows [][]val.Val
	for _, r := range c.Rows {
		keyRows = append(keyRows, r[1:1+c.NKeys])
	}
	if outsideModel(keyRows) {
		o.Discard = true
		return o, nil
	}
	type pre struct {
		id   int
		keys []val.Val
		x    val.Val
	}
	var pres []pre
	var norms []ref.C04Tuple
	posOf := map[int]int{}
	for _, r := range c.Rows {
		id, _ := strconv.Atoi(r[0].S)
		if c.WhereMinID > 0 && id <= c.WhereMinID {
			continue
		}
		posOf[id] = len(pres)
		keys := r[1 : 1+c.NKeys]
		pres = append(pres, pre{id, keys, r[1+c.NKeys]})
		norms = append(norms, ref.C04NormaliseTuple(keys, c.Strict))
	}
	n := len(pres)

	dir := fw.WorkDir()
	if c.Src == "csv" {
		d, err := os.MkdirTemp(fw.WorkDir(), "c04-")
		if err != nil {
			return o, fw.Harness("mkdir: %v", err)
		}
		defer os.RemoveAll(d)
		dir = d
		if err := run.WriteFiles(dir, map[string]string{"t.csv": csvText(c.colNames(), c.Rows)}); err != nil {
			return o, fw.Harness("write: %v", err)
		}
	}
	s, hv := openSession(dir, c.CPU, c.Strict)
	if hv != nil {
		return o, hv
	}
	defer s.Close()
	setup := udfDecl
	if c.Src == "temp" {
		setup += declareSQL("t", c.colNames(), c.Rows)
	}
	if r := s.Exec(setup); r.Err != nil {
		return o, fw.Harness("setup failed: %v\n%s", r.Err, setup)
	}
	sql := c.sql()
	tbl, err := s.Query(sql)
	if err != nil {
		return o, fw.V("query_error", "%s: %v", sql, err)
	}
	if len(tbl.Rows) != n {
		return o, fw.V("partition_row_count", "%s: %d rows, expected %d", sql, len(tbl.Rows), n)
	}
	rowOfPos := make([][]val.Val, n)
	resOrder := make([]int, 0, n) // input positions in result order
	for _, row := range tbl.Rows {
		if len(row) != len(c.Fns)+1 {
			return o, fw.Harness("%s: %d columns, expected %d", sql, len(row), len(c.Fns)+1)
		}
		id, err := strconv.Atoi(row[0].S)
		p, ok := posOf[id]
		if err != nil || !ok || rowOfPos[p] != nil {
			return o, fw.V("partition_rows_not_input", "%s: row with id %s is not an input row or appears twice", sql, row[0])
		}
		rowOfPos[p] = row
		resOrder = append(resOrder, p)
	}

	refs := map[string]*mwRef{}
	refOf := func(part []int) *mwRef {
		sorted := append([]int(nil), part...)
		sort.Ints(sorted)
		k := fmt.Sprint(sorted)
		if r, ok := refs[k]; ok {
			return r
		}
		r := buildMWRef(norms, sorted, c.Strict)
		refs[k] = r
		return r
	}
	idsOf := func(members []int) string {
		parts := make([]string, len(members))
		for i, p := range members {
			parts[i] = strconv.Itoa(pres[p].id)
		}
		return strings.Join(parts, ",")
	}
	sortedFns := 0 // functions with an ORDER BY seen so far
	resorted := false
	for fi, f := range c.Fns {
		fsql := f.sql()
		rf := refOf(f.Part)
		if len(f.Part) > 0 && (sortedFns >= 1 || len(f.Order) > 0) {
			// an earlier function's ORDER BY, or its own (which runs before its partitioning), has moved the rows
			resorted = true
		}
		if len(f.Order) > 0 {
			sortedFns++
		}
		o.Classes = append(o.Classes, "fn:"+f.Kind)
		col := func(p int) val.Val { return rowOfPos[p][fi+1] }
		if !rf.determined && f.Kind != "LISTAGG" && f.Kind != "JSON_IDS" {
			o.Classes = append(o.Classes, "fn_open:"+f.Kind)
			continue
		}
		switch f.Kind {
		case "LISTAGG", "JSON_IDS":
			bucketOf := make([]int, n)
			bucketNo := map[string]int{}
			var buckets [][]int
			for p := 0; p < n; p++ {
				g := col(p)
				var ids []int
				var ok bool
				if f.Kind == "LISTAGG" {
					ids, ok = parseIDs(g)
				} else {
					ids, ok = parseJSONIDs(g)
				}
				if !ok || len(ids) == 0 {
					return o, fw.V("listagg_ids_malformed", "%s: %s = %s for id %d", sql, fsql, g, pres[p].id)
				}
				b, seen := bucketNo[g.S]
				if !seen {
					b = len(buckets)
					bucketNo[g.S] = b
					var members []int
					for _, q := range ids {
						pp, ok := posOf[q]
						if !ok {
							return o, fw.V("group_has_foreign_row", "%s: %s = %s of id %d contains an id that is not a row of the input", sql, fsql, g, pres[p].id)
						}
						members = append(members, pp)
					}
					buckets = append(buckets, members)
				}
				bucketOf[p] = b
			}
			for b, members := range buckets {
				seen := map[int]bool{}
				for _, p := range members {
					if seen[p] || bucketOf[p] != b {
						return o, fw.V("partition_inconsistent", "%s: %s: id %d is listed in a partition [%s] whose rows report another partition (or is listed twice)", sql, fsql, pres[p].id, idsOf(members))
					}
					seen[p] = true
				}
			}
			for i := 0; i < n; i++ {
				for j := i + 1; j < n; j++ {
					same := bucketOf[i] == bucketOf[j]
					if !same && ref.C04EStrictTuple(rf.norms[i], rf.norms[j], c.Strict) {
						sig := "bucket_split"
						if ref.C04ZeroSignOnly(rf.norms[i], rf.norms[j]) {
							sig = "negative_zero_split"
						}
						return o, fw.V(sig, "%s (strict_equal=%v): %s: rows id=%d %s and id=%d %s have equal PARTITION BY keys but are in different partitions ([%s] and [%s])", sql, c.Strict, fsql, pres[i].id, fmtTuple(pres[i].keys), pres[j].id, fmtTuple(pres[j].keys), idsOf(buckets[bucketOf[i]]), idsOf(buckets[bucketOf[j]]))
					}
					if same && !ref.C04ELooseTuple(rf.norms[i], rf.norms[j], c.Strict) {
						sig := "bucket_merges_unequal_rows"
						if anyCollisionShaped(pres[i].keys, pres[j].keys) {
							sig = "key_delimiter_collision"
						}
						return o, fw.V(sig, "%s (strict_equal=%v): %s: rows id=%d %s and id=%d %s have different PARTITION BY keys but share the partition [%s]", sql, c.Strict, fsql, pres[i].id, fmtTuple(pres[i].keys), pres[j].id, fmtTuple(pres[j].keys), idsOf(buckets[bucketOf[i]]))
					}
				}
			}
		default:
			for _, members := range rf.classes {
				var xs []val.Val
				inBucket := map[int]bool{}
				for _, p := range members {
					xs = append(xs, pres[p].x)
					inBucket[pres[p].id] = true
				}
				fail := func(p int, want string) *fw.Violation {
					return fw.V("window_"+strings.ToLower(f.Kind), "%s (strict_equal=%v): %s: row id=%d %s, whose partition is ids [%s]: got %s, expected %s", sql, c.Strict, fsql, pres[p].id, fmtTuple(pres[p].keys), idsOf(members), col(p), want)
				}
				switch f.Kind {
				case "COUNT_STAR", "COUNT_X", "UCNT":
					want := len(members)
					if f.Kind == "COUNT_X" {
						want = len(nonNull(xs))
					} else if f.Kind == "UCNT" {
						want = len(nonNull(xs)) + 1000*(len(xs)-len(nonNull(xs)))
					}
					for _, p := range members {
						if g := col(p); g.K != "I" || g.AsInt() != int64(want) {
							return o, fail(p, strconv.Itoa(want))
						}
					}
				case "SUM_X":
					fs := ref.C04Floats(xs)
					for _, p := range members {
						g := col(p)
						if len(fs) == 0 {
							if !g.IsNull() {
								return o, fail(p, "NULL")
							}
							continue
						}
						if v, ok := numOf(g); !ok || !ref.C04Close(v, ref.C04Sum(fs)) {
							return o, fail(p, strconv.FormatFloat(ref.C04Sum(fs), 'g', -1, 64))
						}
					}
				case "RUNNING_COUNT", "ROW_NUMBER":
					seen := map[int64]bool{}
					for _, p := range members {
						g := col(p)
						if g.K != "I" || g.AsInt() < 1 || g.AsInt() > int64(len(members)) || seen[g.AsInt()] {
							return o, fail(p, fmt.Sprintf("each of 1..%d once within the partition", len(members)))
						}
						seen[g.AsInt()] = true
					}
				case "RANK":
					one := false
					for _, p := range members {
						g := col(p)
						if g.K != "I" || g.AsInt() < 1 || g.AsInt() > int64(len(members)) {
							return o, fail(p, fmt.Sprintf("a rank in 1..%d", len(members)))
						}
						if g.AsInt() == 1 {
							one = true
						}
					}
					if !one {
						return o, fail(members[0], "some row of the partition with rank 1")
					}
				case "FIRST_ID":
					first := col(members[0])
					for _, p := range members {
						g := col(p)
						id, err := strconv.Atoi(g.S)
						if g.IsNull() || err != nil || !inBucket[id] || g.S != first.S {
							return o, fail(p, "the id of one row of the partition, the same for all its rows")
						}
					}
				case "LAG_ID", "LEAD_ID":
					nulls := 0
					seen := map[int]bool{}
					for _, p := range members {
						g := col(p)
						if g.IsNull() {
							nulls++
							continue
						}
						id, err := strconv.Atoi(g.S)
						if err != nil || !inBucket[id] || id == pres[p].id || seen[id] {
							return o, fail(p, "the id of another row of the partition (each at most once) or NULL")
						}
						seen[id] = true
					}
					if nulls != 1 {
						return o, fail(members[0], fmt.Sprintf("exactly one row of the partition without neighbour (NULL), found %d", nulls))
					}
				}
			}
		}
	}
	// the analytic function of the ORDER BY clause: rows sorted by the size of their reference partition
	if c.OrdFn != nil {
		rf := refOf(c.OrdFn.Part)
		if sortedFns >= 1 {
			resorted = true
		}
		if rf.determined {
			vs := make([]ordVal, len(resOrder))
			for i, p := range resOrder {
				vs[i] = ordVal{f: float64(len(rf.classes[rf.classOf[p]]))}
			}
			if !sortedBy(vs, c.OrdDesc) {
				var got []string
				for i, p := range resOrder {
					if i >= 16 {
						got = append(got, "...")
						break
					}
					got = append(got, fmt.Sprintf("id %d=%d", pres[p].id, len(rf.classes[rf.classOf[p]])))
				}
				return o, fw.V("order_by_analytic_partition", "%s (strict_equal=%v): the rows are not in the order of %s computed over the reference partitions (row=partition size: %s)", sql, c.Strict, c.OrdFn.sql(), strings.Join(got, " "))
			}
			o.Classes = append(o.Classes, "order_by_fn_asserted")
		} else {
			o.Classes = append(o.Classes, "order_by_fn_open")
		}
	}
	if n >= 80 {
		o.Classes = append(o.Classes, "large")
	}
	if resorted {
		o.Classes = append(o.Classes, "trait:partition_after_resort")
	}
	var keyTuples [][]val.Val
	for _, p := range pres {
		keyTuples = append(keyTuples, p.keys)
	}
	tr := traitsOf(keyTuples, c.NKeys, c.Strict)
	finishOutcome(&o, tr, false)
	if resorted && n >= 3 {
		var shape []string
		for _, f := range c.Fns {
			shape = append(shape, fmt.Sprintf("%s/%d/%d", f.Kind, len(f.Part), len(f.Order)))
		}
		if c.OrdFn != nil {
			shape = append(shape, fmt.Sprintf("ORD/%d/%d", len(c.OrdFn.Part), len(c.OrdFn.Order)))
		}
		o.Fingerprint = tr.fingerprint("multi_window:"+strings.Join(shape, "+")+":"+sizeClass(n), c.NKeys, c.Strict)
	}
	return o, nil
}

func parseJSONIDs(v val.Val) ([]int, bool) {
	if v.K != "S" {
		return nil, false
	}
	arr, err := parseJSONArray(v.S)
	if err != nil {
		return nil, false
	}
	var out []int
	for _, e := range arr {
		var s string
		switch x := e.(type) {
		case string:
			s = x
		default:
			s = fmt.Sprint(x)
		}
		i, err := strconv.Atoi(s)
		if err != nil {
			return nil, false
		}
		out = append(out, i)
	}
	return out, true
}

func TestC04MultiWindow(t *testing.T) {
	fw.Run(t, fw.Spec[mwCase]{
		ID: "C04", Name: "multi_window", Quick: 2500, Thorough: 50000,
		Gen: genMW, Check: checkMW,
		Rule: "table (temp typed / CSV text; 3-16 rows, 14% 17-70, 8% 80-340 with CPU 2-4) with unique permuted id, 1-3 key columns from the clusters (70% reduced to certainly-equal spellings), x, two sort columns o1/o2 (few distinct values, o2 with NULLs); ONE select with 2-5 analytic functions f0..fn, each with its own PARTITION BY (subset/permutation of the keys, 8% none) and in 70% its own ORDER BY (1-3 of o1|o2|id|x|key columns, ASC/DESC, NULLS FIRST/LAST), 30% a further COUNT(*) OVER (...) as first item of the ORDER BY clause, 40% plain ORDER BY items, 10% WHERE: LISTAGG(id)/JSON_AGG(id) OVER give the partition of each function, held against E_strict/E_loose of ITS key subset; when the subset has no open pair the strict classes are the partition and COUNT(*)/COUNT(x)/SUM(x)/user aggregate (full frame) are recomputed over it, running COUNT(*) and ROW_NUMBER must be a permutation of 1..n inside it, RANK within 1..n with a 1, FIRST_VALUE(id) one id of the partition for all its rows, LAG/LEAD(id) ids of other rows of the partition with exactly one NULL; the ORDER BY function must sort by reference partition size; non-trivial = >=3 rows and a function with PARTITION BY (or the ORDER BY function) is evaluated after an earlier function's ORDER BY has re-sorted the view; distinct by (sequence of kind/#partition keys/#order items, size class, traits, cell classes, strict)",
		Assumptions: []string{tblAssumption,
			"the order inside a partition (which row is first, the sequence of LISTAGG) is C07/C17's subject and not asserted; only order-independent facts of each function are",
			"functions other than LISTAGG/JSON_AGG are asserted only when their PARTITION BY subset has no open pair among the rows"},
	})
}
