package c04

// C04: DISTINCT, GROUP BY, set operators, PARTITION BY and aggregates bucket
// rows by value equality.
//
// csvq's partition of the rows is read off the results (LISTAGG(id) per group
// or per partition, the DISTINCT survivors, the set-operator result) and held
// against two reference equivalences on key tuples (internal/ref/c04_bucket.go):
//   E_strict(r,s) => r and s share a bucket    (no bucket is split)
//   same bucket   => E_loose(r,s)              (no two different rows share one)
// Every aggregate is then recomputed over exactly the bucket csvq reported.

import (
	"bytes"
	"encoding/json"
	"fmt"
	"math"
	"os"
	"sort"
	"strconv"
	"strings"
	"testing"
	"time"

	"pgregory.net/rapid"

	"verif/internal/fw"
	"verif/internal/ref"
	"verif/internal/run"
	"verif/internal/val"
)

func TestMain(m *testing.M) { fw.Main(m) }

// Shapes on which csvq genuinely violates the property (reported). While a
// flag is true the GENERAL generators keep away from that exact shape so that
// the search continues past it; the dedicated sub-checks (collision_*,
// the pinned cases of known_findings.jsonl) still produce it. Set a flag to
// false once the defect is fixed in /repo.
const (
	// comparison keys are "[S]TEXT" parts joined with ':' without escaping
	// (lib/query/utils.go SerializeComparisonKeys): the tuples
	// ("x:[S]y","z") and ("x","y:[S]z") get one key and are merged
	// -> signature key_delimiter_collision. Avoided by never putting ':'
	// directly before a marker "[S] [I] [F] [D] [B] [T] [N]" inside one cell.
	avoidKnownDelimiterCollision = false
	// float zeros of different sign ('0.0' and '-0.0', 0.0 and -0.0) are equal
	// values but get the keys "[F]0" and "[F]-0" -> signature
	// negative_zero_split. Avoided by not generating negative float zeros.
	avoidKnownNegativeZeroSplit = false
	// SELECT agg FROM t HAVING cond without GROUP BY over no rows: Having's
	// filter evaluates nothing, so the view is never grouped and Select then
	// adds the one empty group unfiltered: COUNT(*) = 0 is returned although
	// HAVING COUNT(*) >= 1 -> signature having_ignored_on_empty_input.
	// Avoided by not adding HAVING when there are no keys and no row passes
	// the WHERE clause.
	avoidKnownHavingOnEmptyInput = false
)

var markers = []string{"[S]", "[I]", "[F]", "[D]", "[B]", "[T]", "[N]"}

// collisionShaped: a text cell in which a ':' is directly followed by a key
// marker - the only shape with which two different tuples can serialise to the
// same unescaped key.
func collisionShaped(v val.Val) bool {
	if v.K != "S" {
		return false
	}
	u := strings.ToUpper(v.S)
	for _, m := range markers {
		if strings.Contains(u, ":"+m) {
			return true
		}
	}
	return false
}

func hasDelimiter(v val.Val) bool {
	if v.K != "S" {
		return false
	}
	if strings.ContainsAny(v.S, ":\\") {
		return true
	}
	u := strings.ToUpper(v.S)
	for _, m := range markers {
		if strings.Contains(u, m) {
			return true
		}
	}
	return false
}

// ---------------------------------------------------------------------
// value repertoire

func sv(ss ...string) []val.Val {
	out := make([]val.Val, len(ss))
	for i, s := range ss {
		out[i] = val.Str(s)
	}
	return out
}

func cat(parts ...[]val.Val) []val.Val {
	var out []val.Val
	for _, p := range parts {
		out = append(out, p...)
	}
	return out
}

var (
	t1 = time.Date(2012, 2, 3, 9, 18, 15, 0, time.UTC)
	t2 = time.Date(2012, 2, 3, 0, 0, 0, 0, time.UTC)
)

// A cluster is a set of spellings that are equal across types or that the
// property leaves open against each other; rows of one key column draw from a
// few clusters so that buckets have several members.
type cluster struct {
	name  string
	class string // generator class: cross | dt | text | null | delim
	vals  []val.Val
}

func negZero() []val.Val {
	if avoidKnownNegativeZeroSplit {
		return nil
	}
	return []val.Val{val.Float(negativeZero()), val.Str("-0.0"), val.Str(" -0e0")}
}

func negativeZero() float64 { return math.Copysign(0, -1) }

var clusters = []cluster{
	{"one", "cross", cat([]val.Val{val.Int(1), val.Float(1), val.Bool(true)},
		sv("1", " 1 ", "+1", "01", "1\t", "1.0", "1e0", " 1.00", "TRUE", "t", " true", "T"))},
	{"zero", "cross", cat([]val.Val{val.Int(0), val.Float(0), val.Bool(false)},
		sv("0", "-0", " 0", "0.0", "0e0", "false", "F", " f "), negZero())},
	{"two_half", "cross", cat([]val.Val{val.Float(2.5)}, sv("2.5", " 2.50", "25e-1", "+2.5"))},
	{"seven", "cross", cat([]val.Val{val.Int(7), val.Float(7)}, sv("7", "07", "7.0", " 7"))},
	{"minus3", "cross", cat([]val.Val{val.Int(-3), val.Float(-3)}, sv("-3", " -3", "-3.0", "-03"))},
	{"big", "cross", cat([]val.Val{val.Int(9007199254740993), val.Float(9007199254740992)}, sv("9007199254740993", "9007199254740992", "9.007199254740992e15"))},
	{"dt", "dt", cat([]val.Val{val.Time(t1)},
		sv("2012-02-03 09:18:15", "2012/02/03 09:18:15", "2012-02-03T09:18:15Z", "2012-02-03T18:18:15+09:00", "2012-02-03T09:18:15", " 2012-02-03 09:18:15.0"))},
	{"date", "dt", cat([]val.Val{val.Time(t2)},
		sv("2012-02-03", "2012/02/03", "2012-02-03 00:00:00", "2012-02-03T00:00:00Z", "2012-02-03 "))},
	// instants that share the wall-clock reading, the second or the microsecond with t1 but are different instants
	{"dt_other_zone", "dt", cat([]val.Val{val.Time(t1.Add(-9 * time.Hour))},
		sv("2012-02-03T09:18:15+09:00", "2012-02-03T00:18:15Z", "2012-02-03 00:18:15", "2012-02-03 09:18:15 +09:00"))},
	{"dt_half", "dt", cat([]val.Val{val.Time(t1.Add(500 * time.Millisecond))},
		sv("2012-02-03 09:18:15.5", "2012-02-03T09:18:15.500Z", "2012/02/03 09:18:15.50", " 2012-02-03T09:18:15.5"))},
	{"dt_nano", "dt", cat([]val.Val{val.Time(t1.Add(time.Nanosecond))},
		sv("2012-02-03 09:18:15.000000001", "2012-02-03T09:18:15.000000001Z"))},
	{"a", "text", sv("a", "A", " a", "a ", "\ta")},
	{"abc", "text", sv("abc", "ABC", "Abc ", " aBC")},
	{"eacute", "text", sv("é", "É", " é")},
	{"ab", "text", sv("ab", "AB")},
	{"empty", "text", sv("", " ", "\t")},
	{"null", "null", []val.Val{val.Null}},
	{"colon", "delim", sv(":", " :", "::")},
	{"a_colon_b", "delim", sv("a:b", "A:B", " a:b")},
	{"a_colon", "delim", sv("a:", "A:")},
	{"colon_a", "delim", sv(":a", ":A ")},
	{"mS", "delim", sv("[S]", "[s]")},
	{"mSa", "delim", sv("[S]a", "[s]A", "[S]A ")},
	{"mI1", "delim", sv("[I]1", "[i]1")},
	{"mN", "delim", sv("[N]", "[n] ")},
	{"mF", "delim", sv("[F]1")},
	{"mD", "delim", sv("[D]0")},
	{"mB", "delim", sv("[B]T")},
	{"mT", "delim", sv("[T]U")},
	{"open_br", "delim", sv(":[", ":[ ")},
	{"a_open", "delim", sv("a:[S", "A:[s")},
	{"close", "delim", sv("S]a", "]")},
	{"a_sp_m", "delim", sv("a: [S]b", "A: [S]B")},
	{"bslash", "delim", sv(`\`, `\ `)},
	{"a_bslash", "delim", sv(`a\`, `A\`)},
	{"bslash_colon", "delim", sv(`a\:b`, `A\:B`)},
	{"bslash_colon_end", "delim", sv(`a\:`)},
	{"a_bslash2", "delim", sv(`a\\`, `A\\`)},
	{"bslash_colon_only", "delim", sv(`\:`, `\\:`)},
	{"a_colon_bslash", "delim", sv(`a:\`, `a:b\`)},
	{"mSa_bslash", "delim", sv(`[S]a\`, `:[S]a\`)},
}

func clusterIdx(class string) []int {
	var out []int
	for i, c := range clusters {
		if c.class == class {
			out = append(out, i)
		}
	}
	return out
}

var (
	crossIdx = clusterIdx("cross")
	dtIdx    = clusterIdx("dt")
	textIdx  = clusterIdx("text")
	delimIdx = clusterIdx("delim")
	nullIdx  = clusterIdx("null")
)

// csvForm: what the value looks like as a CSV cell (every cell is text; NULL
// is an empty unquoted field).
func csvForm(v val.Val) val.Val {
	switch v.K {
	case "N", "S":
		return v
	case "D":
		return val.Str(v.S)
	case "F":
		f := v.AsFloat()
		s := strconv.FormatFloat(f, 'f', -1, 64)
		if !strings.Contains(s, ".") {
			s += ".0"
		}
		return val.Str(s)
	}
	return val.Str(v.S)
}

// genKeyPools draws, per key column, the clusters its cells come from.
func genKeyPools(t *rapid.T, nKeys int) [][]int {
	pools := make([][]int, nKeys)
	for k := 0; k < nKeys; k++ {
		n := fw.Range(t, "poolSize", 1, 4)
		for i := 0; i < n; i++ {
			var from []int
			switch fw.Weighted(t, "clusterClass", []int{40, 12, 14, 28, 6}) {
			case 0:
				from = crossIdx
			case 1:
				from = dtIdx
			case 2:
				from = textIdx
			case 3:
				from = delimIdx
			default:
				from = nullIdx
			}
			pools[k] = append(pools[k], fw.PickU(t, "cluster", from))
			if len(from) > 0 && clusters[from[0]].class == "dt" && fw.Pct(t, "dtSibling", 60) {
				// a second instant next to the first: same day, same wall clock in another zone, same second, same microsecond
				pools[k] = append(pools[k], fw.PickU(t, "siblingCluster", dtIdx))
			}
		}
	}
	return pools
}

func genKeyCell(t *rapid.T, pool []int, csv bool) val.Val {
	cl := clusters[fw.PickU(t, "cl", pool)]
	v := fw.PickU(t, "spelling", cl.vals)
	if csv {
		v = csvForm(v)
	}
	return v
}

// spellingPools: per key column the lists of spellings its cells are drawn from.
func spellingPools(pools [][]int, csv bool) [][][]val.Val {
	out := make([][][]val.Val, len(pools))
	for k, pool := range pools {
		for _, ci := range pool {
			var vs []val.Val
			for _, v := range clusters[ci].vals {
				if csv {
					v = csvForm(v)
				}
				vs = append(vs, v)
			}
			out[k] = append(out[k], vs)
		}
	}
	return out
}

// reduceCertain keeps of every list only spellings that are certainly equal to
// one drawn member, so that no two cells form an open pair.
func reduceCertain(t *rapid.T, sp [][][]val.Val, strict bool, formats []string) {
	for k := range sp {
		for i, vs := range sp[k] {
			base := ref.C04NormaliseF(fw.PickU(t, "base", vs), strict, formats)
			var keep []val.Val
			for _, v := range vs {
				if ref.C04EStrict(base, ref.C04NormaliseF(v, strict, formats), strict) {
					keep = append(keep, v)
				}
			}
			if len(keep) > 0 {
				sp[k][i] = keep
			}
		}
	}
}

func genSpelling(t *rapid.T, pool [][]val.Val) val.Val {
	return fw.PickU(t, "spelling", fw.PickU(t, "cl", pool))
}

// ---- user datetime formats -------------------------------------------------

var dtUserFormats = []string{"%b %e, %Y", "%e/%c/%y", "%d.%m.%Y", "%Y-%d-%m", "%M %e %Y %H:%i", "%W, %e %b %Y", "02-Jan-2006", "%b %e, %Y %T", "%e %b %y"}

// decoys: notations the session may not know (then they are plain text); none
// starts with a digit and is 8 or more characters long (OutsideModel)
var dtDecoyFormats = []string{"%b %e, %Y", "%e/%c/%y", "%M %e %Y %H:%i", "%W, %e %b %Y"}

var dtInstants = []time.Time{
	time.Date(2012, 1, 2, 0, 0, 0, 0, time.UTC),
	time.Date(2012, 2, 1, 0, 0, 0, 0, time.UTC),
	time.Date(2012, 2, 3, 0, 0, 0, 0, time.UTC),
	time.Date(2012, 1, 2, 9, 18, 0, 0, time.UTC),
	time.Date(2012, 1, 2, 9, 18, 15, 0, time.UTC),
	time.Date(2011, 12, 1, 0, 0, 0, 0, time.UTC),
}

func genDTFormats(t *rapid.T) ([]string, bool) {
	n := 1 + fw.Weighted(t, "nFormats", []int{50, 35, 15})
	var fs []string
	for len(fs) < n {
		f := fw.PickU(t, "format", dtUserFormats)
		dup := false
		for _, g := range fs {
			if g == f {
				dup = true
			}
		}
		if !dup {
			fs = append(fs, f)
		}
	}
	return fs, n > 1 && fw.Pct(t, "jsonList", 60)
}

// genDTPool: a few instants, each written in the session's formats, the
// built-in notations, as a typed datetime, and in a notation the session may
// not know.
func genDTPool(t *rapid.T, formats []string, csv bool) [][]val.Val {
	var pool [][]val.Val
	n := fw.Range(t, "nInstants", 1, 3)
	for i := 0; i < n; i++ {
		ts := fw.PickU(t, "instant", dtInstants)
		var vs []val.Val
		for _, f := range formats {
			vs = append(vs, val.Str(ts.Format(ref.C04GoLayout(f))), val.Str(" "+ts.Format(ref.C04GoLayout(f))))
		}
		if ts.Hour() == 0 && ts.Minute() == 0 && ts.Second() == 0 {
			vs = append(vs, val.Str(ts.Format("2006-01-02")), val.Str(ts.Format("2006/01/02")))
		}
		vs = append(vs, val.Str(ts.Format("2006-01-02 15:04:05")), val.Str(ts.Format("2006-01-02T15:04:05Z")))
		d := val.Time(ts)
		if csv {
			d = csvForm(d)
		}
		vs = append(vs, d)
		if fw.Pct(t, "decoy", 50) {
			vs = append(vs, val.Str(ts.Format(ref.C04GoLayout(fw.PickU(t, "decoyFormat", dtDecoyFormats)))))
		}
		pool = append(pool, vs)
	}
	if fw.Pct(t, "dtNull", 15) {
		pool = append(pool, []val.Val{val.Null})
	}
	return pool
}

var xNumStrings = []string{" 3", "2.5", "1e1", "3.0", "+4", "-2", "0.25", "10", "3"}
var xAlpha = []string{"abc", "x", "Abc"}
var sPool = []string{"a", "B", "b ", " a", "", "é", "c|d", "x,y", "b"}

func genX(t *rapid.T, nullPct int, alpha bool, csv bool) val.Val {
	if fw.Pct(t, "xNull", nullPct) {
		return val.Null
	}
	var v val.Val
	switch fw.Weighted(t, "xKind", []int{45, 20, 25, 10}) {
	case 0:
		v = val.Int(int64(fw.Range(t, "xInt", -3, 9)))
	case 1:
		v = val.Float(float64(fw.Range(t, "xQuarter", -8, 40)) / 4)
	case 2:
		v = val.Str(fw.PickU(t, "xNumStr", xNumStrings))
	default:
		if alpha {
			v = val.Str(fw.PickU(t, "xAlpha", xAlpha))
		} else {
			v = val.Int(int64(fw.Range(t, "xInt2", 0, 3)))
		}
	}
	if csv {
		v = csvForm(v)
	}
	return v
}

func genS(t *rapid.T, nullPct int) val.Val {
	if fw.Pct(t, "sNull", nullPct) {
		return val.Null
	}
	return val.Str(fw.PickU(t, "s", sPool))
}

// ---------------------------------------------------------------------
// planting a colliding pair (generator knowledge of the key format is used
// only to aim; the oracle never looks at it)

// keyPart: how one cell would be serialised ("[S]TEXT", "[I]5", "[N]", ...).
func keyPart(v val.Val, strict bool) (string, bool) {
	if strict {
		switch v.K {
		case "N":
			return "[N]", true
		case "S":
			return "[S]" + strings.Trim(v.S, " \t"), true
		case "I":
			return "[I]" + v.S, true
		case "B":
			if v.AsBool() {
				return "[B]T", true
			}
			return "[B]F", true
		case "F":
			return "[F]" + strconv.FormatFloat(v.AsFloat(), 'f', -1, 64), true
		}
		return "", false
	}
	n := ref.C04Normalise(v, false)
	switch n.T {
	case 'N':
		return "[N]", true
	case 'I':
		return "[I]" + strconv.FormatInt(n.I, 10), true
	case 'F':
		return "[F]" + strconv.FormatFloat(n.F, 'f', -1, 64), true
	case 'B':
		if n.B {
			return "[I]1", true
		}
		return "[I]0", true
	case 'S':
		return "[S]" + n.S, true
	}
	return "", false
}

var atomStrings = []string{"x", "y", "z", "Q", "ab", "k9", "w_", "é", `b\`, `\`, `q\\`, `c\:`}

func genAtom(t *rapid.T, csv bool, mustBeText bool) val.Val {
	if mustBeText {
		return val.Str(fw.PickU(t, "atomText", atomStrings))
	}
	var v val.Val
	switch fw.Weighted(t, "atomKind", []int{50, 18, 14, 9, 9}) {
	case 0:
		v = val.Str(fw.PickU(t, "atomText", atomStrings))
	case 1:
		v = val.Int(int64(fw.Range(t, "atomInt", -2, 12)))
	case 2:
		v = val.Null
	case 3:
		v = val.Float(2.5)
	default:
		v = val.Bool(fw.Pct(t, "atomBool", 50))
	}
	if csv {
		v = csvForm(v)
	}
	return v
}

var bsSuffixes = []string{"", "", "", "", "", "", `\`, `\`, `\\`}

// genCollidingPair plants two different n-column tuples that an unescaped or
// badly escaped key serialisation could map to one key. Two constructions:
// (a) the same sequence of n+1 or n+2 atoms cut into n columns in two
// different ways, atoms inside one column glued with the separator + the
// marker the next atom would get inside a serialised key; text atoms may end
// in backslashes; (b) a pair in which a run of backslashes sits before the
// column boundary in one tuple and before the glued ':' in the other, which is
// what an escaping of ':' that does not escape the escape character confuses.
func genCollidingPair(t *rapid.T, n int, csv, strict bool, withSeparator bool) ([]val.Val, []val.Val) {
	if withSeparator && fw.Pct(t, "shiftedPair", 35) {
		return genShiftedPair(t, n, csv, strict)
	}
	return genSegmentedPair(t, n, csv, strict, withSeparator)
}

func gluePart(v val.Val, strict bool) string {
	part, ok := keyPart(v, strict)
	if !ok {
		part = "[S]" + v.S
	}
	return part
}

func genSegmentedPair(t *rapid.T, n int, csv, strict bool, withSeparator bool) ([]val.Val, []val.Val) {
	extras := 1
	if fw.Pct(t, "twoExtraAtoms", 25) {
		extras = 2
	}
	m := n + extras
	compose := func(label string) []int {
		cnt := make([]int, n)
		for i := range cnt {
			cnt[i] = 1
		}
		for e := 0; e < extras; e++ {
			cnt[fw.Uniform(t, label, n)]++
		}
		return cnt
	}
	same := func(a, b []int) bool {
		for i := range a {
			if a[i] != b[i] {
				return false
			}
		}
		return true
	}
	ca, cb := compose("compA"), compose("compB")
	if same(ca, cb) {
		// rotate: a different composition because some column holds more than one atom
		cb = append(append([]int(nil), ca[1:]...), ca[0])
		if same(ca, cb) {
			// all columns equal (n = 2, two extras, one each): move one atom
			cb = append([]int(nil), ca...)
			cb[0]++
			cb[1]--
		}
	}
	mustText := make([]bool, m)
	for _, c := range [][]int{ca, cb} {
		p := 0
		for _, k := range c {
			if k > 1 {
				mustText[p] = true
			}
			p += k
		}
	}
	atoms := make([]val.Val, m)
	for p := range atoms {
		atoms[p] = genAtom(t, csv, mustText[p])
		if atoms[p].K == "S" {
			atoms[p] = val.Str(atoms[p].S + fw.PickU(t, "bsSuffix", bsSuffixes))
		}
	}
	// mostly the real separator; sometimes none (keys simply concatenated) or
	// an already "escaped" one
	sep := ":"
	if !withSeparator {
		sep = ""
	} else {
		sep = []string{":", "", `\:`, `\\:`}[fw.Weighted(t, "glue", []int{70, 12, 9, 9})]
	}
	build := func(c []int) []val.Val {
		var out []val.Val
		p := 0
		for _, k := range c {
			if k == 1 {
				out = append(out, atoms[p])
			} else {
				text := atoms[p].S
				for q := 1; q < k; q++ {
					text += sep + gluePart(atoms[p+q], strict)
				}
				out = append(out, val.Str(text))
			}
			p += k
		}
		return out
	}
	return build(ca), build(cb)
}

var plainAtomStrings = []string{"x", "y", "z", "Q", "ab", "k9"}
var bsRuns = []string{"", `\`, `\\`, `\\\`}

// genShiftedPair: columns c and c+1 are (p E1, q E2 ":" M r) in one tuple and
// (p E3 ":[S]" q E4, r) in the other, E* runs of backslashes; the other
// columns are the same in both.
func genShiftedPair(t *rapid.T, n int, csv, strict bool) ([]val.Val, []val.Val) {
	c := fw.Uniform(t, "shiftCol", n-1)
	p := fw.PickU(t, "shiftP", plainAtomStrings)
	q := fw.PickU(t, "shiftQ", plainAtomStrings)
	r := genAtom(t, csv, false)
	var e [4]string
	if fw.Pct(t, "pureShift", 60) {
		x := bsRuns[1+fw.Uniform(t, "shiftRun", len(bsRuns)-1)]
		e = [4]string{x, "", "", x}
	} else {
		for i := range e {
			e[i] = bsRuns[fw.Weighted(t, "run", []int{40, 35, 15, 10})]
		}
	}
	a := make([]val.Val, n)
	b := make([]val.Val, n)
	for i := 0; i < n; i++ {
		if i == c || i == c+1 {
			continue
		}
		a[i] = genAtom(t, csv, false)
		b[i] = a[i]
	}
	a[c] = val.Str(p + e[0])
	a[c+1] = val.Str(q + e[1] + ":" + gluePart(r, strict))
	b[c] = val.Str(p + e[2] + ":[S]" + q + e[3])
	b[c+1] = r
	return a, b
}

// ---------------------------------------------------------------------
// table cases: GROUP BY, DISTINCT, PARTITION BY

type tblCase struct {
	Kind       string      `json:"kind"` // group | distinct | partition
	Src        string      `json:"src"`  // temp | csv
	Strict     bool        `json:"strict"`
	CPU        int         `json:"cpu"`
	NKeys      int         `json:"nkeys"`
	Rows       [][]val.Val `json:"rows"`                 // id, k1..kn, x, s
	WhereMinID int         `json:"where_min_id"`         // > 0: WHERE id > n
	HavingMin  int         `json:"having_min,omitempty"` // group: second query with HAVING COUNT(*) >= n
	Planted    bool        `json:"planted,omitempty"`    // a colliding pair was planted
	// distinct_group: SELECT DISTINCT SelKeys [, SelAgg] FROM t GROUP BY all keys
	SelKeys []int  `json:"sel_keys,omitempty"` // 0-based key numbers in the select list
	SelAgg  string `json:"sel_agg,omitempty"`  // "", COUNT(*), COUNT(x), SUM(x), LISTAGG(id, ',')
	// session datetime formats (SET @@DATETIME_FORMAT), one statement each or one JSON list
	DTFormats []string `json:"dt_formats,omitempty"`
	DTJSON    bool     `json:"dt_json,omitempty"`
	// KeySQL: how key i is written in GROUP BY / PARTITION BY / DISTINCT: "" the
	// plain column k<i+1>, "t.<n>" its column number, else an expression
	KeySQL []string `json:"key_sql,omitempty"`
}

// exprTemplates: expression keys over one key column ({1}) and possibly a
// second column ({2}): string functions, concatenation, arithmetic, CASE, casts.
var exprTemplates = []string{
	"UPPER({1})", "LOWER({1})", "TRIM({1})", "{1} || ''", "{1} || 'x'", "'p:' || {1}",
	"{1} % 2", "{1} + 0", "{1} * 2", "LEN({1})",
	"CASE WHEN {1} IS NULL THEN 'n' ELSE {1} END", "CASE {1} WHEN 'a' THEN 1 WHEN 1 THEN 2 ELSE 0 END",
	"STRING({1})", "INTEGER({1})", "FLOAT({1})", "COALESCE({1}, 'z')",
	"{1} || ':' || {2}", "COALESCE(s, '-')", "x % 2", "UPPER({1}) || LOWER({2})",
}

func (c tblCase) keySQL(k int) string {
	if k < len(c.KeySQL) && c.KeySQL[k] != "" {
		return c.KeySQL[k]
	}
	return kName(k)
}

// plainKey: the key is a column reference (name or number), which is what a select list may show.
func (c tblCase) plainKey(k int) bool {
	return k >= len(c.KeySQL) || c.KeySQL[k] == "" || strings.HasPrefix(c.KeySQL[k], "t.")
}

func (c tblCase) exprKeyCount() int {
	n := 0
	for k := 0; k < c.NKeys; k++ {
		if !c.plainKey(k) {
			n++
		}
	}
	return n
}

type tblOpt struct {
	kinds     []string
	collision bool // plant a colliding pair in every case
	emptyBias bool // favour empty tables / filters that empty groups / no keys
	certain   bool // key pools reduced to certainly-equal spellings (no open pairs)
	dtFormats bool // user datetime formats; the first key column holds instants in several notations
	exprPct   int  // share of cases whose key lists mix plain columns, column numbers and expressions
}

func genTbl(t *rapid.T, opt tblOpt) tblCase {
	c := tblCase{Kind: fw.PickU(t, "kind", opt.kinds), CPU: 1, Src: "temp"}
	switch fw.Weighted(t, "src", []int{47, 40, 13}) {
	case 1:
		c.Src = "csv"
	case 2:
		c.Src = "json"
	}
	csv := c.Src == "csv"
	c.Strict = fw.Pct(t, "strict", 35)
	large := !opt.collision && !opt.emptyBias && fw.Pct(t, "large", 10)
	switch {
	case opt.collision:
		c.NKeys = fw.Range(t, "nKeysCollision", 2, 3)
	case opt.emptyBias:
		c.NKeys = fw.Weighted(t, "nKeysEmpty", []int{50, 30, 20})
	default:
		c.NKeys = 1 + fw.Weighted(t, "nKeys", []int{25, 50, 25})
		if c.Kind != "distinct" && fw.Pct(t, "noKeys", 4) {
			c.NKeys = 0
		}
	}
	if c.Kind == "distinct" && c.NKeys == 0 {
		c.NKeys = 1
	}
	if c.Kind == "distinct_group" {
		c.NKeys = 2 + fw.Weighted(t, "nKeysDG", []int{60, 40})
		if fw.Pct(t, "oneKeyDG", 8) {
			c.NKeys = 1
		}
	}
	if opt.dtFormats && c.NKeys == 0 {
		c.NKeys = 1
	}
	if c.NKeys > 0 && fw.Pct(t, "exprKeys", opt.exprPct) {
		c.KeySQL = make([]string, c.NKeys)
		for k := range c.KeySQL {
			switch fw.Weighted(t, "keyForm", []int{30, 20, 50}) {
			case 1:
				c.KeySQL[k] = fmt.Sprintf("t.%d", k+2)
			case 2:
				other := kName((k + 1) % c.NKeys)
				if c.NKeys == 1 {
					other = "s"
				}
				c.KeySQL[k] = strings.NewReplacer("{1}", kName(k), "{2}", other).Replace(fw.PickU(t, "exprTemplate", exprTemplates))
			}
		}
	}
	var n int
	switch {
	case large:
		n = fw.Range(t, "nLarge", 160, 230)
		c.CPU = 4
	case opt.emptyBias && fw.Pct(t, "emptyTable", 35):
		n = 0
	case fw.Pct(t, "emptyTable", 2):
		n = 0
	case opt.collision:
		n = fw.Range(t, "nFill", 0, 4)
	default:
		n = fw.Range(t, "n", 1, 12)
		if fw.Pct(t, "cpu2", 15) {
			c.CPU = 2
		}
	}
	if n == 0 && c.Src == "json" {
		// a JSON array without objects has no columns at all
		c.Src = "temp"
	}
	pools := genKeyPools(t, c.NKeys)
	if large {
		// fewer, fuller buckets
		for k := range pools {
			if len(pools[k]) > 2 {
				pools[k] = pools[k][:2]
			}
		}
	}
	sp := spellingPools(pools, csv)
	if opt.dtFormats {
		c.DTFormats, c.DTJSON = genDTFormats(t)
		if c.NKeys > 0 {
			sp[0] = genDTPool(t, c.DTFormats, csv)
			if c.NKeys > 1 && fw.Pct(t, "secondDTColumn", 25) {
				sp[1] = genDTPool(t, c.DTFormats, csv)
			}
		}
	}
	if opt.certain {
		reduceCertain(t, sp, c.Strict, c.DTFormats)
	}
	nullPct := fw.Range(t, "nullPct", 0, 50)
	alpha := fw.Pct(t, "xAlphaCase", 30)
	var keyRows [][]val.Val
	for i := 0; i < n; i++ {
		kr := make([]val.Val, c.NKeys)
		for k := 0; k < c.NKeys; k++ {
			kr[k] = genSpelling(t, sp[k])
		}
		keyRows = append(keyRows, kr)
	}
	// the general generators plant the pair too: glued without the separator
	// while the real collision is to be avoided
	plant := opt.collision || (c.NKeys >= 2 && !large && !opt.certain && !opt.dtFormats && fw.Pct(t, "plant", 10))
	if plant {
		a, b := genCollidingPair(t, c.NKeys, csv, c.Strict, opt.collision || !avoidKnownDelimiterCollision)
		c.Planted = true
		for _, tup := range [][]val.Val{a, b} {
			reps := 1 + fw.Weighted(t, "plantReps", []int{70, 30})
			for r := 0; r < reps; r++ {
				pos := fw.Uniform(t, "plantPos", len(keyRows)+1)
				keyRows = append(keyRows, nil)
				copy(keyRows[pos+1:], keyRows[pos:])
				keyRows[pos] = append([]val.Val(nil), tup...)
			}
		}
	}
	n = len(keyRows)
	ids := make([]int, n)
	for i := range ids {
		ids[i] = i + 1
	}
	if n > 1 {
		ids = rapid.Permutation(ids).Draw(t, "ids")
	}
	for i := 0; i < n; i++ {
		row := []val.Val{val.Int(int64(ids[i]))}
		if csv {
			row[0] = csvForm(row[0])
		}
		row = append(row, keyRows[i]...)
		row = append(row, genX(t, nullPct, alpha, csv), genS(t, nullPct))
		if c.Src == "json" {
			for j := range row {
				row[j] = jsonForm(row[j])
			}
		}
		c.Rows = append(c.Rows, row)
	}
	if c.Src == "json" {
		for _, r := range c.Rows {
			for _, v := range r {
				if jsonUnloadable(v) {
					// the same typed cells as a temporary table
					c.Src = "temp"
				}
			}
		}
	}
	wherePct := 15
	if opt.emptyBias {
		wherePct = 60
	}
	if n > 0 && fw.Pct(t, "where", wherePct) {
		c.WhereMinID = fw.Range(t, "whereMin", 1, n)
		if opt.emptyBias && fw.Pct(t, "whereAll", 30) {
			c.WhereMinID = n
		}
	}
	havingPct := 25
	if opt.emptyBias {
		havingPct = 60
	}
	if c.Kind == "group" && fw.Pct(t, "having", havingPct) {
		c.HavingMin = fw.Range(t, "havingMin", 1, 4)
		if large {
			c.HavingMin = fw.Range(t, "havingMinLarge", 2, 60)
		}
		if avoidKnownHavingOnEmptyInput && c.NKeys == 0 && n-c.WhereMinID <= 0 {
			c.HavingMin = 0
		}
	}
	if c.Kind == "distinct_group" {
		// the select list: a proper subset of the keys, all keys, or keys and an aggregate
		// (csvq accepts only column keys in the select list: an expression key is "not a group key" there)
		var all []int
		for i := 0; i < c.NKeys; i++ {
			if c.plainKey(i) {
				all = append(all, i)
			}
		}
		if len(all) > 1 && fw.Pct(t, "permuteSel", 30) {
			all = rapid.Permutation(all).Draw(t, "selPerm")
		}
		shape := fw.Weighted(t, "selShape", []int{40, 30, 30})
		if len(all) == 0 {
			shape = 2
		}
		switch shape {
		case 0:
			if len(all) >= 2 {
				c.SelKeys = all[:fw.Range(t, "selSubset", 1, len(all)-1)]
			} else {
				c.SelKeys = all
			}
		case 1:
			c.SelKeys = all
		default:
			c.SelKeys = all[:fw.Range(t, "selWithAgg", 0, len(all))]
			c.SelAgg = fw.PickU(t, "selAgg", []string{"COUNT(*)", "COUNT(x)", "SUM(x)", "LISTAGG(id, ',')"})
		}
	}
	return c
}

func (c tblCase) colNames() []string {
	cols := []string{"id"}
	for k := 1; k <= c.NKeys; k++ {
		cols = append(cols, fmt.Sprintf("k%d", k))
	}
	return append(cols, "x", "s")
}

func (c tblCase) keyCols() []string {
	var cols []string
	for k := 0; k < c.NKeys; k++ {
		cols = append(cols, c.keySQL(k))
	}
	return cols
}

// jsonForm: what a JSON table can hold: integers, floats, booleans, null and
// strings (a datetime is its RFC 3339 text).
func jsonForm(v val.Val) val.Val {
	switch v.K {
	case "D":
		return val.Str(v.S)
	case "I":
		// csvq loads every JSON number as a float
		return val.Float(float64(v.AsInt()))
	}
	return v
}

// jsonUnloadable: a string ending in a backslash cannot be loaded from a JSON
// file (known finding of C02, json_trailing_backslash_unloadable: the scanner of
// the go-text dependency misreads the escaped backslash before the closing quote).
func jsonUnloadable(v val.Val) bool {
	return v.K == "S" && strings.HasSuffix(v.S, `\`)
}

// jsonText: the table as a JSON array of objects; integers without, floats
// with a fraction or exponent (csvq loads the former as integer, the latter as float).
func jsonText(cols []string, rows [][]val.Val) string {
	var b strings.Builder
	b.WriteString("[")
	for i, r := range rows {
		if i > 0 {
			b.WriteString(",")
		}
		b.WriteString("\n{")
		for j, v := range r {
			if j > 0 {
				b.WriteString(",")
			}
			name, _ := json.Marshal(cols[j])
			b.Write(name)
			b.WriteString(":")
			switch v.K {
			case "N":
				b.WriteString("null")
			case "I":
				b.WriteString(v.S)
			case "B":
				b.WriteString(strconv.FormatBool(v.AsBool()))
			case "F":
				f := v.AsFloat()
				t := strconv.FormatFloat(f, 'f', -1, 64)
				if !strings.Contains(t, ".") {
					t += ".0"
				}
				b.WriteString(t)
			default:
				var sb bytes.Buffer
				enc := json.NewEncoder(&sb)
				enc.SetEscapeHTML(false)
				_ = enc.Encode(v.S)
				b.WriteString(strings.TrimRight(sb.String(), "\n"))
			}
		}
		b.WriteString("}")
	}
	b.WriteString("\n]\n")
	return b.String()
}

func csvCell(v val.Val) string {
	if v.IsNull() {
		return ""
	}
	return `"` + strings.ReplaceAll(v.S, `"`, `""`) + `"`
}

func csvText(cols []string, rows [][]val.Val) string {
	var b strings.Builder
	b.WriteString(strings.Join(cols, ","))
	b.WriteString("\n")
	for _, r := range rows {
		for i, v := range r {
			if i > 0 {
				b.WriteByte(',')
			}
			b.WriteString(csvCell(v))
		}
		b.WriteString("\n")
	}
	return b.String()
}

func declareSQL(name string, cols []string, rows [][]val.Val) string {
	var b strings.Builder
	fmt.Fprintf(&b, "DECLARE %s VIEW (%s);\n", name, strings.Join(cols, ", "))
	if len(rows) > 0 {
		fmt.Fprintf(&b, "INSERT INTO %s VALUES ", name)
		for i, r := range rows {
			if i > 0 {
				b.WriteString(", ")
			}
			b.WriteByte('(')
			for j, v := range r {
				if j > 0 {
					b.WriteString(", ")
				}
				b.WriteString(v.SQL())
			}
			b.WriteByte(')')
		}
		b.WriteString(";\n")
	}
	return b.String()
}

const udfDecl = `
DECLARE ucnt AGGREGATE (cur) AS BEGIN
  VAR @a := 0; VAR @x;
  WHILE @x IN cur DO
    IF @x IS NULL THEN @a := @a + 1000; CONTINUE; END IF;
    @a := @a + 1;
  END WHILE;
  RETURN @a;
END;
DECLARE uhash AGGREGATE (cur) AS BEGIN
  VAR @a := 0; VAR @x;
  WHILE @x IN cur DO
    @a := (@a * 31 + INTEGER(@x)) % 1000003;
  END WHILE;
  RETURN @a;
END;
`

type aggSpec struct {
	name      string
	expr      string
	groupOnly bool
}

func (c tblCase) aggSpecs() []aggSpec {
	specs := []aggSpec{
		{"ids", "LISTAGG(id, ',')", false},
		{"cnt_star", "COUNT(*)", false},
		{"cnt_x", "COUNT(x)", false},
		{"cnt_dx", "COUNT(DISTINCT x)", false},
		{"sum", "SUM(x)", false},
		{"avg", "AVG(x)", false},
		{"min", "MIN(x)", false},
		{"max", "MAX(x)", false},
		{"median", "MEDIAN(x)", false},
		{"stdev", "STDEV(x)", false},
		{"stdevp", "STDEVP(x)", false},
		{"var", "VAR(x)", false},
		{"varp", "VARP(x)", false},
		{"sum_d", "SUM(DISTINCT x)", false},
		{"min_s", "MIN(s)", false},
		{"max_s", "MAX(s)", false},
		{"list_s", "LISTAGG(s, '|')", false},
		{"list_desc", "LISTAGG(s, '|') WITHIN GROUP (ORDER BY id DESC)", true},
		{"json_s", "JSON_AGG(s)", false},
		{"json_id", "JSON_AGG(id)", false},
		{"ucnt", "ucnt(x)", false},
		{"uhash", "uhash(id)", false},
	}
	if c.Strict && c.Src == "csv" {
		// under strict-equal ORDER BY compares the id texts of a CSV table as text: ordering is C07's subject
		for i, a := range specs {
			if a.name == "list_desc" {
				specs = append(specs[:i:i], specs[i+1:]...)
				break
			}
		}
	}
	if c.NKeys > 0 {
		specs = append(specs, aggSpec{"cnt_dk", "COUNT(DISTINCT " + c.keySQL(0) + ")", false})
		for k := 0; k < c.NKeys; k++ {
			if c.plainKey(k) {
				specs = append(specs, aggSpec{fmt.Sprintf("rep_k%d", k+1), c.keySQL(k), true})
			}
		}
	}
	return specs
}

func (c tblCase) whereSQL() string {
	if c.WhereMinID > 0 {
		return fmt.Sprintf(" WHERE id > %d", c.WhereMinID)
	}
	return ""
}

func (c tblCase) groupBySQL() string {
	if c.NKeys == 0 {
		return ""
	}
	return " GROUP BY " + strings.Join(c.keyCols(), ", ")
}

func (c tblCase) querySQL() (string, []aggSpec) {
	switch c.Kind {
	case "distinct_group":
		var items []string
		for _, k := range c.SelKeys {
			items = append(items, c.keySQL(k))
		}
		if c.SelAgg != "" {
			items = append(items, c.SelAgg)
		}
		return "SELECT DISTINCT " + strings.Join(items, ", ") + " FROM t" + c.whereSQL() + c.groupBySQL(), nil
	case "distinct":
		return "SELECT DISTINCT " + strings.Join(c.keyCols(), ", ") + " FROM t" + c.whereSQL(), nil
	case "partition":
		over := " OVER (PARTITION BY " + strings.Join(c.keyCols(), ", ") + ")"
		if c.NKeys == 0 {
			over = " OVER ()"
		}
		var used []aggSpec
		parts := []string{"id"}
		for _, a := range c.aggSpecs() {
			if a.groupOnly {
				continue
			}
			used = append(used, a)
			parts = append(parts, a.expr+over)
		}
		return "SELECT " + strings.Join(parts, ", ") + " FROM t" + c.whereSQL(), used
	}
	var parts []string
	specs := c.aggSpecs()
	for _, a := range specs {
		parts = append(parts, a.expr)
	}
	return "SELECT " + strings.Join(parts, ", ") + " FROM t" + c.whereSQL() + c.groupBySQL(), specs
}

// tblModel: the rows that pass the WHERE clause, in input order.
type tblModel struct {
	c     tblCase
	rows  [][]val.Val // filtered rows
	ids   []int
	posOf map[int]int // id -> index into rows
	norms []ref.C04Tuple
}

func (c tblCase) idOf(row []val.Val) int {
	i, _ := strconv.Atoi(row[0].S)
	return i
}

func (c tblCase) keyOf(row []val.Val) []val.Val { return row[1 : 1+c.NKeys] }
func (c tblCase) xOf(row []val.Val) val.Val     { return row[1+c.NKeys] }
func (c tblCase) sOf(row []val.Val) val.Val     { return row[2+c.NKeys] }

func buildTblModel(c tblCase) *tblModel {
	m := &tblModel{c: c, posOf: map[int]int{}}
	for _, r := range c.Rows {
		id := c.idOf(r)
		if c.WhereMinID > 0 && id <= c.WhereMinID {
			continue
		}
		m.posOf[id] = len(m.rows)
		m.rows = append(m.rows, r)
		m.ids = append(m.ids, id)
		m.norms = append(m.norms, ref.C04NormaliseTupleF(c.keyOf(r), c.Strict, c.DTFormats))
	}
	return m
}

func fmtTuple(vs []val.Val) string {
	parts := make([]string, len(vs))
	for i, v := range vs {
		if v.K == "S" {
			parts[i] = strconv.Quote(v.S)
		} else {
			parts[i] = v.String()
		}
	}
	return "(" + strings.Join(parts, ", ") + ")"
}

func anyCollisionShaped(tuples ...[]val.Val) bool {
	for _, tup := range tuples {
		for _, v := range tup {
			if collisionShaped(v) {
				return true
			}
		}
	}
	return false
}

// checkPartition holds csvq's partition (bucketOf: filtered row index ->
// bucket number) against the two reference equivalences.
func (m *tblModel) checkPartition(sql string, bucketOf []int) *fw.Violation {
	c := m.c
	for i := 0; i < len(m.rows); i++ {
		for j := i + 1; j < len(m.rows); j++ {
			same := bucketOf[i] == bucketOf[j]
			ki, kj := c.keyOf(m.rows[i]), c.keyOf(m.rows[j])
			if !same && ref.C04EStrictTuple(m.norms[i], m.norms[j], c.Strict) {
				sig := "bucket_split"
				if ref.C04ZeroSignOnly(m.norms[i], m.norms[j]) {
					sig = "negative_zero_split"
				}
				return fw.V(sig, "%s (strict_equal=%v): rows id=%d %s and id=%d %s have equal keys but are in different buckets", sql, c.Strict, m.ids[i], fmtTuple(ki), m.ids[j], fmtTuple(kj))
			}
			if same && !ref.C04ELooseTuple(m.norms[i], m.norms[j], c.Strict) {
				sig := "bucket_merges_unequal_rows"
				if anyCollisionShaped(ki, kj) {
					sig = "key_delimiter_collision"
				}
				return fw.V(sig, "%s (strict_equal=%v): rows id=%d %s and id=%d %s have different keys but share a bucket", sql, c.Strict, m.ids[i], fmtTuple(ki), m.ids[j], fmtTuple(kj))
			}
		}
	}
	return nil
}

func numOf(v val.Val) (float64, bool) {
	if v.K == "I" || v.K == "F" {
		return v.AsFloat(), true
	}
	return 0, false
}

func column(rows [][]val.Val, f func([]val.Val) val.Val) []val.Val {
	out := make([]val.Val, len(rows))
	for i, r := range rows {
		out[i] = f(r)
	}
	return out
}

func parseJSONArray(s string) ([]interface{}, error) {
	d := json.NewDecoder(bytes.NewReader([]byte(s)))
	d.UseNumber()
	var arr []interface{}
	if err := d.Decode(&arr); err != nil {
		return nil, err
	}
	return arr, nil
}

func jsonMatches(arr []interface{}, vs []val.Val) bool {
	if len(arr) != len(vs) {
		return false
	}
	for i, v := range vs {
		switch v.K {
		case "N":
			if arr[i] != nil {
				return false
			}
		case "S":
			s, ok := arr[i].(string)
			if !ok || s != v.S {
				return false
			}
		case "I":
			n, ok := arr[i].(json.Number)
			if !ok || n.String() != v.S {
				return false
			}
		case "F":
			n, ok := arr[i].(json.Number)
			if !ok {
				return false
			}
			if f, err := n.Float64(); err != nil || f != v.AsFloat() {
				return false
			}
		default:
			return false
		}
	}
	return true
}

func nonNull(vs []val.Val) []val.Val {
	var out []val.Val
	for _, v := range vs {
		if !v.IsNull() {
			out = append(out, v)
		}
	}
	return out
}

// checkAggregates recomputes every aggregate over the bucket (rows in input
// order) and compares with what csvq reported.
func (m *tblModel) checkAggregates(sql string, bucket []int, specs []aggSpec, got []val.Val, o *fw.Outcome) *fw.Violation {
	c := m.c
	rows := make([][]val.Val, len(bucket))
	for i, p := range bucket {
		rows[i] = m.rows[p]
	}
	xs := column(rows, c.xOf)
	ss := column(rows, c.sOf)
	idv := column(rows, func(r []val.Val) val.Val { return r[0] })
	fs := ref.C04Floats(xs)
	idList := func() string {
		parts := make([]string, len(bucket))
		for i, p := range bucket {
			parts[i] = strconv.Itoa(m.ids[p])
		}
		return strings.Join(parts, ",")
	}()
	fail := func(a aggSpec, g val.Val, want string) *fw.Violation {
		return fw.V("aggregate_"+a.name, "%s: bucket ids [%s]: %s = %s, expected %s (x=%s s=%s)", sql, idList, a.expr, g, want, fmtTuple(xs), fmtTuple(ss))
	}
	wantNum := func(a aggSpec, g val.Val, ok bool, want float64) *fw.Violation {
		if !ok {
			if !g.IsNull() {
				return fail(a, g, "NULL")
			}
			return nil
		}
		f, isNum := numOf(g)
		if !isNum || !ref.C04Close(f, want) {
			return fail(a, g, strconv.FormatFloat(want, 'g', -1, 64))
		}
		return nil
	}
	wantInt := func(a aggSpec, g val.Val, want int) *fw.Violation {
		if g.K != "I" || g.AsInt() != int64(want) {
			return fail(a, g, strconv.Itoa(want))
		}
		return nil
	}
	wantText := func(a aggSpec, g val.Val, parts []string) *fw.Violation {
		if len(parts) == 0 {
			if !g.IsNull() {
				return fail(a, g, "NULL")
			}
			return nil
		}
		if g.K != "S" || g.S != strings.Join(parts, "|") {
			return fail(a, g, strconv.Quote(strings.Join(parts, "|")))
		}
		return nil
	}
	for i, a := range specs {
		g := got[i]
		var v *fw.Violation
		switch a.name {
		case "ids":
			// the bucket itself; the order inside the list is checked by the caller
		case "cnt_star":
			v = wantInt(a, g, len(rows))
		case "cnt_x":
			v = wantInt(a, g, len(nonNull(xs)))
		case "cnt_dx", "cnt_dk":
			vs := xs
			if a.name == "cnt_dk" {
				vs = column(rows, func(r []val.Val) val.Val { return r[1] })
			}
			lo, hi, _ := ref.C04DistinctBoundsF(vs, c.Strict, c.DTFormats)
			if g.K != "I" || g.AsInt() < int64(lo) || g.AsInt() > int64(hi) {
				v = fail(a, g, fmt.Sprintf("%d..%d", lo, hi))
			}
		case "sum":
			v = wantNum(a, g, len(fs) > 0, ref.C04Sum(fs))
		case "avg":
			if len(fs) > 0 {
				v = wantNum(a, g, true, ref.C04Avg(fs))
			} else {
				v = wantNum(a, g, false, 0)
			}
		case "median":
			if len(fs) > 0 {
				v = wantNum(a, g, true, ref.C04Median(fs))
			} else {
				v = wantNum(a, g, false, 0)
			}
		case "stdevp", "varp":
			if len(fs) > 0 {
				w := ref.C04Var(fs, true)
				if a.name == "stdevp" {
					w = sqrt(w)
				}
				v = wantNum(a, g, true, w)
			} else {
				v = wantNum(a, g, false, 0)
			}
		case "stdev", "var":
			switch {
			case len(fs) >= 2:
				w := ref.C04Var(fs, false)
				if a.name == "stdev" {
					w = sqrt(w)
				}
				v = wantNum(a, g, true, w)
			case len(fs) == 0:
				v = wantNum(a, g, false, 0)
			default:
				// one value: the sample statistic is undefined and the manual is silent
			}
		case "sum_d":
			lo, hi, reps := ref.C04DistinctBounds(xs, c.Strict)
			if lo == hi {
				var dv []val.Val
				for _, r := range reps {
					dv = append(dv, xs[r])
				}
				dfs := ref.C04Floats(dv)
				v = wantNum(a, g, len(dfs) > 0, ref.C04Sum(dfs))
			} else {
				o.Classes = append(o.Classes, "sum_distinct_open")
			}
			if lo == hi && len(reps) >= 2 {
				o.Classes = append(o.Classes, "sum_distinct_asserted")
			}
		case "min", "max", "min_s", "max_s":
			vs := xs
			if strings.HasSuffix(a.name, "_s") {
				vs = ss
			}
			sign := -1
			if strings.HasPrefix(a.name, "max") {
				sign = 1
			}
			idx, ok := ref.C04Extreme(vs, sign)
			switch {
			case !ok:
				o.Classes = append(o.Classes, "minmax_open")
			case len(idx) == 0:
				if !g.IsNull() {
					v = fail(a, g, "NULL")
				}
			default:
				if len(nonNull(vs)) >= 2 {
					o.Classes = append(o.Classes, "minmax_asserted")
				}
				found := false
				for _, p := range idx {
					if ref.C04Identical(vs[p], g) {
						found = true
					}
				}
				if !found {
					v = fail(a, g, "one of the extreme values, e.g. "+vs[idx[0]].String())
				}
			}
		case "list_s":
			var parts []string
			for _, s := range nonNull(ss) {
				parts = append(parts, s.S)
			}
			v = wantText(a, g, parts)
		case "list_desc":
			type pr struct {
				id int
				s  val.Val
			}
			var ps []pr
			for i, p := range bucket {
				ps = append(ps, pr{m.ids[p], ss[i]})
			}
			sort.Slice(ps, func(i, j int) bool { return ps[i].id > ps[j].id })
			var parts []string
			for _, p := range ps {
				if !p.s.IsNull() {
					parts = append(parts, p.s.S)
				}
			}
			v = wantText(a, g, parts)
		case "json_s", "json_id":
			vs := ss
			if a.name == "json_id" {
				vs = idv
			}
			if g.IsNull() {
				// the manual does not say what an array of nothing is: NULL is accepted for an empty bucket only
				if len(vs) != 0 {
					v = fail(a, g, "a JSON array")
				}
				break
			}
			arr, err := parseJSONArray(g.S)
			if g.K != "S" || err != nil {
				v = fail(a, g, "a JSON array")
				break
			}
			// "JSON array of expr": null values as null (or, the way the other aggregates read, left out)
			if !jsonMatches(arr, vs) && !jsonMatches(arr, nonNull(vs)) {
				v = fail(a, g, "the JSON array of "+fmtTuple(vs))
			}
		case "ucnt":
			v = wantInt(a, g, len(nonNull(xs))+1000*(len(xs)-len(nonNull(xs))))
		case "uhash":
			h := 0
			for _, p := range bucket {
				h = (h*31 + m.ids[p]) % 1000003
			}
			v = wantInt(a, g, h)
		default:
			if strings.HasPrefix(a.name, "rep_") {
				k, _ := strconv.Atoi(strings.TrimPrefix(a.name, "rep_k"))
				found := false
				for _, r := range rows {
					if ref.C04Identical(r[k], g) {
						found = true
					}
				}
				if !found {
					v = fw.V("group_key_not_from_bucket", "%s: bucket ids [%s]: column %s = %s is not the key of any row of the bucket", sql, idList, a.expr, g)
				}
			}
		}
		if v != nil {
			return v
		}
	}
	return nil
}

func sqrt(f float64) float64 { return math.Sqrt(f) }

func parseIDs(v val.Val) ([]int, bool) {
	if v.IsNull() {
		return nil, true
	}
	if v.K != "S" {
		return nil, false
	}
	var out []int
	for _, p := range strings.Split(v.S, ",") {
		i, err := strconv.Atoi(p)
		if err != nil {
			return nil, false
		}
		out = append(out, i)
	}
	return out, true
}

var cellClassNames = map[byte]string{'N': "null", 'I': "int", 'F': "float", 'D': "datetime", 'B': "bool", 'S': "text"}

// cellClass: generator class of one key cell (typed value or what a text spells).
func cellClass(v val.Val) string {
	n := ref.C04Normalise(v, false)
	cl := cellClassNames[n.T]
	if v.K == "S" {
		if n.T != 'S' {
			cl = "str_" + cl
		} else if hasDelimiter(v) {
			cl = "delim"
		} else if strings.Trim(v.S, " \t") == "" {
			cl = "blank"
		}
	}
	return cl
}

type caseTraits struct {
	delim, cross, empty bool
	classes             map[string]bool
}

func (tr caseTraits) nonTrivial() bool { return tr.delim || tr.cross || tr.empty }

func (tr caseTraits) fingerprint(kind string, nKeys int, strict bool) string {
	tags := ""
	if tr.delim {
		tags += "D"
	}
	if tr.cross {
		tags += "X"
	}
	if tr.empty {
		tags += "E"
	}
	return fmt.Sprintf("%s|%d|%s|%s|strict=%v", kind, nKeys, tags, strings.Join(fw.SortedKeys(tr.classes), ","), strict)
}

// traitsOf: the non-trivial rule over a set of key tuples.
func traitsOf(tuples [][]val.Val, nKeys int, strict bool, formats ...string) caseTraits {
	tr := caseTraits{classes: map[string]bool{}}
	norms := make([]ref.C04Tuple, len(tuples))
	for i, tup := range tuples {
		norms[i] = ref.C04NormaliseTupleF(tup, strict, formats)
		for _, v := range tup {
			tr.classes[cellClass(v)] = true
			if _, ok := ref.C04UserDatetime(v, formats); ok && !strict {
				tr.classes["str_user_datetime"] = true
			}
			if nKeys >= 2 && hasDelimiter(v) {
				tr.delim = true
			}
		}
	}
	if nKeys > 0 && len(tuples) <= 400 {
		for i := 0; i < len(tuples) && !tr.cross; i++ {
			for j := i + 1; j < len(tuples); j++ {
				if ref.C04EStrictTuple(norms[i], norms[j], strict) && !ref.C04IdenticalTuple(tuples[i], tuples[j]) {
					tr.cross = true
					break
				}
			}
		}
	}
	return tr
}

func outsideModel(rows [][]val.Val, formats ...string) bool {
	for _, r := range rows {
		for _, v := range r {
			if ref.C04OutsideModelF(v, formats) {
				return true
			}
		}
	}
	return false
}

func openSession(dir string, cpu int, strict bool, formats ...string) (*run.Sess, *fw.Violation) {
	s, err := run.NewSess(run.Opt{Dir: dir, CPU: cpu, WaitTimeout: 10 * time.Minute})
	if err != nil {
		return nil, fw.Harness("NewSess: %v", err)
	}
	if strict {
		if r := s.Exec("SET @@STRICT_EQUAL TO TRUE;"); r.Err != nil {
			s.Close()
			return nil, fw.Harness("SET @@STRICT_EQUAL: %v", r.Err)
		}
	}
	return s, nil
}

// setDTFormats appends the user datetime formats to the session's @@DATETIME_FORMAT.
func setDTFormats(s *run.Sess, formats []string, asJSON bool) *fw.Violation {
	if len(formats) == 0 {
		return nil
	}
	var sql string
	if asJSON {
		b, _ := json.Marshal(formats)
		sql = "SET @@DATETIME_FORMAT TO " + val.QuoteSQL(string(b)) + ";"
	} else {
		for _, f := range formats {
			sql += "SET @@DATETIME_FORMAT TO " + val.QuoteSQL(f) + ";\n"
		}
	}
	if r := s.Exec(sql); r.Err != nil {
		return fw.Harness("%s: %v", sql, r.Err)
	}
	return nil
}

func checkTbl(c tblCase) (fw.Outcome, *fw.Violation) {
	o := fw.Outcome{Classes: []string{"kind:" + c.Kind, "src:" + c.Src, fmt.Sprintf("nkeys:%d", c.NKeys), fmt.Sprintf("strict:%v", c.Strict), fmt.Sprintf("cpu:%d", c.CPU)}}
	if outsideModel(c.Rows, c.DTFormats...) {
		o.Discard = true
		return o, nil
	}
	if len(c.DTFormats) > 0 {
		o.Classes = append(o.Classes, fmt.Sprintf("dt_formats:%d", len(c.DTFormats)))
		if c.DTJSON {
			o.Classes = append(o.Classes, "dt_formats:json_list")
		}
	}
	if len(c.Rows) >= 160 {
		o.Classes = append(o.Classes, "large")
	}

	dir := fw.WorkDir()
	if c.Src == "csv" || c.Src == "json" {
		d, err := os.MkdirTemp(fw.WorkDir(), "c04-")
		if err != nil {
			return o, fw.Harness("mkdir: %v", err)
		}
		defer os.RemoveAll(d)
		dir = d
		files := map[string]string{"t.csv": csvText(c.colNames(), c.Rows)}
		if c.Src == "json" {
			files = map[string]string{"t.json": jsonText(c.colNames(), c.Rows)}
		}
		if err := run.WriteFiles(dir, files); err != nil {
			return o, fw.Harness("write: %v", err)
		}
	}
	s, hv := openSession(dir, c.CPU, c.Strict)
	if hv != nil {
		return o, hv
	}
	defer s.Close()
	if hv := setDTFormats(s, c.DTFormats, c.DTJSON); hv != nil {
		return o, hv
	}
	setup := udfDecl
	if c.Src == "temp" {
		setup += declareSQL("t", c.colNames(), c.Rows)
	}
	if r := s.Exec(setup); r.Err != nil {
		return o, fw.Harness("setup failed: %v\n%s", r.Err, setup)
	}
	if n := c.exprKeyCount(); n > 0 || len(c.KeySQL) > 0 {
		// expression keys: the key value of a row is what csvq evaluates for it in a
		// plain SELECT (no grouping, no DISTINCT involved); from here on the case is
		// the one with these values as key cells
		o.Classes = append(o.Classes, fmt.Sprintf("expr_keys:%d_of_%d", n, c.NKeys))
		for k := 0; k < c.NKeys; k++ {
			if strings.HasPrefix(c.keySQL(k), "t.") {
				o.Classes = append(o.Classes, "column_number_key")
				break
			}
		}
		if n > 0 {
			esql := "SELECT id, " + strings.Join(c.keyCols(), ", ") + " FROM t"
			et, err := s.Query(esql)
			if err != nil {
				// the expression itself does not evaluate: nothing to bucket
				fw.AddExtra("expr_key_eval_error", 1)
				o.Discard = true
				return o, nil
			}
			if len(et.Rows) != len(c.Rows) {
				return o, fw.Harness("%s: %d rows, expected %d", esql, len(et.Rows), len(c.Rows))
			}
			evald := map[string][]val.Val{}
			for _, r := range et.Rows {
				evald[r[0].S] = r[1:]
			}
			eff := c
			eff.Rows = make([][]val.Val, len(c.Rows))
			for i, r := range c.Rows {
				ev, ok := evald[r[0].S]
				if !ok || len(ev) != c.NKeys {
					return o, fw.Harness("%s: id %s missing", esql, r[0].S)
				}
				row := append([]val.Val(nil), r...)
				for k := 0; k < c.NKeys; k++ {
					if !c.plainKey(k) {
						if ev[k].K == "?" {
							o.Discard = true
							return o, nil
						}
						row[1+k] = ev[k]
					}
				}
				eff.Rows[i] = row
			}
			c = eff
			if outsideModel(c.Rows, c.DTFormats...) {
				o.Discard = true
				return o, nil
			}
		}
	}
	m := buildTblModel(c)

	sql, specs := c.querySQL()
	tbl, err := s.Query(sql)
	if err != nil {
		return o, fw.V("query_error", "%s: %v", sql, err)
	}

	var keyTuples [][]val.Val
	for _, r := range m.rows {
		keyTuples = append(keyTuples, c.keyOf(r))
	}
	tr := traitsOf(keyTuples, c.NKeys, c.Strict, c.DTFormats...)
	if len(m.rows) == 0 {
		tr.empty = true
	}
	if c.WhereMinID > 0 {
		// a would-be bucket emptied by the WHERE clause
		all := traitsAllRows(c)
		for _, n := range all {
			gone := true
			for _, k := range m.norms {
				if ref.C04ELooseTuple(n, k, c.Strict) {
					gone = false
					break
				}
			}
			if gone {
				tr.empty = true
				break
			}
		}
	}

	switch c.Kind {
	case "distinct_group":
		if v := m.checkDistinctGroup(sql, tbl, &o); v != nil {
			return o, v
		}
	case "distinct":
		if v := m.checkDistinct(sql, tbl); v != nil {
			return o, v
		}
	case "partition":
		if v := m.checkPartitionQuery(sql, specs, tbl, &o); v != nil {
			return o, v
		}
	default:
		removed, v := m.checkGroup(s, sql, specs, tbl, &o)
		if v != nil {
			return o, v
		}
		if removed {
			tr.empty = true
		}
	}
	kind := c.Kind
	if c.Kind == "distinct_group" {
		kind += fmt.Sprintf(":%d:%s", len(c.SelKeys), c.SelAgg)
	}
	if len(c.DTFormats) > 0 {
		kind += ":dtformat"
		if m.userDatetimeTwoNotations() {
			o.Classes = append(o.Classes, "trait:user_datetime_two_notations")
			kind += ":two_notations"
		}
	}
	finishOutcome(&o, tr, c.Planted)
	if tr.nonTrivial() {
		o.Fingerprint = tr.fingerprint(kind, c.NKeys, c.Strict)
	}
	return o, nil
}

// finishOutcome adds the cell classes and traits and removes duplicate labels.
func finishOutcome(o *fw.Outcome, tr caseTraits, planted bool) {
	for cl := range tr.classes {
		o.Classes = append(o.Classes, "cell:"+cl)
	}
	if tr.delim {
		o.Classes = append(o.Classes, "trait:delimiter_in_multi_key")
	}
	if tr.cross {
		o.Classes = append(o.Classes, "trait:equal_across_spellings")
	}
	if tr.empty {
		o.Classes = append(o.Classes, "trait:empty_group")
	}
	if planted {
		o.Classes = append(o.Classes, "trait:planted_collision")
	}
	if !tr.nonTrivial() {
		o.Classes = append(o.Classes, "trait:none")
	}
	sort.Strings(o.Classes)
	out := o.Classes[:0]
	for i, cl := range o.Classes {
		if i == 0 || cl != o.Classes[i-1] {
			out = append(out, cl)
		}
	}
	o.Classes = out
}

func traitsAllRows(c tblCase) []ref.C04Tuple {
	out := make([]ref.C04Tuple, len(c.Rows))
	for i, r := range c.Rows {
		out[i] = ref.C04NormaliseTupleF(c.keyOf(r), c.Strict, c.DTFormats)
	}
	return out
}

// checkGroup: GROUP BY (or all rows as one group when there are no keys).
// Returns whether the HAVING query removed a bucket.
func (m *tblModel) checkGroup(s *run.Sess, sql string, specs []aggSpec, tbl run.Tbl, o *fw.Outcome) (bool, *fw.Violation) {
	c := m.c
	if c.NKeys == 0 && len(tbl.Rows) != 1 {
		return false, fw.V("group_all_row_count", "%s: without GROUP BY all records are one group (also when there are none): expected 1 row, got %d", sql, len(tbl.Rows))
	}
	bucketOf := make([]int, len(m.rows))
	for i := range bucketOf {
		bucketOf[i] = -1
	}
	buckets := make([][]int, len(tbl.Rows))
	idStrings := map[string]bool{}
	for b, row := range tbl.Rows {
		if len(row) != len(specs) {
			return false, fw.Harness("%s: %d columns, expected %d", sql, len(row), len(specs))
		}
		ids, ok := parseIDs(row[0])
		if !ok {
			return false, fw.V("listagg_ids_malformed", "%s: LISTAGG(id, ',') = %s", sql, row[0])
		}
		if len(ids) == 0 && c.NKeys > 0 {
			return false, fw.V("empty_group_emitted", "%s: a group without rows was returned", sql)
		}
		for _, id := range ids {
			p, ok := m.posOf[id]
			if !ok {
				return false, fw.V("group_has_foreign_row", "%s: group %s contains id %d which is not a row that passes the WHERE clause", sql, row[0], id)
			}
			if bucketOf[p] >= 0 {
				return false, fw.V("row_in_two_groups", "%s: id %d appears in two groups", sql, id)
			}
			bucketOf[p] = b
			buckets[b] = append(buckets[b], p)
		}
		idStrings[row[0].S] = true
	}
	for p, b := range bucketOf {
		if b < 0 {
			return false, fw.V("row_missing_from_groups", "%s: id %d %s is in no group", sql, m.ids[p], fmtTuple(c.keyOf(m.rows[p])))
		}
	}
	if v := m.checkPartition(sql, bucketOf); v != nil {
		return false, v
	}
	for b, row := range tbl.Rows {
		if !sort.IntsAreSorted(buckets[b]) {
			return false, fw.V("listagg_not_input_order", "%s: LISTAGG(id, ',') = %s is not in input order", sql, row[0])
		}
		if v := m.checkAggregates(sql, buckets[b], specs, row, o); v != nil {
			return false, v
		}
	}
	o.Classes = append(o.Classes, fmt.Sprintf("buckets:%s", sizeClass(len(buckets))))
	if c.HavingMin == 0 {
		return false, nil
	}
	// HAVING keeps exactly the groups that satisfy the condition
	hsql := "SELECT LISTAGG(id, ',') FROM t" + c.whereSQL() + c.groupBySQL() + fmt.Sprintf(" HAVING COUNT(*) >= %d", c.HavingMin)
	ht, err := s.Query(hsql)
	if err != nil {
		return false, fw.V("query_error", "%s: %v", hsql, err)
	}
	want := map[string]bool{}
	removed := false
	for b, row := range tbl.Rows {
		if len(buckets[b]) >= c.HavingMin {
			want[row[0].String()] = true
		} else {
			removed = true
		}
	}
	gotSet := map[string]bool{}
	for _, row := range ht.Rows {
		k := row[0].String()
		if gotSet[k] {
			return false, fw.V("having_duplicate_group", "%s: group %s returned twice", hsql, k)
		}
		gotSet[k] = true
		if !want[k] && c.NKeys == 0 && len(m.rows) == 0 {
			return false, fw.V("having_ignored_on_empty_input", "%s: all (zero) records are one group with COUNT(*) = 0, which HAVING must filter out, but a row (%s) was returned", hsql, k)
		}
		if !want[k] {
			return false, fw.V("having_wrong_group", "%s: group %s returned, but the groups of %q with COUNT(*) >= %d are %v", hsql, k, sql, c.HavingMin, fw.SortedKeys(want))
		}
	}
	for k := range want {
		if !gotSet[k] {
			return false, fw.V("having_lost_group", "%s: group %s is missing (groups with COUNT(*) >= %d: %v)", hsql, k, c.HavingMin, fw.SortedKeys(want))
		}
	}
	o.Classes = append(o.Classes, "having")
	return removed, nil
}

func sizeClass(n int) string {
	switch {
	case n == 0:
		return "0"
	case n == 1:
		return "1"
	case n <= 4:
		return "2-4"
	case n <= 12:
		return "5-12"
	}
	return ">12"
}

// checkDistinct: the survivors of SELECT DISTINCT.
func (m *tblModel) checkDistinct(sql string, tbl run.Tbl) *fw.Violation {
	c := m.c
	var keys [][]val.Val
	for _, r := range m.rows {
		keys = append(keys, c.keyOf(r))
	}
	return checkSurvivors(sql, "distinct", c.Strict, keys, m.norms, tbl.Rows, c.DTFormats...)
}

// userDatetimeTwoNotations: two rows hold the same instant in different notations, one of them a user format.
func (m *tblModel) userDatetimeTwoNotations() bool {
	var keys [][]val.Val
	for _, r := range m.rows {
		keys = append(keys, m.c.keyOf(r))
	}
	return twoNotations(keys, m.norms, m.c.Strict, m.c.DTFormats)
}

func twoNotations(keys [][]val.Val, norms []ref.C04Tuple, strict bool, formats []string) bool {
	if strict || len(formats) == 0 {
		return false
	}
	for i := range keys {
		for j := range keys {
			if i == j {
				continue
			}
			for k := range keys[i] {
				a, b := keys[i][k], keys[j][k]
				if _, ok := ref.C04UserDatetime(a, formats); !ok || a.S == b.S {
					continue
				}
				if norms[i][k].T == 'D' && ref.C04EStrict(norms[i][k], norms[j][k], false) && strings.Trim(a.S, " ") != strings.Trim(b.S, " ") {
					return true
				}
			}
		}
	}
	return false
}

func project(vs []val.Val, cols []int) []val.Val {
	out := make([]val.Val, len(cols))
	for i, c := range cols {
		out[i] = vs[c]
	}
	return out
}

// checkDistinctGroup: SELECT DISTINCT SelKeys [, agg] FROM t GROUP BY all keys.
// The groups' representative key values are values of input rows; DISTINCT
// then works on the selected columns: without an aggregate the result is the
// DISTINCT of the rows projected on the selected keys. With an aggregate the
// groups are needed: asserted when they are determined (no open pair among
// the key cells), each reference group then yields (its selected keys, its
// aggregate) and the result is the DISTINCT of those.
func (m *tblModel) checkDistinctGroup(sql string, tbl run.Tbl, o *fw.Outcome) *fw.Violation {
	c := m.c
	nSel := len(c.SelKeys)
	shape := "subset_of_keys"
	switch {
	case c.SelAgg != "":
		shape = "keys_and_aggregate"
	case nSel == c.NKeys:
		shape = "all_keys"
	case c.exprKeyCount() > 0:
		shape = "subset_of_keys_with_expr_keys"
	}
	o.Classes = append(o.Classes, "distinct_group:"+shape)
	if c.exprKeyCount() > 0 {
		plain := 0
		for k := 0; k < c.NKeys; k++ {
			if c.plainKey(k) {
				plain++
			}
		}
		if c.SelAgg == "" && nSel == plain {
			o.Classes = append(o.Classes, "distinct_group:all_column_keys_selected_expr_key_unselected")
		}
	}
	var proj [][]val.Val
	var projNorms []ref.C04Tuple
	for i, r := range m.rows {
		proj = append(proj, project(c.keyOf(r), c.SelKeys))
		projNorms = append(projNorms, sub(m.norms[i], c.SelKeys))
	}
	// do several groups agree on the selected keys?
	agree := false
	for i := range m.rows {
		for j := i + 1; j < len(m.rows); j++ {
			if ref.C04EStrictTuple(projNorms[i], projNorms[j], c.Strict) && !ref.C04ELooseTuple(m.norms[i], m.norms[j], c.Strict) {
				agree = true
			}
		}
	}
	if agree {
		o.Classes = append(o.Classes, "distinct_group:groups_agree_on_selected_keys")
	}
	if c.SelAgg == "" {
		for _, r := range tbl.Rows {
			if len(r) != nSel {
				return fw.Harness("%s: %d columns", sql, len(r))
			}
		}
		return checkSurvivors(sql, "distinct_group", c.Strict, proj, projNorms, tbl.Rows, c.DTFormats...)
	}
	// keys + aggregate
	var resKeys [][]val.Val
	var resAgg []val.Val
	for _, r := range tbl.Rows {
		if len(r) != nSel+1 {
			return fw.Harness("%s: %d columns", sql, len(r))
		}
		resKeys = append(resKeys, r[:nSel])
		resAgg = append(resAgg, r[nSel])
		found := false
		for _, in := range proj {
			if ref.C04IdenticalTuple(in, r[:nSel]) {
				found = true
				break
			}
		}
		if !found {
			return fw.V("distinct_group_row_not_from_input", "%s: the keys of result row %s are not the keys of an input row", sql, fmtTuple(r))
		}
	}
	for i := 0; i < len(m.rows); i++ {
		for j := i + 1; j < len(m.rows); j++ {
			for k := 0; k < c.NKeys; k++ {
				if ref.C04EStrict(m.norms[i][k], m.norms[j][k], c.Strict) != ref.C04ELoose(m.norms[i][k], m.norms[j][k], c.Strict) {
					o.Classes = append(o.Classes, "distinct_group:groups_open")
					return nil
				}
			}
		}
	}
	// reference groups
	groupOf := make([]int, len(m.rows))
	var groups [][]int
	for i := range m.rows {
		groupOf[i] = -1
		for g, members := range groups {
			if ref.C04EStrictTuple(m.norms[i], m.norms[members[0]], c.Strict) {
				groupOf[i] = g
				groups[g] = append(groups[g], i)
				break
			}
		}
		if groupOf[i] < 0 {
			groupOf[i] = len(groups)
			groups = append(groups, []int{i})
		}
	}
	aggEq := func(g []int, got val.Val) bool {
		var xs []val.Val
		for _, p := range g {
			xs = append(xs, c.xOf(m.rows[p]))
		}
		switch c.SelAgg {
		case "COUNT(*)":
			return got.K == "I" && got.AsInt() == int64(len(g))
		case "COUNT(x)":
			return got.K == "I" && got.AsInt() == int64(len(nonNull(xs)))
		case "SUM(x)":
			fs := ref.C04Floats(xs)
			if len(fs) == 0 {
				return got.IsNull()
			}
			f, ok := numOf(got)
			return ok && ref.C04Close(f, ref.C04Sum(fs))
		}
		parts := make([]string, len(g))
		for i, p := range g {
			parts[i] = strconv.Itoa(m.ids[p])
		}
		return got.K == "S" && got.S == strings.Join(parts, ",")
	}
	// every result row is (selected keys, aggregate) of a reference group
	rowGroups := make([][]int, len(tbl.Rows)) // the groups a result row can stand for
	for i := range tbl.Rows {
		rn := ref.C04NormaliseTupleF(resKeys[i], c.Strict, c.DTFormats)
		for g, members := range groups {
			if ref.C04EStrictTuple(rn, projNorms[members[0]], c.Strict) && aggEq(members, resAgg[i]) {
				rowGroups[i] = append(rowGroups[i], g)
			}
		}
		if len(rowGroups[i]) == 0 {
			return fw.V("distinct_group_wrong_row", "%s (strict_equal=%v): result row %s is not (selected keys, %s) of any group", sql, c.Strict, fmtTuple(tbl.Rows[i]), c.SelAgg)
		}
	}
	// no two result rows equal
	for i := range tbl.Rows {
		ni := ref.C04NormaliseTupleF(resKeys[i], c.Strict, c.DTFormats)
		for j := i + 1; j < len(tbl.Rows); j++ {
			nj := ref.C04NormaliseTupleF(resKeys[j], c.Strict, c.DTFormats)
			sameAgg := ref.C04Identical(resAgg[i], resAgg[j])
			if f, ok := numOf(resAgg[i]); ok {
				if g, ok2 := numOf(resAgg[j]); ok2 && f == g {
					sameAgg = true
				}
			}
			if sameAgg && ref.C04EStrictTuple(ni, nj, c.Strict) {
				return fw.V("distinct_group_result_not_distinct", "%s (strict_equal=%v): result rows %s and %s are equal", sql, c.Strict, fmtTuple(tbl.Rows[i]), fmtTuple(tbl.Rows[j]))
			}
		}
	}
	// every group is represented
	for g, members := range groups {
		ok := false
		for i := range tbl.Rows {
			for _, rg := range rowGroups[i] {
				if rg == g {
					ok = true
				}
			}
		}
		if !ok {
			return fw.V("distinct_group_lost_group", "%s (strict_equal=%v): no result row stands for the group of id=%d %s", sql, c.Strict, m.ids[members[0]], fmtTuple(c.keyOf(m.rows[members[0]])))
		}
	}
	o.Classes = append(o.Classes, "distinct_group:aggregate_asserted")
	return nil
}

// checkSurvivors: result must consist of input tuples, pairwise not certainly
// equal, and every input tuple must be represented by a result tuple it may be
// equal to.
func checkSurvivors(sql, what string, strict bool, input [][]val.Val, inNorms []ref.C04Tuple, result [][]val.Val, formats ...string) *fw.Violation {
	resNorms := make([]ref.C04Tuple, len(result))
	for i, r := range result {
		found := false
		for _, in := range input {
			if ref.C04IdenticalTuple(in, r) {
				found = true
				break
			}
		}
		if !found {
			return fw.V(what+"_row_not_from_input", "%s: result row %s is not a row of the input", sql, fmtTuple(r))
		}
		resNorms[i] = ref.C04NormaliseTupleF(r, strict, formats)
	}
	for i := range result {
		for j := i + 1; j < len(result); j++ {
			if ref.C04EStrictTuple(resNorms[i], resNorms[j], strict) {
				sig := what + "_result_not_distinct"
				if ref.C04ZeroSignOnly(resNorms[i], resNorms[j]) {
					sig = "negative_zero_split"
				}
				return fw.V(sig, "%s (strict_equal=%v): result rows %s and %s are equal", sql, strict, fmtTuple(result[i]), fmtTuple(result[j]))
			}
		}
	}
	for i, in := range input {
		ok := false
		for j := range result {
			if ref.C04ELooseTuple(inNorms[i], resNorms[j], strict) {
				ok = true
				break
			}
		}
		if !ok {
			sig := what + "_row_lost"
			if anyCollisionShaped(in) || anyCollisionShaped(result...) {
				sig = "key_delimiter_collision"
			}
			return fw.V(sig, "%s (strict_equal=%v): input row %s is not represented: no result row is equal to it (result: %s)", sql, strict, fmtTuple(in), fmtRows(result))
		}
	}
	return nil
}

func fmtRows(rows [][]val.Val) string {
	var parts []string
	for i, r := range rows {
		if i >= 12 {
			parts = append(parts, "...")
			break
		}
		parts = append(parts, fmtTuple(r))
	}
	return "[" + strings.Join(parts, " ") + "]"
}

// checkPartitionQuery: aggregates OVER (PARTITION BY keys): every row reports its bucket.
func (m *tblModel) checkPartitionQuery(sql string, specs []aggSpec, tbl run.Tbl, o *fw.Outcome) *fw.Violation {
	if len(tbl.Rows) != len(m.rows) {
		return fw.V("partition_row_count", "%s: %d rows, expected %d", sql, len(tbl.Rows), len(m.rows))
	}
	bucketOf := make([]int, len(m.rows))
	for i := range bucketOf {
		bucketOf[i] = -1
	}
	bucketNo := map[string]int{}
	var buckets [][]int
	rowOfPos := make([][]val.Val, len(m.rows))
	for _, row := range tbl.Rows {
		if len(row) != len(specs)+1 {
			return fw.Harness("%s: %d columns, expected %d", sql, len(row), len(specs)+1)
		}
		id, err := strconv.Atoi(row[0].S)
		p, ok := m.posOf[id]
		if err != nil || !ok || rowOfPos[p] != nil {
			return fw.V("partition_rows_not_input", "%s: row with id %s is not an input row or appears twice", sql, row[0])
		}
		rowOfPos[p] = row
		ids, ok := parseIDs(row[1])
		if !ok {
			return fw.V("listagg_ids_malformed", "%s: LISTAGG(id, ',') OVER = %s", sql, row[1])
		}
		self := false
		var members []int
		for _, q := range ids {
			pp, ok := m.posOf[q]
			if !ok {
				return fw.V("group_has_foreign_row", "%s: partition %s of id %d contains an id that is not a row of the input", sql, row[1], id)
			}
			members = append(members, pp)
			if q == id {
				self = true
			}
		}
		if !self {
			return fw.V("partition_without_self", "%s: partition %s of id %d does not contain the row itself", sql, row[1], id)
		}
		b, seen := bucketNo[row[1].S]
		if !seen {
			b = len(buckets)
			bucketNo[row[1].S] = b
			buckets = append(buckets, members)
		}
		bucketOf[p] = b
	}
	// the partitions reported by the rows must be one partition of the table
	for b, members := range buckets {
		seen := map[int]bool{}
		for _, p := range members {
			if seen[p] || bucketOf[p] != b {
				return fw.V("partition_inconsistent", "%s: id %d is listed in a partition whose rows report another partition", sql, m.ids[p])
			}
			seen[p] = true
		}
		if !sort.IntsAreSorted(members) {
			return fw.V("listagg_not_input_order", "%s: LISTAGG(id, ',') OVER lists a partition out of input order", sql)
		}
	}
	if v := m.checkPartition(sql, bucketOf); v != nil {
		return v
	}
	for p, row := range rowOfPos {
		if v := m.checkAggregates(sql, buckets[bucketOf[p]], specs, row[1:], o); v != nil {
			return v
		}
	}
	o.Classes = append(o.Classes, fmt.Sprintf("buckets:%s", sizeClass(len(buckets))))
	return nil
}

const tblAssumption = "key cells: integers, floats (no NaN), booleans, UTC datetimes, NULL and texts spelling them or containing ':' and the key markers; edge blanks are space and tab; ternary cells are not generated (UNKNOWN vs NULL is not addressed by the statement)"

var aggAssumptions = []string{
	tblAssumption,
	"open pairs (integer n vs float n.0, boolean vs 0/1, under strict-equal texts differing only in edge blanks, floats 0 and -0) are accepted in one bucket or in two",
	"COUNT(DISTINCT) is bounded by the loose components and the strict classes; SUM(DISTINCT) is asserted only when both coincide",
	"MIN/MAX are asserted only when every pair of values in the bucket has a documented order; STDEV/VAR of a single value is not asserted",
	"LISTAGG/JSON_AGG/cursor order of a bucket is input order; JSON_AGG may or may not list NULLs and may be NULL for an empty bucket",
	"GROUP BY output order is not part of the property: buckets are compared as sets",
}

func TestC04Group(t *testing.T) {
	fw.Run(t, fw.Spec[tblCase]{
		ID: "C04", Name: "group", Quick: 4500, Thorough: 100000,
		Gen:         func(t *rapid.T) tblCase { return genTbl(t, tblOpt{kinds: []string{"group"}, exprPct: 25}) },
		Check:       checkTbl,
		Rule:        "table (temp typed / CSV text / 13% JSON file: floats, booleans, null, strings; strings ending in a backslash are not put into JSON files, C02 json_trailing_backslash_unloadable) with unique id, 0-3 key columns drawn from clusters of spellings equal across types plus ':' and marker texts (in 25% the GROUP BY list mixes plain columns, column numbers and expression keys evaluated per row through a plain SELECT; classes expr_keys:<n>_of_<m>, column_number_key), (datetime clusters include instants that share the wall-clock reading in another zone, the second (.5 s) or the microsecond (1 ns) with another cluster; a drawn datetime cluster brings a second one along in 60%), x numeric-ish, s text; SELECT LISTAGG(id), 22 aggregates, key columns GROUP BY keys [WHERE] and a second query with HAVING; csvq's buckets vs E_strict/E_loose, every aggregate recomputed over csvq's bucket; CPU 4 with 160-230 rows in 10%; non-trivial = >=2 keys with a ':'/marker cell, or two rows equal across spellings, or an empty group; distinct by (kind, #keys, traits, cell classes, strict)",
		Assumptions: aggAssumptions,
	})
}

func TestC04Distinct(t *testing.T) {
	fw.Run(t, fw.Spec[tblCase]{
		ID: "C04", Name: "distinct", Quick: 4500, Thorough: 100000,
		Gen:         func(t *rapid.T) tblCase { return genTbl(t, tblOpt{kinds: []string{"distinct"}, exprPct: 20}) },
		Check:       checkTbl,
		Rule:        "same tables; SELECT DISTINCT keys [WHERE]: every result row is an input row, no two result rows E_strict-equal, every input row has an E_loose-equal result row; non-trivial and distinct as in group",
		Assumptions: []string{tblAssumption},
	})
}

func TestC04Partition(t *testing.T) {
	fw.Run(t, fw.Spec[tblCase]{
		ID: "C04", Name: "partition", Quick: 4000, Thorough: 80000,
		Gen:         func(t *rapid.T) tblCase { return genTbl(t, tblOpt{kinds: []string{"partition"}, exprPct: 25}) },
		Check:       checkTbl,
		Rule:        "same tables; SELECT id, LISTAGG(id) OVER (PARTITION BY keys), aggregates OVER (PARTITION BY keys): the partitions reported by the rows form one partition of the table, which is held against E_strict/E_loose; every aggregate recomputed per row over its partition",
		Assumptions: aggAssumptions,
	})
}

func TestC04Empty(t *testing.T) {
	fw.Run(t, fw.Spec[tblCase]{
		ID: "C04", Name: "empty", Quick: 3000, Thorough: 60000,
		Gen: func(t *rapid.T) tblCase {
			return genTbl(t, tblOpt{kinds: []string{"group", "group", "partition", "distinct"}, emptyBias: true, exprPct: 20})
		},
		Check:       checkTbl,
		Rule:        "bias to empty groups: empty tables, WHERE that removes every row or whole buckets, no GROUP BY (all records are one group, also none), HAVING that removes groups: aggregates of nothing (COUNT 0, others NULL), no group without rows with GROUP BY",
		Assumptions: aggAssumptions,
	})
}

func TestC04CollisionTbl(t *testing.T) {
	fw.Run(t, fw.Spec[tblCase]{
		ID: "C04", Name: "collision_tbl", Quick: 1500, Thorough: 30000,
		Gen: func(t *rapid.T) tblCase {
			return genTbl(t, tblOpt{kinds: []string{"group", "distinct", "partition"}, collision: true})
		},
		Check:       checkTbl,
		Rule:        "collision search: two different 2-/3-column key tuples built from the same n+1 atoms, glued at different places with ':' + the marker the next atom would get inside a serialised key (\"x:[S]y\",\"z\" vs \"x\",\"y:[S]z\"; [I], [N], [F], [B] likewise), plus 0-4 ordinary rows; same oracles as group/distinct/partition",
		Assumptions: []string{tblAssumption},
	})
}

// ---------------------------------------------------------------------
// set operators

type setCase struct {
	Op      string      `json:"op"` // UNION | EXCEPT | INTERSECT
	All     bool        `json:"all"`
	Src     string      `json:"src"`
	Strict  bool        `json:"strict"`
	CPU     int         `json:"cpu"`
	NKeys   int         `json:"nkeys"`
	A       [][]val.Val `json:"a"`
	B       [][]val.Val `json:"b"`
	Planted bool        `json:"planted,omitempty"`
	// session datetime formats
	DTFormats []string `json:"dt_formats,omitempty"`
	DTJSON    bool     `json:"dt_json,omitempty"`
}

func genSet(t *rapid.T, collision bool, dtFormats ...bool) setCase {
	dt := len(dtFormats) > 0 && dtFormats[0]
	c := setCase{Op: fw.PickU(t, "op", []string{"UNION", "EXCEPT", "INTERSECT"}), All: fw.Pct(t, "all", 40), Src: "temp", CPU: 1}
	if fw.Pct(t, "csv", 45) {
		c.Src = "csv"
	}
	csv := c.Src == "csv"
	c.Strict = fw.Pct(t, "strict", 35)
	c.NKeys = 1 + fw.Weighted(t, "nKeys", []int{25, 50, 25})
	if collision {
		c.NKeys = fw.Range(t, "nKeysCollision", 2, 3)
	}
	large := !collision && !dt && fw.Pct(t, "large", 8)
	pools := genKeyPools(t, c.NKeys)
	sp := spellingPools(pools, csv)
	if dt {
		c.DTFormats, c.DTJSON = genDTFormats(t)
		sp[0] = genDTPool(t, c.DTFormats, csv)
	}
	gen := func(label string) [][]val.Val {
		var n int
		switch {
		case large:
			n = fw.Range(t, label+"Large", 160, 200)
		case fw.Pct(t, label+"Empty", 4):
			n = 0
		case collision:
			n = fw.Range(t, label+"Fill", 0, 3)
		default:
			n = fw.Range(t, label+"N", 1, 9)
		}
		var rows [][]val.Val
		for i := 0; i < n; i++ {
			r := make([]val.Val, c.NKeys)
			for k := range r {
				r[k] = genSpelling(t, sp[k])
			}
			rows = append(rows, r)
		}
		return rows
	}
	c.A, c.B = gen("a"), gen("b")
	if large {
		c.CPU = 4
	} else if fw.Pct(t, "cpu2", 15) {
		c.CPU = 2
	}
	if collision || (c.NKeys >= 2 && !large && !dt && fw.Pct(t, "plant", 10)) {
		a, b := genCollidingPair(t, c.NKeys, csv, c.Strict, collision || !avoidKnownDelimiterCollision)
		c.Planted = true
		insert := func(rows [][]val.Val, tup []val.Val) [][]val.Val {
			pos := fw.Uniform(t, "plantPos", len(rows)+1)
			rows = append(rows, nil)
			copy(rows[pos+1:], rows[pos:])
			rows[pos] = append([]val.Val(nil), tup...)
			return rows
		}
		switch fw.Uniform(t, "plantWhere", 3) {
		case 0: // one on each side
			c.A = insert(c.A, a)
			c.B = insert(c.B, b)
		case 1: // both on the left
			c.A = insert(insert(c.A, a), b)
		default: // both on the left, one of them also on the right
			c.A = insert(insert(c.A, a), b)
			c.B = insert(c.B, a)
		}
	}
	return c
}

func (c setCase) keyCols() []string {
	var cols []string
	for k := 1; k <= c.NKeys; k++ {
		cols = append(cols, fmt.Sprintf("k%d", k))
	}
	return cols
}

// tableCols: a constant first column keeps a CSV line of NULL keys from being an empty line.
func (c setCase) tableCols() []string { return append([]string{"z"}, c.keyCols()...) }

func withZ(rows [][]val.Val) [][]val.Val {
	out := make([][]val.Val, len(rows))
	for i, r := range rows {
		out[i] = append([]val.Val{val.Str("r")}, r...)
	}
	return out
}

func (c setCase) sql() string {
	cols := strings.Join(c.keyCols(), ", ")
	op := c.Op
	if c.All {
		op += " ALL"
	}
	return fmt.Sprintf("SELECT %s FROM a %s SELECT %s FROM b", cols, op, cols)
}

func countIdentical(rows [][]val.Val, tup []val.Val) int {
	n := 0
	for _, r := range rows {
		if ref.C04IdenticalTuple(r, tup) {
			n++
		}
	}
	return n
}

func checkSet(c setCase) (fw.Outcome, *fw.Violation) {
	op := c.Op
	if c.All {
		op += "_ALL"
	}
	o := fw.Outcome{Classes: []string{"op:" + op, "src:" + c.Src, fmt.Sprintf("nkeys:%d", c.NKeys), fmt.Sprintf("strict:%v", c.Strict), fmt.Sprintf("cpu:%d", c.CPU)}}
	if outsideModel(c.A, c.DTFormats...) || outsideModel(c.B, c.DTFormats...) {
		o.Discard = true
		return o, nil
	}
	if len(c.DTFormats) > 0 {
		o.Classes = append(o.Classes, fmt.Sprintf("dt_formats:%d", len(c.DTFormats)))
		if c.DTJSON {
			o.Classes = append(o.Classes, "dt_formats:json_list")
		}
	}
	dir := fw.WorkDir()
	if c.Src == "csv" {
		d, err := os.MkdirTemp(fw.WorkDir(), "c04-")
		if err != nil {
			return o, fw.Harness("mkdir: %v", err)
		}
		defer os.RemoveAll(d)
		dir = d
		if err := run.WriteFiles(dir, map[string]string{"a.csv": csvText(c.tableCols(), withZ(c.A)), "b.csv": csvText(c.tableCols(), withZ(c.B))}); err != nil {
			return o, fw.Harness("write: %v", err)
		}
	}
	s, hv := openSession(dir, c.CPU, c.Strict)
	if hv != nil {
		return o, hv
	}
	defer s.Close()
	if hv := setDTFormats(s, c.DTFormats, c.DTJSON); hv != nil {
		return o, hv
	}
	if c.Src == "temp" {
		setup := declareSQL("a", c.tableCols(), withZ(c.A)) + declareSQL("b", c.tableCols(), withZ(c.B))
		if r := s.Exec(setup); r.Err != nil {
			return o, fw.Harness("setup failed: %v\n%s", r.Err, setup)
		}
	}
	sql := c.sql()
	tbl, err := s.Query(sql)
	if err != nil {
		return o, fw.V("query_error", "%s: %v", sql, err)
	}
	res := tbl.Rows
	for _, r := range res {
		if len(r) != c.NKeys {
			return o, fw.Harness("%s: result has %d columns", sql, len(r))
		}
	}
	strict := c.Strict
	aN := make([]ref.C04Tuple, len(c.A))
	for i, r := range c.A {
		aN[i] = ref.C04NormaliseTupleF(r, strict, c.DTFormats)
	}
	bN := make([]ref.C04Tuple, len(c.B))
	for i, r := range c.B {
		bN[i] = ref.C04NormaliseTupleF(r, strict, c.DTFormats)
	}
	lname := strings.ToLower(op)

	switch {
	case c.Op == "UNION" && c.All:
		// "Return all records of both result sets"
		all := append(append([][]val.Val(nil), c.A...), c.B...)
		if len(res) != len(all) {
			return o, fw.V("union_all_rows", "%s: %d rows, expected %d", sql, len(res), len(all))
		}
		for _, r := range all {
			if countIdentical(res, r) != countIdentical(all, r) {
				return o, fw.V("union_all_rows", "%s: row %s appears %d times, expected %d", sql, fmtTuple(r), countIdentical(res, r), countIdentical(all, r))
			}
		}
	case c.Op == "UNION":
		all := append(append([][]val.Val(nil), c.A...), c.B...)
		if v := checkSurvivors(sql, "union", strict, all, append(append([]ref.C04Tuple(nil), aN...), bN...), res, c.DTFormats...); v != nil {
			return o, v
		}
	default:
		// EXCEPT: left rows that do not appear on the right; INTERSECT: left rows that do.
		keepIfMatched := c.Op == "INTERSECT"
		resN := make([]ref.C04Tuple, len(res))
		for i, r := range res {
			resN[i] = ref.C04NormaliseTupleF(r, strict, c.DTFormats)
			if countIdentical(c.A, r) == 0 {
				return o, fw.V(lname+"_row_not_from_input", "%s: result row %s is not a row of the left side", sql, fmtTuple(r))
			}
		}
		if !c.All {
			for i := range res {
				for j := i + 1; j < len(res); j++ {
					if ref.C04EStrictTuple(resN[i], resN[j], strict) {
						sig := lname + "_result_not_distinct"
						if ref.C04ZeroSignOnly(resN[i], resN[j]) {
							sig = "negative_zero_split"
						}
						return o, fw.V(sig, "%s (strict_equal=%v): result rows %s and %s are equal", sql, strict, fmtTuple(res[i]), fmtTuple(res[j]))
					}
				}
			}
		}
		for i, r := range c.A {
			strictMatch, looseMatch, zeroSign := false, false, false
			for j := range c.B {
				if ref.C04EStrictTuple(aN[i], bN[j], strict) {
					strictMatch = true
					if ref.C04ZeroSignOnly(aN[i], bN[j]) {
						zeroSign = true
					}
				}
				if ref.C04ELooseTuple(aN[i], bN[j], strict) {
					looseMatch = true
				}
			}
			mustKeep := (keepIfMatched && strictMatch) || (!keepIfMatched && !looseMatch)
			mustDrop := (keepIfMatched && !looseMatch) || (!keepIfMatched && strictMatch)
			g, na := countIdentical(res, r), countIdentical(c.A, r)
			if g > na {
				return o, fw.V(lname+"_row_multiplied", "%s: row %s appears %d times in the result, %d times on the left", sql, fmtTuple(r), g, na)
			}
			if mustDrop && g != 0 {
				sig := lname + "_kept_row"
				if anyCollisionShaped(r) || anyCollisionShaped(c.B...) {
					sig = "key_delimiter_collision"
				}
				if zeroSign {
					sig = "negative_zero_split"
				}
				return o, fw.V(sig, "%s (strict_equal=%v): left row %s must not be in the result (right side: %s)", sql, strict, fmtTuple(r), fmtRows(c.B))
			}
			if mustKeep {
				lost := false
				if c.All {
					lost = g != na
				} else {
					lost = true
					for j := range res {
						if ref.C04ELooseTuple(aN[i], resN[j], strict) {
							lost = false
							break
						}
					}
				}
				if lost {
					sig := lname + "_lost_row"
					if anyCollisionShaped(r) || anyCollisionShaped(c.B...) || anyCollisionShaped(c.A...) {
						sig = "key_delimiter_collision"
					}
					if zeroSign {
						sig = "negative_zero_split"
					}
					return o, fw.V(sig, "%s (strict_equal=%v): left row %s (%d times on the left) must be in the result, found %d times (right side: %s; result: %s)", sql, strict, fmtTuple(r), na, g, fmtRows(c.B), fmtRows(res))
				}
			}
			if c.All && g != 0 && g != na {
				return o, fw.V(lname+"_partial_multiplicity", "%s: row %s appears %d times on the left and %d times in the result", sql, fmtTuple(r), na, g)
			}
		}
	}

	all := append(append([][]val.Val(nil), c.A...), c.B...)
	tr := traitsOf(all, c.NKeys, strict, c.DTFormats...)
	if len(c.A) == 0 || len(c.B) == 0 || len(res) == 0 {
		tr.empty = true
	}
	if len(all) >= 160 {
		o.Classes = append(o.Classes, "large")
	}
	if len(c.DTFormats) > 0 {
		lname += ":dtformat"
		if twoNotations(all, append(append([]ref.C04Tuple(nil), aN...), bN...), strict, c.DTFormats) {
			o.Classes = append(o.Classes, "trait:user_datetime_two_notations")
			lname += ":two_notations"
		}
	}
	finishOutcome(&o, tr, c.Planted)
	if tr.nonTrivial() {
		o.Fingerprint = tr.fingerprint(lname, c.NKeys, strict)
	}
	return o, nil
}

var setAssumptions = []string{
	tblAssumption,
	"EXCEPT ALL / INTERSECT ALL follow the manual (left records that do not / do appear on the right, not distinguished), not the multiset arithmetic of standard SQL",
	"a left row whose only right-side matches are open pairs may be kept or dropped",
}

func TestC04SetOp(t *testing.T) {
	fw.Run(t, fw.Spec[setCase]{
		ID: "C04", Name: "setop", Quick: 6000, Thorough: 140000,
		Gen:         func(t *rapid.T) setCase { return genSet(t, false) },
		Check:       checkSet,
		Rule:        "two tables (temp typed / CSV text) of 1-3 key columns from the same clusters; a UNION|EXCEPT|INTERSECT [ALL] b: UNION ALL is the multiset sum; UNION survivors as in distinct; EXCEPT/INTERSECT: left rows with an E_strict match on the right must be dropped/kept, rows without an E_loose match kept/dropped, ALL keeps every copy, without ALL no two result rows E_strict-equal; non-trivial as in group (empty = an empty side or empty result)",
		Assumptions: setAssumptions,
	})
}

func TestC04CollisionSet(t *testing.T) {
	fw.Run(t, fw.Spec[setCase]{
		ID: "C04", Name: "collision_set", Quick: 1500, Thorough: 30000,
		Gen:         func(t *rapid.T) setCase { return genSet(t, true) },
		Check:       checkSet,
		Rule:        "collision search for the set operators: the colliding pair of collision_tbl placed on the two sides or both on the left",
		Assumptions: setAssumptions,
	})
}

// ---------------------------------------------------------------------
// SELECT DISTINCT with analytic functions in the select list and in ORDER BY:
// the buckets of DISTINCT and the partitions of both analytic functions over
// the same key columns must be the reference partition - in particular the
// partitions of the ORDER BY function, which is evaluated after DISTINCT has
// removed rows, must not be taken from the rows before DISTINCT.

type ordCase struct {
	Src        string      `json:"src"`
	Strict     bool        `json:"strict"`
	CPU        int         `json:"cpu"`
	NKeys      int         `json:"nkeys"`
	KeysFirst  bool        `json:"keys_first"` // table columns k1..kn, id, x (else id, k1..kn, x)
	Rows       [][]val.Val `json:"rows"`       // id, k1..kn, x
	SelOrder   []int       `json:"sel_order"`  // order of the key columns in the select list (0-based key numbers)
	APos       int         `json:"a_pos"`      // position of the analytic column a among the key columns
	AFn        string      `json:"a_fn"`       // COUNT(x) | COUNT(*) | SUM(x)
	SelPart    []int       `json:"sel_part"`   // PARTITION BY of a and ids
	OrdFn      string      `json:"ord_fn"`     // COUNT(*) | COUNT(k) | SUM(a) | COUNT(a)
	OrdArg     int         `json:"ord_arg"`    // the k of COUNT(k)
	OrdPart    []int       `json:"ord_part"`   // PARTITION BY of the ORDER BY function
	Desc       bool        `json:"desc"`
	Tiebreak   []int       `json:"tiebreak,omitempty"` // further plain ORDER BY items (their effect is not asserted)
	WhereMinID int         `json:"where_min_id"`
}

func genSubset(t *rapid.T, label string, n int) []int {
	var out []int
	for i := 0; i < n; i++ {
		if fw.Pct(t, label, 50) {
			out = append(out, i)
		}
	}
	if len(out) == 0 {
		out = []int{fw.Uniform(t, label+"One", n)}
	}
	return out
}

func genOrd(t *rapid.T) ordCase {
	c := ordCase{Src: "temp", CPU: 1}
	if fw.Pct(t, "csv", 40) {
		c.Src = "csv"
	}
	csv := c.Src == "csv"
	c.Strict = fw.Pct(t, "strict", 30)
	c.NKeys = 1 + fw.Weighted(t, "nKeys", []int{15, 55, 30})
	c.KeysFirst = fw.Pct(t, "keysFirst", 60)
	large := fw.Pct(t, "large", 6)
	n := fw.Range(t, "n", 2, 14)
	if large {
		n = fw.Range(t, "nLarge", 160, 200)
		c.CPU = 4
	} else if fw.Pct(t, "cpu2", 15) {
		c.CPU = 2
	}
	// per key column a few clusters; of each cluster only spellings that are
	// certainly equal to one another, so that the partitions are determined
	pools := make([][][]val.Val, c.NKeys)
	for k := range pools {
		np := fw.Range(t, "poolSize", 1, 3)
		for i := 0; i < np; i++ {
			var from []int
			switch fw.Weighted(t, "clusterClass", []int{35, 10, 25, 22, 8}) {
			case 0:
				from = crossIdx
			case 1:
				from = dtIdx
			case 2:
				from = textIdx
			case 3:
				from = delimIdx
			default:
				from = nullIdx
			}
			cl := clusters[fw.PickU(t, "cluster", from)]
			base := fw.PickU(t, "base", cl.vals)
			if csv {
				base = csvForm(base)
			}
			bn := ref.C04Normalise(base, c.Strict)
			var vs []val.Val
			for _, v := range cl.vals {
				if csv {
					v = csvForm(v)
				}
				if ref.C04EStrict(bn, ref.C04Normalise(v, c.Strict), c.Strict) {
					vs = append(vs, v)
				}
			}
			if len(vs) == 0 {
				vs = []val.Val{base}
			}
			pools[k] = append(pools[k], vs)
		}
	}
	ids := make([]int, n)
	for i := range ids {
		ids[i] = i + 1
	}
	ids = rapid.Permutation(ids).Draw(t, "ids")
	nullPct := fw.Range(t, "nullPct", 0, 40)
	for i := 0; i < n; i++ {
		row := []val.Val{val.Int(int64(ids[i]))}
		for k := 0; k < c.NKeys; k++ {
			vs := fw.PickU(t, "cl", pools[k])
			row = append(row, fw.PickU(t, "spelling", vs))
		}
		x := val.Null
		if !fw.Pct(t, "xNull", nullPct) {
			x = val.Int(int64(fw.Range(t, "x", -3, 9)))
		}
		row = append(row, x)
		if csv {
			row[0] = csvForm(row[0])
			row[len(row)-1] = csvForm(x)
		}
		c.Rows = append(c.Rows, row)
	}
	order := make([]int, c.NKeys)
	for i := range order {
		order[i] = i
	}
	if c.NKeys > 1 && fw.Pct(t, "permuteSelect", 50) {
		order = rapid.Permutation(order).Draw(t, "selOrder")
	}
	c.SelOrder = order
	c.APos = fw.Uniform(t, "aPos", c.NKeys+1)
	if fw.Pct(t, "aLast", 50) {
		c.APos = c.NKeys
	}
	c.AFn = fw.PickU(t, "aFn", []string{"COUNT(x)", "COUNT(*)", "SUM(x)"})
	c.SelPart = genSubset(t, "selPart", c.NKeys)
	c.OrdFn = []string{"COUNT(*)", "COUNT(k)", "SUM(a)", "COUNT(a)"}[fw.Weighted(t, "ordFn", []int{25, 15, 48, 12})]
	c.OrdArg = fw.Uniform(t, "ordArg", c.NKeys)
	c.OrdPart = genSubset(t, "ordPart", c.NKeys)
	if c.NKeys >= 2 && len(c.OrdPart) == c.NKeys && fw.Pct(t, "properOrdPart", 85) {
		// all keys: after DISTINCT every partition is a single row; drop one column
		drop := fw.Uniform(t, "dropOrdPart", c.NKeys)
		c.OrdPart = append(append([]int(nil), c.OrdPart[:drop]...), c.OrdPart[drop+1:]...)
	}
	if c.NKeys == 1 && c.OrdFn != "COUNT(a)" {
		c.OrdFn = "SUM(a)"
	}
	c.Desc = fw.Pct(t, "desc", 50)
	if fw.Pct(t, "tiebreak", 40) {
		c.Tiebreak = genSubset(t, "tiebreakCols", c.NKeys)
	}
	if fw.Pct(t, "where", 12) {
		c.WhereMinID = fw.Range(t, "whereMin", 1, n-1)
	}
	return c
}

func kName(k int) string { return fmt.Sprintf("k%d", k+1) }

func kNames(ks []int) string {
	parts := make([]string, len(ks))
	for i, k := range ks {
		parts[i] = kName(k)
	}
	return strings.Join(parts, ", ")
}

// tableLayout: column names and rows in the order of the table's columns.
func (c ordCase) tableLayout() ([]string, [][]val.Val) {
	var cols []string
	for k := 0; k < c.NKeys; k++ {
		cols = append(cols, kName(k))
	}
	if !c.KeysFirst {
		return append(append([]string{"id"}, cols...), "x"), c.Rows
	}
	cols = append(cols, "id", "x")
	rows := make([][]val.Val, len(c.Rows))
	for i, r := range c.Rows {
		row := append([]val.Val(nil), r[1:1+c.NKeys]...)
		rows[i] = append(row, r[0], r[1+c.NKeys])
	}
	return cols, rows
}

func (c ordCase) sql() string {
	var items []string
	a := fmt.Sprintf("%s OVER (PARTITION BY %s) AS a", c.AFn, kNames(c.SelPart))
	for i, k := range c.SelOrder {
		if i == c.APos {
			items = append(items, a)
		}
		items = append(items, kName(k))
	}
	if c.APos >= len(c.SelOrder) {
		items = append(items, a)
	}
	items = append(items, fmt.Sprintf("LISTAGG(id, ',') OVER (PARTITION BY %s) AS ids", kNames(c.SelPart)))
	fn := c.OrdFn
	if fn == "COUNT(k)" {
		fn = "COUNT(" + kName(c.OrdArg) + ")"
	}
	ord := fmt.Sprintf("%s OVER (PARTITION BY %s)", fn, kNames(c.OrdPart))
	if c.Desc {
		ord += " DESC"
	}
	for _, k := range c.Tiebreak {
		ord += ", " + kName(k)
	}
	where := ""
	if c.WhereMinID > 0 {
		where = fmt.Sprintf(" WHERE id > %d", c.WhereMinID)
	}
	return "SELECT DISTINCT " + strings.Join(items, ", ") + " FROM t" + where + " ORDER BY " + ord
}

func sub(t ref.C04Tuple, cols []int) ref.C04Tuple {
	out := make(ref.C04Tuple, len(cols))
	for i, c := range cols {
		out[i] = t[c]
	}
	return out
}

// ordValue: the value of the ORDER BY function for one row given the rows of its partition.
type ordRow struct {
	keys []val.Val
	a    val.Val
}

func ordValue(fn string, arg int, part []ordRow) (float64, bool) {
	switch fn {
	case "COUNT(*)":
		return float64(len(part)), true
	case "COUNT(k)":
		n := 0
		for _, r := range part {
			if !r.keys[arg].IsNull() {
				n++
			}
		}
		return float64(n), true
	case "COUNT(a)":
		n := 0
		for _, r := range part {
			if !r.a.IsNull() {
				n++
			}
		}
		return float64(n), true
	}
	// SUM(a)
	var fs []float64
	for _, r := range part {
		if f, ok := numOf(r.a); ok {
			fs = append(fs, f)
		}
	}
	if len(fs) == 0 {
		return 0, false
	}
	return ref.C04Sum(fs), true
}

type ordVal struct {
	f    float64
	null bool
}

// sortedBy: the sequence is in ORDER BY order: ASC puts NULL first and then
// ascends, DESC descends and puts NULL last (manual, order by clause).
func sortedBy(vs []ordVal, desc bool) bool {
	for i := 1; i < len(vs); i++ {
		p, q := vs[i-1], vs[i]
		if !desc {
			if q.null && !p.null {
				return false
			}
			if !p.null && !q.null && p.f > q.f && !ref.C04Close(p.f, q.f) {
				return false
			}
		} else {
			if p.null && !q.null {
				return false
			}
			if !p.null && !q.null && p.f < q.f && !ref.C04Close(p.f, q.f) {
				return false
			}
		}
	}
	return true
}

func checkOrd(c ordCase) (fw.Outcome, *fw.Violation) {
	o := fw.Outcome{Classes: []string{"src:" + c.Src, fmt.Sprintf("nkeys:%d", c.NKeys), fmt.Sprintf("strict:%v", c.Strict), fmt.Sprintf("cpu:%d", c.CPU),
		"afn:" + c.AFn, "ordfn:" + c.OrdFn, fmt.Sprintf("keys_first:%v", c.KeysFirst)}}
	if outsideModel(c.Rows) {
		o.Discard = true
		return o, nil
	}
	// rows that pass the WHERE clause
	type pre struct {
		id   int
		keys []val.Val
		x    val.Val
		norm ref.C04Tuple
	}
	var pres []pre
	posOf := map[int]int{}
	for _, r := range c.Rows {
		id, _ := strconv.Atoi(r[0].S)
		if c.WhereMinID > 0 && id <= c.WhereMinID {
			continue
		}
		posOf[id] = len(pres)
		keys := r[1 : 1+c.NKeys]
		pres = append(pres, pre{id, keys, r[1+c.NKeys], ref.C04NormaliseTuple(keys, c.Strict)})
	}

	dir := fw.WorkDir()
	cols, rows := c.tableLayout()
	if c.Src == "csv" {
		d, err := os.MkdirTemp(fw.WorkDir(), "c04-")
		if err != nil {
			return o, fw.Harness("mkdir: %v", err)
		}
		defer os.RemoveAll(d)
		dir = d
		if err := run.WriteFiles(dir, map[string]string{"t.csv": csvText(cols, rows)}); err != nil {
			return o, fw.Harness("write: %v", err)
		}
	}
	s, hv := openSession(dir, c.CPU, c.Strict)
	if hv != nil {
		return o, hv
	}
	defer s.Close()
	if c.Src == "temp" {
		setup := declareSQL("t", cols, rows)
		if r := s.Exec(setup); r.Err != nil {
			return o, fw.Harness("setup failed: %v\n%s", r.Err, setup)
		}
	}
	sql := c.sql()
	tbl, err := s.Query(sql)
	if err != nil {
		return o, fw.V("query_error", "%s: %v", sql, err)
	}

	// decode the result rows
	type resRow struct {
		keys   []val.Val
		norm   ref.C04Tuple
		a      val.Val
		ids    string
		bucket []int
	}
	res := make([]resRow, len(tbl.Rows))
	bucketOf := make([]int, len(pres))
	for i := range bucketOf {
		bucketOf[i] = -1
	}
	bucketNo := map[string]int{}
	var buckets [][]int
	for i, row := range tbl.Rows {
		if len(row) != c.NKeys+2 {
			return o, fw.Harness("%s: %d columns", sql, len(row))
		}
		keys := make([]val.Val, c.NKeys)
		p := 0
		for j, k := range c.SelOrder {
			if j == c.APos {
				p++
			}
			keys[k] = row[p]
			p++
		}
		aPos := c.APos
		if aPos > c.NKeys {
			aPos = c.NKeys
		}
		rr := resRow{keys: keys, norm: ref.C04NormaliseTuple(keys, c.Strict), a: row[aPos], ids: row[c.NKeys+1].S}
		ids, ok := parseIDs(row[c.NKeys+1])
		if !ok || len(ids) == 0 {
			return o, fw.V("listagg_ids_malformed", "%s: ids = %s", sql, row[c.NKeys+1])
		}
		b, seen := bucketNo[rr.ids]
		if !seen {
			b = len(buckets)
			bucketNo[rr.ids] = b
			var members []int
			for _, id := range ids {
				pp, ok := posOf[id]
				if !ok {
					return o, fw.V("group_has_foreign_row", "%s: partition %s contains an id that is not a row of the input", sql, rr.ids)
				}
				if bucketOf[pp] >= 0 {
					return o, fw.V("row_in_two_groups", "%s: id %d is listed in two partitions", sql, id)
				}
				bucketOf[pp] = b
				members = append(members, pp)
			}
			buckets = append(buckets, members)
		}
		rr.bucket = buckets[b]
		// the row is a row of its partition
		found := false
		for _, pp := range rr.bucket {
			if ref.C04IdenticalTuple(pres[pp].keys, keys) {
				found = true
				break
			}
		}
		if !found {
			return o, fw.V("distinct_row_not_from_input", "%s: result row %s / ids %s is not a row of that partition", sql, fmtTuple(keys), rr.ids)
		}
		res[i] = rr
	}
	for p, b := range bucketOf {
		if b < 0 {
			sig := "distinct_row_lost"
			if anyCollisionShaped(pres[p].keys) {
				sig = "key_delimiter_collision"
			}
			return o, fw.V(sig, "%s: the partition of input row id=%d %s is not in the result", sql, pres[p].id, fmtTuple(pres[p].keys))
		}
	}
	// the partitions of the select-list functions against the reference
	for i := range pres {
		for j := i + 1; j < len(pres); j++ {
			ni, nj := sub(pres[i].norm, c.SelPart), sub(pres[j].norm, c.SelPart)
			same := bucketOf[i] == bucketOf[j]
			if !same && ref.C04EStrictTuple(ni, nj, c.Strict) {
				return o, fw.V("bucket_split", "%s (strict_equal=%v): rows id=%d %s and id=%d %s have equal PARTITION BY keys (%s) but are in different partitions", sql, c.Strict, pres[i].id, fmtTuple(pres[i].keys), pres[j].id, fmtTuple(pres[j].keys), kNames(c.SelPart))
			}
			if same && !ref.C04ELooseTuple(ni, nj, c.Strict) {
				sig := "bucket_merges_unequal_rows"
				if anyCollisionShaped(pres[i].keys, pres[j].keys) {
					sig = "key_delimiter_collision"
				}
				return o, fw.V(sig, "%s (strict_equal=%v): rows id=%d %s and id=%d %s have different PARTITION BY keys (%s) but share a partition", sql, c.Strict, pres[i].id, fmtTuple(pres[i].keys), pres[j].id, fmtTuple(pres[j].keys), kNames(c.SelPart))
			}
		}
	}
	// a over exactly the partition
	for _, rr := range res {
		var xs []val.Val
		for _, pp := range rr.bucket {
			xs = append(xs, pres[pp].x)
		}
		bad := false
		want := ""
		switch c.AFn {
		case "COUNT(*)":
			want = strconv.Itoa(len(xs))
			bad = rr.a.K != "I" || rr.a.AsInt() != int64(len(xs))
		case "COUNT(x)":
			want = strconv.Itoa(len(nonNull(xs)))
			bad = rr.a.K != "I" || rr.a.AsInt() != int64(len(nonNull(xs)))
		default:
			fs := ref.C04Floats(xs)
			if len(fs) == 0 {
				want = "NULL"
				bad = !rr.a.IsNull()
			} else {
				want = strconv.FormatFloat(ref.C04Sum(fs), 'g', -1, 64)
				f, ok := numOf(rr.a)
				bad = !ok || !ref.C04Close(f, ref.C04Sum(fs))
			}
		}
		if bad {
			return o, fw.V("aggregate_over_partition", "%s: partition ids [%s]: %s OVER = %s, expected %s", sql, rr.ids, c.AFn, rr.a, want)
		}
	}
	// DISTINCT: equal rows collapsed, nothing else lost
	for i := range res {
		for j := i + 1; j < len(res); j++ {
			if ref.C04EStrictTuple(res[i].norm, res[j].norm, c.Strict) {
				return o, fw.V("distinct_result_not_distinct", "%s (strict_equal=%v): result rows %s and %s are equal (equal keys are in one partition, so a and ids are equal too)", sql, c.Strict, fmtTuple(res[i].keys), fmtTuple(res[j].keys))
			}
		}
	}
	for _, p := range pres {
		ok := false
		for _, rr := range res {
			if ref.C04ELooseTuple(p.norm, rr.norm, c.Strict) {
				ok = true
				break
			}
		}
		if !ok {
			sig := "distinct_row_lost"
			if anyCollisionShaped(p.keys) {
				sig = "key_delimiter_collision"
			}
			return o, fw.V(sig, "%s (strict_equal=%v): input row id=%d %s is not represented in the result", sql, c.Strict, p.id, fmtTuple(p.keys))
		}
	}

	// ORDER BY: asserted when every pair of key cells is either certainly equal or certainly different
	determined := true
	for i := 0; i < len(pres) && determined; i++ {
		for j := i + 1; j < len(pres) && determined; j++ {
			for k := 0; k < c.NKeys; k++ {
				if ref.C04EStrict(pres[i].norm[k], pres[j].norm[k], c.Strict) != ref.C04ELoose(pres[i].norm[k], pres[j].norm[k], c.Strict) {
					determined = false
					break
				}
			}
		}
	}
	collapsed := len(res) < len(pres)
	if determined {
		// reading 1: the function sees the rows DISTINCT has left (what ORDER BY sorts)
		post := make([]ordVal, len(res))
		for i, r := range res {
			var part []ordRow
			for _, q := range res {
				if ref.C04EStrictTuple(sub(r.norm, c.OrdPart), sub(q.norm, c.OrdPart), c.Strict) {
					part = append(part, ordRow{q.keys, q.a})
				}
			}
			f, ok := ordValue(c.OrdFn, c.OrdArg, part)
			post[i] = ordVal{f, !ok}
		}
		// reading 2: the function sees the rows before DISTINCT, like the functions of the select list
		preA := make([]val.Val, len(pres))
		for _, r := range res {
			for _, pp := range r.bucket {
				preA[pp] = r.a
			}
		}
		early := make([]ordVal, len(res))
		for i, r := range res {
			var part []ordRow
			for pp, q := range pres {
				if ref.C04EStrictTuple(sub(r.norm, c.OrdPart), sub(q.norm, c.OrdPart), c.Strict) {
					part = append(part, ordRow{q.keys, preA[pp]})
				}
			}
			f, ok := ordValue(c.OrdFn, c.OrdArg, part)
			early[i] = ordVal{f, !ok}
		}
		if !sortedBy(post, c.Desc) && !sortedBy(early, c.Desc) {
			var got []string
			for i, r := range res {
				v := "NULL"
				if !post[i].null {
					v = strconv.FormatFloat(post[i].f, 'g', -1, 64)
				}
				got = append(got, fmtTuple(r.keys)+"="+v)
				if i >= 14 {
					got = append(got, "...")
					break
				}
			}
			return o, fw.V("order_by_analytic_partition", "%s (strict_equal=%v): the rows are not in the order of the ORDER BY function, neither computed over the rows after DISTINCT (row=value: %s) nor over the rows before it", sql, c.Strict, strings.Join(got, " "))
		}
		distinctVals := map[string]bool{}
		for _, v := range post {
			distinctVals[fmt.Sprintf("%v/%v", v.f, v.null)] = true
		}
		o.Classes = append(o.Classes, fmt.Sprintf("order_asserted:values=%s", sizeClass(len(distinctVals))))
	} else {
		o.Classes = append(o.Classes, "order_open")
	}
	if collapsed {
		o.Classes = append(o.Classes, "distinct_collapsed")
	}
	if len(pres) >= 160 {
		o.Classes = append(o.Classes, "large")
	}
	var keyTuples [][]val.Val
	for _, p := range pres {
		keyTuples = append(keyTuples, p.keys)
	}
	tr := traitsOf(keyTuples, c.NKeys, c.Strict)
	finishOutcome(&o, tr, false)
	if tr.nonTrivial() && collapsed {
		o.Fingerprint = tr.fingerprint("distinct_order:"+c.AFn+":"+c.OrdFn+fmt.Sprintf(":%v:%v:%v", c.Desc, c.KeysFirst, determined), c.NKeys, c.Strict)
	}
	return o, nil
}

func TestC04DistinctOrder(t *testing.T) {
	fw.Run(t, fw.Spec[ordCase]{
		ID: "C04", Name: "distinct_order", Quick: 3500, Thorough: 80000,
		Gen: genOrd, Check: checkOrd,
		Rule: "table (two column layouts, temp/CSV) with 1-3 key columns from clusters reduced to certainly-equal spellings; SELECT DISTINCT keys (permuted), agg(x) OVER (PARTITION BY subset) AS a, LISTAGG(id) OVER (same) AS ids FROM t [WHERE] ORDER BY COUNT(*)|COUNT(k)|SUM(a)|COUNT(a) OVER (PARTITION BY subset) [DESC] [, keys]: the partitions read from ids vs E_strict/E_loose, a recomputed over them, DISTINCT survivors, and the row order must be sorted by the ORDER BY function computed with the reference partition over the rows after DISTINCT (or, second admissible reading, before it); non-trivial = DISTINCT removed a row and the group rule holds",
		Assumptions: []string{tblAssumption,
			"the manual does not say whether an analytic function in ORDER BY sees the rows before or after DISTINCT: both readings are accepted; the order among rows with equal function values is not asserted",
			"the order is asserted only when no two key cells form an open pair"},
	})
}

func TestC04DistinctGroup(t *testing.T) {
	fw.Run(t, fw.Spec[tblCase]{
		ID: "C04", Name: "distinct_group", Quick: 3000, Thorough: 60000,
		Gen: func(t *rapid.T) tblCase {
			return genTbl(t, tblOpt{kinds: []string{"distinct_group"}, certain: fw.Pct(t, "certainPools", 70), exprPct: 60})
		},
		Check:       checkTbl,
		Rule:        "SELECT DISTINCT <select list> FROM t [WHERE] GROUP BY 1-3 keys; in 60% the key list mixes plain columns, column numbers (t.N) and expression keys (UPPER/LOWER/TRIM, ||, % + *, LEN, CASE, STRING/INTEGER/FLOAT, COALESCE, two-column concatenations), whose per-row value is taken from a plain SELECT id, <keys> FROM t in the same session; select list = proper subset of the column keys (40%), all column keys (30%; with an unselected expression key: class distinct_group:all_column_keys_selected_expr_key_unselected), column keys + COUNT(*)|COUNT(x)|SUM(x)|LISTAGG(id) (30%) - csvq accepts no expression key in the select list; without aggregate the result must be the DISTINCT of the rows projected on the selected keys (no two result rows E_strict-equal, every row represented, rows from the input); with an aggregate, when the groups are determined (70% of the cases draw certainly-equal spellings only), the result is the DISTINCT of (selected keys, aggregate) of the reference groups; classes distinct_group:subset_of_keys|all_keys|keys_and_aggregate, :groups_agree_on_selected_keys",
		Assumptions: []string{tblAssumption, "a grouped key column shows the value of one of the group's rows"},
	})
}

func TestC04DatetimeFormatTbl(t *testing.T) {
	fw.Run(t, fw.Spec[tblCase]{
		ID: "C04", Name: "dtformat_tbl", Quick: 3000, Thorough: 60000,
		Gen: func(t *rapid.T) tblCase {
			return genTbl(t, tblOpt{kinds: []string{"group", "distinct", "partition", "distinct_group"}, dtFormats: true})
		},
		Check:       checkTbl,
		Rule:        "session with 1-3 user datetime formats (SET @@DATETIME_FORMAT one by one or as a JSON list; formats whose rendering does not start with a digit, is shorter than 8 characters, or reads like a built-in notation with day and month swapped); the first key column holds 1-3 instants written in the user formats, the built-in notations, as typed datetimes and in a notation the session does not know; reference: on the datetime rung a text is parsed with the user formats first (placeholder table of the manual), then the built-in layouts, in UTC; same oracles as group/distinct/partition/distinct_group incl. COUNT(DISTINCT k1); class trait:user_datetime_two_notations = two rows hold one instant in different notations, one a user format",
		Assumptions: append([]string{"user formats are translated with the placeholder table of datetime-functions.md; weekday names are not cross-checked against the date (as Go's parser)"}, aggAssumptions...),
	})
}

func TestC04DatetimeFormatSet(t *testing.T) {
	fw.Run(t, fw.Spec[setCase]{
		ID: "C04", Name: "dtformat_set", Quick: 2000, Thorough: 40000,
		Gen:         func(t *rapid.T) setCase { return genSet(t, false, true) },
		Check:       checkSet,
		Rule:        "the session of dtformat_tbl with a UNION|EXCEPT|INTERSECT [ALL] b, first key column = instants in several notations; oracles of setop",
		Assumptions: setAssumptions,
	})
}
