package c10

import (
	"fmt"
	"os"
	"path/filepath"
	"sort"
	"strings"
	"sync/atomic"
	"testing"

	"pgregory.net/rapid"

	"verif/internal/fw"
	"verif/internal/run"
)

func TestMain(m *testing.M) { fw.Main(m) }

// A case is a repository and a transaction; the check enumerates every
// verification point the commit of that transaction passes and kills the
// process there.
type tableSpec struct {
	Name string     `json:"name"` // file name incl. extension (decides the format)
	Rows [][]string `json:"rows"` // id, v, s
	Big  bool       `json:"big"`  // padded so the file exceeds 64 KiB
	Link bool       `json:"link"` // the table path is a symbolic link to real/<name>
}

type crashCase struct {
	Tables  []tableSpec `json:"tables"`
	Stmts   []string    `json:"stmts"`   // data-changing statements before COMMIT
	Creates int         `json:"creates"` // number of CREATE TABLE statements among them
	Updates int         `json:"updates"` // number of distinct existing tables changed
	// files that already exist at the path of a CREATE TABLE statement (zero length, or a small table): csvq refuses
	// the statement today ("already exists"); whatever it does, a file that existed before the transaction is
	// complete-old or complete-new at every crash point
	Pre []preFile `json:"pre,omitempty"`
}

type preFile struct {
	Name    string `json:"name"`
	Content string `json:"content"`
}

var exts = []string{".csv", ".csv", ".csv", ".tsv", ".json", ".ltsv", ".jsonl"}

var cellPool = []string{"a", "b", "hello world", "x,y", "q\"uote", "", "日本語", "42", "3.5", "line", "tab", "O'Neil", "[S]k:v"}

func genCase(t *rapid.T) crashCase { return genCaseOpt(t, false) }

func genCasePre(t *rapid.T) crashCase { return genCaseOpt(t, true) }

func genCaseOpt(t *rapid.T, allowPre bool) crashCase {
	c := crashCase{}
	nt := fw.Range(t, "ntables", 1, 3)
	for i := 0; i < nt; i++ {
		ext := fw.PickU(t, "ext", exts)
		ts := tableSpec{Name: fmt.Sprintf("t%d%s", i+1, ext)}
		ts.Big = fw.Pct(t, "big", 15)
		ts.Link = fw.Pct(t, "link", 15)
		nr := fw.Range(t, "nrows", 0, 6)
		if ts.Big {
			nr = fw.Range(t, "bigrows", 600, 900)
		}
		for r := 0; r < nr; r++ {
			cell := fw.PickU(t, "cell", cellPool)
			if ext == ".ltsv" || ext == ".tsv" {
				cell = strings.ReplaceAll(cell, "\t", " ")
			}
			if ts.Big {
				cell = cell + strings.Repeat("p", 90)
			}
			ts.Rows = append(ts.Rows, []string{fmt.Sprint(r + 1), fmt.Sprint(fw.Range(t, "v", 0, 9)), cell})
		}
		c.Tables = append(c.Tables, ts)
	}
	touched := map[int]bool{}
	ns := fw.Range(t, "nstmts", 1, 5)
	created := 0
	for i := 0; i < ns; i++ {
		k := fw.Range(t, "stmtKind", 0, 5)
		ti := fw.Range(t, "target", 0, nt-1)
		tn := "`" + c.Tables[ti].Name + "`"
		switch k {
		case 0, 1:
			c.Stmts = append(c.Stmts, fmt.Sprintf("UPDATE %s SET v = v + %d WHERE id %% 2 = %d", tn, fw.Range(t, "inc", 1, 3), fw.Range(t, "par", 0, 1)))
			touched[ti] = true
		case 2:
			c.Stmts = append(c.Stmts, fmt.Sprintf("INSERT INTO %s VALUES (%d, %d, 'new%d')", tn, 1000+i, fw.Range(t, "nv", 0, 9), i))
			touched[ti] = true
		case 3:
			c.Stmts = append(c.Stmts, fmt.Sprintf("DELETE FROM %s WHERE id < %d", tn, fw.Range(t, "delk", 1, 4)))
			touched[ti] = true
		case 4:
			if created < 2 {
				created++
				ext := fw.PickU(t, "cext", []string{".csv", ".tsv", ".json", ""})
				name := fmt.Sprintf("n%d%s", created, ext)
				if allowPre && fw.Pct(t, "preExisting", 15) {
					c.Pre = append(c.Pre, preFile{Name: name, Content: fw.PickU(t, "preContent", []string{"", "", "a,b\n", "a,b\n0,w\n"})})
				}
				c.Stmts = append(c.Stmts, fmt.Sprintf("CREATE TABLE `%s` (a, b)", name))
				c.Stmts = append(c.Stmts, fmt.Sprintf("INSERT INTO `%s` VALUES (1, 'x'), (2, 'y')", name))
			} else {
				c.Stmts = append(c.Stmts, fmt.Sprintf("UPDATE %s SET s = 'z'", tn))
				touched[ti] = true
			}
		default:
			c.Stmts = append(c.Stmts, fmt.Sprintf("UPDATE %s SET s = s || '!' WHERE id = %d", tn, fw.Range(t, "uid", 1, 3)))
			touched[ti] = true
		}
	}
	if len(touched) == 0 {
		c.Stmts = append(c.Stmts, fmt.Sprintf("INSERT INTO `%s` VALUES (999, 1, 'forced')", c.Tables[0].Name))
		touched[0] = true
	}
	c.Creates = created
	c.Updates = len(touched)
	return c
}

// render writes the table in its own format (harness writer; simple cells only
// need quoting in CSV).
func render(ts tableSpec) string {
	hdr := []string{"id", "v", "s"}
	var b strings.Builder
	ext := filepath.Ext(ts.Name)
	switch ext {
	case ".csv", ".tsv":
		sep := ","
		if ext == ".tsv" {
			sep = "\t"
		}
		q := func(s string) string {
			if strings.ContainsAny(s, "\",\n\t") {
				return `"` + strings.ReplaceAll(s, `"`, `""`) + `"`
			}
			return s
		}
		b.WriteString(strings.Join(hdr, sep) + "\n")
		for _, r := range ts.Rows {
			cells := make([]string, len(r))
			for i, c := range r {
				cells[i] = q(c)
			}
			b.WriteString(strings.Join(cells, sep) + "\n")
		}
	case ".ltsv":
		if len(ts.Rows) == 0 {
			// an LTSV file has no header without records: keep one record
			b.WriteString("id:0\tv:0\ts:seed\n")
		}
		for _, r := range ts.Rows {
			b.WriteString(fmt.Sprintf("id:%s\tv:%s\ts:%s\n", r[0], r[1], r[2]))
		}
	case ".json", ".jsonl":
		js := func(s string) string {
			s = strings.ReplaceAll(s, `\`, `\\`)
			s = strings.ReplaceAll(s, `"`, `\"`)
			return `"` + s + `"`
		}
		var objs []string
		rows := ts.Rows
		if len(rows) == 0 {
			rows = [][]string{{"0", "0", "seed"}}
		}
		for _, r := range rows {
			objs = append(objs, fmt.Sprintf(`{"id":%s,"v":%s,"s":%s}`, r[0], r[1], js(r[2])))
		}
		if ext == ".json" {
			b.WriteString("[" + strings.Join(objs, ",") + "]\n")
		} else {
			b.WriteString(strings.Join(objs, "\n") + "\n")
		}
	}
	return b.String()
}

var caseSeq int64

func setupDir(c crashCase, tag string) (string, map[string]string) {
	n := atomic.AddInt64(&caseSeq, 1)
	dir := filepath.Join(fw.WorkDir(), fmt.Sprintf("c10-%d-%s", n, tag))
	_ = os.RemoveAll(dir)
	_ = os.MkdirAll(dir, 0755)
	files := map[string]string{}
	plain := map[string]string{}
	for _, ts := range c.Tables {
		files[ts.Name] = render(ts)
		if ts.Link {
			plain["real/"+ts.Name] = files[ts.Name]
		} else {
			plain[ts.Name] = files[ts.Name]
		}
	}
	for _, pf := range c.Pre {
		files[pf.Name] = pf.Content
		plain[pf.Name] = pf.Content
	}
	_ = run.WriteFiles(dir, plain)
	for _, ts := range c.Tables {
		if ts.Link {
			_ = os.Symlink(filepath.Join("real", ts.Name), filepath.Join(dir, ts.Name))
		}
	}
	return dir, files
}

func program(c crashCase) string {
	return strings.Join(c.Stmts, ";\n") + ";\nCOMMIT;\n"
}

func runCsvq(bin, dir, prog string, env ...string) run.CLIRes {
	src := filepath.Join(dir, ".prog.sql")
	_ = os.WriteFile(src, []byte(prog), 0644)
	defer os.Remove(src)
	home := filepath.Join(fw.WorkDir(), "clihome")
	_ = os.MkdirAll(home, 0755)
	return run.CLI(run.CLIOpt{Bin: bin, Dir: dir, Home: home, Args: []string{"-q", "-s", src}, Env: env})
}

func checkCase(c crashCase) (fw.Outcome, *fw.Violation) {
	o := fw.Outcome{Classes: []string{fmt.Sprintf("updates=%d,creates=%d", c.Updates, c.Creates)}}
	bin, err := run.Binary(fw.WorkDir(), false)
	if err != nil {
		return o, fw.Harness("%v", err)
	}
	prog := program(c)

	// 1. dry run: new bytes and the list of points
	dir, old := setupDir(c, "dry")
	logp := filepath.Join(fw.WorkDir(), fmt.Sprintf("points-%d.log", atomic.AddInt64(&caseSeq, 1)))
	_ = os.Remove(logp)
	r := runCsvq(bin, dir, prog, "VERIF_POINT_LOG="+logp)
	logb, _ := os.ReadFile(logp)
	_ = os.Remove(logp)
	if r.Code != 0 {
		snapFail := run.Snapshot(dir)
		_ = os.RemoveAll(dir)
		if len(c.Pre) > 0 && strings.Contains(r.Stderr, "already exists") {
			// CREATE TABLE over an existing file is refused: the run ends without a commit and every file is as it was
			for _, name := range keys(old) {
				if snapFail[name] != old[name] {
					return o, fw.V("file_changed_by_refused_create", "CREATE TABLE over the existing file was refused (%s) but %s changed: %q -> %q\nprogram:\n%s", strings.TrimSpace(r.Stderr), name, old[name], snapFail[name], prog)
				}
			}
			o.Discard = true
			o.Classes = append(o.Classes, "create_refused_existing_file")
			return o, nil
		}
		if strings.Contains(r.Stderr, "data empty") {
			// an LTSV table whose last record was deleted cannot be written (the format has no header
			// without records): csvq refuses the commit, so there is no commit to crash
			o.Discard = true
			o.Classes = append(o.Classes, "commit_refused_data_empty")
			return o, nil
		}
		return o, fw.Harness("dry run failed (exit %d): %s\nprogram:\n%s", r.Code, r.Stderr, prog)
	}
	newSnap := run.Snapshot(dir)
	// baseline for the recovery oracle: which tables can a fresh csvq read and update after an
	// uninterrupted run? (A table the crash-free commit already leaves unusable is another
	// property's business - C02 - and is not held against the crash points.)
	usable := map[string]bool{}
	for _, ts := range c.Tables {
		rr := runCsvq(bin, dir, fmt.Sprintf("SELECT COUNT(*) FROM `%s`;\nUPDATE `%s` SET v = v;\nCOMMIT;\n", ts.Name, ts.Name))
		usable[ts.Name] = rr.Code == 0
		if rr.Code != 0 {
			o.Classes = append(o.Classes, "baseline_unusable"+filepath.Ext(ts.Name))
		}
	}
	_ = os.RemoveAll(dir)
	var points []string
	inCommit := false
	for _, ln := range strings.Split(strings.TrimSpace(string(logb)), "\n") {
		key := strings.SplitN(ln, "\t", 2)[0]
		if strings.HasPrefix(key, "tx.commit.begin#") {
			inCommit = true
		}
		if inCommit && key != "" {
			points = append(points, key)
		}
	}
	if len(points) < 5 {
		return o, fw.Harness("point log too short: %q", string(logb))
	}
	for _, ts := range c.Tables {
		if ts.Big {
			o.Classes = append(o.Classes, "big_table")
		}
		if ts.Link {
			o.Classes = append(o.Classes, "symlinked_table")
		}
		o.Classes = append(o.Classes, "fmt"+filepath.Ext(ts.Name))
	}

	// 2. kill at every point
	muts := 0 // mutating file-system steps seen so far (rename/remove/swap)
	for idx, pt := range points {
		dir, _ := setupDir(c, "k")
		kr := runCsvq(bin, dir, prog, "VERIF_CRASH_AT="+pt)
		if !kr.Signaled {
			_ = os.RemoveAll(dir)
			return o, fw.Harness("process was not killed at %s (exit %d, stderr %q)", pt, kr.Code, kr.Stderr)
		}
		snap := run.Snapshot(dir)
		for _, tname := range keys(old) {
			got, ok := snap[tname]
			name := strings.SplitN(pt, "#", 2)[0]
			if !ok {
				_ = os.RemoveAll(dir)
				return o, fw.V("table_missing_after_crash@"+name, "killed at %s: table %s no longer exists at its path (directory: %v)\nprogram:\n%s", pt, tname, keys(snap), prog)
			}
			if got != old[tname] && got != newSnap[tname] {
				_ = os.RemoveAll(dir)
				return o, fw.V("table_torn_after_crash@"+name, "killed at %s: table %s is neither old nor new: %d bytes (old %d, new %d)\nprogram:\n%s", pt, tname, len(got), len(old[tname]), len(newSnap[tname]), prog)
			}
		}
		// 3. recovery as the manual instructs: delete hidden control files, then use the tables
		for _, cf := range run.ControlFiles(dir) {
			_ = os.Remove(filepath.Join(dir, cf))
		}
		var rec []string
		for _, ts := range c.Tables {
			if usable[ts.Name] {
				rec = append(rec, fmt.Sprintf("SELECT COUNT(*) FROM `%s`", ts.Name), fmt.Sprintf("UPDATE `%s` SET v = v", ts.Name))
			}
		}
		rec = append(rec, "SELECT 1")
		rr := runCsvq(bin, dir, strings.Join(rec, ";\n")+";\nCOMMIT;\n")
		_ = os.RemoveAll(dir)
		if rr.Code != 0 {
			name := strings.SplitN(pt, "#", 2)[0]
			return o, fw.V("unusable_after_crash@"+name, "killed at %s, control files deleted: tables not usable (exit %d): %s\nprogram:\n%s", pt, rr.Code, rr.Stderr, prog)
		}
		name := strings.SplitN(pt, "#", 2)[0]
		if strings.HasPrefix(name, "h.commit.") || strings.HasPrefix(name, "cf.") {
			muts++
		}
		if muts > 0 && idx < len(points)-3 {
			hit := strings.SplitN(pt, "#", 2)[1]
			if len(hit) > 1 {
				hit = "n"
			}
			o.More = append(o.More, fmt.Sprintf("%s#%s|u%d|c%d", name, hit, c.Updates, c.Creates))
		}
	}
	o.Evals = len(points)
	if len(o.More) > 0 {
		o.Fingerprint = o.More[0]
	}
	return o, nil
}

func keys(m map[string]string) []string {
	var ks []string
	for k := range m {
		ks = append(ks, k)
	}
	sort.Strings(ks)
	return ks
}

func TestC10CrashPoints(t *testing.T) {
	fw.Run(t, fw.Spec[crashCase]{
		ID: "C10", Name: "crash_points", Quick: 200, Thorough: 3200,
		Gen: genCasePre, Check: checkCase,
		Rule: "generated repositories (1-3 tables in CSV/TSV/JSON/JSONL/LTSV, some >64KiB, some reached through a symbolic link) and transactions (UPDATE/INSERT/DELETE on 1-3 tables, 0-2 CREATE TABLE; for 15% of the CREATE TABLE statements a file already exists at that path, of zero length or holding a small table - csvq refuses the statement, the case is then only checked for unchanged files and discarded; a csvq that accepts it has that file judged old-or-new like every other) ending in COMMIT; a dry run logs every verification point passed from Transaction.Commit to process end; for EVERY such point the process is killed there (SIGKILL to itself) on a fresh copy; oracle: every pre-existing table exists and is byte-identical to its old or its new contents, and after deleting the hidden control files a fresh csvq can read and update every table; evaluations = kills; non-trivial = a kill after the first file-system mutation of the commit and before its last steps, distinct by (point name, hit index class, #updated, #created)",
		Assumptions: []string{"crash = process death at a hooked point between file-system calls (SIGKILL); torn single write(2) calls and power loss are not modelled",
			"the new contents are taken from an uninterrupted run of the same program"},
	})
}
