package c10

import (
	"fmt"
	"os"
	"os/exec"
	"path/filepath"
	"regexp"
	"strconv"
	"strings"
	"sync"
	"sync/atomic"
	"testing"

	"verif/internal/fw"
	"verif/internal/run"
)

// ---------------------------------------------------------------------
// syscall_kill: the process dies at the entry of a file-system SYSTEM CALL of a commit.
//
// crash_points and multi_tx can only kill where the csvq sources carry a verification point; a change that
// puts two file-system operations between two such points (an os.Remove right in front of the os.Rename, a
// copy loop instead of the rename) has no point in between and is invisible to them. This sub-check takes
// the quantifier literally - "every point between two file-system operations of the commit" - and finds the
// operations where the operating system sees them: the program runs under strace(1), which logs every
// file-system call of every thread (open/creat/unlink/rename/link/symlink/mkdir/rmdir/chmod, write/pwrite/
// writev/truncate/ftruncate/close/fsync, copy_file_range/sendfile) and can deliver SIGKILL at the entry of
// the n-th call of a given kind (-e inject=<call>:signal=SIGKILL:when=<n>): the call is not executed, the
// process is dead, the repository is what the previous call left.
//
// The programs are those of multi_tx with a marker printed before every commit ('GOk') and after every
// explicit one ('ENDk'); the markers are write(2) calls on descriptor 1 and appear in the same log, so the log
// of the killed run itself says in which commit the process died (strace counts per thread and per call name,
// and the Go runtime may move the work to another thread from run to run: where a kill lands is read from the
// log, never assumed). Oracle: as multi_tx.

var straceSet = "?openat,?open,?creat,?unlink,?unlinkat,?rename,?renameat,?renameat2,?write,?pwrite64,?writev,?ftruncate,?truncate,?close,?fsync,?fdatasync,?link,?linkat,?symlink,?symlinkat,?mkdir,?mkdirat,?rmdir,?chmod,?fchmod,?fchmodat,?copy_file_range,?sendfile"

var (
	straceOnce sync.Once
	straceNote sync.Once
	stracePath string
	straceWhy  string
)

// straceReady finds strace and makes sure that it can trace and kill a child here.
func straceReady() bool {
	straceOnce.Do(func() {
		p, err := exec.LookPath("strace")
		if err != nil {
			straceWhy = "strace is not installed"
			return
		}
		logp := filepath.Join(fw.WorkDir(), "strace-selftest.log")
		r := run.CLI(run.CLIOpt{Bin: p, Dir: fw.WorkDir(), Args: []string{"-f", "-o", logp, "-e", "trace=" + straceSet, "-e", "inject=write:signal=SIGKILL:when=1", "/bin/sh", "-c", "echo x"}})
		_ = os.Remove(logp)
		if !r.Signaled || strings.Contains(r.Stdout, "x") {
			straceWhy = fmt.Sprintf("strace cannot trace or kill a child here (exit %d, stderr %q)", r.Code, clip(r.Stderr))
			return
		}
		stracePath = p
	})
	if stracePath == "" {
		straceNote.Do(func() { fmt.Printf("NOTE property=C10 check=syscall_kill skipped: %s\n", straceWhy) })
	}
	return stracePath != ""
}

type scCall struct {
	tid    string
	name   string
	nth    int    // this is the nth call of that name in that thread (what strace's when= counts)
	kind   string // name plus what it touches (.temp, .lock, a table, a descriptor)
	window int    // commit during which it is entered (0: outside of any)
	done   bool   // the call returned (the process was not killed at its entry)
	markGo bool   // marker writes: GO (true) or END
	markK  int
}

var scLine = regexp.MustCompile(`^(\d+)\s+([a-z_0-9]+)\((.*)$`)
var scResumed = regexp.MustCompile(`^(\d+)\s+<\.\.\. [a-z_0-9]+ resumed>`)
var scMarker = regexp.MustCompile(`^1, "'(GO|END)(\d+)'`)

// parseStrace turns a strace log into the sequence of calls with the commit window each falls into.
// last reports the window (0 = none) in which the log ends.
func parseStrace(log string) (calls []scCall, last int) {
	counts := map[string]int{}
	win := 0
	pending := map[string]int{} // tid -> index of its call whose return was not logged yet
	for _, ln := range strings.Split(log, "\n") {
		if m := scResumed.FindStringSubmatch(ln); m != nil {
			if i, ok := pending[m[1]]; ok {
				delete(pending, m[1])
				if !strings.HasSuffix(strings.TrimSpace(ln), "= ?") {
					calls[i].done = true
					if calls[i].kind == "write:marker" {
						// a marker whose write returned only now opens / closes the window from here on
						if calls[i].markGo {
							win = calls[i].markK
						} else {
							win = 0
						}
					}
				}
			}
			continue
		}
		m := scLine.FindStringSubmatch(ln)
		if m == nil {
			continue // exits, signals
		}
		tid, name, rest := m[1], m[2], m[3]
		counts[tid+"/"+name]++
		unfinished := strings.Contains(rest, "<unfinished ...>")
		done := !unfinished && !strings.HasSuffix(strings.TrimSpace(rest), "= ?") // "= ?": killed at the entry
		c := scCall{tid: tid, name: name, nth: counts[tid+"/"+name], window: win, done: done}
		c.kind = name
		switch {
		case strings.Contains(rest, `.temp"`):
			c.kind += ":temp"
		case strings.Contains(rest, `.lock"`):
			c.kind += ":lock"
		case strings.Contains(rest, `.rlock"`):
			c.kind += ":rlock"
		case strings.Contains(rest, `/repo/`):
			c.kind += ":table"
		}
		if name == "write" {
			if mm := scMarker.FindStringSubmatch(rest); mm != nil {
				k, _ := strconv.Atoi(mm[2])
				c.kind = "write:marker"
				c.markGo, c.markK = mm[1] == "GO", k
				if done {
					if mm[1] == "GO" {
						win = k
					} else {
						win = 0
					}
				}
				c.window = 0 // the marker itself is not part of the commit
			}
		}
		calls = append(calls, c)
		if unfinished {
			pending[tid] = len(calls) - 1
		}
	}
	return calls, win
}

func runStrace(bin string, c multiCase, top string, prog string, logp string, inject string) run.CLIRes {
	repo := filepath.Join(top, "repo")
	home := filepath.Join(fw.WorkDir(), "clihome")
	_ = os.MkdirAll(home, 0755)
	args := []string{"-f", "-o", logp, "-e", "trace=" + straceSet}
	if inject != "" {
		args = append(args, "-e", "inject="+inject)
	}
	args = append(args, bin, "-q")
	args = append(args, c.Flags...)
	dir := repo
	if c.Repo {
		dir = filepath.Join(top, "cwd")
		args = append(args, "--repository", repo)
	}
	if c.Arg {
		args = append(args, prog)
	} else {
		src := filepath.Join(top, "prog.sql")
		_ = os.WriteFile(src, []byte(prog), 0644)
		args = append(args, "-s", src)
	}
	return run.CLI(run.CLIOpt{Bin: stracePath, Dir: dir, Home: home, Args: args, Timeout: mtTimeout})
}

func checkSyscall(c multiCase) (fw.Outcome, *fw.Violation) {
	o := fw.Outcome{}
	if !straceReady() {
		o.Discard = true
		o.Classes = []string{"strace_unavailable"}
		return o, nil
	}
	b, discard, v := prepareMulti(c, true)
	defer b.cleanup()
	o.Classes = b.classes
	if v != nil {
		return o, v
	}
	if discard {
		o.Discard = true
		return o, nil
	}
	K := b.K
	full := progUpTo(c, 0, true)
	logp := filepath.Join(fw.WorkDir(), fmt.Sprintf("strace-%d.log", atomic.AddInt64(&caseSeq, 1)))
	defer os.Remove(logp)

	// uninterrupted run under strace: the calls of every commit
	topd, _ := setupMulti(c, "sdry")
	b.tops = append(b.tops, topd)
	r := runStrace(b.bin, c, topd, full, logp, "")
	logb, _ := os.ReadFile(logp)
	if r.Code != 0 {
		return o, fw.Harness("the history runs by itself but not under strace (exit %d): %s", r.Code, clip(r.Stderr))
	}
	if d := run.DiffSnap(b.states[K], tableFiles(topd)); d != "" {
		return o, fw.Harness("the program is not deterministic (run under strace differs from the run up to its last commit): %s\nprogram:\n%s", d, full)
	}
	calls, _ := parseStrace(string(logb))
	if len(calls) == 0 {
		return o, fw.Harness("no system call recognised in the strace log: %s", clip(string(logb)))
	}
	// A position is (commit w, i-th file-system call entered during it). strace can only be told "the nth call
	// of that name in a thread", and which thread does the work changes from run to run, so every log seen
	// (two uninterrupted runs, then every killed run) contributes the (name, nth) under which it reached a
	// position; a position is tried under up to three of them until a kill lands exactly there. Whatever
	// position a kill lands on is judged.
	type pos struct{ w, i int }
	cands := map[pos][]string{}
	var order []pos
	addLog := func(cs []scCall) {
		idx := map[int]int{}
		for _, cl := range cs {
			if cl.window == 0 {
				continue
			}
			p := pos{cl.window, idx[cl.window]}
			idx[cl.window]++
			key := fmt.Sprintf("%s:signal=SIGKILL:when=%d", cl.name, cl.nth)
			if _, ok := cands[p]; !ok {
				order = append(order, p)
			}
			dup := false
			for _, k := range cands[p] {
				dup = dup || k == key
			}
			if !dup {
				cands[p] = append(cands[p], key)
			}
		}
	}
	addLog(calls)
	if len(order) == 0 {
		o.Discard = true
		o.Classes = append(o.Classes, "no_calls_in_commit")
		return o, nil
	}
	{
		top2, _ := setupMulti(c, "sdry2")
		b.tops = append(b.tops, top2)
		if r2 := runStrace(b.bin, c, top2, full, logp, ""); r2.Code == 0 {
			l2, _ := os.ReadFile(logp)
			c2, _ := parseStrace(string(l2))
			addLog(c2)
		}
	}
	positions := append([]pos(nil), order...)

	evals := 0
	covered := map[pos]bool{}
	for _, p := range positions {
		for attempt := 0; attempt < 3 && !covered[p]; attempt++ {
			inj := cands[p][attempt%len(cands[p])]
			top, _ := setupMulti(c, "sk")
			kr := runStrace(b.bin, c, top, full, logp, inj)
			kb, _ := os.ReadFile(logp)
			if kr.TimedOut {
				_ = os.RemoveAll(top)
				return o, fw.Harness("run with injection %s did not end within %v", inj, mtTimeout)
			}
			if !kr.Signaled {
				// no thread reached its nth call of that name this time
				_ = os.RemoveAll(top)
				if kr.Code != 0 {
					return o, fw.Harness("run with injection %s neither killed nor successful (exit %d): %s", inj, kr.Code, clip(kr.Stderr))
				}
				o.Classes = append(o.Classes, "kill:not_reached")
				continue
			}
			kcalls, w := parseStrace(string(kb))
			if w == 0 {
				// died outside of a commit (another thread reached the count first): the property says nothing
				_ = os.RemoveAll(top)
				o.Classes = append(o.Classes, "kill:outside_commit")
				continue
			}
			addLog(kcalls)
			// the call at whose entry the process died, and how many calls of this commit had been made
			at := "?"
			before := 0
			for i := len(kcalls) - 1; i >= 0; i-- {
				if !kcalls[i].done {
					at = kcalls[i].kind
					break
				}
			}
			for _, kc := range kcalls {
				if kc.window == w && kc.done {
					before++
				}
			}
			landed := pos{w, before}
			if covered[landed] {
				_ = os.RemoveAll(top)
				o.Classes = append(o.Classes, "kill:position_seen_before")
				continue
			}
			covered[landed] = true
			evals++
			where := fmt.Sprintf("killed at the entry of %s, after %d file-system calls of commit %d of %d in the process (strace -e inject=%s, options %v, repository option %v)", at, before, w, K, inj, c.Flags, c.Repo)
			if v := b.judge(c, top, w, "syscall", strings.SplitN(at, ":", 2)[0], where, full); v != nil {
				return o, v
			}
			o.Classes = append(o.Classes, "kill:in_commit")
			if before > 0 {
				o.More = append(o.More, fmt.Sprintf("%s|w%d/%d|%s", at, w, K, b.txLabel(c, w)))
			}
		}
	}
	fw.AddExtra("syscall_positions", int64(len(positions)))
	ncov := 0
	for _, p := range positions {
		if covered[p] {
			ncov++
		}
	}
	fw.AddExtra("syscall_positions_killed_at", int64(ncov))
	if evals == 0 {
		o.Discard = true
		o.Classes = append(o.Classes, "no_kill_landed_in_a_commit")
		return o, nil
	}
	o.Evals = evals
	if len(o.More) > 0 {
		o.Fingerprint = o.More[0]
	}
	return o, nil
}

func TestC10SyscallKill(t *testing.T) {
	fw.Run(t, fw.Spec[multiCase]{
		ID: "C10", Name: "syscall_kill", Quick: 32, Thorough: 640,
		Gen: genMulti, Check: checkSyscall,
		Rule: "the histories of multi_tx with a marker printed before every commit and after every explicit one; the program runs under strace, which logs every file-system system call of every thread (open/unlink/rename/link/mkdir/chmod families, write/pwrite/writev, truncate/ftruncate, close, fsync, copy_file_range, sendfile); for EVERY such call entered during a commit of the uninterrupted run, a fresh run gets SIGKILL at the entry of that call (strace -e inject=<call>:signal=SIGKILL:when=<n>; the call is not executed), i.e. the process dies between two consecutive file-system operations as the operating system sees them, wherever the sources carry verification points or not; the log of the killed run tells in which commit it died (kills that land outside a commit or are not reached because the runtime moved the work to another thread are counted as classes and not judged); oracle as multi_tx: every table existing in S(k-1) exists and is byte-identical to its S(k-1) or Sk contents, and after deleting the hidden control files a fresh csvq reads and updates it; evaluations = kills inside a commit; non-trivial = at least one file-system call of that commit was already made, distinct by (call and what it touches, which commit of how many, explicit/implicit end, what the transaction exercises)",
		Assumptions: []string{"needs strace(1) with permission to trace a child; without it the sub-check prints a NOTE line and discards its cases (class strace_unavailable)",
			"strace counts calls per thread and per call name and the Go runtime may run the commit on another thread than in the logged run: the place of a kill is read from the killed run's own log, so a case is not a pure function of its seed in which calls get hit; the oracle holds for every instant"},
	})
}
