package c10

import (
	"fmt"
	"os"
	"os/signal"
	"strings"
	"sync"
	"syscall"
	"testing"

	"pgregory.net/rapid"

	"verif/internal/fw"
	"verif/internal/run"
)

// write_fault: the commit of a generated transaction runs into a write error (file size limit reached in
// the middle of writing one of the tables). The process survives, so this is not a crash point; the claim
// checked is the "never a truncated, mixed or missing file" half of the property for a commit that is
// stopped by the operating system instead of by a kill, and for the retry of such a commit.

type faultCase struct {
	C        crashCase `json:"c"`
	Permille int       `json:"permille"` // write limit = 1 + (largest new table size + 16) * permille / 1000
	After    string    `json:"after"`    // what the session does after a failed COMMIT: retry | rollback | close
}

func genFault(t *rapid.T) faultCase {
	return faultCase{C: genCase(t), Permille: fw.Range(t, "permille", 0, 1000), After: fw.PickU(t, "after", []string{"retry", "retry", "rollback", "close"})}
}

var xfszOnce sync.Once

// withFileSizeLimit runs f while no write may extend a file beyond limit bytes (write(2) then fails with EFBIG).
func withFileSizeLimit(limit uint64, f func()) error {
	xfszOnce.Do(func() { signal.Ignore(syscall.SIGXFSZ) })
	var orig syscall.Rlimit
	if err := syscall.Getrlimit(syscall.RLIMIT_FSIZE, &orig); err != nil {
		return err
	}
	lim := syscall.Rlimit{Cur: limit, Max: orig.Max}
	if err := syscall.Setrlimit(syscall.RLIMIT_FSIZE, &lim); err != nil {
		return err
	}
	defer func() { _ = syscall.Setrlimit(syscall.RLIMIT_FSIZE, &orig) }()
	f()
	return nil
}

func visibleFiles(dir string) map[string]string {
	out := map[string]string{}
	for k, v := range run.Snapshot(dir) {
		if strings.HasPrefix(k, "real/") {
			continue // link targets are compared through their table path
		}
		out[k] = v
	}
	return out
}

func checkFault(fc faultCase) (fw.Outcome, *fw.Violation) {
	c := fc.C
	o := fw.Outcome{Classes: []string{"after=" + fc.After}}
	exec := func(s *run.Sess) error {
		for _, st := range c.Stmts {
			if r := s.Exec(st); r.Err != nil {
				return fmt.Errorf("%s: %v", st, r.Err)
			}
		}
		return nil
	}
	// reference: the same transaction committed without interference
	rdir, old := setupDir(c, "fref")
	rs, err := run.NewSess(run.Opt{Dir: rdir})
	if err != nil {
		return o, fw.Harness("%v", err)
	}
	if err := exec(rs); err != nil {
		rs.Close()
		_ = os.RemoveAll(rdir)
		o.Discard = true
		o.Classes = append(o.Classes, "statement_fails")
		return o, nil
	}
	if r := rs.Exec("COMMIT"); r.Err != nil {
		rs.Close()
		_ = os.RemoveAll(rdir)
		o.Discard = true
		o.Classes = append(o.Classes, "commit_refused")
		return o, nil
	}
	rs.Close()
	newSnap := visibleFiles(rdir)
	_ = os.RemoveAll(rdir)
	maxNew := 0
	for n, b := range newSnap {
		if old[n] != b && len(b) > maxNew {
			maxNew = len(b)
		}
	}
	limit := uint64(1 + (maxNew+16)*fc.Permille/1000)

	dir, _ := setupDir(c, "fault")
	defer os.RemoveAll(dir)
	s, err := run.NewSess(run.Opt{Dir: dir})
	if err != nil {
		return o, fw.Harness("%v", err)
	}
	defer s.Close()
	if err := exec(s); err != nil {
		return o, fw.Harness("statements fail in the second directory: %v", err)
	}
	var cerr error
	if e := withFileSizeLimit(limit, func() { cerr = s.Exec("COMMIT").Err }); e != nil {
		return o, fw.Harness("setrlimit: %v", e)
	}
	desc := func() string {
		return fmt.Sprintf("write limit %d bytes, COMMIT error: %v\nprogram:\n%s", limit, cerr, program(c))
	}
	complete := func(stage string, allowOld, allowNew bool) *fw.Violation {
		got := visibleFiles(dir)
		for n, ob := range old {
			gb, ok := got[n]
			switch {
			case !ok:
				return fw.V("table_missing:"+stage, "%s: table %s is gone\n%s", stage, n, desc())
			case allowOld && gb == ob, allowNew && gb == newSnap[n]:
			default:
				return fw.V("table_not_old_or_new:"+stage, "%s: table %s holds %d bytes that are neither its previous (%d bytes) nor its new (%d bytes) contents (old allowed: %v, new allowed: %v): %q\n%s", stage, n, len(gb), len(ob), len(newSnap[n]), allowOld, allowNew, clip(gb), desc())
			}
		}
		// tables created by the transaction did not exist before it: a partly written created table is
		// tolerated while the failed commit is pending; it must be complete once a commit succeeded and gone
		// once the transaction was rolled back
		for n, gb := range got {
			if _, was := old[n]; was || strings.HasPrefix(n, ".") {
				continue
			}
			switch {
			case allowOld && allowNew:
			case allowNew:
				if nb, ok := newSnap[n]; !ok || gb != nb {
					return fw.V("created_table_incomplete:"+stage, "%s: created table %s holds %q, expected %q\n%s", stage, n, clip(gb), clip(nb), desc())
				}
			default:
				return fw.V("created_table_left:"+stage, "%s: created table %s exists (%d bytes) although the transaction was rolled back\n%s", stage, n, len(gb), desc())
			}
		}
		if allowNew && !allowOld {
			for n := range newSnap {
				if _, ok := got[n]; !ok {
					return fw.V("created_table_missing:"+stage, "%s: %s does not exist\n%s", stage, n, desc())
				}
			}
		}
		return nil
	}
	if cerr == nil {
		o.Classes = append(o.Classes, "commit_fits")
		if v := complete("after_commit", false, true); v != nil {
			return o, v
		}
		return o, nil
	}
	o.Classes = append(o.Classes, "commit_failed")
	// the failed COMMIT itself: every existing table complete (old or new)
	if v := complete("after_failed_commit", true, true); v != nil {
		return o, v
	}
	switch fc.After {
	case "retry":
		if r := s.Exec("COMMIT"); r.Err != nil {
			// the session may refuse to commit again; then nothing may have changed and a rollback must work
			o.Classes = append(o.Classes, "retry_refused")
			if v := complete("after_refused_retry", true, true); v != nil {
				return o, v
			}
			_ = s.Exec("ROLLBACK")
		} else {
			o.Classes = append(o.Classes, "retry_committed")
			if v := complete("after_retried_commit", false, true); v != nil {
				return o, v
			}
		}
	case "rollback":
		_ = s.Exec("ROLLBACK")
		if v := complete("after_rollback", true, false); v != nil {
			return o, v
		}
	}
	s.Close()
	if cf := run.ControlFiles(dir); len(cf) > 0 {
		return o, fw.V("control_files_left", "after the session ended: %v\n%s", cf, desc())
	}
	o.Fingerprint = fmt.Sprintf("%s|%d|u%d|c%d|%s", fc.After, fc.Permille/100, c.Updates, c.Creates, extsOf(c))
	return o, nil
}

func extsOf(c crashCase) string {
	var e []string
	for _, t := range c.Tables {
		i := strings.LastIndex(t.Name, ".")
		e = append(e, t.Name[i+1:])
	}
	return strings.Join(e, ",")
}

func clip(s string) string {
	if len(s) > 200 {
		return s[:200] + "..."
	}
	return s
}

func TestC10WriteFault(t *testing.T) {
	fw.Run(t, fw.Spec[faultCase]{
		ID: "C10", Name: "write_fault", Quick: 3000, Thorough: 60000,
		Gen: genFault, Check: checkFault,
		Rule: "the transactions of crash_points run in-process; during COMMIT the file size limit of the process is lowered to a drawn fraction of the largest new table, so a write of the commit fails part-way (EFBIG). Oracle: after the failed COMMIT every existing table is byte-identical to its old or its new contents; a retried COMMIT (limit lifted) leaves exactly the new contents of an uninterrupted run (no stale tail, no padding); after ROLLBACK everything is old and created tables are gone; no control files after the session ends. non-trivial = the COMMIT failed, distinct by (what follows, limit decile, #updated, #created, formats)",
		Assumptions: []string{"a write error is produced with RLIMIT_FSIZE (SIGXFSZ ignored), the only portable way to make write(2) fail on a regular file here; the limit is in force only during the COMMIT call"},
	})
}
