package c10

import (
	"fmt"
	"os"
	"path/filepath"
	"sort"
	"strings"
	"sync/atomic"
	"testing"
	"time"

	"pgregory.net/rapid"

	"verif/internal/fw"
	"verif/internal/run"
)

// ---------------------------------------------------------------------
// multi_tx: a process runs a HISTORY of transactions and dies in any of its commits.
//
// crash_points covers one transaction ended by one COMMIT statement on tables that lie in the working
// directory. The manual says more about when a commit happens ("a transaction is started automatically ... after
// a commit or rollback statement is executed", "when the procedure is normally terminated, then commit all the
// changes automatically"), so the quantifier "every point ... of the commit of a transaction" also ranges over
//   - the 2nd and 3rd commit of one process (handlers, caches and counters of the earlier ones behind it),
//   - the implicit commit at the normal end of a procedure (no COMMIT statement; Processor.AutoCommit),
//   - tables the same process created and committed earlier ("existed before the transaction": they are
//     under the old-or-new oracle from the next transaction on),
//   - tables first read (shared lock, cached) and then updated (the reload path of cacheViewFromFile),
//     tables only locked by SELECT ... FOR UPDATE, tables read by INSERT ... SELECT / CREATE TABLE ... AS,
//   - the other statements that dirty a table: REPLACE, ALTER TABLE ADD/DROP/RENAME, ALTER TABLE SET
//     (line break, enclose-all, pretty-print, FORMAT: the new contents are in another format),
//   - tables in a subdirectory of the repository (their control files live there), a repository given with
//     --repository while the process runs elsewhere, files with a byte order mark or CRLF line breaks,
//     the flags that change what COMMIT writes (--strip-ending-line-break removes one write of the commit),
//     the program given as a command-line argument instead of --source.
//
// Oracle: S0 = the repository as written; Sk = the repository after an uninterrupted run of the program up to
// and including its k-th committing transaction (prefix programs, own process each). A process killed at a
// point of its k-th commit leaves every table that exists in S(k-1) present and byte-identical to its
// S(k-1) or its Sk contents; after deleting the hidden control files (wherever the table lies) a fresh csvq
// reads and updates every such table (relative to what it can do with the same bytes without any crash).

type mtTable struct {
	Name string     `json:"name"` // path relative to the repository, e.g. "t1.csv", "sub/t2.json"
	Rows [][]string `json:"rows"`
	Big  bool       `json:"big"`
	BOM  bool       `json:"bom"`  // UTF-8 byte order mark in front (csv/tsv)
	CRLF bool       `json:"crlf"` // CRLF line breaks (csv/tsv/ltsv)
	Link bool       `json:"link"` // symbolic link to real/<name>
}

type mtTx struct {
	Stmts  []string `json:"stmts"`
	End    string   `json:"end"`    // commit | rollback | implicit (last transaction only: the program just ends)
	Wrap   string   `json:"wrap"`   // how the COMMIT statement is reached: "" | if | exec | func
	Labels []string `json:"labels"` // what this transaction exercises (for the fingerprint)
}

type multiCase struct {
	Tables []mtTable `json:"tables"`
	Txs    []mtTx    `json:"txs"`
	Flags  []string  `json:"flags"` // command-line options
	Repo   bool      `json:"repo"`  // csvq runs in another directory, the tables are found through --repository
	Arg    bool      `json:"arg"`   // the program is the command-line argument (no --source file)
}

var mtExts = []string{".csv", ".csv", ".csv", ".tsv", ".json", ".ltsv", ".jsonl"}

// generator's model of one table while the history is drawn
type gtab struct {
	name    string
	extra   []string // columns added by ALTER TABLE
	frozen  bool     // format changed: never touched again
	attr    bool     // an attribute was already set once
	created int      // index of the transaction that created it, -1: initial
}

func cloneTabs(in []*gtab) []*gtab {
	out := make([]*gtab, len(in))
	for i, g := range in {
		c := *g
		c.extra = append([]string(nil), g.extra...)
		out[i] = &c
	}
	return out
}

func bq(name string) string { return "`" + name + "`" }

func genMulti(t *rapid.T) multiCase {
	c := multiCase{}
	nt := fw.Range(t, "ntables", 1, 3)
	var tabs []*gtab
	for i := 0; i < nt; i++ {
		ext := fw.PickU(t, "ext", mtExts)
		ts := mtTable{Name: fmt.Sprintf("t%d%s", i+1, ext)}
		if fw.Pct(t, "subdir", 25) {
			ts.Name = "sub/" + ts.Name
		} else {
			ts.Link = fw.Pct(t, "link", 12)
		}
		ts.Big = fw.Pct(t, "big", 8)
		if ext == ".csv" || ext == ".tsv" {
			ts.BOM = fw.Pct(t, "bom", 15)
		}
		if ext == ".csv" || ext == ".tsv" || ext == ".ltsv" {
			ts.CRLF = fw.Pct(t, "crlf", 20)
		}
		nr := fw.Range(t, "nrows", 0, 6)
		if ts.Big {
			nr = fw.Range(t, "bigrows", 600, 900)
		}
		for r := 0; r < nr; r++ {
			cell := fw.PickU(t, "cell", cellPool)
			if ext == ".ltsv" || ext == ".tsv" {
				cell = strings.ReplaceAll(cell, "\t", " ")
			}
			if ts.Big {
				cell = cell + strings.Repeat("p", 90)
			}
			ts.Rows = append(ts.Rows, []string{fmt.Sprint(r + 1), fmt.Sprint(fw.Range(t, "v", 0, 9)), cell})
		}
		c.Tables = append(c.Tables, ts)
		tabs = append(tabs, &gtab{name: ts.Name, created: -1})
	}
	if fw.Pct(t, "flagT", 25) {
		c.Flags = append(c.Flags, "--strip-ending-line-break")
	}
	if fw.Pct(t, "flagQ", 12) {
		c.Flags = append(c.Flags, "--enclose-all")
	}
	if fw.Pct(t, "flagL", 12) {
		c.Flags = append(c.Flags, "--line-break", "CRLF")
	}
	c.Repo = fw.Pct(t, "repo", 25)
	c.Arg = fw.Pct(t, "arg", 25)

	maxTx, maxStmts := 3, 4
	if fw.Tier() == "thorough" {
		maxTx, maxStmts = 4, 6
	}
	ntx := fw.Range(t, "ntx", 1, maxTx)
	uniq := 0
	ncreated := 0
	for x := 0; x < ntx; x++ {
		saved := cloneTabs(tabs)
		tx := mtTx{}
		lab := map[string]bool{}
		read := map[string]bool{}   // read (not locked) in this transaction, not yet modified
		locked := map[string]bool{} // loaded for update in this transaction
		modified := false
		ns := fw.Range(t, "nstmts", 1, maxStmts)
		for i := 0; i < ns || !modified; i++ {
			var live []*gtab
			for _, g := range tabs {
				if !g.frozen {
					live = append(live, g)
				}
			}
			kind := fw.Weighted(t, "kind", []int{4, 3, 3, 2, 3, 2, 3, 2, 3, 2})
			if i >= ns {
				kind = 2 // the transaction must change something: forced INSERT
			}
			if len(live) == 0 {
				kind = 4
			}
			if kind == 4 && ncreated >= maxTx {
				kind = 0
				if len(live) == 0 {
					modified = true // nothing left to change (every table frozen): give up on this transaction
					break
				}
			}
			var g *gtab
			if len(live) > 0 {
				g = live[fw.Range(t, "target", 0, len(live)-1)]
				// tables this process created and committed earlier are preferred targets now and then
				var grads []*gtab
				for _, cand := range live {
					if cand.created >= 0 && cand.created < x {
						grads = append(grads, cand)
					}
				}
				if len(grads) > 0 && fw.Pct(t, "prefergrad", 40) {
					g = grads[fw.Range(t, "gradtarget", 0, len(grads)-1)]
				}
			}
			if g != nil && (kind <= 3 || kind == 5 || kind == 6) && !locked[g.name] && !read[g.name] && fw.Pct(t, "readbefore", 25) {
				// the table is first read under a shared lock (and cached), then loaded again for the update
				tx.Stmts = append(tx.Stmts, fmt.Sprintf("SELECT COUNT(*) FROM %s", bq(g.name)))
				read[g.name] = true
			}
			touch := func(what string) {
				modified = true
				lab[what] = true
				if g.created >= 0 && g.created < x {
					lab["graduate"] = true // created and committed earlier by this process
				}
				if read[g.name] && !locked[g.name] {
					lab["readfirst"] = true
				}
				locked[g.name] = true
				if strings.HasPrefix(g.name, "sub/") {
					lab["subdir"] = true
				}
			}
			ext := ""
			if g != nil {
				ext = filepath.Ext(g.name)
			}
			switch kind {
			case 0:
				tx.Stmts = append(tx.Stmts, fmt.Sprintf("UPDATE %s SET v = v + %d WHERE id %% 2 = %d", bq(g.name), fw.Range(t, "inc", 1, 3), fw.Range(t, "par", 0, 1)))
				touch("update")
			case 1:
				tx.Stmts = append(tx.Stmts, fmt.Sprintf("UPDATE %s SET s = s || '!' WHERE id = %d", bq(g.name), fw.Range(t, "uid", 1, 3)))
				touch("update")
			case 2:
				uniq++
				tx.Stmts = append(tx.Stmts, fmt.Sprintf("INSERT INTO %s (id, v, s) VALUES (%d, %d, 'new%d')", bq(g.name), 1000+uniq, fw.Range(t, "nv", 0, 9), uniq))
				touch("insert")
			case 3:
				if ext == ".csv" || ext == ".tsv" {
					tx.Stmts = append(tx.Stmts, fmt.Sprintf("DELETE FROM %s WHERE id < %d", bq(g.name), fw.Range(t, "delk", 1, 4)))
				} else {
					// a JSON / LTSV table without records has no columns when it is loaded again: the record
					// with the lowest id always stays
					tx.Stmts = append(tx.Stmts, fmt.Sprintf("DELETE FROM %s WHERE id = %d", bq(g.name), fw.Range(t, "delid", 2, 4)))
				}
				touch("delete")
			case 4:
				ncreated++
				cext := fw.PickU(t, "cext", []string{".csv", ".csv", ".tsv", ".json", ".ltsv", ""})
				name := fmt.Sprintf("n%d%s", ncreated, cext)
				if fw.Pct(t, "csub", 25) {
					name = "sub/" + name
					lab["subdir"] = true
				}
				if len(live) > 0 && fw.Pct(t, "ctas", 35) {
					tx.Stmts = append(tx.Stmts, fmt.Sprintf("CREATE TABLE %s (id, v, s) AS SELECT id, v, s FROM %s WHERE id <= 3", bq(name), bq(g.name)))
					lab["ctas"] = true
					if !locked[g.name] {
						read[g.name] = true
					}
				} else {
					tx.Stmts = append(tx.Stmts, fmt.Sprintf("CREATE TABLE %s (id, v, s)", bq(name)))
				}
				// a record with id 1 that is never deleted (see DELETE)
				tx.Stmts = append(tx.Stmts, fmt.Sprintf("INSERT INTO %s (id, v, s) VALUES (1, 0, 'x'), (2, 1, 'y')", bq(name)))
				ng := &gtab{name: name, created: x}
				tabs = append(tabs, ng)
				locked[name] = true
				lab["create"] = true
				modified = true
			case 5:
				uniq++
				tx.Stmts = append(tx.Stmts, fmt.Sprintf("REPLACE INTO %s (id, v, s) USING (id) VALUES (1, %d, 'r'), (%d, 1, 'rn')", bq(g.name), fw.Range(t, "rv", 0, 9), 2000+uniq))
				touch("replace")
			case 6:
				op := fw.Range(t, "alterop", 0, 2)
				if len(g.extra) == 0 {
					op = 0
				}
				switch op {
				case 0:
					uniq++
					col := fmt.Sprintf("c%d", uniq)
					pos := fw.PickU(t, "addpos", []string{"", " FIRST", " AFTER v", " LAST"})
					tx.Stmts = append(tx.Stmts, fmt.Sprintf("ALTER TABLE %s ADD %s DEFAULT %d%s", bq(g.name), col, fw.Range(t, "dflt", 0, 9), pos))
					g.extra = append(g.extra, col)
				case 1:
					k := fw.Range(t, "dropk", 0, len(g.extra)-1)
					tx.Stmts = append(tx.Stmts, fmt.Sprintf("ALTER TABLE %s DROP %s", bq(g.name), g.extra[k]))
					g.extra = append(g.extra[:k:k], g.extra[k+1:]...)
				default:
					uniq++
					k := fw.Range(t, "renk", 0, len(g.extra)-1)
					nn := fmt.Sprintf("d%d", uniq)
					tx.Stmts = append(tx.Stmts, fmt.Sprintf("ALTER TABLE %s RENAME %s TO %s", bq(g.name), g.extra[k], nn))
					g.extra[k] = nn
				}
				touch("alter")
			case 7:
				if g.attr {
					tx.Stmts = append(tx.Stmts, fmt.Sprintf("UPDATE %s SET s = 'z' WHERE id = 1", bq(g.name)))
					touch("update")
					break
				}
				g.attr = true
				var opts []string
				switch ext {
				case ".csv", ".tsv", "":
					opts = []string{"LINE_BREAK TO CRLF", "LINE_BREAK TO LF", "ENCLOSE_ALL TO TRUE", "FORMAT TO 'JSON'", "FORMAT TO 'LTSV'", "ENCODING TO 'UTF8M'"}
				case ".json":
					opts = []string{"PRETTY_PRINT TO TRUE", "JSON_ESCAPE TO 'HEX'", "FORMAT TO 'CSV'", "LINE_BREAK TO CRLF"}
				case ".jsonl":
					opts = []string{"JSON_ESCAPE TO 'HEX'", "FORMAT TO 'CSV'"}
				default: // ltsv
					opts = []string{"LINE_BREAK TO CRLF", "LINE_BREAK TO LF", "FORMAT TO 'CSV'"}
				}
				o := fw.PickU(t, "attr", opts)
				tx.Stmts = append(tx.Stmts, fmt.Sprintf("ALTER TABLE %s SET %s", bq(g.name), o))
				// an attribute set to the value it has does not dirty the table: make sure the table is written
				uniq++
				tx.Stmts = append(tx.Stmts, fmt.Sprintf("INSERT INTO %s (id, v, s) VALUES (%d, 0, 'attr')", bq(g.name), 3000+uniq))
				if strings.HasPrefix(o, "FORMAT") {
					// the file keeps its name: whoever loads it again reads it by its extension. The history
					// leaves it alone from here on (a ROLLBACK of this transaction brings it back)
					g.frozen = true
					touch("setformat")
				} else {
					touch("setattr")
				}
			case 8:
				if fw.Pct(t, "forupdate", 40) {
					tx.Stmts = append(tx.Stmts, fmt.Sprintf("SELECT id FROM %s WHERE id < 3 FOR UPDATE", bq(g.name)))
					locked[g.name] = true
					lab["forupdate"] = true
				} else {
					tx.Stmts = append(tx.Stmts, fmt.Sprintf("SELECT COUNT(*) FROM %s", bq(g.name)))
					if !locked[g.name] {
						read[g.name] = true
					}
				}
			default:
				var src *gtab
				if len(live) > 1 {
					k := fw.Range(t, "src", 0, len(live)-2)
					for _, cand := range live {
						if cand == g {
							continue
						}
						if k == 0 {
							src = cand
							break
						}
						k--
					}
				}
				if src == nil {
					uniq++
					tx.Stmts = append(tx.Stmts, fmt.Sprintf("INSERT INTO %s (id, v, s) VALUES (%d, 1, 'solo')", bq(g.name), 1000+uniq))
					touch("insert")
					break
				}
				uniq++
				tx.Stmts = append(tx.Stmts, fmt.Sprintf("INSERT INTO %s (id, v, s) SELECT id + %d, v, s FROM %s WHERE id <= 2", bq(g.name), 4000+10*uniq, bq(src.name)))
				if !locked[src.name] {
					read[src.name] = true
				}
				touch("insertselect")
			}
		}
		last := x == ntx-1
		switch {
		case last:
			tx.End = []string{"implicit", "implicit", "commit", "commit", "rollback"}[fw.Range(t, "endlast", 0, 4)]
		default:
			tx.End = []string{"commit", "commit", "commit", "rollback"}[fw.Range(t, "end", 0, 3)]
		}
		if tx.End == "rollback" {
			tabs = saved
		}
		if tx.End == "commit" {
			tx.Wrap = []string{"", "", "", "", "", "", "", "if", "exec", "func"}[fw.Range(t, "wrap", 0, 9)]
			if tx.Wrap != "" {
				lab["commit_in_"+tx.Wrap] = true
			}
		}
		tx.Labels = fw.SortedKeys(lab)
		c.Txs = append(c.Txs, tx)
	}
	// at least one transaction commits
	commits := 0
	for _, tx := range c.Txs {
		if tx.End != "rollback" {
			commits++
		}
	}
	if commits == 0 {
		c.Txs[len(c.Txs)-1].End = "commit"
	}
	return c
}

// ---- repository on disk ------------------------------------------------

func renderMT(ts mtTable) string {
	s := render(tableSpec{Name: filepath.Base(ts.Name), Rows: ts.Rows, Big: ts.Big})
	if ts.CRLF {
		s = strings.ReplaceAll(s, "\n", "\r\n")
	}
	if ts.BOM {
		s = "\xef\xbb\xbf" + s
	}
	return s
}

// setupMulti creates <top>/repo (the tables), <top>/cwd and returns top and the table contents by table path.
func setupMulti(c multiCase, tag string) (string, map[string]string) {
	n := atomic.AddInt64(&caseSeq, 1)
	top := filepath.Join(fw.WorkDir(), fmt.Sprintf("c10m-%d-%s", n, tag))
	_ = os.RemoveAll(top)
	repo := filepath.Join(top, "repo")
	_ = os.MkdirAll(filepath.Join(repo, "sub"), 0755)
	_ = os.MkdirAll(filepath.Join(top, "cwd"), 0755)
	files := map[string]string{}
	plain := map[string]string{}
	for _, ts := range c.Tables {
		files[ts.Name] = renderMT(ts)
		if ts.Link {
			plain["real/"+ts.Name] = files[ts.Name]
		} else {
			plain[ts.Name] = files[ts.Name]
		}
	}
	_ = run.WriteFiles(repo, plain)
	for _, ts := range c.Tables {
		if ts.Link {
			_ = os.Symlink(filepath.Join("real", ts.Name), filepath.Join(repo, ts.Name))
		}
	}
	return top, files
}

// tableFiles is the part of a snapshot of the repository that the oracle speaks about: the files at table
// paths (through symbolic links), not the hidden control files and not the link targets.
func tableFiles(top string) map[string]string {
	out := map[string]string{}
	for k, v := range run.Snapshot(filepath.Join(top, "repo")) {
		if strings.HasPrefix(filepath.Base(k), ".") || strings.HasPrefix(k, "real/") {
			continue
		}
		out[k] = v
	}
	return out
}

// controlFilesRec lists the hidden control files below the repository (relative paths).
func controlFilesRec(top string) []string {
	var out []string
	repo := filepath.Join(top, "repo")
	_ = filepath.Walk(repo, func(p string, info os.FileInfo, err error) error {
		if err != nil || info.IsDir() {
			return nil
		}
		n := filepath.Base(p)
		if strings.HasPrefix(n, ".") && (strings.HasSuffix(n, ".lock") || strings.HasSuffix(n, ".rlock") || strings.HasSuffix(n, ".temp")) {
			rel, _ := filepath.Rel(repo, p)
			out = append(out, rel)
		}
		return nil
	})
	sort.Strings(out)
	return out
}

func runMulti(bin string, c multiCase, top string, prog string, env ...string) run.CLIRes {
	repo := filepath.Join(top, "repo")
	home := filepath.Join(fw.WorkDir(), "clihome")
	_ = os.MkdirAll(home, 0755)
	args := []string{"-q"}
	args = append(args, c.Flags...)
	dir := repo
	if c.Repo {
		dir = filepath.Join(top, "cwd")
		args = append(args, "--repository", repo)
	}
	if c.Arg {
		args = append(args, prog)
	} else {
		src := filepath.Join(top, "prog.sql")
		_ = os.WriteFile(src, []byte(prog), 0644)
		args = append(args, "-s", src)
	}
	return run.CLI(run.CLIOpt{Bin: bin, Dir: dir, Home: home, Args: args, Env: env, Timeout: mtTimeout})
}

// mtTimeout guards against a hung process only; it is far above what any of these runs takes, also on a busy
// machine, and running into it is reported as a harness error, never as a verdict.
const mtTimeout = 120 * time.Second

// progUpTo renders the program up to and including its k-th committing transaction (k = 0: everything).
// With markers, 'GOk' is printed right before the k-th commit starts and 'ENDk' after an explicit one.
func progUpTo(c multiCase, k int, markers bool) string {
	var b strings.Builder
	commits := 0
	for _, tx := range c.Txs {
		if tx.Wrap == "func" {
			b.WriteString("DECLARE fcommit FUNCTION () AS BEGIN COMMIT; RETURN 1; END;\n")
			break
		}
	}
	for _, tx := range c.Txs {
		for _, s := range tx.Stmts {
			b.WriteString(s + ";\n")
		}
		if markers && tx.End != "rollback" {
			b.WriteString(fmt.Sprintf("PRINT 'GO%d';\n", commits+1))
		}
		switch tx.End {
		case "commit":
			switch tx.Wrap {
			case "if":
				b.WriteString("IF TRUE THEN COMMIT; END IF;\n")
			case "exec":
				b.WriteString("EXECUTE 'COMMIT';\n")
			case "func":
				b.WriteString("SELECT fcommit();\n")
			default:
				b.WriteString("COMMIT;\n")
			}
			commits++
			if markers {
				b.WriteString(fmt.Sprintf("PRINT 'END%d';\n", commits))
			}
		case "rollback":
			b.WriteString("ROLLBACK;\n")
		default:
			commits++
		}
		if k > 0 && commits == k {
			break
		}
	}
	return b.String()
}

func usabilityProg(tables []string) string {
	var rec []string
	for _, n := range tables {
		rec = append(rec, fmt.Sprintf("SELECT COUNT(*) FROM %s", bq(n)), fmt.Sprintf("UPDATE %s SET v = v", bq(n)))
	}
	rec = append(rec, "SELECT 1")
	return strings.Join(rec, ";\n") + ";\nCOMMIT;\n"
}

// mtBase is what the two ways of killing (hooked points, system calls) share: the states S0..SK of the
// repository, what a fresh csvq can do with each table in each state, and the labels of the case.
type mtBase struct {
	bin        string
	K          int
	txOfCommit []int
	states     []map[string]string
	usable     []map[string]bool
	classes    []string
	tops       []string
}

func (b *mtBase) cleanup() {
	for _, d := range b.tops {
		_ = os.RemoveAll(d)
	}
}

// txLabel describes the transaction behind the k-th commit of the process.
func (b *mtBase) txLabel(c multiCase, k int) string {
	if k < 1 || k > b.K {
		return "end_of_run"
	}
	tx := c.Txs[b.txOfCommit[k-1]]
	return tx.End + ":" + strings.Join(tx.Labels, "+")
}

// prepareMulti runs the prefix programs. discard is set when the history does not run by itself.
func prepareMulti(c multiCase, markers bool) (b *mtBase, discard bool, v *fw.Violation) {
	b = &mtBase{}
	var err error
	b.bin, err = run.Binary(fw.WorkDir(), false)
	if err != nil {
		return b, false, fw.Harness("%v", err)
	}
	plain := multiCase{Repo: c.Repo} // recovery / usability runs: no flags, a --source file
	for i, tx := range c.Txs {
		if tx.End != "rollback" {
			b.K++
			b.txOfCommit = append(b.txOfCommit, i)
		}
	}
	if b.K == 0 {
		return b, true, nil
	}
	K := b.K
	b.states = make([]map[string]string, K+1)
	b.usable = make([]map[string]bool, K+1)
	measure := func(k int, top string) {
		// which tables of this state can a fresh csvq read and update? (all at once; one by one if that fails)
		b.usable[k] = map[string]bool{}
		names := fw.SortedKeys(b.states[k])
		if r := runMulti(b.bin, plain, top, usabilityProg(names)); r.Code == 0 {
			for _, n := range names {
				b.usable[k][n] = true
			}
			return
		}
		for _, n := range names {
			for _, cf := range controlFilesRec(top) {
				_ = os.Remove(filepath.Join(top, "repo", cf))
			}
			r := runMulti(b.bin, plain, top, usabilityProg([]string{n}))
			b.usable[k][n] = r.Code == 0
			if r.Code != 0 {
				b.classes = append(b.classes, "baseline_unusable"+filepath.Ext(n))
			}
		}
	}
	top0, _ := setupMulti(c, "s0")
	b.tops = append(b.tops, top0)
	b.states[0] = tableFiles(top0)
	measure(0, top0)
	for k := 1; k <= K; k++ {
		top, _ := setupMulti(c, fmt.Sprintf("s%d", k))
		b.tops = append(b.tops, top)
		r := runMulti(b.bin, c, top, progUpTo(c, k, markers))
		if r.TimedOut {
			return b, false, fw.Harness("uninterrupted run did not end within %v", mtTimeout)
		}
		if r.Code != 0 {
			// the history itself does not run (e.g. a table the program emptied has no columns any more when it
			// is loaded again): nothing to crash
			b.classes = append(b.classes, "history_fails")
			fw.AddExtra("multi_history_fails", 1)
			return b, true, nil
		}
		if cf := controlFilesRec(top); len(cf) > 0 {
			return b, false, fw.Harness("control files after an uninterrupted run: %v", cf)
		}
		b.states[k] = tableFiles(top)
		measure(k, top)
	}

	b.classes = append(b.classes, fmt.Sprintf("commits=%d,txs=%d", K, len(c.Txs)))
	caseLab := map[string]bool{}
	for _, ts := range c.Tables {
		caseLab["fmt"+filepath.Ext(ts.Name)] = true
		if ts.Big {
			caseLab["big_table"] = true
		}
		if ts.Link {
			caseLab["symlinked_table"] = true
		}
		if ts.BOM {
			caseLab["bom"] = true
		}
		if ts.CRLF {
			caseLab["crlf"] = true
		}
		if strings.HasPrefix(ts.Name, "sub/") {
			caseLab["table_in_subdir"] = true
		}
	}
	for _, f := range c.Flags {
		if strings.HasPrefix(f, "--") {
			caseLab["flag"+f] = true
		}
	}
	if c.Repo {
		caseLab["--repository"] = true
	}
	if c.Arg {
		caseLab["program_as_argument"] = true
	}
	for _, tx := range c.Txs {
		if tx.End == "rollback" {
			caseLab["has_rollback"] = true
			continue
		}
		caseLab["end="+tx.End] = true
		for _, l := range tx.Labels {
			caseLab["tx:"+l] = true
		}
	}
	b.classes = append(b.classes, fw.SortedKeys(caseLab)...)
	return b, false, nil
}

// judge applies the oracle to the repository below top after the process died in its w-th commit, then
// removes top. sigAt is appended to the signature (the point or system call of the kill).
func (b *mtBase) judge(c multiCase, top string, w int, sigPrefix, sigAt, where, full string) *fw.Violation {
	prev, next := w-1, w
	if prev > b.K {
		prev = b.K
	}
	if next > b.K {
		next = b.K
	}
	defer os.RemoveAll(top)
	got := tableFiles(top)
	var recover []string
	for _, n := range fw.SortedKeys(b.states[prev]) {
		gb, ok := got[n]
		switch {
		case !ok:
			return fw.V(sigPrefix+"_table_missing_after_crash@"+sigAt, "%s: table %s, which existed before this transaction, no longer exists at its path (repository: %v)\nprogram:\n%s", where, n, keys(run.Snapshot(filepath.Join(top, "repo"))), full)
		case gb == b.states[prev][n]:
			if b.usable[prev][n] {
				recover = append(recover, n)
			}
		case gb == b.states[next][n]:
			if b.usable[next][n] {
				recover = append(recover, n)
			}
		default:
			return fw.V(sigPrefix+"_table_torn_after_crash@"+sigAt, "%s: table %s is neither what it was before this transaction (%d bytes) nor what the transaction makes of it (%d bytes): %d bytes %q\nprogram:\n%s", where, n, len(b.states[prev][n]), len(b.states[next][n]), len(gb), clip(gb), full)
		}
	}
	// recovery as the manual instructs
	for _, cf := range controlFilesRec(top) {
		_ = os.Remove(filepath.Join(top, "repo", cf))
	}
	rr := runMulti(b.bin, multiCase{Repo: c.Repo}, top, usabilityProg(recover))
	if rr.TimedOut {
		return fw.Harness("%s: the run that uses the tables after the clean-up did not end within %v", where, mtTimeout)
	}
	if rr.Code != 0 {
		return fw.V(sigPrefix+"_unusable_after_crash@"+sigAt, "%s, control files deleted: tables %v not usable (exit %d): %s\nprogram:\n%s", where, recover, rr.Code, rr.Stderr, full)
	}
	return nil
}

type mtWindow struct {
	idx    int      // 1-based number of the commit in the process
	points []string // name#hit, in the order passed
}

func checkMulti(c multiCase) (fw.Outcome, *fw.Violation) {
	o := fw.Outcome{}
	b, discard, v := prepareMulti(c, false)
	defer b.cleanup()
	o.Classes = b.classes
	if v != nil {
		return o, v
	}
	if discard {
		o.Discard = true
		return o, nil
	}
	K := b.K
	full := progUpTo(c, 0, false)

	// dry run of the whole program: the points of every commit
	topd, _ := setupMulti(c, "dry")
	b.tops = append(b.tops, topd)
	logp := filepath.Join(fw.WorkDir(), fmt.Sprintf("mpoints-%d.log", atomic.AddInt64(&caseSeq, 1)))
	_ = os.Remove(logp)
	r := runMulti(b.bin, c, topd, full, "VERIF_POINT_LOG="+logp)
	logb, _ := os.ReadFile(logp)
	_ = os.Remove(logp)
	if r.Code != 0 {
		o.Discard = true
		o.Classes = append(o.Classes, "history_fails")
		fw.AddExtra("multi_history_fails", 1)
		return o, nil
	}
	if d := run.DiffSnap(b.states[K], tableFiles(topd)); d != "" {
		return o, fw.Harness("the program is not deterministic (whole run differs from the run up to its last commit): %s\nprogram:\n%s", d, full)
	}
	var wins []mtWindow
	var cur *mtWindow
	lines := strings.Split(strings.TrimSpace(string(logb)), "\n")
	for _, ln := range lines {
		key := strings.SplitN(ln, "\t", 2)[0]
		if key == "" {
			continue
		}
		name := strings.SplitN(key, "#", 2)[0]
		if name == "tx.commit.begin" {
			wins = append(wins, mtWindow{idx: len(wins) + 1})
			cur = &wins[len(wins)-1]
		}
		if cur != nil {
			cur.points = append(cur.points, key)
		}
		if name == "tx.commit.end" {
			cur = nil
			if len(wins) >= K && c.Txs[len(c.Txs)-1].End != "rollback" {
				// what follows the last real commit is the end of the process (release, exit): part of the window
				// only when no other transaction follows
				cur = &wins[len(wins)-1]
			}
		}
	}
	if len(wins) < K {
		return o, fw.Harness("%d commits in the point log, %d expected: %q", len(wins), K, string(logb))
	}

	// kill at every point of every commit
	evals := 0
	for _, w := range wins {
		txLab := b.txLabel(c, w.idx)
		muts := 0
		for pi, pt := range w.points {
			top, _ := setupMulti(c, "k")
			kr := runMulti(b.bin, c, top, full, "VERIF_CRASH_AT="+pt)
			if kr.TimedOut {
				_ = os.RemoveAll(top)
				return o, fw.Harness("run to be killed at %s did not end within %v", pt, mtTimeout)
			}
			if !kr.Signaled {
				_ = os.RemoveAll(top)
				return o, fw.Harness("process was not killed at %s (exit %d, stderr %q)\nprogram:\n%s", pt, kr.Code, kr.Stderr, full)
			}
			evals++
			name := strings.SplitN(pt, "#", 2)[0]
			where := fmt.Sprintf("killed at %s (commit %d of %d in the process, options %v, repository option %v)", pt, w.idx, K, c.Flags, c.Repo)
			if v := b.judge(c, top, w.idx, "multi", name, where, full); v != nil {
				return o, v
			}
			if strings.HasPrefix(name, "h.commit.") || strings.HasPrefix(name, "cf.") {
				muts++
			}
			if w.idx <= K && muts > 0 && pi < len(w.points)-3 {
				o.More = append(o.More, fmt.Sprintf("%s|w%d/%d|%s", name, w.idx, K, txLab))
			}
		}
	}
	o.Evals = evals
	if len(o.More) > 0 {
		o.Fingerprint = o.More[0]
	}
	return o, nil
}

func TestC10MultiTx(t *testing.T) {
	fw.Run(t, fw.Spec[multiCase]{
		ID: "C10", Name: "multi_tx", Quick: 32, Thorough: 480,
		Gen: genMulti, Check: checkMulti,
		Rule: "a history of 1-3 (thorough: 1-4) transactions in one csvq process over 1-3 tables (CSV/TSV/JSON/JSONL/LTSV; some in a subdirectory, behind a symbolic link, with a byte order mark, with CRLF, >64KiB): each transaction draws 1-4 (1-6) statements from UPDATE / INSERT / DELETE / REPLACE / ALTER TABLE ADD,DROP,RENAME / ALTER TABLE SET (line break, enclose-all, pretty-print, JSON escape, encoding, FORMAT) / CREATE TABLE (plain or AS SELECT) / SELECT (plain = shared lock and cache before the update, or FOR UPDATE) / INSERT ... SELECT from another table, and ends with COMMIT (plain, inside IF, through EXECUTE, inside a user-defined function), ROLLBACK or - the last one - with the end of the program (implicit commit); tables created by a committed transaction are preferred targets of the later ones; drawn command-line options (--strip-ending-line-break, --enclose-all, --line-break CRLF, --repository with the process running elsewhere, program as argument instead of --source). Sk = repository after an uninterrupted run of the program up to its k-th committing transaction. A dry run logs the points of every commit (begin..end, and to process end after the last one); for EVERY such point the process is killed there on a fresh copy; oracle: every table existing in S(k-1) exists and is byte-identical to its S(k-1) or its Sk contents, and after deleting the hidden control files in the whole repository tree a fresh csvq reads and updates each of them (if it can do so with the same bytes without a crash); evaluations = kills; non-trivial = a kill after the first file-system mutation of that commit and before its last steps, distinct by (point name, which commit of how many, explicit/implicit end, what the transaction exercises: graduate = table created and committed earlier by this process, readfirst = read before updated, forupdate, replace, alter, setattr, setformat, ctas, insertselect, subdir, commit_in_if/exec/func ...)",
		Assumptions: []string{"the states S0..SK come from uninterrupted runs of the same binary on prefix programs (own process each); the whole program must reproduce SK or the case is reported as a harness error",
			"a history whose uninterrupted run fails is discarded and counted (multi_history_fails)"},
	})
}
