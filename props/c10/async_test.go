package c10

import (
	"bufio"
	"bytes"
	"fmt"
	"os"
	"os/exec"
	"path/filepath"
	"strings"
	"syscall"
	"testing"
	"time"

	"pgregory.net/rapid"

	"verif/internal/fw"
	"verif/internal/run"
)

// ---------------------------------------------------------------------
// async_kill: SIGKILL from outside at a drawn instant of the commit.
//
// crash_points places the death of the process at the hooked steps, i.e. between two file-system calls. This
// sub-check places it anywhere: the program prints a marker right before COMMIT, the harness measures how long an
// uninterrupted commit of the same transaction takes from that marker to process end, and then kills fresh runs a
// drawn fraction of that time after the marker - inside a burst of write(2) calls to the temporary file, between
// the un-hooked steps of the encoder, while file handles are being closed. The tables are large (several hundred
// KiB) so that the commit lasts long enough for the instants to fall inside it. Which instant a kill really hits
// depends on the machine, so a case is not a pure function of its seed; the oracle holds for every instant.

type asyncCase struct {
	Case  crashCase `json:"case"`
	Fracs []int     `json:"fracs"` // kill instants in 1/1000 of the measured commit duration after the marker
}

func genAsync(t *rapid.T) asyncCase {
	c := genCase(t)
	// at least one large table that the transaction changes, padded further so that the commit takes milliseconds
	big := false
	for i := range c.Tables {
		if c.Tables[i].Big {
			big = true
		}
	}
	if !big {
		ts := &c.Tables[0]
		ts.Big = true
		ts.Rows = nil
		nr := fw.Range(t, "abigrows", 600, 900)
		for r := 0; r < nr; r++ {
			cell := fw.PickU(t, "acell", cellPool)
			if ext := filepath.Ext(ts.Name); ext == ".ltsv" || ext == ".tsv" {
				cell = strings.ReplaceAll(cell, "\t", " ")
			}
			ts.Rows = append(ts.Rows, []string{fmt.Sprint(r + 1), fmt.Sprint(fw.Range(t, "av", 0, 9)), cell + strings.Repeat("p", 90)})
		}
	}
	for i := range c.Tables {
		if c.Tables[i].Big {
			// make it really big: every row padded to about 1 KiB
			for r := range c.Tables[i].Rows {
				c.Tables[i].Rows[r][2] += strings.Repeat("q", 900)
			}
			c.Stmts = append(c.Stmts, fmt.Sprintf("UPDATE `%s` SET v = v + 1", c.Tables[i].Name))
		}
	}
	c.Updates = len(c.Tables) // upper bound, only used as a label
	a := asyncCase{Case: c}
	n := fw.Range(t, "nkills", 4, 8)
	for i := 0; i < n; i++ {
		a.Fracs = append(a.Fracs, fw.Range(t, "frac", 0, 900))
	}
	return a
}

type asyncRes struct {
	killed   bool
	exit     int
	afterGo  time.Duration // marker -> process end (uninterrupted runs)
	stderr   string
	sawGo    bool
	timedOut bool
}

// runAsync starts csvq on prog (which prints GO right before COMMIT); killAfter < 0: let it finish.
func runAsync(bin, dir, prog string, killAfter time.Duration) asyncRes {
	src := filepath.Join(dir, ".prog.sql")
	_ = os.WriteFile(src, []byte(prog), 0644)
	defer os.Remove(src)
	home := filepath.Join(fw.WorkDir(), "clihome")
	_ = os.MkdirAll(home, 0755)
	cmd := exec.Command(bin, "-q", "-s", src)
	cmd.Dir = dir
	cmd.Env = []string{"HOME=" + home, "XDG_CONFIG_HOME=" + filepath.Join(home, ".config"), "TZ=UTC", "PATH=" + os.Getenv("PATH")}
	var se bytes.Buffer
	cmd.Stderr = &se
	so, err := cmd.StdoutPipe()
	if err != nil {
		return asyncRes{exit: -1, stderr: err.Error()}
	}
	if err := cmd.Start(); err != nil {
		return asyncRes{exit: -1, stderr: err.Error()}
	}
	res := asyncRes{}
	goCh := make(chan time.Time, 1)
	doneRead := make(chan struct{})
	go func() {
		defer close(doneRead)
		rd := bufio.NewReader(so)
		for {
			ln, err := rd.ReadString('\n')
			if strings.Contains(ln, "GO") {
				select {
				case goCh <- time.Now():
				default:
				}
			}
			if err != nil {
				return
			}
		}
	}()
	waitCh := make(chan error, 1)
	go func() {
		<-doneRead
		waitCh <- cmd.Wait()
	}()
	var goAt time.Time
	watchdog := time.After(120 * time.Second)
	select {
	case goAt = <-goCh:
		res.sawGo = true
	case err := <-waitCh:
		res.exit = exitCode(err)
		res.stderr = se.String()
		return res
	case <-watchdog:
		_ = cmd.Process.Kill()
		<-waitCh
		res.timedOut = true
		return res
	}
	if killAfter >= 0 {
		if killAfter > 0 {
			// busy-wait for short delays: a sleeping goroutine wakes up late on a loaded machine
			deadline := goAt.Add(killAfter)
			for time.Now().Before(deadline) {
				if time.Until(deadline) > 2*time.Millisecond {
					time.Sleep(500 * time.Microsecond)
				}
			}
		}
		_ = cmd.Process.Signal(syscall.SIGKILL)
	}
	select {
	case err := <-waitCh:
		res.afterGo = time.Since(goAt)
		res.exit = exitCode(err)
		if ee, ok := err.(*exec.ExitError); ok {
			if ws, ok := ee.Sys().(syscall.WaitStatus); ok && ws.Signaled() {
				res.killed = true
			}
		}
	case <-watchdog:
		_ = cmd.Process.Kill()
		<-waitCh
		res.timedOut = true
	}
	res.stderr = se.String()
	return res
}

func exitCode(err error) int {
	if err == nil {
		return 0
	}
	if ee, ok := err.(*exec.ExitError); ok {
		return ee.ExitCode()
	}
	return -1
}

func checkAsync(a asyncCase) (fw.Outcome, *fw.Violation) {
	c := a.Case
	o := fw.Outcome{}
	bin, err := run.Binary(fw.WorkDir(), false)
	if err != nil {
		return o, fw.Harness("%v", err)
	}
	prog := strings.Join(c.Stmts, ";\n") + ";\nPRINT 'GO';\nCOMMIT;\n"

	// uninterrupted run: new bytes, duration of the commit, usability baseline
	dir, old := setupDir(c, "adry")
	r := runAsync(bin, dir, prog, -1)
	if r.timedOut || !r.sawGo || r.exit != 0 {
		_ = os.RemoveAll(dir)
		if strings.Contains(r.stderr, "data empty") {
			o.Discard = true
			return o, nil
		}
		return o, fw.Harness("uninterrupted run failed (exit %d, marker %v, timeout %v): %s\nprogram:\n%s", r.exit, r.sawGo, r.timedOut, r.stderr, prog)
	}
	commitDur := r.afterGo
	newSnap := run.Snapshot(dir)
	usable := map[string]bool{}
	for _, ts := range c.Tables {
		rr := runCsvq(bin, dir, fmt.Sprintf("SELECT COUNT(*) FROM `%s`;\nUPDATE `%s` SET v = v;\nCOMMIT;\n", ts.Name, ts.Name))
		usable[ts.Name] = rr.Code == 0
	}
	_ = os.RemoveAll(dir)
	fw.AddExtra("async_commit_us_total", commitDur.Microseconds())
	for _, ts := range c.Tables {
		o.Classes = append(o.Classes, "fmt"+filepath.Ext(ts.Name))
		if ts.Link {
			o.Classes = append(o.Classes, "symlinked_table")
		}
	}

	evals := 0
	for _, f := range a.Fracs {
		delay := time.Duration(int64(commitDur) * int64(f) / 1000)
		dir, _ := setupDir(c, "ak")
		kr := runAsync(bin, dir, prog, delay)
		if kr.timedOut || !kr.sawGo {
			_ = os.RemoveAll(dir)
			return o, fw.Harness("run to be killed did not reach the marker (exit %d, timeout %v): %s", kr.exit, kr.timedOut, kr.stderr)
		}
		evals++
		snap := run.Snapshot(dir)
		what := fmt.Sprintf("killed %v (%d/1000 of an uninterrupted commit of %v) after the marker", delay, f, commitDur)
		if !kr.killed {
			what = fmt.Sprintf("finished (exit %d) before the kill scheduled %v after the marker", kr.exit, delay)
			o.Classes = append(o.Classes, "finished_before_kill")
		}
		state := ""
		for _, ts := range c.Tables {
			got, ok := snap[ts.Name]
			switch {
			case !ok:
				_ = os.RemoveAll(dir)
				return o, fw.V("async_table_missing_after_kill", "%s: table %s no longer exists at its path (directory: %v)\nprogram:\n%s", what, ts.Name, keys(snap), prog)
			case got == newSnap[ts.Name] && got == old[ts.Name]:
				state += "="
			case got == newSnap[ts.Name]:
				state += "N"
			case got == old[ts.Name]:
				state += "O"
			default:
				_ = os.RemoveAll(dir)
				return o, fw.V("async_table_torn_after_kill", "%s: table %s is neither old nor new: %d bytes (old %d, new %d)\nprogram:\n%s", what, ts.Name, len(got), len(old[ts.Name]), len(newSnap[ts.Name]), prog)
			}
		}
		if !kr.killed && kr.exit == 0 && strings.Contains(state, "O") {
			_ = os.RemoveAll(dir)
			return o, fw.V("async_finished_but_old", "%s: a table still has its old contents (%s)\nprogram:\n%s", what, state, prog)
		}
		cfs := run.ControlFiles(dir)
		tempBytes := 0
		for _, cf := range cfs {
			if strings.HasSuffix(cf, ".temp") {
				tempBytes += len(snap[cf])
			}
			_ = os.Remove(filepath.Join(dir, cf))
		}
		var rec []string
		for _, ts := range c.Tables {
			if usable[ts.Name] {
				rec = append(rec, fmt.Sprintf("SELECT COUNT(*) FROM `%s`", ts.Name), fmt.Sprintf("UPDATE `%s` SET v = v", ts.Name))
			}
		}
		rec = append(rec, "SELECT 1")
		rr := runCsvq(bin, dir, strings.Join(rec, ";\n")+";\nCOMMIT;\n")
		_ = os.RemoveAll(dir)
		if rr.Code != 0 {
			return o, fw.V("async_unusable_after_kill", "%s, control files deleted: tables not usable (exit %d): %s\nprogram:\n%s", what, rr.Code, rr.Stderr, prog)
		}
		if kr.killed && len(cfs) > 0 {
			// the kill fell inside the transaction's life (control files present); finer: what the temp files held
			bucket := "temp_empty"
			switch {
			case tempBytes > 0 && strings.Contains(state, "N"):
				bucket = "swap_in_progress"
			case tempBytes > 0:
				bucket = "temp_partly_or_fully_written"
			case strings.Contains(state, "N"):
				bucket = "after_swaps"
			}
			o.Classes = append(o.Classes, "kill:"+bucket)
			o.More = append(o.More, fmt.Sprintf("async|%s|%s|kb%d", bucket, state, tempBytes/65536))
		}
	}
	o.Evals = evals
	if len(o.More) > 0 {
		o.Fingerprint = o.More[0]
	}
	return o, nil
}

func TestC10AsyncKill(t *testing.T) {
	fw.Run(t, fw.Spec[asyncCase]{
		ID: "C10", Name: "async_kill", Quick: 40, Thorough: 1200,
		Gen: genAsync, Check: checkAsync,
		Rule: "the crash_points repositories with at least one table of several hundred KiB that the transaction rewrites; the program prints a marker right before COMMIT; an uninterrupted run gives the new bytes and the time from the marker to process end; 4-8 fresh runs are then killed from outside (SIGKILL) a drawn fraction (0-90%) of that time after the marker, i.e. at arbitrary instants of the commit including inside the bursts of write(2) calls that fill the temporary file and between un-hooked steps; oracle as for crash_points: every pre-existing table exists and is byte-identical to its old or new contents, a run that finished by itself left only new contents, and after deleting the hidden control files a fresh csvq can read and update every table; evaluations = kills; non-trivial = the kill found control files present (inside the transaction), distinct by (what the temporary files held, old/new pattern of the tables, temp size bucket)",
		Assumptions: []string{"the instant a kill hits depends on the machine: a case is not a pure function of its seed here, the oracle holds for every instant"},
	})
}
