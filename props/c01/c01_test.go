package c01

import (
	"encoding/json"
	"fmt"
	"os"
	"path/filepath"
	"regexp"
	"sort"
	"strconv"
	"strings"
	"sync/atomic"
	"syscall"
	"testing"
	"time"

	"github.com/mithrandie/csvq/lib/parser"
	"pgregory.net/rapid"

	"verif/internal/fw"
	"verif/internal/run"
)

func TestMain(m *testing.M) { fw.Main(m) }

// ---------------------------------------------------------------------
// program model

// node is a leaf statement or a block.
type node struct {
	ID    int    `json:"id"`
	Kind  string `json:"kind"` // dml | create | commit | rollback | decl | error | exit | if | while
	SQL   string `json:"sql,omitempty"`
	Cond  bool   `json:"cond,omitempty"`  // if: condition value
	Loops int    `json:"loops,omitempty"` // while: iterations
	Body  []node `json:"body,omitempty"`
	Else  []node `json:"else,omitempty"`
	Temp  bool   `json:"temp,omitempty"` // leaf touches a temporary table
}

type progCase struct {
	Files     map[string]string `json:"files"`
	Untouched string            `json:"untouched"`
	Prog      []node            `json:"prog"`
	Temps     []string          `json:"temps"`     // temporary tables declared at top level
	SignalAt  string            `json:"signal_at"` // "" | "stmt" | "point": additionally run with signals
	SignalIdx int               `json:"signal_idx"`
	Signal    string            `json:"signal"`
}

type genState struct {
	t       *rapid.T
	nextID  int
	files   []string // file tables that may be named
	temps   []string
	created int
	depth   int
	added   map[string]int // table -> number of extra columns added
	// repository switch (CLI check only): one top-level SET @@REPOSITORY TO 'alt' at a drawn position
	canSwitch bool
	inFunc    int
	switched  bool
	nf        int
}

func (g *genState) id() int { g.nextID++; return g.nextID }

func (g *genState) target() (string, bool) {
	all := append(append([]string{}, g.files...), g.temps...)
	i := fw.Range(g.t, "target", 0, len(all)-1)
	name := all[i]
	isTemp := i >= len(g.files)
	if isTemp {
		return name, true
	}
	return "`" + name + "`", false
}

const probeFile = "p.csv"

// a file in a form csvq would not write itself (CRLF, needless quotes, no final line break): any rewrite changes its bytes
const probeBytes = "id,v,s\r\n1,\"x\",y\r\n2,z,\"w w\""

var probeStmts = []string{
	"UPDATE `p.csv` SET v = 1 WHERE id = -1",
	"DELETE FROM `p.csv` WHERE id = -1",
	"INSERT INTO `p.csv` (id, v, s) SELECT id, v, s FROM `p.csv` WHERE id = -1",
	"REPLACE INTO `p.csv` (id, v, s) USING (id) SELECT id, v, s FROM `p.csv` WHERE id = -1",
	"SELECT * FROM `p.csv` FOR UPDATE",
	"SELECT COUNT(*) FROM `p.csv`",
	"UPDATE `p.csv` SET s = s WHERE 1 = 0",
}

// switch probe: q.csv exists in the start directory and below alt/. Before the repository switch it is only
// read; after it the name q.csv means alt/q.csv, so nothing the procedure does may rewrite ./q.csv.
const switchProbe = "q.csv"

var switchProbeReads = []string{
	"SELECT COUNT(*) FROM `q.csv`",
	"SELECT * FROM `q.csv` WHERE id = 1",
}

var switchProbeWrites = []string{
	"UPDATE `q.csv` SET v = v + %d",
	"INSERT INTO `q.csv` (id, v, s) VALUES (%d, 1, 'q')",
	"DELETE FROM `q.csv` WHERE id <> %d",
}

var probeMultiStmts = []string{
	"UPDATE a, p SET a.v = a.v + 1 FROM `%s` a JOIN `p.csv` p ON a.id = p.id",
	"DELETE a, p FROM `%s` a LEFT JOIN `p.csv` p ON p.id = a.id + 1000 WHERE a.id = 4",
	"DELETE p, a FROM `%s` a LEFT JOIN `p.csv` p ON p.id = a.id + 1000 WHERE a.id >= 5",
	"UPDATE p, a SET a.s = 'm' FROM `%s` a CROSS JOIN `p.csv` p WHERE a.id = 1",
}

func (g *genState) leaf() node {
	t := g.t
	if g.canSwitch {
		switch {
		case !g.switched && g.depth == 0 && fw.Pct(t, "switchRepo", 12):
			// from here on every file name resolves below alt/: tables created so far do not exist there
			g.switched = true
			g.files = g.files[:g.nf]
			for k := range g.added {
				if strings.HasPrefix(k, "`") {
					delete(g.added, k)
				}
			}
			return node{ID: g.id(), Kind: "decl", SQL: "SET @@REPOSITORY TO 'alt'"}
		case !g.switched && fw.Pct(t, "switchProbeRead", 8):
			return node{ID: g.id(), Kind: "dml", SQL: fw.PickU(t, "switchProbeReadStmt", switchProbeReads)}
		case g.switched && fw.Pct(t, "switchProbeWrite", 25):
			id := g.id()
			return node{ID: id, Kind: "dml", SQL: fmt.Sprintf(fw.PickU(t, "switchProbeWriteStmt", switchProbeWrites), id)}
		}
	}
	if g.depth > 0 && g.inFunc == 0 && fw.Pct(t, "nestedExit", 3) {
		return node{ID: g.id(), Kind: "exit", SQL: "EXIT"}
	}
	if fw.Pct(t, "probe", 12) {
		if fw.Pct(t, "probeMulti", 30) {
			// the probe is a listed target of a multi-table statement that changes only the other target
			f := g.files[0]
			return node{ID: g.id(), Kind: "dml", SQL: fmt.Sprintf(fw.PickU(t, "probeMultiStmt", probeMultiStmts), f)}
		}
		return node{ID: g.id(), Kind: "dml", SQL: fw.PickU(t, "probeStmt", probeStmts)}
	}
	if fw.Pct(t, "extraCommit", 9) {
		return node{ID: g.id(), Kind: "commit", SQL: "COMMIT"}
	}
	tn, isTemp := g.target()
	n := node{ID: g.id(), Kind: "dml", Temp: isTemp}
	switch fw.Range(t, "leafKind", 0, 11) {
	case 0, 1:
		n.SQL = fmt.Sprintf("INSERT INTO %s (id, v, s) VALUES (%d, %d, 'i%d')", tn, 100+n.ID, fw.Range(t, "v", 0, 9), n.ID)
	case 2:
		src, srcTemp := g.target()
		n.Temp = n.Temp || srcTemp
		n.SQL = fmt.Sprintf("INSERT INTO %s (id, v, s) SELECT id + %d, v, s FROM %s WHERE id < 100", tn, 1000*n.ID, src)
	case 3, 4:
		n.SQL = fmt.Sprintf("UPDATE %s SET v = v + %d WHERE id %% 2 = %d", tn, fw.Range(t, "inc", 1, 3), fw.Range(t, "par", 0, 1))
	case 5:
		n.SQL = fmt.Sprintf("DELETE FROM %s WHERE id = %d", tn, fw.Range(t, "did", 1, 5))
	case 6:
		n.SQL = fmt.Sprintf("REPLACE INTO %s (id, v, s) USING (id) VALUES (%d, 9, 'r%d')", tn, fw.Range(t, "rid", 1, 7), n.ID)
	case 7:
		if g.created < 2 && g.depth == 0 {
			g.created++
			name := fmt.Sprintf("n%d.csv", g.created)
			if fw.Pct(t, "createAs", 40) {
				src, srcTemp := g.target()
				n.Temp = srcTemp
				n.SQL = fmt.Sprintf("CREATE TABLE `%s` (id, v, s) AS SELECT id, v, s FROM %s", name, src)
			} else {
				n.Temp = false
				n.SQL = fmt.Sprintf("CREATE TABLE `%s` (id, v, s)", name)
			}
			n.Kind = "create"
			g.files = append(g.files, name)
		} else {
			n.SQL = fmt.Sprintf("UPDATE %s SET s = s || 'u'", tn)
		}
	case 8:
		k := g.added[tn]
		switch {
		case k == 0 || fw.Pct(t, "addMore", 30):
			g.added[tn] = k + 1
			n.SQL = fmt.Sprintf("ALTER TABLE %s ADD x%d DEFAULT %d", tn, k+1, n.ID)
		case fw.Pct(t, "drop", 50):
			g.added[tn] = k - 1
			n.SQL = fmt.Sprintf("ALTER TABLE %s DROP x%d", tn, k)
		default:
			n.SQL = fmt.Sprintf("UPDATE %s SET x%d = %d WHERE id %% 2 = 1", tn, k, n.ID)
		}
	case 9:
		n.Kind, n.SQL, n.Temp = "commit", "COMMIT", false
	case 10:
		n.Kind, n.SQL, n.Temp = "rollback", "ROLLBACK", false
	default:
		n.SQL = fmt.Sprintf("UPDATE %s SET s = 'z%d' WHERE v > %d", tn, n.ID, fw.Range(t, "gt", 0, 9))
	}
	return n
}

func (g *genState) stmts(max int) []node {
	t := g.t
	n := fw.Range(t, "nstmts", 1, max)
	var out []node
	for i := 0; i < n; i++ {
		if g.depth < 2 && fw.Pct(t, "block", 15) {
			g.depth++
			switch fw.Weighted(t, "blockKind", []int{40, 22, 16, 11, 11}) {
			case 0:
				b := node{ID: g.id(), Kind: "if", Cond: fw.Pct(t, "cond", 50)}
				b.Body = g.stmts(3)
				if fw.Pct(t, "else", 60) {
					b.Else = g.stmts(3)
				}
				out = append(out, b)
			case 1:
				b := node{ID: g.id(), Kind: "while", Loops: fw.Range(t, "loops", 0, 2)}
				b.Body = g.stmts(3)
				out = append(out, b)
			case 2:
				// the statements run inside a user-defined function invoked once (EXIT is not allowed in a function body)
				b := node{ID: g.id(), Kind: "func"}
				g.inFunc++
				b.Body = g.stmts(3)
				g.inFunc--
				out = append(out, b)
			case 3:
				// the statements run once per row of a cursor over a constant query
				b := node{ID: g.id(), Kind: "curloop", Loops: fw.Range(t, "curRows", 1, 2)}
				b.Body = g.stmts(3)
				out = append(out, b)
			default:
				b := node{ID: g.id(), Kind: "case", Cond: fw.Pct(t, "caseCond", 50)}
				b.Body = g.stmts(3)
				if fw.Pct(t, "caseElse", 60) {
					b.Else = g.stmts(3)
				}
				out = append(out, b)
			}
			g.depth--
			continue
		}
		out = append(out, g.leaf())
	}
	return out
}

var cellPool = []string{"a", "b", "hello", "x y", "", "42", "Z"}

func genFile(t *rapid.T) string {
	return genFileExt(t, ".csv")
}

// genFileExt renders a small table (id, v, s) in the format the extension stands for.
func genFileExt(t *rapid.T, ext string) string {
	n := fw.Range(t, "rows", 0, 6)
	if ext != ".csv" && ext != ".tsv" && n == 0 {
		n = 1 // LTSV / JSON / JSONL have no header without records
	}
	type row struct {
		id, v int
		s     string
	}
	var rows []row
	for i := 0; i < n; i++ {
		cell := fw.PickU(t, "cell", cellPool)
		if cell == "" && ext != ".csv" && ext != ".tsv" {
			// an empty JSON/LTSV string is a string, the same cell after a COMMIT into a CSV table and a
			// re-load is NULL (one spelling for both): intermediate commits would then legitimately change
			// later results (s || 'u'), which the commit-free reference program cannot reproduce
			cell = "e"
		}
		rows = append(rows, row{i + 1, fw.Range(t, "v", 0, 9), cell})
	}
	var b strings.Builder
	switch ext {
	case ".tsv":
		b.WriteString("id\tv\ts\n")
		for _, r := range rows {
			fmt.Fprintf(&b, "%d\t%d\t%s\n", r.id, r.v, r.s)
		}
	case ".ltsv":
		for _, r := range rows {
			fmt.Fprintf(&b, "id:%d\tv:%d\ts:%s\n", r.id, r.v, r.s)
		}
	case ".json", ".jsonl":
		var objs []string
		for _, r := range rows {
			objs = append(objs, fmt.Sprintf(`{"id":%d,"v":%d,"s":"%s"}`, r.id, r.v, r.s))
		}
		if ext == ".json" {
			b.WriteString("[" + strings.Join(objs, ",") + "]\n")
		} else {
			b.WriteString(strings.Join(objs, "\n") + "\n")
		}
	default:
		b.WriteString("id,v,s\n")
		for _, r := range rows {
			fmt.Fprintf(&b, "%d,%d,%s\n", r.id, r.v, r.s)
		}
	}
	return b.String()
}

var fileExts = []string{".csv", ".csv", ".tsv", ".ltsv", ".json", ".jsonl"}

var terminators = []string{"end", "end", "error", "error", "error", "exit", "exitcode", "exit_prepared", "rollback_end"}

func genProg(t *rapid.T, withTemps bool, cliOnly bool) progCase {
	c := progCase{Files: map[string]string{}}
	g := &genState{t: t, added: map[string]int{}}
	nf := fw.Range(t, "nfiles", 1, 2)
	for i := 0; i < nf; i++ {
		ext := ".csv"
		if i > 0 || fw.Pct(t, "firstOtherFormat", 40) {
			ext = fw.PickU(t, "ext", fileExts)
		}
		name := fmt.Sprintf("f%d%s", i+1, ext)
		g.files = append(g.files, name)
		c.Files[name] = genFileExt(t, ext)
	}
	c.Untouched = "u.csv"
	c.Files[c.Untouched] = genFile(t)
	c.Files[probeFile] = probeBytes
	g.nf = nf
	if cliOnly && fw.Pct(t, "withSwitch", 30) {
		g.canSwitch = true
		for i := 0; i < nf; i++ {
			c.Files["alt/"+g.files[i]] = genFileExt(t, filepath.Ext(g.files[i]))
		}
		c.Files[switchProbe] = probeBytes
		c.Files["alt/"+probeFile] = probeBytes
		c.Files["alt/"+switchProbe] = genFile(t)
	}
	var prog []node
	if withTemps {
		nt := fw.Range(t, "ntemps", 1, 2)
		for i := 0; i < nt; i++ {
			name := fmt.Sprintf("tmp%d", i+1)
			d := node{ID: g.id(), Kind: "decl", Temp: true}
			if fw.Pct(t, "tempAs", 60) {
				d.SQL = fmt.Sprintf("DECLARE %s VIEW (id, v, s) AS SELECT id, v, s FROM `%s`", name, g.files[0])
			} else {
				d.SQL = fmt.Sprintf("DECLARE %s VIEW (id, v, s)", name)
			}
			prog = append(prog, d)
			g.temps = append(g.temps, name)
			c.Temps = append(c.Temps, name)
		}
	}
	prog = append(prog, g.stmts(9)...)
	// terminator at a drawn top-level position
	term := fw.PickU(t, "terminator", terminators)
	pos := fw.Range(t, "termPos", len(c.Temps), len(prog))
	var tn *node
	switch term {
	case "error":
		bad := fw.PickU(t, "bad", []string{"SELECT 1 / 0 FROM `" + g.files[0] + "`", "UPDATE `" + g.files[0] + "` SET nosuch = 1", "INSERT INTO `" + g.files[0] + "` (id) VALUES (1, 2)", "TRIGGER ERROR 70 'boom'", "SELECT * FROM `nosuchfile.csv`"})
		tn = &node{ID: g.id(), Kind: "error", SQL: bad}
	case "exit":
		tn = &node{ID: g.id(), Kind: "exit", SQL: "EXIT"}
	case "exitcode":
		tn = &node{ID: g.id(), Kind: "exit", SQL: "EXIT 3"}
	case "exit_prepared":
		if cliOnly {
			tn = &node{ID: g.id(), Kind: "exit", SQL: "PREPARE gx FROM 'EXIT';\nEXECUTE gx"}
		} else {
			tn = &node{ID: g.id(), Kind: "exit", SQL: "EXIT"}
		}
	case "rollback_end":
		pos = len(prog)
		tn = &node{ID: g.id(), Kind: "rollback", SQL: "ROLLBACK"}
	}
	if tn != nil {
		prog = append(prog[:pos], append([]node{*tn}, prog[pos:]...)...)
	}
	c.Prog = prog
	if fw.Pct(t, "signal", 45) {
		c.SignalAt = fw.PickU(t, "signalAt", []string{"stmt", "stmt", "point"})
		c.SignalIdx = fw.Range(t, "signalIdx", 0, 60)
		c.Signal = fw.PickU(t, "sig", []string{"INT", "TERM"})
	}
	return c
}

// render produces the program text; every leaf is followed by a marker PRINT.
func render(ns []node, b *strings.Builder, indent string) {
	for _, n := range ns {
		switch n.Kind {
		case "if":
			cond := "1 = 1"
			if !n.Cond {
				cond = "1 = 0"
			}
			fmt.Fprintf(b, "%sIF %s THEN\n", indent, cond)
			render(n.Body, b, indent+"  ")
			if len(n.Else) > 0 {
				fmt.Fprintf(b, "%sELSE\n", indent)
				render(n.Else, b, indent+"  ")
			}
			fmt.Fprintf(b, "%sEND IF;\n", indent)
		case "while":
			fmt.Fprintf(b, "%sVAR @w%d := 0;\n%sWHILE @w%d < %d DO\n", indent, n.ID, indent, n.ID, n.Loops)
			render(n.Body, b, indent+"  ")
			fmt.Fprintf(b, "%s  @w%d := @w%d + 1;\n%sEND WHILE;\n%sDISPOSE @w%d;\n", indent, n.ID, n.ID, indent, indent, n.ID)
		case "func":
			fmt.Fprintf(b, "%sDECLARE fn%d FUNCTION () AS BEGIN\n", indent, n.ID)
			render(n.Body, b, indent+"  ")
			fmt.Fprintf(b, "%s  RETURN 1;\n%sEND;\n%sVAR @fr%d := fn%d();\n%sDISPOSE @fr%d;\n%sDISPOSE FUNCTION fn%d;\n", indent, indent, indent, n.ID, n.ID, indent, n.ID, indent, n.ID)
		case "curloop":
			q := "SELECT 1 AS i"
			if n.Loops > 1 {
				q = "SELECT 1 AS i UNION ALL SELECT 2"
			}
			fmt.Fprintf(b, "%sDECLARE cl%d CURSOR FOR %s;\n%sOPEN cl%d;\n%sVAR @ci%d;\n%sWHILE @ci%d IN cl%d DO\n", indent, n.ID, q, indent, n.ID, indent, n.ID, indent, n.ID, n.ID)
			render(n.Body, b, indent+"  ")
			fmt.Fprintf(b, "%sEND WHILE;\n%sCLOSE cl%d;\n%sDISPOSE CURSOR cl%d;\n%sDISPOSE @ci%d;\n", indent, indent, n.ID, indent, n.ID, indent, n.ID)
		case "case":
			cond := "1 = 1"
			if !n.Cond {
				cond = "1 = 0"
			}
			fmt.Fprintf(b, "%sCASE\n%sWHEN %s THEN\n", indent, indent, cond)
			render(n.Body, b, indent+"  ")
			if len(n.Else) > 0 {
				fmt.Fprintf(b, "%sELSE\n", indent)
				render(n.Else, b, indent+"  ")
			}
			fmt.Fprintf(b, "%sEND CASE;\n", indent)
		default:
			if n.Kind == "exit" {
				// the marker precedes EXIT so that the trace shows that it was reached
				fmt.Fprintf(b, "%sPRINT 'M%d';\n", indent, n.ID)
			}
			fmt.Fprintf(b, "%s%s;\n", indent, n.SQL)
			if n.Kind != "exit" {
				fmt.Fprintf(b, "%sPRINT 'M%d';\n", indent, n.ID)
			}
		}
	}
}

func leaves(ns []node, m map[int]node) {
	for _, n := range ns {
		switch n.Kind {
		case "if", "case":
			leaves(n.Body, m)
			leaves(n.Else, m)
		case "while", "func", "curloop":
			leaves(n.Body, m)
		default:
			m[n.ID] = n
		}
	}
}

var reMarker = regexp.MustCompile(`(?m)^'?M(\d+)'?\r?$`)

func trace(stdout string) []int {
	var out []int
	for _, m := range reMarker.FindAllStringSubmatch(stdout, -1) {
		id, _ := strconv.Atoi(m[1])
		out = append(out, id)
	}
	return out
}

// reduce builds the reference program for an executed trace: statements of
// transactions that ended in ROLLBACK (or never ended) are dropped, except
// declarations; the result ends with COMMIT. upto = number of trace entries to
// take (the position of the last COMMIT for abnormal endings).
func reduce(tr []int, lv map[int]node, upto int) string {
	type ent struct {
		sql  string
		decl bool
	}
	var kept []string
	var seg []ent
	for i := 0; i < len(tr); i++ {
		n := lv[tr[i]]
		if i >= upto && n.Kind != "decl" {
			continue
		}
		switch n.Kind {
		case "commit":
			for _, e := range seg {
				kept = append(kept, e.sql)
			}
			seg = nil
		case "rollback":
			// declarations and flag settings are not transactional: they keep their place
			for _, e := range seg {
				if e.decl {
					kept = append(kept, e.sql)
				}
			}
			seg = nil
		case "decl":
			seg = append(seg, ent{n.SQL, true})
		case "error", "exit":
		default:
			seg = append(seg, ent{n.SQL, false})
		}
	}
	for _, e := range seg {
		kept = append(kept, e.sql)
	}
	return strings.Join(append(kept, "COMMIT"), ";\n") + ";\n"
}

func lastCommit(tr []int, lv map[int]node) int {
	last := 0
	for i, id := range tr {
		if lv[id].Kind == "commit" {
			last = i + 1
		}
	}
	return last
}

// ---------------------------------------------------------------------
// CLI check: byte-level prefix equivalence

var seq int64

func setup(c progCase, tag string) string {
	dir := filepath.Join(fw.WorkDir(), fmt.Sprintf("c01-%d-%s", atomic.AddInt64(&seq, 1), tag))
	_ = os.RemoveAll(dir)
	_ = os.MkdirAll(dir, 0755)
	_ = run.WriteFiles(dir, c.Files)
	old := time.Now().Add(-time.Hour)
	for n := range c.Files {
		_ = os.Chtimes(filepath.Join(dir, n), old, old)
	}
	return dir
}

type cli struct {
	bin, home string
}

func (r cli) run(dir, prog string, env ...string) run.CLIRes {
	return r.runT(dir, prog, 30*time.Second, env...)
}

func (r cli) runT(dir, prog string, to time.Duration, env ...string) run.CLIRes {
	src := filepath.Join(r.home, fmt.Sprintf("prog-%d.sql", atomic.AddInt64(&seq, 1)))
	_ = os.WriteFile(src, []byte(prog), 0644)
	defer os.Remove(src)
	return run.CLI(run.CLIOpt{Bin: r.bin, Dir: dir, Home: r.home, Args: []string{"-q", "-f", "CSV", "-s", src}, Env: env, Timeout: to})
}

func inoMtime(p string) (uint64, time.Time) {
	fi, err := os.Stat(p)
	if err != nil {
		return 0, time.Time{}
	}
	if st, ok := fi.Sys().(*syscall.Stat_t); ok {
		return st.Ino, fi.ModTime()
	}
	return 0, fi.ModTime()
}

// visible prepares a snapshot for comparison. JSON and JSON Lines files carry value types, and a cell that
// was committed and re-loaded is a string where the same cell computed in memory is a number: the intermediate
// COMMITs of the procedure (absent from the reference program) legitimately change "v":1 into "v":"1". Such
// files are therefore compared with every scalar rendered as text; all other formats are compared byte for byte.
func visible(snap map[string]string) map[string]string {
	out := map[string]string{}
	for k, v := range snap {
		switch {
		case strings.HasSuffix(k, ".json"):
			out[k] = untypeJSON(v)
		case strings.HasSuffix(k, ".jsonl"):
			lines := strings.Split(v, "\n")
			for i := range lines {
				if strings.TrimSpace(lines[i]) != "" {
					lines[i] = untypeJSON(lines[i])
				}
			}
			out[k] = strings.Join(lines, "\n")
		default:
			out[k] = v
		}
	}
	return out
}

func untypeJSON(text string) string {
	dec := json.NewDecoder(strings.NewReader(text))
	dec.UseNumber()
	var v interface{}
	if err := dec.Decode(&v); err != nil {
		return text
	}
	var walk func(x interface{}) interface{}
	walk = func(x interface{}) interface{} {
		switch t := x.(type) {
		case []interface{}:
			for i := range t {
				t[i] = walk(t[i])
			}
			return t
		case map[string]interface{}:
			// keep member order out of it: encoding/json sorts keys, both sides alike
			for k := range t {
				t[k] = walk(t[k])
			}
			return t
		case json.Number:
			return t.String()
		case bool:
			return fmt.Sprint(t)
		}
		return x
	}
	b, err := json.Marshal(walk(v))
	if err != nil {
		return text
	}
	trail := ""
	if strings.HasSuffix(text, "\n") {
		trail = "\n"
	}
	return string(b) + trail
}

func kindsAfterCommit(tr []int, lv map[int]node) string {
	lc := lastCommit(tr, lv)
	set := map[string]bool{}
	for _, id := range tr[lc:] {
		n := lv[id]
		w := strings.SplitN(n.SQL, " ", 2)[0]
		if n.Temp {
			w += "@tmp"
		}
		set[w] = true
	}
	var ks []string
	for k := range set {
		ks = append(ks, k)
	}
	sort.Strings(ks)
	return strings.Join(ks, ",")
}

// outOfDomain: a JSON / JSON Lines / LTSV source file with an empty string cell (see genFileExt): the
// differential oracle is not sound for it, the case is discarded.
func outOfDomain(c progCase) bool {
	for name, body := range c.Files {
		switch {
		case strings.HasSuffix(name, ".json"), strings.HasSuffix(name, ".jsonl"):
			if strings.Contains(body, `:""`) {
				return true
			}
		case strings.HasSuffix(name, ".ltsv"):
			if strings.Contains(body, ":\t") || strings.Contains(body, ":\n") {
				return true
			}
		}
	}
	return false
}

func checkCLI(c progCase) (fw.Outcome, *fw.Violation) {
	o := fw.Outcome{}
	if outOfDomain(c) {
		o.Discard = true
		return o, nil
	}
	bin, err := run.Binary(fw.WorkDir(), false)
	if err != nil {
		return o, fw.Harness("%v", err)
	}
	home := filepath.Join(fw.WorkDir(), "clihome")
	_ = os.MkdirAll(home, 0755)
	r := cli{bin: bin, home: home}
	var pb strings.Builder
	render(c.Prog, &pb, "")
	prog := pb.String()
	lv := map[int]node{}
	leaves(c.Prog, lv)

	expected := map[string]map[string]string{}
	expect := func(ref string) (map[string]string, *fw.Violation) {
		if s, ok := expected[ref]; ok {
			return s, nil
		}
		d := setup(c, "ref")
		rr := r.run(d, ref)
		snap := run.Snapshot(d)
		_ = os.RemoveAll(d)
		if rr.Code != 0 {
			return nil, fw.V("reference_prefix_fails", "statements that succeeded in the procedure fail when only the committed transactions are replayed (exit %d: %s)\nreference program:\n%s\nprocedure:\n%s", rr.Code, rr.Stderr, ref, prog)
		}
		expected[ref] = snap
		return snap, nil
	}

	judge := func(tag string, env []string, signalled bool) (*fw.Violation, []int, run.CLIRes, []string) {
		dir := setup(c, tag)
		ino0, mt0 := inoMtime(filepath.Join(dir, c.Untouched))
		pino0, pmt0 := inoMtime(filepath.Join(dir, probeFile))
		qino0, qmt0 := inoMtime(filepath.Join(dir, switchProbe))
		logp := ""
		if tag == "plain" {
			logp = filepath.Join(home, fmt.Sprintf("points-%d.log", atomic.AddInt64(&seq, 1)))
			env = append(env, "VERIF_POINT_LOG="+logp)
		}
		res := r.run(dir, prog, env...)
		if res.TimedOut {
			// a watchdog hit counts only if it repeats on an immediate isolated re-run with a longer limit
			fw.AddExtra("watchdog_retries", 1)
			_ = os.RemoveAll(dir)
			dir = setup(c, tag+"-retry")
			ino0, mt0 = inoMtime(filepath.Join(dir, c.Untouched))
			pino0, pmt0 = inoMtime(filepath.Join(dir, probeFile))
			qino0, qmt0 = inoMtime(filepath.Join(dir, switchProbe))
			if logp != "" {
				_ = os.Remove(logp)
			}
			res = r.runT(dir, prog, 120*time.Second, env...)
		}
		var points []string
		if logp != "" {
			b, _ := os.ReadFile(logp)
			_ = os.Remove(logp)
			for _, ln := range strings.Split(strings.TrimSpace(string(b)), "\n") {
				if k := strings.SplitN(ln, "\t", 2)[0]; k != "" {
					points = append(points, k)
				}
			}
		}
		got := run.Snapshot(dir)
		ino1, mt1 := inoMtime(filepath.Join(dir, c.Untouched))
		pino1, pmt1 := inoMtime(filepath.Join(dir, probeFile))
		qino1, qmt1 := inoMtime(filepath.Join(dir, switchProbe))
		_ = os.RemoveAll(dir)
		if _, hasProbe := c.Files[probeFile]; hasProbe {
			if got[probeFile] != c.Files[probeFile] || pino0 != pino1 || !pmt0.Equal(pmt1) {
				return fw.V("unchanged_table_rewritten", "%s: %s is only touched by statements that change no record (zero-match UPDATE/DELETE/INSERT..SELECT/REPLACE, SELECT FOR UPDATE) but was rewritten: %q -> %q (inode %d->%d)\nprocedure:\n%s", tag, probeFile, c.Files[probeFile], got[probeFile], pino0, pino1, prog), nil, res, points
			}
		}
		if _, hasQ := c.Files[switchProbe]; hasQ {
			if got[switchProbe] != c.Files[switchProbe] || qino0 != qino1 || !qmt0.Equal(qmt1) {
				return fw.V("file_of_other_repository_rewritten", "%s: ./%s is only read before SET @@REPOSITORY TO 'alt' and every later statement names alt/%s, but ./%s was rewritten: %q -> %q (inode %d->%d)\nprocedure:\n%s", tag, switchProbe, switchProbe, switchProbe, c.Files[switchProbe], got[switchProbe], qino0, qino1, prog), nil, res, points
			}
		}
		if res.TimedOut {
			return fw.V("hang", "%s: process did not terminate\n%s", tag, prog), nil, res, points
		}
		tr := trace(res.Stdout)
		for _, id := range tr {
			if _, ok := lv[id]; !ok {
				return fw.Harness("unknown marker %d in output %q", id, res.Stdout), nil, res, points
			}
		}
		normal := res.Code == 0 && !res.Signaled
		// was the run ended by EXIT? (exit code 0 but no auto-commit)
		exited := countKind(tr, lv, "exit") > 0
		var refs []string
		switch {
		case normal && !exited:
			refs = []string{reduce(tr, lv, len(tr))}
		default:
			refs = []string{reduce(tr, lv, lastCommit(tr, lv))}
		}
		if signalled {
			// a signal that lands inside COMMIT (or inside the final automatic commit) may find the
			// commit finished or not started: both complete states are admissible
			refs = append(refs, reduce(tr, lv, len(tr)))
		}
		var diffs []string
		ok := false
		for _, ref := range refs {
			want, v := expect(ref)
			if v != nil {
				return v, tr, res, points
			}
			d := run.DiffSnap(visible(want), visible(got))
			if d == "" {
				ok = true
				break
			}
			diffs = append(diffs, d)
		}
		if !ok {
			sig := "files_differ_from_last_commit"
			if normal && !exited {
				sig = "files_differ_after_normal_end"
			}
			if signalled {
				sig = "files_differ_after_signal"
			}
			return fw.V(sig, "%s: exit=%d trace=%v: directory differs from the one produced by the committed transactions alone: %s\nstderr: %s\nprocedure:\n%s\nreference:\n%s", tag, res.Code, tr, strings.Join(diffs, " || "), res.Stderr, prog, refs[0]), tr, res, points
		}
		if ino0 != ino1 || !mt0.Equal(mt1) {
			return fw.V("untouched_file_rewritten", "%s: file %s never named by the procedure was rewritten (inode %d->%d, mtime %v->%v)", tag, c.Untouched, ino0, ino1, mt0, mt1), tr, res, points
		}
		if strings.Contains(res.Stderr, "Fatal Error") || strings.Contains(res.Stderr, "panic:") {
			return fw.V("fatal_error", "%s: stderr %s\n%s", tag, res.Stderr, prog), tr, res, points
		}
		return nil, tr, res, points
	}

	v, tr, res, points := judge("plain", nil, false)
	if v != nil {
		return o, v
	}
	evals := 1
	// exit code of the plain run
	endKind := "end"
	full := countLeavesExecutedFully(c.Prog, lv)
	if len(tr) < full {
		// which leaf stopped the run?
		endKind = "stopped"
	}
	for _, n := range lv {
		if n.Kind == "error" {
			endKind = n.Kind + ":" + n.SQL
		}
	}
	for _, id := range tr {
		// an EXIT that was reached (its marker precedes it) ends the run, whatever follows in the text
		if n := lv[id]; n.Kind == "exit" {
			endKind = n.Kind + ":" + n.SQL
			break
		}
	}
	switch {
	case strings.HasPrefix(endKind, "exit:EXIT 3"):
		if res.Code != 3 && res.Code == 0 {
			return o, fw.V("exit_code", "EXIT 3 reached but exit code is %d\n%s", res.Code, prog)
		}
	case strings.HasPrefix(endKind, "error:") && len(tr) < full && res.Code == 0:
		// an error leaf was reached (trace stops before the end) yet exit code 0: only legitimate if an EXIT came first - there is none in this program
		return o, fw.V("exit_code", "a statement failed but the exit code is 0\n%s\nstderr: %s", prog, res.Stderr)
	}
	lc := lastCommit(tr, lv)
	abnormal := res.Code != 0 || len(tr) < full
	o.Classes = append(o.Classes, "end="+strings.SplitN(endKind, ":", 2)[0], fmt.Sprintf("commits=%d", countKind(tr, lv, "commit")), fmt.Sprintf("abnormal=%v", abnormal))
	o.Classes = append(o.Classes, blockClassList(c.Prog)...)
	changesAfter := 0
	for _, id := range tr[lc:] {
		k := lv[id].Kind
		if k == "dml" || k == "create" {
			changesAfter++
		}
	}
	if (abnormal && changesAfter > 0) || (lc > 0 && changesAfter > 0) {
		o.Fingerprint = fmt.Sprintf("%s|c%d|%s|code%d", strings.SplitN(endKind, " ", 2)[0], countKind(tr, lv, "commit"), kindsAfterCommit(tr, lv), res.Code)
	}

	// signal runs
	if c.SignalAt != "" && len(points) > 0 {
		var cands []string
		for _, p := range points {
			isStmt := strings.HasPrefix(p, "stmt#")
			if (c.SignalAt == "stmt") == isStmt {
				if !isStmt && !(strings.HasPrefix(p, "tx.commit") || strings.HasPrefix(p, "h.commit") || strings.HasPrefix(p, "h.update") || strings.HasPrefix(p, "lock.") || strings.HasPrefix(p, "load.")) {
					continue
				}
				cands = append(cands, p)
			}
		}
		if len(cands) > 0 {
			// a statement-boundary signal is drawn; for lib/file / commit points the drawn point is tried
			// and, in addition, EVERY point of Transaction.Commit and Handler.commit the plain run passed
			// (capped), so that a signal landing while a particular table is encoded or swapped is not a
			// matter of luck
			pts := []string{cands[c.SignalIdx%len(cands)]}
			if c.SignalAt == "point" {
				n := 0
				for _, p := range cands {
					if (strings.HasPrefix(p, "tx.commit.") || strings.HasPrefix(p, "h.commit.")) && p != pts[0] && n < 40 {
						pts = append(pts, p)
						n++
					}
				}
			}
			for k, pt := range pts {
				sig := c.Signal
				if k%2 == 1 {
					if sig == "INT" {
						sig = "TERM"
					} else {
						sig = "INT"
					}
				}
				v, str, sres, _ := judge("signal", []string{"VERIF_SIGNAL_AT=" + pt + ":" + sig, "VERIF_SIGNAL_SETTLE_MS=15"}, true)
				evals++
				if v != nil {
					v.Msg = "signal " + sig + " at " + pt + ": " + v.Msg
					return o, v
				}
				if sres.Signaled {
					return o, fw.V("killed_by_signal", "signal %s at %s: process died of the signal\n%s", sig, pt, prog)
				}
				o.Classes = append(o.Classes, "signal@"+strings.SplitN(pt, "#", 2)[0])
				slc := lastCommit(str, lv)
				sch := 0
				for _, id := range str[slc:] {
					if k := lv[id].Kind; k == "dml" || k == "create" {
						sch++
					}
				}
				if sres.Code >= 128 && sch > 0 {
					o.More = append(o.More, fmt.Sprintf("signal|%s|%s|c%d|%s", sig, strings.SplitN(pt, "#", 2)[0], countKind(str, lv, "commit"), kindsAfterCommit(str, lv)))
				}
			}
		}
	}
	o.Evals = evals
	return o, nil
}

// blockClasses labels the kinds of blocks a program contains (generator histogram).
func blockClasses(ns []node, seen map[string]bool) {
	for _, n := range ns {
		switch n.Kind {
		case "if", "case", "while", "func", "curloop":
			seen["block="+n.Kind] = true
			blockClasses(n.Body, seen)
			blockClasses(n.Else, seen)
		}
	}
}

func blockClassList(ns []node) []string {
	seen := map[string]bool{}
	blockClasses(ns, seen)
	var out []string
	for _, k := range []string{"block=if", "block=case", "block=while", "block=func", "block=curloop"} {
		if seen[k] {
			out = append(out, k)
		}
	}
	return out
}

func countKind(tr []int, lv map[int]node, kind string) int {
	n := 0
	for _, id := range tr {
		if lv[id].Kind == kind {
			n++
		}
	}
	return n
}

// countLeavesExecutedFully: number of markers a run prints when no leaf fails and no EXIT is reached.
func countLeavesExecutedFully(ns []node, lv map[int]node) int {
	total := 0
	for _, n := range ns {
		switch n.Kind {
		case "if", "case":
			if n.Cond {
				total += countLeavesExecutedFully(n.Body, lv)
			} else {
				total += countLeavesExecutedFully(n.Else, lv)
			}
		case "while", "curloop":
			total += n.Loops * countLeavesExecutedFully(n.Body, lv)
		case "func":
			total += countLeavesExecutedFully(n.Body, lv)
		default:
			total++
		}
	}
	return total
}

func TestC01CliPrefix(t *testing.T) {
	fw.Run(t, fw.Spec[progCase]{
		ID: "C01", Name: "cli_prefix", Quick: 1000, Thorough: 16000,
		Gen:   func(t *rapid.T) progCase { return genProg(t, fw.Pct(t, "withTemps", 40), true) },
		Check: checkCLI,
		Rule: "generated procedures (INSERT VALUES/SELECT, UPDATE, DELETE, REPLACE, CREATE TABLE [AS], ALTER ADD/DROP on 1-2 files in CSV/TSV/LTSV/JSON/JSONL, created files and temporary tables; COMMIT/ROLLBACK; nested IF/ELSE and WHILE blocks) with a terminator at a drawn position (normal end, failing statement, EXIT, EXIT 3, trailing ROLLBACK) run by the real binary; every leaf prints a marker, so the executed trace is read from stdout. Oracle: the final directory is byte-identical to the one produced by a reference program consisting only of the statements of the transactions that were committed before the end (rolled-back transactions dropped) + COMMIT; after a normal end: all executed statements + COMMIT. 45% of cases are run again with SIGINT/SIGTERM self-delivered at a drawn statement boundary or lib/file / commit point (old or new complete state admissible). A file never named keeps bytes, inode and mtime. non-trivial = data-changing statements after the last COMMIT with an abnormal end, or a COMMIT followed by further changes; distinct by (terminator, #commits, statement kinds after the last commit, exit code)",
		Assumptions: []string{"the reference directory is produced by csvq itself from the committed statements only (differential/metamorphic oracle): a defect that affects a statement identically with and without the surrounding uncommitted work is not visible here (C05 covers statement semantics)",
			"REPLACE is generated with single-row VALUES only (order of several unmatched rows is judged by C05/C12)"},
	})
}

// ---------------------------------------------------------------------
// in-process check: temporary tables after rollback / abnormal end

func dumpAll(s *run.Sess, dir string, temps []string) (map[string]string, error) {
	out := map[string]string{}
	for _, tn := range temps {
		r := s.Exec("SELECT * FROM " + tn)
		if r.Err != nil {
			out[tn] = "ERR:" + run.ErrClass(r.Err)
			continue
		}
		if len(r.Views) == 1 {
			// text form only: a committed-and-reloaded cell is a string, the same cell computed in
			// memory may be an integer; both are the same table contents
			var b strings.Builder
			b.WriteString(strings.Join(r.Views[0].Header, "|") + "\n")
			for _, row := range r.Views[0].Rows {
				for i, cell := range row {
					if i > 0 {
						b.WriteString("|")
					}
					if cell.IsNull() {
						b.WriteString("NULL")
					} else {
						b.WriteString(cell.S)
					}
				}
				b.WriteString("\n")
			}
			out[tn] = b.String()
		}
	}
	return out, nil
}

func runInProc(c progCase, prog string, tag string) (trc []int, dump map[string]string, files map[string]string, err error, flowExit bool) {
	dir := setup(c, tag)
	defer os.RemoveAll(dir)
	s, e := run.NewSess(run.Opt{Dir: dir, CaptureOut: true})
	if e != nil {
		return nil, nil, nil, e, false
	}
	defer s.Close()
	stmts, _, perr := parser.Parse(prog, "", false, false)
	if perr != nil {
		return nil, nil, nil, perr, false
	}
	s.Tx.AutoCommit = true
	s.Tx.Flags.ExportOptions.Format = 1 // CSV output of PRINT/SELECT is irrelevant; markers are PRINT lines
	res := s.ExecStmts(stmts)
	trc = trace(s.Out.String())
	// what the CLI's deferred block does
	_ = s.Proc.AutoRollback()
	s.Tx.AutoCommit = false
	dump, _ = dumpAll(s, dir, c.Temps)
	_ = s.Proc.ReleaseResourcesWithErrors()
	files = run.Snapshot(dir)
	return trc, dump, files, res.Err, res.Flow == 2
}

func checkInProc(c progCase) (fw.Outcome, *fw.Violation) {
	o := fw.Outcome{}
	if outOfDomain(c) {
		o.Discard = true
		return o, nil
	}
	var pb strings.Builder
	render(c.Prog, &pb, "")
	prog := pb.String()
	lv := map[int]node{}
	leaves(c.Prog, lv)
	tr, dump, files, err, exited := runInProc(c, prog, "p")
	if _, ok := err.(*parser.SyntaxError); ok {
		return o, fw.Harness("generated program does not parse: %v\n%s", err, prog)
	}
	full := countLeavesExecutedFully(c.Prog, lv)
	_ = full
	exited = exited || countKind(tr, lv, "exit") > 0
	normal := err == nil && !exited
	upto := lastCommit(tr, lv)
	if normal {
		upto = len(tr)
	}
	ref := reduce(tr, lv, upto)
	rtr, rdump, rfiles, rerr, _ := runInProc(progCase{Files: c.Files, Temps: c.Temps}, ref, "r")
	_ = rtr
	if rerr != nil {
		return o, fw.V("reference_prefix_fails", "replaying only the committed transactions fails: %v\nreference:\n%s\nprocedure:\n%s", rerr, ref, prog)
	}
	if d := run.DiffSnap(visible(rfiles), visible(files)); d != "" {
		return o, fw.V("files_differ_from_last_commit", "err=%v trace=%v: %s\nprocedure:\n%s\nreference:\n%s", err, tr, d, prog, ref)
	}
	for _, tn := range c.Temps {
		if dump[tn] != rdump[tn] {
			return o, fw.V("temp_table_differs_from_last_commit", "temporary table %s after the run ended (err=%v, trace=%v) and the automatic rollback:\n%s\nexpected (committed transactions only):\n%s\nprocedure:\n%s\nreference:\n%s", tn, err, tr, dump[tn], rdump[tn], prog, ref)
		}
	}
	lc := lastCommit(tr, lv)
	tempAfter := 0
	for _, id := range tr[lc:] {
		if n := lv[id]; n.Temp && (n.Kind == "dml") {
			tempAfter++
		}
	}
	o.Classes = append(o.Classes, fmt.Sprintf("normal=%v", normal), fmt.Sprintf("commits=%d", countKind(tr, lv, "commit")), fmt.Sprintf("rollbacks=%d", countKind(tr, lv, "rollback")))
	o.Classes = append(o.Classes, blockClassList(c.Prog)...)
	if tempAfter > 0 && !normal || (countKind(tr, lv, "rollback") > 0 && tempAfter >= 0 && len(c.Temps) > 0) {
		o.Fingerprint = fmt.Sprintf("n=%v|c%d|r%d|%s", normal, countKind(tr, lv, "commit"), countKind(tr, lv, "rollback"), kindsAfterCommit(tr, lv))
	}
	return o, nil
}

func TestC01InprocTemp(t *testing.T) {
	fw.Run(t, fw.Spec[progCase]{
		ID: "C01", Name: "inproc_temp", Quick: 6000, Thorough: 120000,
		Gen:   func(t *rapid.T) progCase { c := genProg(t, true, false); c.SignalAt = ""; return c },
		Check: checkInProc,
		Rule: "the same procedures, always with 1-2 temporary tables, executed through parser+Processor with AutoCommit exactly as action.Run does, followed by the CLI's deferred AutoRollback; then every temporary table is dumped through the same scope and every file re-read. Oracle: dumps and files equal those of the reference program (committed transactions only, declarations kept). non-trivial = an abnormal end with temporary-table changes after the last COMMIT, or a ROLLBACK executed in a procedure with temporary tables; distinct by (normal?, #commits, #rollbacks, statement kinds after last commit)",
	})
}
