#!/usr/bin/env python3
"""Confirm a seeded change and run the property's check against it.

  tools_seed_verify.py <seed_out_dir> <PROP> [--demo-only] [--check-args ...]

seed_out_dir holds patch.diff, a demonstration (demo_test.go or demo.sh) and meta.json as produced by a
bug-seeding sub-agent. Steps (all in a scratch worktree of /repo under /tmp, removed afterwards):
  1. apply the patch; go build ./... and go build -tags verif ./...; the pinned suite must pass;
  2. the demonstration must fail with the patch and pass without it;
  3. VERIF_REPO=<worktree> ./check PROP --no-evidence must report a VIOLATION (exit 1).
Prints one JSON line with the outcome.
"""
import json, os, re, shutil, subprocess, sys, time

ENV = dict(os.environ, GOFLAGS="-mod=mod", GOPROXY="off", GOSUMDB="off", GOTOOLCHAIN="local")


def sh(cmd, cwd=None, timeout=1800):
    p = subprocess.run(cmd, cwd=cwd, env=ENV, shell=isinstance(cmd, str), stdout=subprocess.PIPE, stderr=subprocess.STDOUT, text=True, timeout=timeout)
    return p.returncode, p.stdout


def run_demo(wt, d, meta):
    """returns (exit code, output)"""
    if os.path.exists(os.path.join(d, "demo.sh")):
        rc, out = sh("go build -tags verif -o %s/csvq-demo . " % wt, cwd=wt)
        if rc != 0:
            return 99, out
        rc, out = sh("bash %s %s/csvq-demo" % (os.path.join(d, "demo.sh"), wt), cwd=wt)
        os.remove(os.path.join(wt, "csvq-demo"))
        return rc, out
    tests = [f for f in os.listdir(d) if f.endswith("_test.go")]
    if not tests:
        return 98, "no demonstration found"
    src = open(os.path.join(d, tests[0])).read()
    m = re.search(r"^package\s+(\w+)", src, re.M)
    pkg = m.group(1)
    # place by package name; meta may name the directory explicitly
    cand = {"query": "lib/query", "value": "lib/value", "file": "lib/file", "parser": "lib/parser", "cli": "lib/cli", "action": "lib/action",
            "option": "lib/option", "json": "lib/json", "main": "."}
    target_dir = None
    dm = re.search(r"(lib/[\w/]+)/zz?_?\w*_test\.go", meta.get("demo_cmd", "") + " " + meta.get("verified", ""))
    if dm:
        target_dir = dm.group(1)
    if target_dir is None:
        target_dir = cand.get(pkg.replace("_test", ""), "lib/" + pkg.replace("_test", ""))
    dst = os.path.join(wt, target_dir, "zz_seed_demo_test.go")
    shutil.copy(os.path.join(d, tests[0]), dst)
    names = re.findall(r"^func (Test\w+)\(", src, re.M)
    race = ["-race"] if "-race" in (meta.get("demo_cmd", "") + meta.get("verified", "")) else []
    rc, out = sh(["go", "test", "-tags", "verif"] + race + ["-vet=off", "-count=1", "-run", "^(" + "|".join(names) + ")$", "./" + target_dir + "/"], cwd=wt)
    os.remove(dst)
    return rc, out


def main():
    d = os.path.abspath(sys.argv[1])
    prop = sys.argv[2]
    extra = sys.argv[3:]
    meta = {}
    if os.path.exists(os.path.join(d, "meta.json")):
        try:
            meta = json.load(open(os.path.join(d, "meta.json")))
        except Exception:
            meta = {}
    wt = "/tmp/sv-%d" % os.getpid()
    tmpd = wt + "-tmp"
    os.makedirs(tmpd, exist_ok=True)
    ENV["TMPDIR"] = tmpd  # the pinned suite uses fixed directory names under os.TempDir(): keep concurrent verifications apart
    res = {"dir": d, "property": prop}
    sh("git -C /repo worktree add -q %s HEAD" % wt)
    try:
        # demo on the clean tree
        rc0, out0 = (0, "") if "--skip-suite" in extra else run_demo(wt, d, meta)
        res["demo_clean_exit"] = rc0
        rc, out = sh("git apply %s" % os.path.join(d, "patch.diff"), cwd=wt)
        if rc != 0:
            res["error"] = "patch does not apply: " + out[-500:]
            print(json.dumps(res)); return 2
        rc, out = sh("go build ./... && go build -tags verif ./...", cwd=wt)
        res["builds"] = rc == 0
        if rc != 0:
            res["error"] = out[-800:]
            print(json.dumps(res)); return 2
        if "--skip-suite" in extra:
            res["suite_passes"] = None
            res["demo_ok"] = None
            rc1, out1 = 0, ""
        else:
            rc, out = sh("go test -vet=off -count=1 ./...", cwd=wt)
            res["suite_passes"] = rc == 0
            if rc != 0:
                res["suite_tail"] = out[-800:]
            rc1, out1 = run_demo(wt, d, meta)
            res["demo_patched_exit"] = rc1
            res["demo_ok"] = (rc0 == 0 and rc1 != 0)
        if res["demo_ok"] is False:
            res["demo_clean_tail"] = out0[-600:]
            res["demo_patched_tail"] = out1[-600:]
        if "--demo-only" not in extra:
            t0 = time.time()
            env = dict(ENV, VERIF_REPO=wt)
            p = subprocess.run(["./check", prop, "--no-evidence"] + [a for a in extra if a not in ("--demo-only", "--skip-suite")], cwd="/verif", env=env,
                               stdout=subprocess.PIPE, stderr=subprocess.STDOUT, text=True)
            res["check_exit"] = p.returncode
            res["check_wall_s"] = round(time.time() - t0, 1)
            sigs = sorted(set(re.findall(r"signature=([^\s:]+(?::[^\s:]+)?)", p.stdout)))
            res["signatures"] = sigs[:8]
            res["caught"] = p.returncode == 1
            if p.returncode not in (0, 1):
                res["check_tail"] = p.stdout[-800:]
    finally:
        sh("git -C /repo worktree remove --force %s" % wt)
        shutil.rmtree(tmpd, ignore_errors=True)
    print(json.dumps(res))
    return 0


if __name__ == "__main__":
    sys.exit(main())
