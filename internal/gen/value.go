// Package gen holds the shared rapid generators.
package gen

import (
	"math"
	"strings"
	"time"

	"pgregory.net/rapid"

	"verif/internal/fw"
	"verif/internal/val"
)

type Val = val.Val

func pick[T any](t *rapid.T, label string, xs []T) T {
	return fw.PickU(t, label, xs)
}

// kind draws a fair integer in [0, n] (rapid's own integer draws favour small values).
func kind(t *rapid.T, label string, n int) int {
	return fw.Uniform(t, label, n+1)
}

var pads = []string{"", "", "", " ", "  ", "\t", " \t", "\n"}

func pad(t *rapid.T, s string) string {
	return pick(t, "lpad", pads) + s + pick(t, "rpad", pads)
}

var intPool = []int64{0, 1, -1, 2, -2, 3, 5, 7, 10, 100, -100, 255, 1 << 31, -(1 << 31), 1<<31 - 1, 1 << 53, 1<<53 + 1, 1<<53 - 1,
	math.MaxInt64, math.MinInt64, math.MaxInt64 - 1, math.MinInt64 + 1}

// Int draws an integer with boundary values over-represented.
func Int(t *rapid.T) int64 {
	switch kind(t, "intKind", 9) {
	case 0, 1, 2, 3, 4:
		return int64(rapid.IntRange(-4, 6).Draw(t, "smallInt"))
	case 5, 6:
		return pick(t, "poolInt", intPool)
	case 7:
		return int64(rapid.IntRange(-1000, 1000).Draw(t, "medInt"))
	default:
		return rapid.Int64().Draw(t, "anyInt")
	}
}

var floatPool = []float64{0, math.Copysign(0, -1), 1, -1, 0.5, -0.5, 1.5, 2.5, 2, 3, 0.1, 1e10, 1e-10, 1e100, -1e100, 5e-324, math.MaxFloat64,
	math.Inf(1), math.Inf(-1), math.NaN(), 9007199254740992, 9007199254740993, 9007199254740991, 1e15, 123.456}

// Float draws a float with special values over-represented.
func Float(t *rapid.T) float64 {
	switch kind(t, "floatKind", 9) {
	case 0, 1, 2:
		return pick(t, "poolFloat", floatPool)
	case 3, 4, 5:
		return float64(rapid.IntRange(-40, 60).Draw(t, "quarter")) / 4
	case 6:
		return float64(rapid.IntRange(-5, 5).Draw(t, "integralFloat"))
	default:
		return rapid.Float64().Draw(t, "anyFloat")
	}
}

var intSpellings = []string{"0", "1", "-1", "+1", "2", "3", "5", "10", "01", "007", "-0", "+0", "100", "-100",
	"9223372036854775807", "-9223372036854775808", "9223372036854775808", "-9223372036854775809", "4294967296"}
var floatSpellings = []string{"1.0", "1.5", "-1.5", "+2.5", "0.0", "-0.0", ".5", "5.", "1e2", "1E2", "1e+2", "1e-2", "1.5e3", "-2e0",
	"Inf", "+Inf", "-Inf", "NaN", "0.1", "100.0", "2.50", "1e0", "3.0"}
var boolSpellings = []string{"true", "TRUE", "True", "t", "T", "false", "FALSE", "False", "f", "F", "1", "0"}
var dtSpellings = []string{"2012-02-03", "2012/02/03", "2012-02-03 09:18:15", "2012/02/03 09:18:15", "2012-02-03T09:18:15",
	"2012-02-03T09:18:15Z", "2012-02-03T09:18:15.123456789Z", "2012-02-03 09:18:15.5", "2012-02-03T00:00:00Z",
	"2012-02-03T18:18:15+09:00", "2012-02-04", "2011-12-31", "2012-02-03 00:00:00", "2012-02-03 09:18:15 +09:00", "2012-02-03T09:18:15-07:00",
	"1970-01-01", "1969-12-31 23:59:59", "9999-12-31", "2012-02-29", "2016-02-29 12:00:00"}
var plainSpellings = []string{"", "a", "A", "b", "B", "abc", "ABC", "Abc", "abd", "ab", "x y", "é", "É", "日本", "ü", "-", "+", ".", "e", "1a", "a1",
	"--1", "1-", "1.2.3", "1e", "e1", "tr", "truee", "yes", "no", "null", "NULL", "on", "1 2", "0x10", "1,000", "٣", "１", "a:b", "[S]A", "abc ", " abc",
	// letters whose upper-case mapping and case folding disagree, next to their ASCII neighbours
	"i", "I", "\u0131", "\u0130", "ss", "SS", "\u00df", "\u1e9e", "k", "K", "\u212a", "s", "S", "\u017f", "\u01c6", "\u01c5", "\u01c4", "\u03c3", "\u03c2", "\u03a3"}

// StringVal draws a string value and a class label.
func StringVal(t *rapid.T) (Val, string) {
	switch kind(t, "strKind", 9) {
	case 0, 1:
		return val.Str(pad(t, pick(t, "intSp", intSpellings))), "str_int"
	case 2, 3:
		return val.Str(pad(t, pick(t, "floatSp", floatSpellings))), "str_float"
	case 4:
		return val.Str(pad(t, pick(t, "boolSp", boolSpellings))), "str_bool"
	case 5, 6:
		return val.Str(pad(t, pick(t, "dtSp", dtSpellings))), "str_datetime"
	case 7:
		// small integers as text: collide with integer values often
		return val.Str(pad(t, val.Int(int64(rapid.IntRange(-4, 6).Draw(t, "smallIntStr"))).S)), "str_int"
	default:
		return val.Str(pad(t, pick(t, "plainSp", plainSpellings))), "str_plain"
	}
}

var timePool = []time.Time{
	time.Date(2012, 2, 3, 9, 18, 15, 0, time.UTC),
	time.Date(2012, 2, 3, 0, 0, 0, 0, time.UTC),
	time.Date(2012, 2, 3, 9, 18, 15, 123456789, time.UTC),
	time.Date(2012, 2, 3, 9, 18, 15, 500000000, time.UTC),
	time.Date(2012, 2, 4, 0, 0, 0, 0, time.UTC),
	time.Date(2011, 12, 31, 0, 0, 0, 0, time.UTC),
	time.Date(1970, 1, 1, 0, 0, 0, 0, time.UTC),
	time.Date(1969, 12, 31, 23, 59, 59, 0, time.UTC),
	time.Date(2012, 2, 3, 16, 18, 15, 0, time.UTC),
}

// Value draws a value of any class; the second result is the class label.
func Value(t *rapid.T) (Val, string) {
	switch kind(t, "valKind", 15) {
	case 0, 1, 2:
		return val.Int(Int(t)), "integer"
	case 3, 4:
		return val.Float(Float(t)), "float"
	case 5, 6, 7, 8, 9:
		return StringVal(t)
	case 10:
		return val.Bool(rapid.Bool().Draw(t, "bool")), "boolean"
	case 11:
		return val.Tern(rapid.IntRange(-1, 1).Draw(t, "tern")), "ternary"
	case 12, 13:
		return val.Time(pick(t, "time", timePool)), "datetime"
	default:
		return val.Null, "null"
	}
}

// Numeric draws an Integer, Float or numeric-looking string.
func Numeric(t *rapid.T) (Val, string) {
	switch kind(t, "numKind", 5) {
	case 0, 1:
		return val.Int(Int(t)), "integer"
	case 2, 3:
		return val.Float(Float(t)), "float"
	case 4:
		return val.Str(pad(t, pick(t, "intSp", intSpellings))), "str_int"
	default:
		return val.Str(pad(t, pick(t, "floatSp", floatSpellings))), "str_float"
	}
}

// JoinClasses makes an order-independent label for a set of classes.
func JoinClasses(cs ...string) string {
	c := append([]string(nil), cs...)
	for i := 1; i < len(c); i++ {
		for j := i; j > 0 && c[j] < c[j-1]; j-- {
			c[j], c[j-1] = c[j-1], c[j]
		}
	}
	return strings.Join(c, "~")
}

// foldGroups: letters that are "the same letter in another case" under upper-casing, lower-casing or Unicode
// case folding, but not under all three.
var foldGroups = [][]string{
	{"i", "I", "\u0131", "\u0130"},
	{"ss", "SS", "\u00df", "\u1e9e"},
	{"k", "K", "\u212a"},
	{"s", "S", "\u017f"},
	{"\u01c6", "\u01c5", "\u01c4"},
	{"\u03c3", "\u03c2", "\u03a3"},
}

// FoldPair draws two texts that differ at most in such letters (optionally inside a word and padded).
func FoldPair(t *rapid.T) (Val, Val) {
	g := pick(t, "foldGroup", foldGroups)
	pre := pick(t, "foldPrefix", []string{"", "", "a", "Z"})
	suf := pick(t, "foldSuffix", []string{"", "", "b", "1"})
	a := pre + pick(t, "foldA", g) + suf
	b := pre + pick(t, "foldB", g) + suf
	return val.Str(pad(t, a)), val.Str(pad(t, b))
}

// NumericText draws a numeric-looking string assembled from parts (sign, leading zeros, digits up to and beyond
// the int64 range, fraction, exponent, padding) instead of taken from the spelling pools: decimal integers and
// "floating-point decimals or their exponential notation" in the manual's words. The label is str_int for a
// spelling without fraction and exponent, str_float otherwise.
func NumericText(t *rapid.T) (Val, string) {
	sign := pick(t, "ntSign", []string{"", "", "-", "+"})
	zeros := pick(t, "ntZeros", []string{"", "", "", "0", "00", "000000000000000000000"})
	var digits string
	switch kind(t, "ntDigits", 7) {
	case 0, 1, 2:
		digits = val.Int(int64(rapid.IntRange(0, 12).Draw(t, "ntSmall"))).S
	case 3:
		// around the int64 bounds: 922337203685477580x
		digits = "922337203685477580" + val.Int(int64(rapid.IntRange(0, 9).Draw(t, "ntLast"))).S
	case 4:
		digits = pick(t, "ntPow", []string{"9007199254740992", "9007199254740993", "9007199254740991", "4294967296", "2147483648", "18446744073709551616", "99999999999999999999"})
	default:
		n := rapid.IntRange(1, 19).Draw(t, "ntLen")
		b := make([]byte, n)
		for i := range b {
			b[i] = byte('0' + rapid.IntRange(0, 9).Draw(t, "ntDigit"))
		}
		digits = string(b)
	}
	form := kind(t, "ntForm", 9)
	if form <= 3 {
		return val.Str(pad(t, sign+zeros+digits)), "str_int"
	}
	frac := ""
	switch {
	case form <= 6:
		frac = "." + pick(t, "ntFrac", []string{"", "0", "00", "5", "50", "25", "125", "000000000000000000001", "999999999999999999999", "1", "75"})
	case form == 7:
		// no integer digits at all: ".5"
		zeros, digits = "", ""
		frac = "." + pick(t, "ntFrac2", []string{"5", "0", "25", "000", "5000"})
	}
	exp := ""
	if form >= 8 || (form >= 5 && rapid.Bool().Draw(t, "ntHasExp")) {
		exp = pick(t, "ntE", []string{"e", "E"}) + pick(t, "ntESign", []string{"", "+", "-"}) +
			pick(t, "ntExp", []string{"0", "1", "2", "3", "5", "10", "15", "18", "19", "20", "02", "007", "100", "308", "309", "324", "400"})
	}
	return val.Str(pad(t, sign+zeros+digits+frac+exp)), "str_float"
}
