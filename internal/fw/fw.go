// Package fw is the small property-running framework shared by all checks:
// it drives rapid with a pinned seed, counts evaluations and distinct
// non-trivial cases, handles known findings, writes replay files and evidence
// parts, and replays a saved case through a plain (non-rapid) code path.
package fw

import (
	"bufio"
	"crypto/sha256"
	"encoding/hex"
	"encoding/json"
	"flag"
	"fmt"
	"os"
	"path/filepath"
	"runtime"
	"sort"
	"strconv"
	"strings"
	"sync"
	"testing"
	"time"

	"pgregory.net/rapid"
)

// Outcome describes one evaluated case.
type Outcome struct {
	Fingerprint string   // non-empty: the case is non-trivial by the property's rule; distinctness is by this string
	Classes     []string // labels for the generator histogram
	Discard     bool     // the case fell outside the property's domain (counted separately, not an evaluation)
	More        []string // further non-trivial fingerprints covered by the same case (e.g. one per fault point)
	Evals       int      // executions performed inside this case when it enumerates several (0 = 1)
}

// Violation is a failed oracle. Sig identifies the shape of the failure (it is
// what known_findings.jsonl matches on), Msg is the human-readable detail.
type Violation struct {
	Sig string
	Msg string
}

func (v *Violation) Error() string { return v.Sig + ": " + v.Msg }

// Harness builds a pseudo-violation for a failure of the harness itself
// (tool missing, dry run failed): it is reported as ERROR -> exit 2
// (inconclusive), never as a VIOLATION.
func Harness(format string, args ...interface{}) *Violation {
	return &Violation{Sig: "HARNESS", Msg: fmt.Sprintf(format, args...)}
}

// V builds a violation.
func V(sig string, format string, args ...interface{}) *Violation {
	return &Violation{Sig: sig, Msg: fmt.Sprintf(format, args...)}
}

// Spec is one executable property.
type Spec[C any] struct {
	ID          string // property id, e.g. "C06"
	Name        string // check name within the property
	Quick       int    // number of generated cases in the quick tier (all shards together)
	Thorough    int    // ... in the thorough tier
	Gen         func(t *rapid.T) C
	Check       func(c C) (Outcome, *Violation)
	Rule        string
	Assumptions []string
	MaxSamples  int
}

type finding struct {
	Property  string          `json:"property"`
	Check     string          `json:"check"`
	Status    string          `json:"status"` // known | fixed
	Signature string          `json:"signature"`
	What      string          `json:"what"`
	Commit    string          `json:"commit,omitempty"`
	Case      json.RawMessage `json:"case,omitempty"`
}

// Part is the evidence fragment one check (one shard) writes; the driver merges them.
type Part struct {
	Property      string            `json:"property"`
	Check         string            `json:"check"`
	Shard         int               `json:"shard"`
	Seed          uint64            `json:"seed"`
	Tier          string            `json:"tier"`
	Requested     int               `json:"requested"`
	Evaluations   int               `json:"evaluations"`
	Discarded     int               `json:"discarded"`
	ExcludedKnown int               `json:"excluded_known"`
	Fingerprints  []string          `json:"fingerprints"`
	Classes       map[string]int    `json:"classes"`
	Samples       []json.RawMessage `json:"samples"`
	Rule          string            `json:"rule"`
	Assumptions   []string          `json:"assumptions"`
	Violations    int               `json:"violations"`
	KnownPrinted  []string          `json:"known_printed"`
	Replays       []string          `json:"replays"`
	WallS         float64           `json:"wall_s"`
	Extra         map[string]int64  `json:"extra,omitempty"`
}

// Root returns the /verif directory.
func Root() string {
	if r := os.Getenv("VERIF_ROOT"); r != "" {
		return r
	}
	return "/verif"
}

// Tier returns "quick" or "thorough".
func Tier() string {
	if os.Getenv("VERIF_TIER") == "thorough" {
		return "thorough"
	}
	return "quick"
}

// Seed returns the pinned base seed (never 0).
func Seed() uint64 {
	s, err := strconv.ParseUint(os.Getenv("VERIF_SEED"), 10, 64)
	if err != nil || s == 0 {
		s = 1
	}
	return s
}

// Shard returns this process's shard index and the shard count.
func Shard() (int, int) {
	i, _ := strconv.Atoi(os.Getenv("VERIF_SHARD"))
	n, _ := strconv.Atoi(os.Getenv("VERIF_SHARDS"))
	if n < 1 {
		n = 1
	}
	if i < 0 || n <= i {
		i = 0
	}
	return i, n
}

// ShardSeed is the seed used by this shard for the check called name.
func ShardSeed(name string) uint64 {
	i, _ := Shard()
	h := sha256.Sum256([]byte(name))
	s := Seed()*1000003 + uint64(i)*7919 + uint64(h[0])<<8 + uint64(h[1])
	if s == 0 {
		s = 1
	}
	return s
}

// WorkDir returns a private scratch directory for this process.
var workOnce sync.Once
var workDir string

func WorkDir() string {
	workOnce.Do(func() {
		base := os.Getenv("VERIF_WORK")
		if base == "" {
			base = filepath.Join(Root(), ".work")
		}
		_ = os.MkdirAll(base, 0755)
		d, err := os.MkdirTemp(base, "p"+strconv.Itoa(os.Getpid())+"-")
		if err != nil {
			panic(err)
		}
		workDir = d
	})
	return workDir
}

// Main isolates the process environment (HOME, XDG_CONFIG_HOME, cwd, TZ) so
// that csvq finds no configuration files, runs the tests and removes the
// scratch directory.
func Main(m *testing.M) {
	wd := WorkDir()
	home := filepath.Join(wd, "home")
	cwd := filepath.Join(wd, "cwd")
	_ = os.MkdirAll(home, 0755)
	_ = os.MkdirAll(cwd, 0755)
	_ = os.Setenv("HOME", home)
	_ = os.Setenv("XDG_CONFIG_HOME", filepath.Join(home, ".config"))
	_ = os.Setenv("TZ", "UTC")
	time.Local = time.UTC
	if os.Getenv("VERIF_FUZZ") == "" {
		// (under go test -fuzz the working directory stays the package directory: the engine writes a failing input to
		// testdata/fuzz below it, and the driver moves it to the replay directory)
		_ = os.Chdir(cwd)
	}
	if devnull, err := os.Open(os.DevNull); err == nil {
		os.Stdin = devnull
	}
	code := m.Run()
	_ = os.Chdir("/")
	if os.Getenv("VERIF_KEEP_WORK") == "" {
		_ = os.RemoveAll(wd)
	}
	os.Exit(code)
}

func loadFindings(id string, name string) []finding {
	f, err := os.Open(filepath.Join(Root(), "known_findings.jsonl"))
	if err != nil {
		return nil
	}
	defer f.Close()
	var out []finding
	sc := bufio.NewScanner(f)
	sc.Buffer(make([]byte, 1<<20), 1<<26)
	for sc.Scan() {
		line := strings.TrimSpace(sc.Text())
		if line == "" || strings.HasPrefix(line, "#") {
			continue
		}
		var fd finding
		if err := json.Unmarshal([]byte(line), &fd); err != nil {
			continue
		}
		if fd.Property == id && (fd.Check == name || fd.Check == "") {
			out = append(out, fd)
		}
	}
	return out
}

func hash16(s string) string {
	h := sha256.Sum256([]byte(s))
	return hex.EncodeToString(h[:8])
}

var outMtx sync.Mutex

func say(format string, args ...interface{}) {
	outMtx.Lock()
	fmt.Fprintf(os.Stdout, format+"\n", args...)
	outMtx.Unlock()
}

func writeReplay(id, name string, c interface{}, v *Violation) string {
	caseJSON, err := json.Marshal(c)
	if err != nil {
		caseJSON = []byte(`"unserialisable"`)
	}
	doc := map[string]interface{}{
		"property":  id,
		"check":     name,
		"signature": v.Sig,
		"message":   v.Msg,
		"case":      json.RawMessage(caseJSON),
	}
	b, _ := json.MarshalIndent(doc, "", " ")
	dir := os.Getenv("VERIF_REPLAY_DIR")
	if dir == "" {
		dir = filepath.Join(Root(), "replay")
	}
	_ = os.MkdirAll(dir, 0755)
	p := filepath.Join(dir, fmt.Sprintf("%s-%s-%s.json", id, name, hash16(string(caseJSON))))
	_ = os.WriteFile(p, b, 0644)
	return p
}

// Run executes the property: replay mode, pinned regression cases of the known
// findings, then the generated search.
func Run[C any](t *testing.T, s Spec[C]) {
	start := time.Now()
	shard, shards := Shard()
	part := &Part{
		Property: s.ID, Check: s.Name, Shard: shard, Tier: Tier(),
		Classes: map[string]int{}, Rule: s.Rule, Assumptions: s.Assumptions,
	}
	fps := map[string]bool{}
	sampleFps := map[string]bool{}
	maxSamples := s.MaxSamples
	if maxSamples == 0 {
		maxSamples = 4
	}
	findings := loadFindings(s.ID, s.Name)
	knownSig := map[string]bool{}
	for _, f := range findings {
		if f.Status == "known" {
			knownSig[f.Signature] = true
		}
	}

	record := func(c C, o Outcome) {
		if o.Discard {
			part.Discarded++
			return
		}
		if o.Evals > 1 {
			part.Evaluations += o.Evals
		} else {
			part.Evaluations++
		}
		for _, cl := range o.Classes {
			part.Classes[cl]++
		}
		if o.Fingerprint != "" {
			if !fps[o.Fingerprint] {
				fps[o.Fingerprint] = true
				if len(part.Samples) < maxSamples && !sampleFps[o.Fingerprint] {
					sampleFps[o.Fingerprint] = true
					if b, err := json.Marshal(c); err == nil && len(b) < 20000 {
						part.Samples = append(part.Samples, b)
					}
				}
			}
		}
		for _, f := range o.More {
			fps[f] = true
		}
	}

	violate := func(c C, v *Violation) {
		if v.Sig == "HARNESS" {
			say("ERROR property=%s check=%s: harness failure: %s", s.ID, s.Name, v.Msg)
			if part.Extra == nil {
				part.Extra = map[string]int64{}
			}
			part.Extra["harness_error"]++
			return
		}
		p := writeReplay(s.ID, s.Name, c, v)
		part.Violations++
		part.Replays = append(part.Replays, p)
		say("VIOLATION property=%s replay=%s", s.ID, p)
		say("  check=%s signature=%s: %s", s.Name, v.Sig, v.Msg)
	}

	finish := func() {
		extraMtx.Lock()
		if len(extras) > 0 {
			if part.Extra == nil {
				part.Extra = map[string]int64{}
			}
			for k, v := range extras {
				part.Extra[k] += v
				delete(extras, k)
			}
		}
		extraMtx.Unlock()
		for fp := range fps {
			part.Fingerprints = append(part.Fingerprints, hash16(fp))
		}
		sort.Strings(part.Fingerprints)
		part.WallS = time.Since(start).Seconds()
		if dir := os.Getenv("VERIF_PARTDIR"); dir != "" {
			_ = os.MkdirAll(dir, 0755)
			b, _ := json.Marshal(part)
			_ = os.WriteFile(filepath.Join(dir, fmt.Sprintf("%s.%s.%d.json", s.ID, s.Name, shard)), b, 0644)
		}
	}

	// --- replay mode ---------------------------------------------------
	if rp := os.Getenv("VERIF_REPLAY"); rp != "" {
		b, err := os.ReadFile(rp)
		if err != nil {
			t.Fatalf("replay: %v", err)
		}
		var doc struct {
			Check string          `json:"check"`
			Case  json.RawMessage `json:"case"`
		}
		if err := json.Unmarshal(b, &doc); err != nil {
			t.Fatalf("replay: %v", err)
		}
		if doc.Check != s.Name {
			t.Skip("replay file belongs to another check")
		}
		var c C
		if err := json.Unmarshal(doc.Case, &c); err != nil {
			t.Fatalf("replay: %v", err)
		}
		o, v := safeCheck(s.Check, c)
		record(c, o)
		if v != nil {
			say("VIOLATION property=%s replay=%s", s.ID, rp)
			say("  check=%s signature=%s: %s", s.Name, v.Sig, v.Msg)
			part.Violations++
			finish()
			t.Fail()
			return
		}
		say("REPLAY-OK property=%s check=%s", s.ID, s.Name)
		finish()
		return
	}

	// --- pinned regression cases of the findings file ------------------
	if shard == 0 {
		for _, f := range findings {
			if len(f.Case) == 0 {
				continue
			}
			var c C
			if err := json.Unmarshal(f.Case, &c); err != nil {
				say("NOTE property=%s check=%s: finding case does not decode: %v", s.ID, s.Name, err)
				continue
			}
			o, v := safeCheck(s.Check, c)
			record(c, o)
			switch {
			case v == nil:
				if f.Status == "known" {
					say("NOTE property=%s known finding no longer reproduces: %s", s.ID, f.What)
				}
			case f.Status == "known" && v.Sig == f.Signature:
				msg := fmt.Sprintf("KNOWN-FINDING: property=%s %s", s.ID, f.What)
				say("%s", msg)
				part.KnownPrinted = append(part.KnownPrinted, msg)
			default:
				violate(c, v)
			}
		}
	}

	// --- generated search ----------------------------------------------
	n := s.Quick
	if Tier() == "thorough" {
		n = s.Thorough
	}
	if v := os.Getenv("VERIF_CASES"); v != "" {
		if k, err := strconv.Atoi(v); err == nil {
			n = k
		}
	}
	n = (n + shards - 1) / shards
	if n < 1 {
		n = 1
	}
	part.Requested = n
	seed := ShardSeed(s.ID + "/" + s.Name)
	part.Seed = seed
	_ = flag.Set("rapid.checks", strconv.Itoa(n))
	_ = flag.Set("rapid.seed", strconv.FormatUint(seed, 10))
	_ = flag.Set("rapid.nofailfile", "true")
	if flag.Lookup("rapid.shrinktime") != nil && os.Getenv("VERIF_SHRINKTIME") != "" {
		_ = flag.Set("rapid.shrinktime", os.Getenv("VERIF_SHRINKTIME"))
	}

	var lastCase *C
	var lastViolation *Violation
	ok := t.Run("search", func(t *testing.T) {
		rapid.Check(t, func(rt *rapid.T) {
			c := s.Gen(rt)
			o, v := safeCheck(s.Check, c)
			if v != nil && knownSig[v.Sig] {
				part.ExcludedKnown++
				return
			}
			if v != nil {
				cc := c
				lastCase = &cc
				lastViolation = v
				rt.Fatalf("%s", v.Error())
			}
			record(c, o)
		})
	})
	if !ok {
		if lastCase != nil {
			violate(*lastCase, lastViolation)
		} else {
			say("ERROR property=%s check=%s: search failed without a recorded violation (generator or harness error)", s.ID, s.Name)
			part.Extra = map[string]int64{"harness_error": 1}
		}
	}
	finish()
	if part.Violations > 0 {
		t.Fail()
	}
}

var extraMtx sync.Mutex
var extras = map[string]int64{}

// AddExtra accumulates a measured counter that is written into the evidence
// part of the check that finishes next.
func AddExtra(key string, n int64) {
	extraMtx.Lock()
	extras[key] += n
	extraMtx.Unlock()
}

func safeCheck[C any](check func(c C) (Outcome, *Violation), c C) (o Outcome, v *Violation) {
	defer func() {
		if r := recover(); r != nil {
			buf := make([]byte, 6000)
			buf = buf[:runtime.Stack(buf, false)]
			v = &Violation{Sig: "panic", Msg: fmt.Sprintf("panic: %v\n%s", r, buf)}
		}
	}()
	return check(c)
}

// ---- small helpers used by many checks --------------------------------

// Extra lets a check add measured counters to its evidence part after Run;
// use AddExtra before Run returns via closures instead when needed.

// Pick draws one element of xs.
func Pick[T any](t *rapid.T, label string, xs []T) T {
	return xs[rapid.IntRange(0, len(xs)-1).Draw(t, label)]
}

// Chance draws true with probability about pct/100.
func Chance(t *rapid.T, label string, pct int) bool {
	return rapid.IntRange(0, 99).Draw(t, label) < pct
}

// SortedKeys returns the keys of a string-keyed map in order.
func SortedKeys[V any](m map[string]V) []string {
	ks := make([]string, 0, len(m))
	for k := range m {
		ks = append(ks, k)
	}
	sort.Strings(ks)
	return ks
}

// ---- unbiased draws -----------------------------------------------------
// rapid's integer generators favour small magnitudes and range ends (about a
// third of IntRange(0,99) draws are below 5), which badly skews "with
// probability p" choices. These helpers build the value from fair coin flips;
// shrinking moves towards 0 / false / the first element.

// Uniform draws an integer uniformly from [0, n).
func Uniform(t *rapid.T, label string, n int) int {
	if n <= 1 {
		return 0
	}
	bits := 8
	for (1 << uint(bits-7)) < n {
		bits++
	}
	v := 0
	for i := 0; i < bits; i++ {
		v <<= 1
		if rapid.Bool().Draw(t, label) {
			v |= 1
		}
	}
	return v % n
}

// Pct is true with probability pct/100 (fair).
func Pct(t *rapid.T, label string, pct int) bool {
	return Uniform(t, label, 100) < pct
}

// PickU picks an element uniformly.
func PickU[T any](t *rapid.T, label string, xs []T) T {
	return xs[Uniform(t, label, len(xs))]
}

// Weighted picks an index with probability proportional to its weight.
func Weighted(t *rapid.T, label string, weights []int) int {
	total := 0
	for _, w := range weights {
		total += w
	}
	if total <= 0 {
		return 0
	}
	r := Uniform(t, label, total)
	for i, w := range weights {
		if r < w {
			return i
		}
		r -= w
	}
	return len(weights) - 1
}

// Range draws an integer uniformly from [lo, hi].
func Range(t *rapid.T, label string, lo, hi int) int {
	return lo + Uniform(t, label, hi-lo+1)
}
