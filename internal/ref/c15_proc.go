package ref

// Reference interpreter for the procedural subset of csvq used by property C15
// (blocks and function calls give declarations a local lifetime and safe
// shadowing).  Written from the manual pages variable / control-flow /
// user-defined-function / cursor / temporary-table, not from csvq's code.
//
// The model is an environment stack with textbook rules:
//   - a declaration lands in the innermost block; declaring a name that the
//     SAME block already holds is the "redeclared" error;
//   - a lookup walks the blocks from the innermost outwards;
//   - IF / CASE branches, every WHILE iteration and every function invocation
//     get a fresh block that vanishes when they end;
//   - assignments (and INSERTs, OPEN/CLOSE) act on the innermost visible object
//     and therefore persist in outer objects;
//   - BREAK / CONTINUE / RETURN / EXIT transfer control as documented.
//
// Outcomes the manual leaves open are not predicted: the run is marked
// Discard (with a reason) and the caller must not assert anything.  The most
// important of these zones: a name used inside a function body that resolves
// differently under lexical and under dynamic (caller's chain) scoping.

import (
	"fmt"
	"sort"
	"strconv"
	"strings"
)

// ---------------------------------------------------------------------
// AST (JSON round-trippable: it is the replay file)

// PExpr is an integer-valued expression.
type PExpr struct {
	K    string `json:"k"` // lit null var bin call tcount tmax ccount
	N    int64  `json:"n,omitempty"`
	Name string `json:"name,omitempty"`
	Op   string `json:"op,omitempty"` // + - *
	A    *PExpr `json:"a,omitempty"`
	B    *PExpr `json:"b,omitempty"`
	// call: Multi = the arguments are Args (any number, also none); otherwise the only argument is A
	Multi bool     `json:"multi,omitempty"`
	Args  []*PExpr `json:"args,omitempty"`
	// aggcall: (SELECT Name(v, Args...) FROM Tab) or, without Tab, over the inline rows
	// (SELECT Name(c1, Args...) FROM (SELECT r1 AS c1 UNION ALL SELECT r2 ...) s)
	Tab  string  `json:"tab,omitempty"`
	Rows []int64 `json:"rows,omitempty"`
}

// PParam is one parameter of a function: @Name [DEFAULT Def].
type PParam struct {
	Name string `json:"name"`
	Def  *PExpr `json:"def,omitempty"`
}

// CallArgs returns the argument expressions of a call.
func CallArgs(e *PExpr) []*PExpr {
	if e.Multi || e.K == "aggcall" {
		return e.Args
	}
	return []*PExpr{e.A}
}

// FuncParams returns the parameters of a function declaration: Params when
// present (any number, also none: then NoParams is set), else the single
// required parameter Var.
func FuncParams(s *PStmt) []PParam {
	if len(s.Params) > 0 || s.NoParams || s.K == "agg" {
		return s.Params
	}
	return []PParam{{Name: s.Var}}
}

// PCond is a condition.
type PCond struct {
	K    string `json:"k"`              // true false cmp range isnull curopen curinrange
	Name string `json:"name,omitempty"` // cursor of curopen / curinrange
	Op   string `json:"op,omitempty"`
	A    *PExpr `json:"a,omitempty"`
	B    *PExpr `json:"b,omitempty"`
	Lo   int64  `json:"lo,omitempty"`
	Hi   int64  `json:"hi,omitempty"`
}

// PStmt is a statement.
//
//	var       Kw @Name [:= E]
//	set       @Name := E
//	print     PRINT E
//	printopen PRINT CURSOR Name IS OPEN
//	if        Form if|case|casev, Conds (if, case) or E+Whens (casev), Blocks, Else
//	while     WHILE C DO Body
//	whilein   WHILE [Decl] @Var IN Name DO Body
//	break continue exit
//	return    RETURN [E]
//	func      DECLARE Name FUNCTION (@Var) AS BEGIN Body END
//	          or, with Params / NoParams: DECLARE Name FUNCTION ([@p [DEFAULT e], ...]) AS BEGIN Body END
//	disposevar disposefun disposetab   DISPOSE @Name / DISPOSE FUNCTION Name / DISPOSE VIEW Name
//	exit      EXIT [N]   (N > 0: the procedure ends with the forced-exit error of that code)
//	table     DECLARE Name VIEW (v)
//	insert    INSERT INTO Name VALUES (E)
//	cursor    DECLARE Name CURSOR FOR <Rows literal | SELECT v FROM Table ORDER BY v NULLS FIRST>
//	open close
//	fetch     FETCH [Pos [N]] Name INTO @Var[, @Var2]   (Pos: NEXT PRIOR FIRST LAST ABSOLUTE RELATIVE)
//	dispose   DISPOSE CURSOR Name
//	printrange PRINT CURSOR Name IS IN RANGE
//	prepare   PREPARE Name FROM '<Body>'   (generated at the top of the program only)
//	dyn       Form exec: EXECUTE '<Body>'; prepared: EXECUTE Name (Body repeats the prepared
//	          statements); source: SOURCE '<file holding Body>'. The statements run in the
//	          current block, exactly as if written in place.
type PStmt struct {
	ID      int       `json:"id"`
	K       string    `json:"k"`
	Name    string    `json:"name,omitempty"`
	Kw      string    `json:"kw,omitempty"`
	E       *PExpr    `json:"e,omitempty"`
	Form    string    `json:"form,omitempty"`
	Conds   []PCond   `json:"conds,omitempty"`
	Whens   []PExpr   `json:"whens,omitempty"`
	Blocks  [][]PStmt `json:"blocks,omitempty"`
	Else    []PStmt   `json:"else,omitempty"`
	HasElse bool      `json:"has_else,omitempty"`
	C       *PCond    `json:"c,omitempty"`
	Body    []PStmt   `json:"body,omitempty"`
	Var     string    `json:"var,omitempty"`
	Decl    string    `json:"decl,omitempty"`
	Rows    []int64   `json:"rows,omitempty"`
	Table   string    `json:"table,omitempty"`
	Pos     string    `json:"pos,omitempty"`
	N       int64     `json:"n,omitempty"`
	Var2    string    `json:"var2,omitempty"`
	// func: all parameters (overrides Var); NoParams: a function without parameters
	Params   []PParam `json:"params,omitempty"`
	NoParams bool     `json:"no_params,omitempty"`
	// agg: DECLARE Name AGGREGATE (Cur [, parameters]) AS BEGIN Body END - Cur is the pseudo cursor over the grouped values
	Cur string `json:"cur,omitempty"`
}

// ---------------------------------------------------------------------
// rendering to csvq program text

func RenderPExpr(e *PExpr) string {
	if e == nil {
		return "NULL"
	}
	switch e.K {
	case "lit":
		if e.N < 0 {
			return "(0 - " + strconv.FormatInt(-e.N, 10) + ")"
		}
		return strconv.FormatInt(e.N, 10)
	case "null":
		return "NULL"
	case "var":
		return "@" + e.Name
	case "bin":
		return "(" + RenderPExpr(e.A) + " " + e.Op + " " + RenderPExpr(e.B) + ")"
	case "call":
		args := CallArgs(e)
		parts := make([]string, len(args))
		for i, a := range args {
			parts[i] = RenderPExpr(a)
		}
		return e.Name + "(" + strings.Join(parts, ", ") + ")"
	case "aggcall":
		col, from := "v", e.Tab
		if e.Tab == "" {
			col = "c1"
			parts := make([]string, len(e.Rows))
			for i, r := range e.Rows {
				if i == 0 {
					parts[i] = fmt.Sprintf("SELECT %d AS c1", r)
				} else {
					parts[i] = fmt.Sprintf("SELECT %d", r)
				}
			}
			from = "(" + strings.Join(parts, " UNION ALL ") + ") s"
		}
		args := ""
		for _, a := range e.Args {
			args += ", " + RenderPExpr(a)
		}
		return "(SELECT " + e.Name + "(" + col + args + ") FROM " + from + ")"
	case "tcount":
		return "(SELECT COUNT(*) FROM " + e.Name + ")"
	case "tmax":
		return "(SELECT MAX(v) FROM " + e.Name + ")"
	case "ccount":
		return "(CURSOR " + e.Name + " COUNT)"
	}
	return "?" + e.K
}

func RenderPCond(c *PCond) string {
	switch c.K {
	case "true":
		return "TRUE"
	case "false":
		return "FALSE"
	case "cmp":
		return RenderPExpr(c.A) + " " + c.Op + " " + RenderPExpr(c.B)
	case "range":
		a := RenderPExpr(c.A)
		return fmt.Sprintf("%s >= %d AND %s <= %d", a, c.Lo, a, c.Hi)
	case "isnull":
		return RenderPExpr(c.A) + " IS NULL"
	case "curopen":
		return "CURSOR " + c.Name + " IS OPEN"
	case "curinrange":
		return "CURSOR " + c.Name + " IS IN RANGE"
	}
	return "?" + c.K
}

// RenderProc renders a statement list as csvq program text.
func RenderProc(stmts []PStmt) string { return RenderProcDir(stmts, "") }

// RenderProcDir renders with SOURCE paths placed in dir (see ProcSourceFiles).
func RenderProcDir(stmts []PStmt, dir string) string {
	b := &pBuf{dir: dir}
	renderBlock(b, stmts, 0)
	return b.String()
}

type pBuf struct {
	strings.Builder
	dir string
}

// SourceFileName is the file a dyn/source statement loads.
func SourceFileName(s *PStmt) string { return fmt.Sprintf("c15src_%d.sql", s.ID) }

// ProcSourceFiles returns name -> content of every file a SOURCE statement of the program loads.
func ProcSourceFiles(stmts []PStmt) map[string]string {
	out := map[string]string{}
	WalkProc(stmts, func(s *PStmt, depth int) {
		if s.K == "dyn" && s.Form == "source" {
			out[SourceFileName(s)] = RenderProc(s.Body)
		}
	})
	return out
}

func oneLine(stmts []PStmt, dir string) string {
	t := RenderProcDir(stmts, dir)
	t = strings.Join(strings.Fields(t), " ")
	return strings.ReplaceAll(t, "'", "''")
}

func renderBlock(b *pBuf, stmts []PStmt, ind int) {
	for i := range stmts {
		renderStmt(b, &stmts[i], ind)
	}
}

func renderStmt(b *pBuf, s *PStmt, ind int) {
	pad := strings.Repeat("  ", ind)
	line := func(format string, args ...interface{}) {
		b.WriteString(pad)
		fmt.Fprintf(b, format, args...)
		b.WriteString("\n")
	}
	switch s.K {
	case "var":
		kw := s.Kw
		if kw == "" {
			kw = "VAR"
		}
		if s.E == nil {
			line("%s @%s;", kw, s.Name)
		} else {
			line("%s @%s := %s;", kw, s.Name, RenderPExpr(s.E))
		}
	case "set":
		line("@%s := %s;", s.Name, RenderPExpr(s.E))
	case "print":
		line("PRINT %s;", RenderPExpr(s.E))
	case "printopen":
		line("PRINT CURSOR %s IS OPEN;", s.Name)
	case "if":
		switch s.Form {
		case "case":
			line("CASE")
			for i := range s.Blocks {
				line("WHEN %s THEN", RenderPCond(&s.Conds[i]))
				renderBlock(b, s.Blocks[i], ind+1)
			}
			if s.HasElse {
				line("ELSE")
				renderBlock(b, s.Else, ind+1)
			}
			line("END CASE;")
		case "casev":
			line("CASE %s", RenderPExpr(s.E))
			for i := range s.Blocks {
				line("WHEN %s THEN", RenderPExpr(&s.Whens[i]))
				renderBlock(b, s.Blocks[i], ind+1)
			}
			if s.HasElse {
				line("ELSE")
				renderBlock(b, s.Else, ind+1)
			}
			line("END CASE;")
		default:
			for i := range s.Blocks {
				if i == 0 {
					line("IF %s THEN", RenderPCond(&s.Conds[i]))
				} else {
					line("ELSEIF %s THEN", RenderPCond(&s.Conds[i]))
				}
				renderBlock(b, s.Blocks[i], ind+1)
			}
			if s.HasElse {
				line("ELSE")
				renderBlock(b, s.Else, ind+1)
			}
			line("END IF;")
		}
	case "while":
		line("WHILE %s DO", RenderPCond(s.C))
		renderBlock(b, s.Body, ind+1)
		line("END WHILE;")
	case "whilein":
		d := ""
		if s.Decl != "" {
			d = s.Decl + " "
		}
		line("WHILE %s@%s IN %s DO", d, s.Var, s.Name)
		renderBlock(b, s.Body, ind+1)
		line("END WHILE;")
	case "break":
		line("BREAK;")
	case "continue":
		line("CONTINUE;")
	case "exit":
		if s.N > 0 {
			line("EXIT %d;", s.N)
		} else {
			line("EXIT;")
		}
	case "disposevar":
		line("DISPOSE @%s;", s.Name)
	case "disposefun":
		line("DISPOSE FUNCTION %s;", s.Name)
	case "disposetab":
		line("DISPOSE VIEW %s;", s.Name)
	case "return":
		if s.E == nil {
			line("RETURN;")
		} else {
			line("RETURN %s;", RenderPExpr(s.E))
		}
	case "func":
		ps := FuncParams(s)
		parts := make([]string, len(ps))
		for i, p := range ps {
			parts[i] = "@" + p.Name
			if p.Def != nil {
				parts[i] += " DEFAULT " + RenderPExpr(p.Def)
			}
		}
		line("DECLARE %s FUNCTION (%s) AS BEGIN", s.Name, strings.Join(parts, ", "))
		renderBlock(b, s.Body, ind+1)
		line("END;")
	case "agg":
		parts := []string{s.Cur}
		for _, p := range FuncParams(s) {
			t := "@" + p.Name
			if p.Def != nil {
				t += " DEFAULT " + RenderPExpr(p.Def)
			}
			parts = append(parts, t)
		}
		line("DECLARE %s AGGREGATE (%s) AS BEGIN", s.Name, strings.Join(parts, ", "))
		renderBlock(b, s.Body, ind+1)
		line("END;")
	case "table":
		line("DECLARE %s VIEW (v);", s.Name)
	case "insert":
		line("INSERT INTO %s VALUES (%s);", s.Name, RenderPExpr(s.E))
	case "cursor":
		if s.Table != "" {
			line("DECLARE %s CURSOR FOR SELECT v FROM %s ORDER BY v NULLS FIRST;", s.Name, s.Table)
		} else {
			parts := make([]string, len(s.Rows))
			for i, r := range s.Rows {
				if i == 0 {
					parts[i] = fmt.Sprintf("SELECT %d AS c1", r)
				} else {
					parts[i] = fmt.Sprintf("SELECT %d", r)
				}
			}
			line("DECLARE %s CURSOR FOR %s;", s.Name, strings.Join(parts, " UNION ALL "))
		}
	case "open":
		line("OPEN %s;", s.Name)
	case "close":
		line("CLOSE %s;", s.Name)
	case "dispose":
		line("DISPOSE CURSOR %s;", s.Name)
	case "prepare":
		line("PREPARE %s FROM '%s';", s.Name, oneLine(s.Body, b.dir))
	case "dyn":
		switch s.Form {
		case "prepared":
			line("EXECUTE %s;", s.Name)
		case "source":
			p := SourceFileName(s)
			if b.dir != "" {
				p = b.dir + "/" + p
			}
			line("SOURCE '%s';", p)
		default:
			line("EXECUTE '%s';", oneLine(s.Body, b.dir))
		}
	case "printrange":
		line("PRINT CURSOR %s IS IN RANGE;", s.Name)
	case "fetch":
		pos := ""
		switch s.Pos {
		case "NEXT", "PRIOR", "FIRST", "LAST":
			pos = s.Pos + " "
		case "ABSOLUTE", "RELATIVE":
			pos = s.Pos + " " + RenderPExpr(&PExpr{K: "lit", N: s.N}) + " "
		}
		vars := "@" + s.Var
		if s.Var2 != "" {
			vars += ", @" + s.Var2
		}
		line("FETCH %s%s INTO %s;", pos, s.Name, vars)
	default:
		line("-- ?%s", s.K)
	}
}

// ---------------------------------------------------------------------
// values

// PVal is an integer or NULL.
type PVal struct {
	Null bool
	N    int64
}

func (v PVal) String() string {
	if v.Null {
		return "NULL"
	}
	return strconv.FormatInt(v.N, 10)
}

var pNull = PVal{Null: true}

// Error classes predicted by the model.
const (
	PErrUndeclVar   = "undeclared_var"
	PErrRedeclVar   = "redeclared_var"
	PErrUndeclFunc  = "undeclared_func"
	PErrRedeclFunc  = "redeclared_func"
	PErrUndeclCur   = "undeclared_cursor"
	PErrRedeclCur   = "redeclared_cursor"
	PErrCurClosed   = "cursor_closed"
	PErrCurOpen     = "cursor_open"
	PErrFetchLength = "fetch_length"
	PErrUndeclTable = "undeclared_table"
	PErrRedeclTable = "redeclared_table"
	PErrArgLength   = "argument_length"
	PErrUndeclTemp  = "undeclared_temporary_table" // DISPOSE VIEW of a name that is not a visible temporary table
	PErrForcedExit  = "forced_exit"                // EXIT n with n > 0
)

type pErr struct {
	class   string
	discard bool // not an error of the program: the outcome is outside the model
}

func perr(class string) *pErr      { return &pErr{class: class} }
func pdiscard(reason string) *pErr { return &pErr{class: reason, discard: true} }

// ---------------------------------------------------------------------
// environment

type pObj struct {
	kind    byte // v c t f
	name    string
	frame   *pFrame
	val     PVal   // v
	rows    []PVal // t
	decl    *PStmt // c, f
	open    bool   // c
	view    []PVal // c: snapshot taken at OPEN
	idx     int    // c
	fetched bool   // c: a FETCH happened since OPEN
	fuzzy   bool   // c: the pointer was sent beyond [-1, len]; where it rests is not documented
	tainted bool   // v: target of a fetch that found no record (NULL by the manual, unchanged in csvq)
	// an inner declaration of the same name shadowed this object and the
	// shadowing block has ended since
	released bool
	active   int  // f: invocations in progress
	pseudo   bool // c: the pseudo cursor of an aggregate invocation (cannot be opened, closed or disposed)
}

type pFrame struct {
	id      int
	objs    map[string]*pObj
	dyn     *pFrame // the chain csvq walks (caller's chain for invocations)
	lex     *pFrame // the chain of the program text (defining block for invocations)
	shadows []*pObj
	isInv   bool
}

func key(kind byte, name string) string {
	if kind == 'v' {
		return "v:" + name
	}
	return string(kind) + ":" + strings.ToUpper(name)
}

// POpt configures a run.
type POpt struct {
	// TableNoShadow models csvq's observed behaviour that DECLARE ... VIEW
	// fails with "redeclared" when the name is visible anywhere in the caller
	// chain (used only to classify a failure, never as the oracle).
	TableNoShadow bool
	MaxSteps      int // default 4000
	MaxDepth      int // call depth, default 12
}

// PStats describes what a run exercised.
type PStats struct {
	Steps             int
	ShadowDecls       int // declarations that shadowed an outer object
	ShadowReadAfter   int // uses of an outer object after the block that shadowed it ended
	MaxRecDepth       int // max simultaneous invocations of one function
	Calls             int
	LoopIters         int
	MaxBlockDepth     int
	ErrDepth          int            // number of live blocks (1 = top level only) at the statement that raised the terminating error
	DisposeUnshadow   int            // DISPOSE of an object that shadowed an outer one (the outer one is visible again)
	DefaultOverShadow int            // DEFAULT values evaluated that read an earlier parameter which shadows a variable of the caller chain
	TableShadowStmt   int            // id of the first executed table declaration that shadows an outer table (0: none)
	Exec              map[string]int // executed statement kinds
	ShadowKinds       map[string]int // shadowing declarations by object kind (v c t f p)
	ReadAfterKinds    map[string]int
}

// PResult is the prediction.
type PResult struct {
	Out     []string
	Err     string // "" or an error class
	Exit    bool
	Discard string // non-empty: outcome outside the model, nothing may be asserted
	Stats   PStats
}

type pFlow int

const (
	fNone pFlow = iota
	fBreak
	fContinue
	fReturn
	fExit
)

type interp struct {
	opt      POpt
	out      []string
	st       PStats
	frameID  int
	depth    int
	retVal   PVal
	top      *pFrame
	prepared map[string][]PStmt
}

func newInterp(opt POpt) *interp {
	if opt.MaxSteps == 0 {
		opt.MaxSteps = 4000
	}
	if opt.MaxDepth == 0 {
		opt.MaxDepth = 12
	}
	in := &interp{opt: opt, prepared: map[string][]PStmt{}}
	in.st.Exec = map[string]int{}
	in.st.ShadowKinds = map[string]int{}
	in.st.ReadAfterKinds = map[string]int{}
	in.top = in.newFrame(nil, nil)
	return in
}

func (in *interp) newFrame(dyn, lex *pFrame) *pFrame {
	in.frameID++
	return &pFrame{id: in.frameID, objs: map[string]*pObj{}, dyn: dyn, lex: lex}
}

func (in *interp) popFrame(f *pFrame) {
	for _, o := range f.shadows {
		o.released = true
	}
	f.shadows = nil
	f.objs = map[string]*pObj{}
}

func blockDepth(f *pFrame) int {
	n := 0
	for ; f != nil; f = f.dyn {
		n++
	}
	return n
}

func findDyn(kind byte, name string, f *pFrame) *pObj {
	k := key(kind, name)
	for ; f != nil; f = f.dyn {
		if o, ok := f.objs[k]; ok {
			return o
		}
	}
	return nil
}

func findLex(kind byte, name string, f *pFrame) *pObj {
	k := key(kind, name)
	for ; f != nil; f = f.lex {
		if o, ok := f.objs[k]; ok {
			return o
		}
	}
	return nil
}

// lookup resolves a name for use. The second result is a discard when the
// manual does not determine the resolution: a function name that lexical and
// dynamic scoping resolve differently, or a variable / cursor / table found
// outside the function invocation that uses it (whether a function body sees
// outer objects at all is not documented).
func (in *interp) lookup(kind byte, name string, f *pFrame) (*pObj, *pErr) {
	d := findDyn(kind, name, f)
	l := findLex(kind, name, f)
	if d != l {
		return nil, pdiscard("lexical_vs_dynamic_" + string(kind))
	}
	if d != nil && kind != 'f' {
		for x := f; x != d.frame; x = x.dyn {
			if x.isInv {
				return nil, pdiscard("free_name_in_function_" + string(kind))
			}
		}
	}
	if d != nil && d.released {
		in.st.ShadowReadAfter++
		in.st.ReadAfterKinds[string(kind)]++
	}
	return d, nil
}

func (in *interp) declare(kind byte, name string, f *pFrame, o *pObj, redecl string, asParam bool) *pErr {
	k := key(kind, name)
	if _, ok := f.objs[k]; ok {
		return perr(redecl)
	}
	outer := findDyn(kind, name, f.dyn)
	if outer != nil {
		f.shadows = append(f.shadows, outer)
		in.st.ShadowDecls++
		sk := string(kind)
		if asParam && kind == 'v' {
			sk = "p"
		} else if asParam {
			sk = "pseudo_cursor"
		}
		in.st.ShadowKinds[sk]++
	}
	o.kind, o.name, o.frame = kind, name, f
	f.objs[k] = o
	return nil
}

// ---------------------------------------------------------------------
// expressions

func hasCall(e *PExpr) bool {
	if e == nil {
		return false
	}
	if e.K == "call" || e.K == "aggcall" {
		return true
	}
	for _, a := range e.Args {
		if hasCall(a) {
			return true
		}
	}
	return hasCall(e.A) || hasCall(e.B)
}

// mentionsVar: the expression reads variable name somewhere.
func mentionsVar(e *PExpr, name string) bool {
	if e == nil {
		return false
	}
	if e.K == "var" && e.Name == name {
		return true
	}
	for _, a := range e.Args {
		if mentionsVar(a, name) {
			return true
		}
	}
	return mentionsVar(e.A, name) || mentionsVar(e.B, name)
}

const pMaxAbs = int64(1) << 40

func (in *interp) eval(e *PExpr, f *pFrame) (PVal, *pErr) {
	if e == nil {
		return pNull, nil
	}
	switch e.K {
	case "lit":
		return PVal{N: e.N}, nil
	case "null":
		return pNull, nil
	case "var":
		o, d := in.lookup('v', e.Name, f)
		if d != nil {
			return pNull, d
		}
		if o == nil {
			return pNull, perr(PErrUndeclVar)
		}
		if o.tainted {
			return pNull, pdiscard("value_after_fetch_without_record")
		}
		return o.val, nil
	case "bin":
		return in.evalPair(e.A, e.B, f, func(a, b PVal) PVal {
			if a.Null || b.Null {
				return pNull
			}
			switch e.Op {
			case "+":
				return PVal{N: a.N + b.N}
			case "-":
				return PVal{N: a.N - b.N}
			default:
				return PVal{N: a.N * b.N}
			}
		})
	case "call", "aggcall":
		fo, d := in.lookup('f', e.Name, f)
		if d != nil {
			return pNull, d
		}
		if fo != nil && (fo.decl.K == "agg") != (e.K == "aggcall") {
			return pNull, pdiscard("scalar_aggregate_kind_mismatch")
		}
		var list []PVal
		var terr *pErr
		if e.K == "aggcall" {
			if e.Tab != "" {
				t, d := in.lookup('t', e.Tab, f)
				if d != nil {
					return pNull, d
				}
				if t == nil {
					terr = perr(PErrUndeclTable)
				} else {
					list = append(list, t.rows...)
				}
			} else {
				for _, r := range e.Rows {
					list = append(list, PVal{N: r})
				}
			}
		}
		argExprs := CallArgs(e)
		args := make([]PVal, len(argExprs))
		var err *pErr
		for i, a := range argExprs {
			if hasCall(a) {
				return pNull, pdiscard("nested_call_argument")
			}
			v, aerr := in.eval(a, f)
			if aerr != nil && aerr.discard {
				return pNull, aerr
			}
			if aerr != nil && err != nil && aerr.class != err.class {
				return pNull, pdiscard("two_errors_in_call")
			}
			if aerr != nil && err == nil {
				err = aerr
			}
			args[i] = v
		}
		if terr != nil {
			if fo == nil || err != nil || !argCountOK(FuncParams(fo.decl), len(args)) {
				return pNull, pdiscard("two_errors_in_call")
			}
			return pNull, terr
		}
		if fo == nil && err != nil {
			return pNull, pdiscard("two_errors_in_call")
		}
		if fo == nil {
			return pNull, perr(PErrUndeclFunc)
		}
		if err != nil {
			if !argCountOK(FuncParams(fo.decl), len(args)) {
				return pNull, pdiscard("two_errors_in_call")
			}
			return pNull, err
		}
		return in.invoke(fo, args, f, list)
	case "tcount", "tmax":
		o, d := in.lookup('t', e.Name, f)
		if d != nil {
			return pNull, d
		}
		if o == nil {
			return pNull, perr(PErrUndeclTable)
		}
		if e.K == "tcount" {
			return PVal{N: int64(len(o.rows))}, nil
		}
		best := pNull
		for _, r := range o.rows {
			if !r.Null && (best.Null || r.N > best.N) {
				best = r
			}
		}
		return best, nil
	case "ccount":
		o, d := in.lookup('c', e.Name, f)
		if d != nil {
			return pNull, d
		}
		if o == nil {
			return pNull, perr(PErrUndeclCur)
		}
		if !o.open {
			return pNull, perr(PErrCurClosed)
		}
		return PVal{N: int64(len(o.view))}, nil
	}
	return pNull, pdiscard("unknown_expr_" + e.K)
}

// evalPair evaluates two operands whose evaluation order and short-circuiting
// are not documented (csvq, for one, skips the right operand of an arithmetic
// or comparison operator when the left one is NULL): whenever order or
// skipping could be observed the run is discarded.
func (in *interp) evalPair(a, b *PExpr, f *pFrame, op func(a, b PVal) PVal) (PVal, *pErr) {
	if hasCall(a) && hasCall(b) {
		return pNull, pdiscard("two_calls_in_expression")
	}
	va, ea := in.eval(a, f)
	if ea != nil {
		if ea.discard {
			return pNull, ea
		}
		if hasCall(b) {
			return pNull, pdiscard("error_beside_call")
		}
		vb, eb := in.eval(b, f)
		if eb != nil && (eb.discard || eb.class != ea.class) {
			return pNull, pdiscard("two_errors_in_expression")
		}
		if eb == nil && vb.Null {
			return pNull, pdiscard("error_beside_null_operand")
		}
		return pNull, ea
	}
	if va.Null && hasCall(b) {
		return pNull, pdiscard("call_beside_null_operand")
	}
	vb, eb := in.eval(b, f)
	if eb != nil {
		if eb.discard {
			return pNull, eb
		}
		if hasCall(a) {
			return pNull, pdiscard("error_beside_call")
		}
		if va.Null {
			return pNull, pdiscard("error_beside_null_operand")
		}
		return pNull, eb
	}
	if vb.Null && hasCall(a) {
		return pNull, pdiscard("call_beside_null_operand")
	}
	r := op(va, vb)
	if !r.Null && (r.N > pMaxAbs || r.N < -pMaxAbs) {
		return pNull, pdiscard("integer_magnitude")
	}
	return r, nil
}

// evalCond returns 1 (TRUE), 0 (UNKNOWN), -1 (FALSE).
func (in *interp) evalCond(c *PCond, f *pFrame) (int, *pErr) {
	switch c.K {
	case "true":
		return T, nil
	case "false":
		return F, nil
	case "cmp":
		res := U
		_, err := in.evalPair(c.A, c.B, f, func(a, b PVal) PVal {
			if a.Null || b.Null {
				return pNull
			}
			var ok bool
			switch c.Op {
			case "=":
				ok = a.N == b.N
			case "<>":
				ok = a.N != b.N
			case "<":
				ok = a.N < b.N
			case "<=":
				ok = a.N <= b.N
			case ">":
				ok = a.N > b.N
			default:
				ok = a.N >= b.N
			}
			if ok {
				res = T
			} else {
				res = F
			}
			return pNull
		})
		return res, err
	case "range":
		if hasCall(c.A) {
			return U, pdiscard("call_in_range_condition")
		}
		v, err := in.eval(c.A, f)
		if err != nil {
			return U, err
		}
		if v.Null {
			return U, nil
		}
		if v.N >= c.Lo && v.N <= c.Hi {
			return T, nil
		}
		return F, nil
	case "isnull":
		v, err := in.eval(c.A, f)
		if err != nil {
			return U, err
		}
		if v.Null {
			return T, nil
		}
		return F, nil
	case "curopen", "curinrange":
		o, d := in.lookup('c', c.Name, f)
		if d != nil {
			return U, d
		}
		if o == nil {
			return U, perr(PErrUndeclCur)
		}
		if c.K == "curopen" {
			if o.open {
				return T, nil
			}
			return F, nil
		}
		return in.inRange(o)
	}
	return U, pdiscard("unknown_cond_" + c.K)
}

// inRange: CURSOR c IS IN RANGE.
func (in *interp) inRange(o *pObj) (int, *pErr) {
	if !o.open {
		return U, perr(PErrCurClosed)
	}
	if !o.fetched {
		return U, nil
	}
	if o.idx >= 0 && o.idx < len(o.view) {
		return T, nil
	}
	return F, nil
}

// argCountOK: the documented call syntax - all required parameters, then any prefix of the optional ones.
func argCountOK(ps []PParam, n int) bool {
	required := 0
	for i, p := range ps {
		if p.Def == nil {
			required = i + 1
		}
	}
	return n >= required && n <= len(ps)
}

func (in *interp) invoke(fo *pObj, args []PVal, caller *pFrame, list []PVal) (PVal, *pErr) {
	in.depth++
	defer func() { in.depth-- }()
	if in.depth > in.opt.MaxDepth {
		return pNull, pdiscard("call_depth")
	}
	in.st.Calls++
	fo.active++
	defer func() { fo.active-- }()
	if fo.active > in.st.MaxRecDepth {
		in.st.MaxRecDepth = fo.active
	}
	fr := in.newFrame(caller, fo.frame)
	fr.isInv = true
	defer in.popFrame(fr)
	ps := FuncParams(fo.decl)
	if !argCountOK(ps, len(args)) {
		return pNull, perr(PErrArgLength)
	}
	if fo.decl.K == "agg" {
		// the grouped values are a cursor of THIS invocation's block: open, before the first record
		in.st.Exec["call:aggregate"]++
		pc := &pObj{open: true, view: list, idx: -1, pseudo: true}
		if err := in.declare('c', fo.decl.Cur, fr, pc, PErrRedeclCur, true); err != nil {
			return pNull, err
		}
	}
	if len(ps) > 1 {
		in.st.Exec["call:multi_param"]++
	}
	if len(ps) == 0 {
		in.st.Exec["call:no_param"]++
	}
	// Every parameter is a variable of THIS invocation's block, bound in the order
	// of the declaration: passed arguments first, then the DEFAULT value of each
	// omitted optional parameter, evaluated inside the invocation so that it sees
	// the parameters bound before it (and never a caller's variable of that name).
	for i, p := range ps {
		var v PVal
		if i < len(args) {
			v = args[i]
		} else {
			if hasCall(p.Def) {
				return pNull, pdiscard("call_in_default_value")
			}
			own := false
			for j, q := range ps {
				if mentionsVar(p.Def, q.Name) {
					if j >= i {
						// a default that reads itself or a later parameter: what it sees is not documented
						return pNull, pdiscard("default_reads_unbound_parameter")
					}
					own = true
				}
			}
			dv, derr := in.eval(p.Def, fr)
			if derr != nil {
				return pNull, derr
			}
			v = dv
			in.st.Exec["default:evaluated"]++
			if own {
				in.st.Exec["default:reads_earlier_parameter"]++
				for j := 0; j < i; j++ {
					if mentionsVar(p.Def, ps[j].Name) && findDyn('v', ps[j].Name, caller) != nil {
						in.st.DefaultOverShadow++
						in.st.Exec["default:reads_parameter_shadowing_caller_variable"]++
						break
					}
				}
			}
		}
		if err := in.declare('v', p.Name, fr, &pObj{val: v}, PErrRedeclVar, true); err != nil {
			return pNull, pdiscard("duplicate_parameter")
		}
	}
	in.retVal = pNull
	flow, err := in.execBlock(fo.decl.Body, fr)
	if err != nil {
		return pNull, err
	}
	switch flow {
	case fReturn:
		v := in.retVal
		in.retVal = pNull
		return v, nil
	case fNone:
		return pNull, nil
	}
	return pNull, pdiscard("loop_or_exit_flow_leaves_function")
}

// ---------------------------------------------------------------------
// statements

func (in *interp) execBlock(stmts []PStmt, f *pFrame) (pFlow, *pErr) {
	if d := blockDepth(f); d > in.st.MaxBlockDepth {
		in.st.MaxBlockDepth = d
	}
	for i := range stmts {
		flow, err := in.execStmt(&stmts[i], f)
		if err != nil {
			if !err.discard && in.st.ErrDepth == 0 {
				in.st.ErrDepth = blockDepth(f)
			}
			return fNone, err
		}
		if flow != fNone {
			return flow, nil
		}
	}
	return fNone, nil
}

func (in *interp) execChild(stmts []PStmt, f *pFrame) (pFlow, *pErr) {
	child := in.newFrame(f, f)
	defer in.popFrame(child)
	return in.execBlock(stmts, child)
}

func (in *interp) execStmt(s *PStmt, f *pFrame) (pFlow, *pErr) {
	in.st.Steps++
	if in.st.Steps > in.opt.MaxSteps {
		return fNone, pdiscard("step_budget")
	}
	in.st.Exec[s.K]++
	switch s.K {
	case "var":
		v := pNull
		var err *pErr
		if s.E != nil {
			v, err = in.eval(s.E, f)
		}
		_, exists := f.objs[key('v', s.Name)]
		if err != nil {
			if !err.discard && exists {
				return fNone, pdiscard("two_errors_in_declaration")
			}
			return fNone, err
		}
		if exists && hasCall(s.E) {
			return fNone, pdiscard("redeclaration_beside_call")
		}
		return fNone, in.declare('v', s.Name, f, &pObj{val: v}, PErrRedeclVar, false)
	case "set":
		v, err := in.eval(s.E, f)
		if err != nil && err.discard {
			return fNone, err
		}
		o, d := in.lookup('v', s.Name, f)
		if d != nil {
			return fNone, d
		}
		if err != nil {
			if o == nil && err.class != PErrUndeclVar {
				return fNone, pdiscard("two_errors_in_assignment")
			}
			return fNone, err
		}
		if o == nil {
			if hasCall(s.E) {
				return fNone, pdiscard("undeclared_target_beside_call")
			}
			return fNone, perr(PErrUndeclVar)
		}
		o.val, o.tainted = v, false
		return fNone, nil
	case "print":
		v, err := in.eval(s.E, f)
		if err != nil {
			return fNone, err
		}
		in.out = append(in.out, v.String())
		return fNone, nil
	case "printopen":
		o, d := in.lookup('c', s.Name, f)
		if d != nil {
			return fNone, d
		}
		if o == nil {
			return fNone, perr(PErrUndeclCur)
		}
		if o.open {
			in.out = append(in.out, "TRUE")
		} else {
			in.out = append(in.out, "FALSE")
		}
		return fNone, nil
	case "if":
		if s.Form == "casev" {
			if hasCall(s.E) {
				return fNone, pdiscard("call_in_case_value")
			}
			v, err := in.eval(s.E, f)
			if err != nil {
				return fNone, err
			}
			for i := range s.Blocks {
				w, err := in.eval(&s.Whens[i], f)
				if err != nil {
					return fNone, err
				}
				if !v.Null && !w.Null && v.N == w.N {
					return in.execChild(s.Blocks[i], f)
				}
			}
		} else {
			for i := range s.Blocks {
				t, err := in.evalCond(&s.Conds[i], f)
				if err != nil {
					return fNone, err
				}
				if t == T {
					return in.execChild(s.Blocks[i], f)
				}
			}
		}
		if s.HasElse {
			return in.execChild(s.Else, f)
		}
		return fNone, nil
	case "while":
		for {
			child := in.newFrame(f, f)
			t, err := in.evalCond(s.C, child)
			if err != nil {
				in.popFrame(child)
				return fNone, err
			}
			if t != T {
				in.popFrame(child)
				return fNone, nil
			}
			in.st.LoopIters++
			flow, err := in.execBlock(s.Body, child)
			in.popFrame(child)
			if err != nil {
				return fNone, err
			}
			switch flow {
			case fBreak:
				return fNone, nil
			case fExit, fReturn:
				return flow, nil
			}
			in.st.Steps++
			if in.st.Steps > in.opt.MaxSteps {
				return fNone, pdiscard("step_budget")
			}
		}
	case "whilein":
		for {
			child := in.newFrame(f, f)
			if s.Decl != "" {
				if err := in.declare('v', s.Var, child, &pObj{val: pNull}, PErrRedeclVar, false); err != nil {
					in.popFrame(child)
					return fNone, err
				}
			}
			cur, d := in.lookup('c', s.Name, child)
			if d != nil {
				in.popFrame(child)
				return fNone, d
			}
			target, d := in.lookup('v', s.Var, child)
			if d != nil {
				in.popFrame(child)
				return fNone, d
			}
			var cerr *pErr
			if cur == nil {
				cerr = perr(PErrUndeclCur)
			} else if !cur.open {
				cerr = perr(PErrCurClosed)
			}
			if cerr != nil {
				in.popFrame(child)
				if target == nil {
					return fNone, pdiscard("two_errors_in_while_in")
				}
				return fNone, cerr
			}
			if cur.fuzzy {
				in.popFrame(child)
				return fNone, pdiscard("relative_fetch_after_far_out_of_range")
			}
			cur.idx++
			cur.fetched = true
			if cur.idx >= len(cur.view) {
				cur.idx = len(cur.view)
				in.popFrame(child)
				if target == nil {
					// whether the missing variable is noticed without a row to store is not documented
					return fNone, pdiscard("undeclared_fetch_target_without_row")
				}
				return fNone, nil
			}
			if target == nil {
				in.popFrame(child)
				return fNone, perr(PErrUndeclVar)
			}
			target.val, target.tainted = cur.view[cur.idx], false
			in.st.LoopIters++
			flow, err := in.execBlock(s.Body, child)
			in.popFrame(child)
			if err != nil {
				return fNone, err
			}
			switch flow {
			case fBreak:
				return fNone, nil
			case fExit, fReturn:
				return flow, nil
			}
			in.st.Steps++
			if in.st.Steps > in.opt.MaxSteps {
				return fNone, pdiscard("step_budget")
			}
		}
	case "break":
		return fBreak, nil
	case "continue":
		return fContinue, nil
	case "exit":
		if s.N > 0 {
			return fNone, perr(PErrForcedExit + ":" + strconv.FormatInt(s.N, 10))
		}
		return fExit, nil
	case "disposevar", "disposefun", "disposetab":
		kind, missing := byte('v'), PErrUndeclVar
		switch s.K {
		case "disposefun":
			kind, missing = 'f', PErrUndeclFunc
		case "disposetab":
			kind, missing = 't', PErrUndeclTemp
		}
		o, d := in.lookup(kind, s.Name, f)
		if d != nil {
			return fNone, d
		}
		if o == nil {
			return fNone, perr(missing)
		}
		if kind == 'f' {
			if o.active > 0 {
				return fNone, pdiscard("dispose_of_running_function")
			}
			for x := f; x != o.frame; x = x.dyn {
				if x.isInv {
					// the effect on the other invocations / the caller is outside the model
					return fNone, pdiscard("dispose_of_outer_function_in_function")
				}
			}
		}
		if o.frame != f {
			in.st.Exec["dispose_outer:"+string(kind)]++
		}
		if findDyn(kind, s.Name, o.frame.dyn) != nil {
			// the disposed object was shadowing an outer one, which is visible again from here on
			in.st.Exec["dispose_unshadows:"+string(kind)]++
			in.st.DisposeUnshadow++
			kept := o.frame.shadows[:0]
			for _, sh := range o.frame.shadows {
				if !(sh.kind == kind && key(kind, sh.name) == key(kind, s.Name)) {
					kept = append(kept, sh)
				} else {
					sh.released = true
				}
			}
			o.frame.shadows = kept
		}
		delete(o.frame.objs, key(kind, s.Name))
		return fNone, nil
	case "return":
		v, err := in.eval(s.E, f)
		if err != nil {
			return fNone, err
		}
		in.retVal = v
		return fReturn, nil
	case "func", "agg":
		ps := FuncParams(s)
		optional := false
		for i, p := range ps {
			for j := 0; j < i; j++ {
				if ps[j].Name == p.Name {
					return fNone, pdiscard("duplicate_parameter")
				}
			}
			if p.Def != nil {
				optional = true
			} else if optional {
				return fNone, pdiscard("required_parameter_after_optional") // not in the grammar
			}
		}
		return fNone, in.declare('f', s.Name, f, &pObj{decl: s}, PErrRedeclFunc, false)
	case "table":
		if outer := findDyn('t', s.Name, f.dyn); outer != nil {
			if _, same := f.objs[key('t', s.Name)]; !same {
				if in.st.TableShadowStmt == 0 {
					in.st.TableShadowStmt = s.ID
				}
				if in.opt.TableNoShadow {
					return fNone, perr(PErrRedeclTable)
				}
			}
		}
		return fNone, in.declare('t', s.Name, f, &pObj{}, PErrRedeclTable, false)
	case "insert":
		if hasCall(s.E) {
			return fNone, pdiscard("call_in_insert")
		}
		o, d := in.lookup('t', s.Name, f)
		if d != nil {
			return fNone, d
		}
		v, err := in.eval(s.E, f)
		if err != nil && err.discard {
			return fNone, err
		}
		if o == nil && err != nil {
			return fNone, pdiscard("two_errors_in_insert")
		}
		if o == nil {
			return fNone, perr(PErrUndeclTable)
		}
		if err != nil {
			return fNone, err
		}
		o.rows = append(o.rows, v)
		return fNone, nil
	case "cursor":
		return fNone, in.declare('c', s.Name, f, &pObj{decl: s}, PErrRedeclCur, false)
	case "open":
		o, d := in.lookup('c', s.Name, f)
		if d != nil {
			return fNone, d
		}
		if o == nil {
			return fNone, perr(PErrUndeclCur)
		}
		if o.pseudo {
			return fNone, pdiscard("pseudo_cursor_operation")
		}
		if o.open {
			return fNone, perr(PErrCurOpen)
		}
		var view []PVal
		if o.decl.Table != "" {
			// the query runs at OPEN: the table seen from the OPEN statement
			// and the one seen from the cursor's declaration block must agree
			t, d := in.lookup('t', o.decl.Table, f)
			if d != nil {
				return fNone, d
			}
			if findDyn('t', o.decl.Table, o.frame) != t {
				return fNone, pdiscard("cursor_query_table_resolution")
			}
			if t == nil {
				return fNone, perr(PErrUndeclTable)
			}
			view = append(view, t.rows...)
			sort.SliceStable(view, func(i, j int) bool {
				a, b := view[i], view[j]
				if a.Null != b.Null {
					return a.Null
				}
				return !a.Null && a.N < b.N
			})
		} else {
			for _, r := range o.decl.Rows {
				view = append(view, PVal{N: r})
			}
		}
		o.open, o.view, o.idx, o.fetched, o.fuzzy = true, view, -1, false, false
		return fNone, nil
	case "close":
		o, d := in.lookup('c', s.Name, f)
		if d != nil {
			return fNone, d
		}
		if o == nil {
			return fNone, perr(PErrUndeclCur)
		}
		if o.pseudo {
			return fNone, pdiscard("pseudo_cursor_operation")
		}
		if !o.open {
			return fNone, pdiscard("close_of_closed_cursor")
		}
		o.open, o.view, o.idx, o.fetched, o.fuzzy = false, nil, 0, false, false
		return fNone, nil
	case "prepare":
		if _, dup := in.prepared[s.Name]; dup {
			return fNone, pdiscard("duplicate_prepared_statement")
		}
		in.prepared[s.Name] = s.Body
		return fNone, nil
	case "dyn":
		body := s.Body
		if s.Form == "prepared" {
			p, ok := in.prepared[s.Name]
			if !ok {
				return fNone, pdiscard("unknown_prepared_statement")
			}
			body = p
		}
		in.st.Exec["dyn:"+s.Form]++
		for i := range body {
			in.st.Exec["dyn_decl:"+body[i].K]++
			flow, err := in.execStmt(&body[i], f)
			if err != nil || flow != fNone {
				return flow, err
			}
		}
		return fNone, nil
	case "dispose":
		o, d := in.lookup('c', s.Name, f)
		if d != nil {
			return fNone, d
		}
		if o == nil {
			return fNone, perr(PErrUndeclCur)
		}
		if o.pseudo {
			return fNone, pdiscard("pseudo_cursor_operation")
		}
		delete(o.frame.objs, key('c', s.Name))
		return fNone, nil
	case "printrange":
		o, d := in.lookup('c', s.Name, f)
		if d != nil {
			return fNone, d
		}
		if o == nil {
			return fNone, perr(PErrUndeclCur)
		}
		t, err := in.inRange(o)
		if err != nil {
			return fNone, err
		}
		in.out = append(in.out, TernName(t))
		return fNone, nil
	case "fetch":
		cur, d := in.lookup('c', s.Name, f)
		if d != nil {
			return fNone, d
		}
		names := []string{s.Var}
		if s.Var2 != "" {
			names = append(names, s.Var2)
		}
		targets := make([]*pObj, len(names))
		missing := false
		for i, n := range names {
			t, d := in.lookup('v', n, f)
			if d != nil {
				return fNone, d
			}
			targets[i] = t
			if t == nil {
				missing = true
			}
		}
		var cerr *pErr
		if cur == nil {
			cerr = perr(PErrUndeclCur)
		} else if !cur.open {
			cerr = perr(PErrCurClosed)
		}
		if cerr != nil {
			if missing {
				return fNone, pdiscard("two_errors_in_fetch")
			}
			return fNone, cerr
		}
		n := len(cur.view)
		idx := cur.idx
		switch s.Pos {
		case "", "NEXT", "PRIOR", "RELATIVE":
			if cur.fuzzy {
				return fNone, pdiscard("relative_fetch_after_far_out_of_range")
			}
			switch s.Pos {
			case "PRIOR":
				idx--
			case "RELATIVE":
				idx += int(s.N)
			default:
				idx++
			}
		case "FIRST":
			idx = 0
		case "LAST":
			idx = n - 1
		case "ABSOLUTE":
			idx = int(s.N)
		default:
			return fNone, pdiscard("unknown_fetch_position")
		}
		cur.fetched = true
		cur.fuzzy = idx < -1 || idx > n
		if idx < 0 {
			idx = -1
		}
		if idx > n {
			idx = n
		}
		cur.idx = idx
		if idx < 0 || idx >= n {
			// no record: NULLs by the manual, variables untouched in csvq -> their value is not predicted
			if missing {
				return fNone, pdiscard("undeclared_fetch_target_without_row")
			}
			for _, t := range targets {
				t.tainted = true
			}
			return fNone, nil
		}
		if len(targets) != 1 {
			if missing {
				return fNone, pdiscard("two_errors_in_fetch")
			}
			return fNone, perr(PErrFetchLength)
		}
		if missing {
			return fNone, perr(PErrUndeclVar)
		}
		targets[0].val, targets[0].tainted = cur.view[idx], false
		return fNone, nil
	}
	return fNone, pdiscard("unknown_stmt_" + s.K)
}

// ---------------------------------------------------------------------
// entry points

func (in *interp) result(flow pFlow, err *pErr) PResult {
	r := PResult{Out: in.out, Stats: in.st}
	switch {
	case err != nil && err.discard:
		r.Discard = err.class
	case err != nil:
		r.Err = err.class
	case flow == fExit:
		r.Exit = true
	case flow != fNone:
		r.Discard = "loop_or_return_flow_at_top_level"
	}
	return r
}

// RunProc predicts the outcome of executing prog as one csvq procedure.
func RunProc(prog []PStmt, opt POpt) PResult {
	in := newInterp(opt)
	flow, err := in.execBlock(prog, in.top)
	return in.result(flow, err)
}

// RunProcSeq predicts the outcomes of executing the segments one after the
// other on ONE session (as the interactive shell executes its inputs): what a
// segment declared at the top level before it ended - normally or with an
// error - stays, every block and invocation that was live when an error ended
// the segment is gone.  Prediction stops (Discard "not_reached") after a
// segment that is discarded or that ends with EXIT.
func RunProcSeq(segs [][]PStmt, opt POpt) []PResult {
	in := newInterp(opt)
	out := make([]PResult, len(segs))
	stopped := false
	for i, seg := range segs {
		if stopped {
			out[i] = PResult{Discard: "not_reached"}
			continue
		}
		in.out = nil
		in.depth = 0
		in.st = PStats{Exec: map[string]int{}, ShadowKinds: map[string]int{}, ReadAfterKinds: map[string]int{}}
		flow, err := in.execBlock(seg, in.top)
		out[i] = in.result(flow, err)
		if out[i].Discard != "" || out[i].Exit || strings.HasPrefix(out[i].Err, PErrForcedExit) {
			stopped = true
		}
	}
	return out
}

// PCallResult is the prediction for one call evaluated after a procedure.
type PCallResult struct {
	Val     PVal
	Err     string
	Discard string
}

// RunProcThenCalls executes prog and then evaluates fn(arg) for every arg in
// the top-level block (as a SELECT over a table of args would).
func RunProcThenCalls(prog []PStmt, fn string, args []int64, opt POpt) (PResult, map[int64]PCallResult) {
	return RunProcThenCallsExtra(prog, fn, args, nil, false, opt)
}

// RunProcThenCallsExtra: the calls are fn(arg, extra...) - or, with multi, exactly
// the argument list (arg, extra...) even when extra is empty; without multi and
// without extra it is the one-argument call fn(arg).
func RunProcThenCallsExtra(prog []PStmt, fn string, args []int64, extra []int64, multi bool, opt POpt) (PResult, map[int64]PCallResult) {
	in := newInterp(opt)
	flow, err := in.execBlock(prog, in.top)
	res := in.result(flow, err)
	calls := map[int64]PCallResult{}
	if res.Discard != "" || res.Err != "" || res.Exit {
		return res, calls
	}
	for _, a := range args {
		if _, ok := calls[a]; ok {
			continue
		}
		in.st.Steps = 0
		nout := len(in.out)
		call := &PExpr{K: "call", Name: fn, A: &PExpr{K: "lit", N: a}}
		if multi || len(extra) > 0 {
			call = &PExpr{K: "call", Name: fn, Multi: true, Args: []*PExpr{{K: "lit", N: a}}}
			for _, x := range extra {
				call.Args = append(call.Args, &PExpr{K: "lit", N: x})
			}
		}
		v, err := in.eval(call, in.top)
		cr := PCallResult{Val: v}
		switch {
		case err != nil && err.discard:
			cr.Discard = err.class
		case err != nil:
			cr.Err = err.class
		case len(in.out) != nout:
			cr.Discard = "print_in_concurrent_function"
		}
		calls[a] = cr
	}
	res.Stats = in.st
	return res, calls
}

// WalkProc visits every statement (pre-order), descending into all bodies.
func WalkProc(stmts []PStmt, visit func(s *PStmt, depth int)) {
	walkProc(stmts, 0, visit)
}

func walkProc(stmts []PStmt, depth int, visit func(s *PStmt, depth int)) {
	for i := range stmts {
		s := &stmts[i]
		visit(s, depth)
		for _, b := range s.Blocks {
			walkProc(b, depth+1, visit)
		}
		walkProc(s.Else, depth+1, visit)
		walkProc(s.Body, depth+1, visit)
	}
}
