package ref

// Reference model of the analytic functions (property C17), written from the
// manual (docs/_posts/2006-01-02-analytic-functions.md, select-query.md
// "Order By Clause", user-defined-function.md) and the textbook definitions:
// partition by value equality, order by the ORDER BY items, apply the
// function's definition to each row's frame.
//
// Domain of the model: partition / order key values are integers, floats,
// strings (spelling an integer, a float, a datetime, a boolean - partition
// keys only - or plain text) and NULL; one order column holds one family
// (numbers, datetimes or text, plus NULL); equality and order follow the
// documented conversion ladder (ladder.go, C04Normalise).

import (
	"encoding/json"
	"fmt"
	"math"
	"sort"
	"strings"

	"verif/internal/val"
)

// AnaOrder is one resolved ORDER BY item.
type AnaOrder struct {
	Desc       bool
	NullsFirst bool
}

// AnaBound is one frame bound: UP (UNBOUNDED PRECEDING), P (n PRECEDING),
// C (CURRENT ROW), F (n FOLLOWING), UF (UNBOUNDED FOLLOWING).
type AnaBound struct {
	Kind string `json:"kind"`
	N    int    `json:"n,omitempty"`
}

// AnaFrame is the windowing clause: Mode "" (none), "single" (ROWS lo, i.e.
// lo .. CURRENT ROW) or "between".
type AnaFrame struct {
	Mode string   `json:"mode,omitempty"`
	Lo   AnaBound `json:"lo"`
	Hi   AnaBound `json:"hi"`
}

// Shape names the frame for fingerprints.
func (f AnaFrame) Shape() string {
	switch f.Mode {
	case "single":
		return "single:" + f.Lo.Kind
	case "between":
		return "between:" + f.Lo.Kind + "-" + f.Hi.Kind
	}
	return "none"
}

// Bounded reports whether the frame has at least one finite offset / current row bound.
func (f AnaFrame) Bounded() bool {
	switch f.Mode {
	case "single":
		return f.Lo.Kind != "UP" // ROWS UNBOUNDED PRECEDING is still a moving frame, but has no finite bound
	case "between":
		return !(f.Lo.Kind == "UP" && f.Hi.Kind == "UF")
	}
	return false
}

// AnaInput is one analytic function call over a table, with the per-row
// values of everything the call refers to already evaluated.
type AnaInput struct {
	Fn          string      // ROW_NUMBER ... JSON_AGG, COUNT_STAR, USUM, UHASH
	Part        [][]val.Val // per row: PARTITION BY values (may be empty)
	Ord         [][]val.Val // per row: ORDER BY values (may be empty)
	Items       []AnaOrder  // one per ORDER BY value
	UniqueOrder bool        // the ORDER BY values are unique per row
	Arg         []val.Val   // per row: first argument
	Arg2        []val.Val   // per row: second argument of the user-defined aggregates (multiplier)
	K           int         // NTILE groups / NTH_VALUE n / LAG, LEAD offset
	Default     val.Val     // LAG/LEAD default (NULL when absent)
	IgnoreNulls bool
	Distinct    bool
	Sep         string
	Frame       AnaFrame

	capture *[]reading // AnalyticUnique: receives the admissible readings
}

// AnaResult is the verdict on csvq's output column.
type AnaResult struct {
	Sig     string // "" = admissible
	Msg     string
	Reading string // which admissible reading matched (when several exist)
}

// anaKeyEq: equality of two partition key cells under the documented
// normalisation (integer, float, datetime, boolean, else case-insensitive text
// without edge blanks; see C04Normalise): a string spelling an integer is that
// integer and integers compare exactly (64 bits), "1.5", "1.50" and "15e-1" are
// one float, the spellings of one instant are one datetime, "a", "A" and " a"
// are one text. The pairs the manual leaves open (integer n vs float n.0,
// boolean vs 0/1) are kept out of partition keys by the callers.
func anaKeyEq(a, b val.Val) bool {
	return C04EStrict(C04Normalise(a, false), C04Normalise(b, false), false)
}

func anaSame(a, b []val.Val) bool {
	if len(a) != len(b) {
		return false
	}
	for i := range a {
		if !anaKeyEq(a[i], b[i]) {
			return false
		}
	}
	return true
}

// AnaKeyEq: the two cells are one PARTITION BY value (see anaKeyEq).
func AnaKeyEq(a, b val.Val) bool { return anaKeyEq(a, b) }

// AnaPartitions groups row indices by equal partition values, in order of first appearance.
func AnaPartitions(part [][]val.Val, n int) [][]int {
	norm := make([]C04Tuple, n)
	for i := 0; i < n; i++ {
		norm[i] = C04NormaliseTuple(part[i], false)
	}
	var out [][]int
	for i := 0; i < n; i++ {
		found := false
		for g := range out {
			if len(norm[out[g][0]]) == len(norm[i]) && C04EStrictTuple(norm[out[g][0]], norm[i], false) {
				out[g] = append(out[g], i)
				found = true
				break
			}
		}
		if !found {
			out = append(out, []int{i})
		}
	}
	return out
}

func anaCmpVal(a, b val.Val, it AnaOrder) int {
	switch {
	case a.IsNull() && b.IsNull():
		return 0
	case a.IsNull():
		if it.NullsFirst {
			return -1
		}
		return 1
	case b.IsNull():
		if it.NullsFirst {
			return 1
		}
		return -1
	}
	// comparison ladder: two integers (Integer values or strings spelling one)
	// compare exactly as 64-bit integers; an integer and a float compare as
	// float64; two other strings compare as text
	c := 0
	if a.K == "S" && b.K == "S" && plainText(a.S) && plainText(b.S) { // fast path: text compares case-insensitively, without edge blanks
		c = strings.Compare(strings.ToUpper(trimBlank(a.S)), strings.ToUpper(trimBlank(b.S)))
		if it.Desc {
			c = -c
		}
		return c
	}
	ai, aInt := AsInteger(a)
	bi, bInt := AsInteger(b)
	af, aNum := AsFloat(a)
	bf, bNum := AsFloat(b)
	switch {
	case aInt && bInt:
		if ai < bi {
			c = -1
		} else if ai > bi {
			c = 1
		}
	case aNum && bNum:
		if math.IsNaN(af) || math.IsNaN(bf) {
			panic("reference model: NaN in an order column")
		}
		if af < bf {
			c = -1
		} else if af > bf {
			c = 1
		}
	default:
		// datetime rung (Datetime values and the spellings of one instant are equal), then text
		da, aDt := AsDatetime(a)
		db, bDt := AsDatetime(b)
		switch {
		case aNum || bNum:
			panic(fmt.Sprintf("reference model: mixed types in an order column: %s %s", a, b))
		case aDt && bDt:
			if da.Before(db) {
				c = -1
			} else if da.After(db) {
				c = 1
			}
		case !aDt && !bDt && a.K == "S" && b.K == "S":
			c = strings.Compare(strings.ToUpper(trimBlank(a.S)), strings.ToUpper(trimBlank(b.S)))
		default:
			panic(fmt.Sprintf("reference model: mixed types in an order column: %s %s", a, b))
		}
	}
	if it.Desc {
		c = -c
	}
	return c
}

// plainText: the string cannot spell a number (no digit, not Inf / NaN).
func plainText(s string) bool {
	for i := 0; i < len(s); i++ {
		if '0' <= s[i] && s[i] <= '9' {
			return false
		}
	}
	switch trimBlank(s) {
	case "Inf", "+Inf", "-Inf", "NaN":
		return false
	}
	return true
}

// AnaCmp compares the order keys of two rows.
func AnaCmp(a, b []val.Val, items []AnaOrder) int {
	for i := range items {
		if c := anaCmpVal(a[i], b[i], items[i]); c != 0 {
			return c
		}
	}
	return 0
}

func (in *AnaInput) sorted(p []int) []int {
	q := append([]int(nil), p...)
	sort.SliceStable(q, func(i, j int) bool { return AnaCmp(in.Ord[q[i]], in.Ord[q[j]], in.Items) < 0 })
	return q
}

// HasTies reports whether two rows of one partition have equal keys under the
// first k ORDER BY items.
func (in *AnaInput) HasTies(n, k int) bool {
	if k == 0 {
		return false
	}
	for _, p := range AnaPartitions(in.Part, n) {
		for i := range p {
			for j := i + 1; j < len(p); j++ {
				if AnaCmp(in.Ord[p[i]][:k], in.Ord[p[j]][:k], in.Items[:k]) == 0 {
					return true
				}
			}
		}
	}
	return false
}

func frameRange(f AnaFrame, c, l int) (int, int) {
	idx := func(b AnaBound) int {
		switch b.Kind {
		case "UP":
			return 0
		case "P":
			return c - b.N
		case "C":
			return c
		case "F":
			return c + b.N
		case "UF":
			return l - 1
		}
		panic("bad frame bound " + b.Kind)
	}
	var lo, hi int
	switch f.Mode {
	case "single":
		lo, hi = idx(f.Lo), c
	case "between":
		lo, hi = idx(f.Lo), idx(f.Hi)
	default:
		panic("frameRange without a frame")
	}
	if lo < 0 {
		lo = 0
	}
	if hi > l-1 {
		hi = l - 1
	}
	return lo, hi // empty when lo > hi
}

var (
	frameWhole   = AnaFrame{Mode: "between", Lo: AnaBound{Kind: "UP"}, Hi: AnaBound{Kind: "UF"}}
	frameRunning = AnaFrame{Mode: "between", Lo: AnaBound{Kind: "UP"}, Hi: AnaBound{Kind: "C"}}
)

func mirrorBound(b AnaBound) AnaBound {
	switch b.Kind {
	case "UP":
		return AnaBound{Kind: "UF"}
	case "UF":
		return AnaBound{Kind: "UP"}
	case "P":
		return AnaBound{Kind: "F", N: b.N}
	case "F":
		return AnaBound{Kind: "P", N: b.N}
	}
	return b
}

func mirrorFrame(f AnaFrame) AnaFrame {
	if f.Mode == "single" {
		f = AnaFrame{Mode: "between", Lo: f.Lo, Hi: AnaBound{Kind: "C"}}
	}
	return AnaFrame{Mode: "between", Lo: mirrorBound(f.Hi), Hi: mirrorBound(f.Lo)}
}

func numVal(f float64) val.Val { return val.Float(f) }

func distinctVals(vs []val.Val) []val.Val {
	var out []val.Val
	for _, v := range vs {
		dup := false
		for _, w := range out {
			if v == w {
				dup = true
				break
			}
		}
		if !dup {
			out = append(out, v)
		}
	}
	return out
}

func lessVal(a, b val.Val) bool {
	if a.K == "I" && b.K == "I" {
		return a.AsInt() < b.AsInt()
	}
	if a.K == "S" && b.K == "S" {
		return a.S < b.S
	}
	panic("reference model: MIN/MAX over mixed types")
}

// aggregate applies an aggregate to the frame values vs (in frame order);
// mul is the current row's second argument for the user-defined aggregates.
func (in *AnaInput) aggregate(vs []val.Val, mul val.Val) val.Val {
	if in.Distinct {
		vs = distinctVals(vs)
	}
	var nn []val.Val
	for _, v := range vs {
		if !v.IsNull() {
			nn = append(nn, v)
		}
	}
	switch in.Fn {
	case "COUNT":
		return val.Int(int64(len(nn)))
	case "COUNT_STAR":
		return val.Int(int64(len(vs)))
	case "MIN", "MAX":
		if len(nn) == 0 {
			return val.Null
		}
		r := nn[0]
		for _, v := range nn[1:] {
			if (in.Fn == "MIN" && lessVal(v, r)) || (in.Fn == "MAX" && lessVal(r, v)) {
				r = v
			}
		}
		return r
	case "SUM", "AVG", "MEDIAN":
		if len(nn) == 0 {
			return val.Null
		}
		fs := make([]float64, len(nn))
		s := 0.0
		for i, v := range nn {
			fs[i] = float64(v.AsInt())
			s += fs[i]
		}
		switch in.Fn {
		case "SUM":
			return numVal(s)
		case "AVG":
			return numVal(s / float64(len(fs)))
		}
		sort.Float64s(fs)
		if len(fs)%2 == 1 {
			return numVal(fs[len(fs)/2])
		}
		return numVal((fs[len(fs)/2-1] + fs[len(fs)/2]) / 2)
	case "USUM":
		// DECLARE usum AGGREGATE: sum of x * @m over non-null x, plus 1000 per NULL
		m := mul.AsInt()
		var a int64
		for _, v := range vs {
			if v.IsNull() {
				a += 1000
			} else {
				a += v.AsInt() * m
			}
		}
		return val.Int(a)
	case "UTAG":
		// DECLARE utag AGGREGATE: usum with multiplier 1, then || '/' || @m: the text of the second argument as received
		var a int64
		for _, v := range vs {
			if v.IsNull() {
				a += 1000
			} else {
				a += v.AsInt()
			}
		}
		return val.Str(fmt.Sprintf("%d/%s", a, mul.S))
	case "UHASH":
		// order dependent: a := (a*3 + x*@m) % 1000003, NULL counts as 7
		m := mul.AsInt()
		var a int64
		for _, v := range vs {
			if v.IsNull() {
				a = (a*3 + 7) % 1000003
			} else {
				a = (a*3 + v.AsInt()*m) % 1000003
			}
		}
		return val.Int(a)
	}
	panic("reference model: unknown aggregate " + in.Fn)
}

// nth returns the K-th value (1-based) of vs, skipping NULLs under IGNORE
// NULLS; ok=false when there is no such value (result NULL).
func nthOf(vs []val.Val, k int, ignoreNulls bool) (val.Val, bool) {
	c := 0
	for _, v := range vs {
		if ignoreNulls && v.IsNull() {
			continue
		}
		c++
		if c == k {
			return v, true
		}
	}
	return val.Null, false
}

func reverseVals(vs []val.Val) []val.Val {
	out := make([]val.Val, len(vs))
	for i, v := range vs {
		out[len(vs)-1-i] = v
	}
	return out
}

type reading struct {
	name   string
	want   []val.Val
	beyond []bool // NTH_VALUE: the row's frame has no n-th value
}

func (in *AnaInput) frameVals(q []int, lo, hi int) []val.Val {
	var vs []val.Val
	for i := lo; i <= hi; i++ {
		vs = append(vs, in.Arg[q[i]])
	}
	return vs
}

// valueFnReading computes FIRST/LAST/NTH_VALUE for every row under frame f.
func (in *AnaInput) valueFnReading(name string, parts [][]int, n int, f AnaFrame) reading {
	r := reading{name: name, want: make([]val.Val, n), beyond: make([]bool, n)}
	for _, p := range parts {
		q := in.sorted(p)
		for c, row := range q {
			lo, hi := frameRange(f, c, len(q))
			vs := in.frameVals(q, lo, hi)
			var v val.Val
			var ok bool
			switch in.Fn {
			case "FIRST_VALUE":
				v, ok = nthOf(vs, 1, in.IgnoreNulls)
			case "LAST_VALUE":
				v, ok = nthOf(reverseVals(vs), 1, in.IgnoreNulls)
			case "NTH_VALUE":
				v, ok = nthOf(vs, in.K, in.IgnoreNulls)
			}
			r.want[row] = v
			r.beyond[row] = !ok
		}
	}
	return r
}

func (in *AnaInput) lagReading(name string, parts [][]int, n int, nearest bool) reading {
	r := reading{name: name, want: make([]val.Val, n)}
	for _, p := range parts {
		q := in.sorted(p)
		if in.Fn == "LEAD" {
			for i, j := 0, len(q)-1; i < j; i, j = i+1, j-1 {
				q[i], q[j] = q[j], q[i]
			}
		}
		// now LAG over q
		for c, row := range q {
			want := in.Default
			switch {
			case !in.IgnoreNulls:
				if c-in.K >= 0 && c-in.K < len(q) {
					want = in.Arg[q[c-in.K]]
				}
			case nearest:
				// the row at the offset if it is not NULL, otherwise the nearest non-null row beyond it
				if c-in.K < len(q) {
					for i := c - in.K; i >= 0; i-- {
						if !in.Arg[q[i]].IsNull() {
							want = in.Arg[q[i]]
							break
						}
					}
				}
			default:
				// the offset-th non-null row before the current one
				cnt := 0
				for i := c - 1; i >= 0 && in.K >= 1; i-- {
					if in.Arg[q[i]].IsNull() {
						continue
					}
					cnt++
					if cnt == in.K {
						want = in.Arg[q[i]]
						break
					}
				}
			}
			r.want[row] = want
		}
	}
	return r
}

func numericEqual(got val.Val, want float64) bool {
	if got.K != "I" && got.K != "F" {
		return false
	}
	g := got.AsFloat()
	if g == want {
		return true
	}
	return math.Abs(g-want) <= 1e-9*math.Max(1, math.Abs(want))
}

// anaValEq: does csvq's value equal the model's? Float expectations accept an
// integer or float of the same numeric value (tolerance 1e-9 relative).
func anaValEq(got, want val.Val) bool {
	if want.K == "F" {
		return numericEqual(got, want.AsFloat())
	}
	return got == want
}

func jsonMatches(got val.Val, want []val.Val, ordered bool) bool {
	if got.K != "S" {
		return false
	}
	dec := json.NewDecoder(strings.NewReader(got.S))
	dec.UseNumber()
	var arr []interface{}
	if err := dec.Decode(&arr); err != nil {
		return false
	}
	if len(arr) != len(want) {
		return false
	}
	enc := func(x interface{}) string {
		switch y := x.(type) {
		case nil:
			return "N"
		case json.Number:
			return "I:" + y.String()
		case string:
			return "S:" + y
		}
		return fmt.Sprintf("?%v", x)
	}
	a := make([]string, len(arr))
	b := make([]string, len(want))
	for i := range arr {
		a[i] = enc(arr[i])
		if want[i].IsNull() {
			b[i] = "N"
		} else {
			b[i] = want[i].K + ":" + want[i].S
		}
	}
	if !ordered {
		sort.Strings(a)
		sort.Strings(b)
	}
	for i := range a {
		if a[i] != b[i] {
			return false
		}
	}
	return true
}

func listaggText(vs []val.Val, sep string) val.Val {
	var ss []string
	for _, v := range vs {
		if !v.IsNull() {
			ss = append(ss, v.S)
		}
	}
	if len(ss) == 0 {
		return val.Null
	}
	return val.Str(strings.Join(ss, sep))
}

func sortedChars(s string) string {
	b := []byte(s)
	sort.Slice(b, func(i, j int) bool { return b[i] < b[j] })
	return string(b)
}

func firstDiff(got, want []val.Val) int {
	for i := range want {
		if !anaValEq(got[i], want[i]) {
			return i
		}
	}
	return -1
}

// AnalyticCheck decides whether got (csvq's result column, aligned with the
// input rows) is an admissible result of the call.
func AnalyticCheck(in AnaInput, got []val.Val) AnaResult {
	n := len(got)
	parts := AnaPartitions(in.Part, n)
	hasOrder := len(in.Items) > 0
	fail := func(sig string, row int, want string) AnaResult {
		return AnaResult{Sig: sig, Msg: fmt.Sprintf("%s: row #%d (0-based input position): csvq %s, reference %s", in.Fn, row, got[row], want)}
	}
	var readings []reading
	exact := func(name string, f func(q []int, c int) val.Val) {
		r := reading{name: name, want: make([]val.Val, n)}
		for _, p := range parts {
			q := in.sorted(p)
			for c, row := range q {
				r.want[row] = f(q, c)
			}
		}
		readings = append(readings, r)
	}
	less := func(a, b int) bool { return AnaCmp(in.Ord[a], in.Ord[b], in.Items) < 0 }

	if !hasOrder && (in.Fn == "RANK" || in.Fn == "DENSE_RANK" || in.Fn == "CUME_DIST" || in.Fn == "PERCENT_RANK") {
		// The manual allows the rank family without ORDER BY but does not say what is ranked.
		// Reading A (SQL): all rows of a partition are peers. Reading B: the rows are ranked in
		// some total order (every row its own rank). PERCENT_RANK of a one-row partition: 0 or 1.
		seqWant := func(c, l int, peers bool) (float64, bool) { // value, open (one-row PERCENT_RANK)
			switch in.Fn {
			case "RANK", "DENSE_RANK":
				if peers {
					return 1, false
				}
				return float64(c + 1), false
			case "CUME_DIST":
				if peers {
					return 1, false
				}
				return float64(c+1) / float64(l), false
			}
			if l == 1 {
				return 0, true
			}
			if peers {
				return 0, false
			}
			return float64(c) / float64(l-1), false
		}
		var firstBad AnaResult
		for _, peers := range []bool{true, false} {
			bad := false
		partLoop:
			for _, p := range parts {
				q := append([]int(nil), p...)
				for _, row := range q {
					if got[row].K != "I" && got[row].K != "F" {
						return fail("analytic_mismatch:"+in.Fn, row, "a number")
					}
				}
				sort.SliceStable(q, func(i, j int) bool { return got[q[i]].AsFloat() < got[q[j]].AsFloat() })
				for c, row := range q {
					w, open := seqWant(c, len(q), peers)
					ok := numericEqual(got[row], w) || (open && numericEqual(got[row], 1))
					if (in.Fn == "RANK" || in.Fn == "DENSE_RANK") && got[row].K != "I" {
						ok = false
					}
					if !ok {
						if !bad && firstBad.Sig == "" {
							firstBad = fail("analytic_mismatch:"+in.Fn, row, fmt.Sprintf("%v (no ORDER BY: all rows peers) or a ranking of the %d rows in some order", w, len(q)))
						}
						bad = true
						break partLoop
					}
				}
			}
			if !bad {
				if peers {
					return AnaResult{Reading: "rank_without_order=all_peers"}
				}
				return AnaResult{Reading: "rank_without_order=some_total_order"}
			}
		}
		return firstBad
	}

	switch in.Fn {
	case "RANK":
		exact("", func(q []int, c int) val.Val {
			k := 0
			for _, o := range q {
				if less(o, q[c]) {
					k++
				}
			}
			return val.Int(int64(k + 1))
		})
	case "DENSE_RANK":
		exact("", func(q []int, c int) val.Val {
			k := 0
			for i, o := range q {
				if less(o, q[c]) && (i == 0 || less(q[i-1], o)) {
					k++ // q is sorted: count distinct smaller keys at their first occurrence
				}
			}
			return val.Int(int64(k + 1))
		})
	case "CUME_DIST":
		exact("", func(q []int, c int) val.Val {
			k := 0
			for _, o := range q {
				if !less(q[c], o) {
					k++
				}
			}
			return numVal(float64(k) / float64(len(q)))
		})
	case "PERCENT_RANK":
		for _, single := range []float64{0, 1} {
			single := single
			name := "percent_rank_single_row=0"
			if single == 1 {
				name = "percent_rank_single_row=1"
			}
			exact(name, func(q []int, c int) val.Val {
				if len(q) == 1 {
					return numVal(single)
				}
				k := 0
				for _, o := range q {
					if less(o, q[c]) {
						k++
					}
				}
				return numVal(float64(k) / float64(len(q)-1))
			})
		}
	case "ROW_NUMBER", "NTILE":
		tileOf := func(pos, l int) int64 { // 0-based position -> tile
			if in.Fn == "ROW_NUMBER" {
				return int64(pos + 1)
			}
			qn, r := l/in.K, l%in.K
			// first r tiles hold qn+1 rows, the others qn
			if pos < r*(qn+1) {
				return int64(pos/(qn+1) + 1)
			}
			return int64(r + (pos-r*(qn+1))/qn + 1)
		}
		if hasOrder && in.UniqueOrder {
			exact("", func(q []int, c int) val.Val { return val.Int(tileOf(c, len(q))) })
			break
		}
		// ties (or no order): the numbers must be those of some order consistent with the keys
		for _, p := range parts {
			q := append([]int(nil), p...)
			for _, row := range q {
				if got[row].K != "I" {
					return fail("analytic_mismatch:"+in.Fn, row, "an integer")
				}
			}
			sort.SliceStable(q, func(i, j int) bool { return got[q[i]].AsInt() < got[q[j]].AsInt() })
			for c, row := range q {
				if want := tileOf(c, len(q)); got[row].AsInt() != want {
					return fail("analytic_mismatch:"+in.Fn, row, fmt.Sprintf("the multiset of numbers of a %d-row partition (expected %d at sorted position %d)", len(q), want, c))
				}
			}
			if hasOrder {
				for _, a := range p {
					for _, b := range p {
						if less(a, b) && !(got[a].AsInt() < got[b].AsInt() || (in.Fn == "NTILE" && got[a].AsInt() == got[b].AsInt())) {
							return fail("analytic_order:"+in.Fn, a, fmt.Sprintf("a number not after row #%d's %s (its key sorts first)", b, got[b]))
						}
					}
				}
			}
		}
		return AnaResult{Reading: "consistent_with_keys"}
	case "FIRST_VALUE", "LAST_VALUE", "NTH_VALUE":
		if !hasOrder {
			// no ORDER BY: one frame = the partition, in an unspecified order
			for _, p := range parts {
				var vs []val.Val
				for _, row := range p {
					vs = append(vs, in.Arg[row])
				}
				qual := 0
				for _, v := range vs {
					if !(in.IgnoreNulls && v.IsNull()) {
						qual++
					}
				}
				k := 1
				if in.Fn == "NTH_VALUE" {
					k = in.K
				}
				for _, row := range p {
					if got[row] != got[p[0]] {
						return fail("analytic_mismatch:"+in.Fn, row, "the same value for every row of the partition")
					}
				}
				g := got[p[0]]
				if k > qual {
					if !g.IsNull() {
						sig := "analytic_mismatch:" + in.Fn
						if in.Fn == "NTH_VALUE" {
							sig = "nth_value_beyond_frame"
						}
						return fail(sig, p[0], fmt.Sprintf("NULL (the partition has only %d qualifying values)", qual))
					}
					continue
				}
				member := false
				for _, v := range vs {
					if v == g && !(in.IgnoreNulls && v.IsNull()) {
						member = true
					}
				}
				if !member {
					return fail("analytic_mismatch:"+in.Fn, p[0], "a qualifying value of the partition")
				}
			}
			return AnaResult{Reading: "unordered_member"}
		}
		if in.Frame.Mode != "" {
			readings = append(readings, in.valueFnReading("", parts, n, in.Frame))
		} else {
			readings = append(readings, in.valueFnReading("noframe=whole_partition", parts, n, frameWhole))
			readings = append(readings, in.valueFnReading("noframe=up_to_current_row", parts, n, frameRunning))
		}
	case "LAG", "LEAD":
		if !in.IgnoreNulls {
			readings = append(readings, in.lagReading("", parts, n, false))
		} else {
			readings = append(readings, in.lagReading("ignore_nulls=nearest_non_null_from_offset", parts, n, true))
			readings = append(readings, in.lagReading("ignore_nulls=offset_th_non_null", parts, n, false))
		}
	case "COUNT", "COUNT_STAR", "SUM", "AVG", "MIN", "MAX", "MEDIAN", "USUM", "UHASH", "UTAG":
		exact("", func(q []int, c int) val.Val {
			f := in.Frame
			if !hasOrder {
				f = frameWhole
			} else if f.Mode == "" {
				f = frameRunning // unique order: ROWS and RANGE up to the current row coincide
			}
			lo, hi := frameRange(f, c, len(q))
			mul := val.Int(1) // the declared DEFAULT of @m
			if in.Fn == "UTAG" {
				mul = val.Str("d")
			}
			if in.Arg2 != nil {
				mul = in.Arg2[q[c]]
			}
			return in.aggregate(in.frameVals(q, lo, hi), mul)
		})
	case "LISTAGG", "JSON_AGG":
		for _, p := range parts {
			q := in.sorted(p)
			vs := in.frameVals(q, 0, len(q)-1)
			ordered := hasOrder && in.UniqueOrder
			for _, row := range p {
				g := got[row]
				ok := false
				if in.Fn == "JSON_AGG" {
					ok = jsonMatches(g, vs, ordered)
				} else {
					var strs []val.Val
					for _, v := range vs {
						if v.IsNull() {
							strs = append(strs, v)
						} else {
							strs = append(strs, val.Str(v.S))
						}
					}
					want := listaggText(strs, in.Sep)
					if ordered {
						ok = g == want
					} else {
						ok = g.K == want.K && len(g.S) == len(want.S) && sortedChars(g.S) == sortedChars(want.S)
					}
				}
				if !ok {
					return fail("analytic_mismatch:"+in.Fn, row, fmt.Sprintf("the aggregate of %v (ordered=%v)", vs, ordered))
				}
			}
		}
		return AnaResult{}
	default:
		panic("reference model: unknown function " + in.Fn)
	}

	if in.capture != nil {
		*in.capture = readings
		return AnaResult{}
	}
	for _, r := range readings {
		if firstDiff(got, r.want) < 0 {
			return AnaResult{Reading: r.name}
		}
	}
	// not admissible: name the failure
	if in.Fn == "NTH_VALUE" {
		for _, r := range readings {
			onlyBeyond := true
			for i := range r.want {
				if !anaValEq(got[i], r.want[i]) && !r.beyond[i] {
					onlyBeyond = false
				}
			}
			if onlyBeyond {
				return fail("nth_value_beyond_frame", firstDiff(got, r.want), r.want[firstDiff(got, r.want)].String()+" (the frame has no n-th value; reading "+r.name+")")
			}
		}
	}
	if in.Fn == "LAST_VALUE" && hasOrder {
		f := in.Frame
		if f.Mode == "" {
			f = frameRunning
		}
		m := in.valueFnReading("mirrored", parts, n, mirrorFrame(f))
		if firstDiff(got, m.want) < 0 {
			d := firstDiff(got, readings[0].want)
			return fail("last_value_frame_mirrored", d, readings[0].want[d].String()+" (csvq's column equals LAST_VALUE over the mirrored frame "+mirrorFrame(f).Shape()+")")
		}
	}
	d := firstDiff(got, readings[0].want)
	names := ""
	for _, r := range readings[1:] {
		names += fmt.Sprintf("; reading %s: %s at row #%d", r.name, r.want[firstDiff(got, r.want)], firstDiff(got, r.want))
	}
	return fail("analytic_mismatch:"+in.Fn, d, readings[0].want[d].String()+names)
}

// AnalyticUnique returns the result column of the call over n rows when the
// model admits exactly one (no open reading, no order-insensitive check);
// ok=false otherwise. Used to evaluate nested queries inside-out.
func AnalyticUnique(in AnaInput, n int) ([]val.Val, bool) {
	var rs []reading
	in.capture = &rs
	AnalyticCheck(in, make([]val.Val, n))
	if len(rs) != 1 {
		return nil, false
	}
	return rs[0].want, true
}
