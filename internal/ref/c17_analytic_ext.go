package ref

// Additions to the analytic reference (property C17) for callers that
// evaluate further functions themselves: the frames of every row as row
// indices, in frame order.

import "verif/internal/val"

// AnaFrameRows returns, for every input row, the indices of the rows of its
// window frame in the order of the partition (ORDER BY of the call; stable on
// the input order). Without ORDER BY the frame is the whole partition; with
// ORDER BY and no windowing clause it is UNBOUNDED PRECEDING .. CURRENT ROW
// (the caller must have a unique order for that to be determined); an empty
// frame is an empty (non-nil) slice.
func AnaFrameRows(in AnaInput, n int) [][]int {
	out := make([][]int, n)
	hasOrder := len(in.Items) > 0
	for _, p := range AnaPartitions(in.Part, n) {
		q := in.sorted(p)
		for c, row := range q {
			f := in.Frame
			if !hasOrder {
				f = frameWhole
			} else if f.Mode == "" {
				f = frameRunning
			}
			lo, hi := frameRange(f, c, len(q))
			rows := []int{}
			for i := lo; i <= hi; i++ {
				rows = append(rows, q[i])
			}
			out[row] = rows
		}
	}
	return out
}

// AnaPartitionRows returns, for every input row, the rows of its partition in
// the order of the call's ORDER BY (stable on the input order).
func AnaPartitionRows(in AnaInput, n int) [][]int {
	out := make([][]int, n)
	for _, p := range AnaPartitions(in.Part, n) {
		q := in.sorted(p)
		for _, row := range q {
			out[row] = q
		}
	}
	return out
}

// AnaValEq: csvq's value equals the model's (float expectations accept an
// integer or float of the same numeric value, relative tolerance 1e-9).
func AnaValEq(got, want val.Val) bool { return anaValEq(got, want) }

// AnaJSONMatches: got is a JSON array text holding the values want (in that
// order when ordered, as a multiset otherwise).
func AnaJSONMatches(got val.Val, want []val.Val, ordered bool) bool {
	return jsonMatches(got, want, ordered)
}

// AnaListaggMatches: got is the LISTAGG text of the non-null values of vs
// joined by sep (NULL when there is none); unordered: the same characters.
func AnaListaggMatches(got val.Val, vs []val.Val, sep string, ordered bool) bool {
	var strs []val.Val
	for _, v := range vs {
		if v.IsNull() {
			strs = append(strs, v)
		} else {
			strs = append(strs, val.Str(v.S))
		}
	}
	want := listaggText(strs, sep)
	if ordered {
		return got == want
	}
	return got.K == want.K && len(got.S) == len(want.S) && sortedChars(got.S) == sortedChars(want.S)
}
