package ref

// Extensions of the C03 reference interpreter: nested queries inside
// expressions (EXISTS, IN, ANY/ALL, scalar subqueries), recursive common table
// expressions combined by UNION (without ALL) and stopped by
// --limit-recursion, and file tables of other formats / written as table
// objects.

import (
	"strings"

	"verif/internal/val"
)

// SelOptions: the reading of the open outcomes plus session settings.
type SelOptions struct {
	Reading        SelReading
	LimitRecursion int // > 0: value of @@LIMIT_RECURSION; 0: not limited
}

// SelEvalOpt interprets the query over the tables. When the evaluation ends
// with an error the result only carries the statistics gathered so far.
func SelEvalOpt(tables []SelTable, q *SelQuery, o SelOptions) (*SelResult, error) {
	ev := &selEval{tables: map[string]*SelTable{}, openText: o.Reading.OpenText, rightUsing: o.Reading.RightUsing,
		resolved: map[selResKey]selResVal{}, cmpCache: map[selCmpKey]selCmpVal{}, limitRec: o.LimitRecursion}
	for i := range tables {
		ev.tables[tables[i].Name] = &tables[i]
	}
	rel, labels, err := ev.query(q, &selEnv{}, nil)
	if err != nil {
		return &SelResult{Stats: ev.stats}, err
	}
	return &SelResult{Labels: labels, Rows: rel.rows, Ordered: rel.ordered, Stats: ev.stats}, nil
}

func selExprSQLExt(e *SelExpr) string {
	switch e.Kind {
	case "exists":
		if e.Neg {
			return "(NOT EXISTS (" + SelSQL(e.Sub) + "))"
		}
		return "(EXISTS (" + SelSQL(e.Sub) + "))"
	case "insub":
		not := ""
		if e.Neg {
			not = "NOT "
		}
		return "(" + SelExprSQL(e.Args[0]) + " " + not + "IN (" + SelSQL(e.Sub) + "))"
	case "quant":
		return "(" + SelExprSQL(e.Args[0]) + " " + e.Op + " " + e.Quant + " (" + SelSQL(e.Sub) + "))"
	case "scalar":
		return "(" + SelSQL(e.Sub) + ")"
	}
	return "<?" + e.Kind + ">"
}

// SelFileExt is the file name extension of a table format.
func SelFileExt(format string) string {
	switch format {
	case "", "csv":
		return "csv"
	}
	return format
}

// selFileSourceSQL renders a file table that is not a plain CSV name.
func selFileSourceSQL(s *SelSource) string {
	if s.Fmt == "stdin" {
		return "STDIN"
	}
	file := s.Name + "." + SelFileExt(s.Fmt)
	switch s.Form {
	case "func":
		switch SelFileExt(s.Fmt) {
		case "csv":
			return "CSV(',', `" + file + "`)"
		case "tsv":
			return "CSV('\\t', `" + file + "`)"
		case "json":
			return "JSON('', `" + file + "`)"
		case "jsonl":
			return "JSONL('', `" + file + "`)"
		case "ltsv":
			return "LTSV(`" + file + "`)"
		}
	case "file":
		return "FILE::('" + file + "')"
	case "inline":
		return "INLINE::('" + file + "')"
	}
	if s.Ext || s.Fmt == "ltsv" {
		return "`" + file + "`"
	}
	return s.Name
}

// subRows evaluates the nested query of e for the current row.
func (ev *selEval) subRows(e *SelExpr, sc *selScope) ([][]val.Val, int, error) {
	if e.Sub == nil {
		return nil, 0, selErr("shape", "%s without a query", e.Kind)
	}
	rel, labels, err := ev.query(e.Sub, ev.curEnv, sc)
	if err != nil {
		return nil, 0, err
	}
	if ev.quiet == 0 {
		ev.stats.SubEvals++
	}
	return rel.rows, len(labels), nil
}

func (ev *selEval) notePred(t int) {
	if ev.quiet != 0 {
		return
	}
	if t == T {
		ev.stats.SubTrue++
	} else {
		ev.stats.SubNotTrue++
		if t == U {
			ev.stats.SubUnknown++
		}
	}
}

func (ev *selEval) evalExt(e *SelExpr, sc *selScope) (val.Val, error) {
	switch e.Kind {
	case "exists":
		rows, _, err := ev.subRows(e, sc)
		if err != nil {
			return val.Null, err
		}
		t := F
		if len(rows) > 0 {
			t = T
		}
		if e.Neg {
			t = Not(t)
		}
		ev.notePred(t)
		return val.Tern(t), nil
	case "insub", "quant":
		a, err := ev.eval(e.Args[0], sc)
		if err != nil {
			return val.Null, err
		}
		rows, nf, err := ev.subRows(e, sc)
		if err != nil {
			return val.Null, err
		}
		if nf != 1 {
			return val.Null, selErr("shape", "%s: the nested query has %d fields", e.Kind, nf)
		}
		// IN = "= ANY", NOT IN = "<> ALL" (manual); ANY: TRUE if any comparison is
		// TRUE, else UNKNOWN if any is UNKNOWN, else FALSE (FALSE without rows);
		// ALL: FALSE if any is FALSE, else UNKNOWN if any is UNKNOWN, else TRUE
		op, any := e.Op, e.Quant != "ALL"
		if e.Kind == "insub" {
			op, any = "=", true
			if e.Neg {
				op, any = "<>", false
			}
		}
		t := T
		if any {
			t = F
		}
		for _, r := range rows {
			c := ev.cmp(a, r[0], op)
			if any {
				t = Or(t, c)
			} else {
				t = And(t, c)
			}
		}
		ev.notePred(t)
		return val.Tern(t), nil
	case "scalar":
		rows, nf, err := ev.subRows(e, sc)
		if err != nil {
			return val.Null, err
		}
		if nf != 1 {
			return val.Null, selErr("shape", "scalar subquery with %d fields", nf)
		}
		switch len(rows) {
		case 0:
			if ev.quiet == 0 {
				ev.stats.ScalarEmpty++
			}
			return val.Null, nil
		case 1:
			return rows[0][0], nil
		}
		// more than one record: an error in csvq, but only where csvq really
		// evaluates the expression (AND/OR are short-circuited): the case is put aside
		return val.Null, selErr("scalar_many", "a scalar subquery returns %d records", len(rows))
	}
	return val.Null, selErr("shape", "expression kind %q", e.Kind)
}

// distinctRows removes the rows that are identical (type and text of every
// cell) to an earlier row. open: two of the remaining rows are equal as values
// without being identical (1 and '1', 'a' and 'A', ' 1' and '1'): whether a
// UNION merges them, and which one it shows, is the business of C04.
func (ev *selEval) distinctRows(rows [][]val.Val) (out [][]val.Val, open bool, err error) {
	seen := map[string]bool{}
	for _, r := range rows {
		var b strings.Builder
		for _, v := range r {
			b.WriteString(v.K + "\x1e" + v.S + "\x1f")
		}
		k := b.String()
		if !seen[k] {
			seen[k] = true
			out = append(out, r)
		}
	}
	if err := ev.charge(len(out) * len(out) / 2); err != nil {
		return nil, false, err
	}
	loose := func(a, b val.Val) bool {
		if a.IsNull() || b.IsNull() {
			return a.IsNull() && b.IsNull()
		}
		if a == b {
			return true
		}
		if rel, _ := Compare(a, b); rel == RelEq || rel == RelBoolEq {
			return true
		}
		return strings.EqualFold(strings.TrimSpace(a.S), strings.TrimSpace(b.S))
	}
	for i := 0; i < len(out) && !open; i++ {
		for j := i + 1; j < len(out); j++ {
			same := true
			for c := range out[i] {
				if !loose(out[i][c], out[j][c]) {
					same = false
					break
				}
			}
			if same {
				open = true
				break
			}
		}
	}
	return out, open, nil
}
