// Package ref contains reference models written from the csvq manual,
// independent of the csvq implementation.
package ref

import (
	"math"
	"regexp"
	"strconv"
	"strings"
	"time"

	"verif/internal/val"
)

type Val = val.Val

// Tern values.
const (
	F = -1
	U = 0
	T = 1
)

func Not(a int) int { return -a }
func And(a, b int) int {
	if a < b {
		return a
	}
	return b
}
func Or(a, b int) int {
	if a > b {
		return a
	}
	return b
}

func TernName(t int) string {
	switch {
	case t > 0:
		return "TRUE"
	case t < 0:
		return "FALSE"
	}
	return "UNKNOWN"
}

// Rel is the relation of two values under the documented coercion ladder.
type Rel int

const (
	RelUnknown Rel = iota // NULL involved or nothing applies
	RelEq
	RelLt
	RelGt
	RelBoolEq // equal as booleans: no order
	RelNe     // not equal, no order (booleans, NaN)
)

var reInt = regexp.MustCompile(`^[+-]?[0-9]+$`)
var reFloat = regexp.MustCompile(`^[+-]?([0-9]+\.?[0-9]*|\.[0-9]+)([eE][+-]?[0-9]+)?$`)

func trimBlank(s string) string {
	return strings.Trim(s, " \t\n\r\v\f")
}

// AsInteger: integer rung - Integer values and strings spelling a decimal
// integer that fits 64 bits.
func AsInteger(v Val) (int64, bool) {
	switch v.K {
	case "I":
		return v.AsInt(), true
	case "S":
		s := trimBlank(v.S)
		if reInt.MatchString(s) {
			i, err := strconv.ParseInt(s, 10, 64)
			if err == nil {
				return i, true
			}
		}
	}
	return 0, false
}

// AsFloat: float rung - Integer, Float, strings spelling a decimal or
// exponent notation or Inf/+Inf/-Inf/NaN.
func AsFloat(v Val) (float64, bool) {
	switch v.K {
	case "I":
		return float64(v.AsInt()), true
	case "F":
		return v.AsFloat(), true
	case "S":
		s := trimBlank(v.S)
		switch s {
		case "Inf", "+Inf":
			return math.Inf(1), true
		case "-Inf":
			return math.Inf(-1), true
		case "NaN":
			return math.NaN(), true
		}
		if reFloat.MatchString(s) {
			f, err := strconv.ParseFloat(s, 64)
			if err == nil {
				return f, true
			}
		}
	}
	return 0, false
}

// datetime spellings the generators use; each is parsed with its own layout.
var dtLayouts = []struct {
	re     *regexp.Regexp
	layout string
}{
	{regexp.MustCompile(`^\d{4}-\d{2}-\d{2}$`), "2006-01-02"},
	{regexp.MustCompile(`^\d{4}/\d{2}/\d{2}$`), "2006/01/02"},
	{regexp.MustCompile(`^\d{4}-\d{2}-\d{2} \d{2}:\d{2}:\d{2}(\.\d{1,9})?$`), "2006-01-02 15:04:05.999999999"},
	{regexp.MustCompile(`^\d{4}/\d{2}/\d{2} \d{2}:\d{2}:\d{2}(\.\d{1,9})?$`), "2006/01/02 15:04:05.999999999"},
	{regexp.MustCompile(`^\d{4}-\d{2}-\d{2}T\d{2}:\d{2}:\d{2}(\.\d{1,9})?$`), "2006-01-02T15:04:05.999999999"},
	{regexp.MustCompile(`^\d{4}-\d{2}-\d{2}T\d{2}:\d{2}:\d{2}(\.\d{1,9})?(Z|[+-]\d{2}:\d{2})$`), time.RFC3339Nano},
	{regexp.MustCompile(`^\d{4}-\d{2}-\d{2} \d{2}:\d{2}:\d{2}(\.\d{1,9})? [+-]\d{2}:\d{2}$`), "2006-01-02 15:04:05.999999999 Z07:00"},
}

// AsDatetime: datetime rung (UTC as the session time zone).
func AsDatetime(v Val) (time.Time, bool) {
	switch v.K {
	case "D":
		return v.AsTime(), true
	case "S":
		s := trimBlank(v.S)
		for _, l := range dtLayouts {
			if l.re.MatchString(s) {
				t, err := time.ParseInLocation(l.layout, s, time.UTC)
				if err == nil {
					return t, true
				}
			}
		}
	}
	return time.Time{}, false
}

// LooksLikeOtherDatetime reports strings that might be accepted by csvq's
// wider datetime recogniser but are outside the layouts modelled here.
func LooksLikeOtherDatetime(v Val) bool {
	if v.K != "S" {
		return false
	}
	s := trimBlank(v.S)
	if len(s) < 8 || s[0] < '0' || s[0] > '9' {
		return false
	}
	_, ok := AsDatetime(v)
	return !ok
}

// OutsideModel reports string values whose classification the manual leaves
// open and the reference therefore does not model: digit-led strings that are
// not one of the modelled datetime layouts, and spellings Go's number parser
// accepts beyond "decimal or exponential notation, Inf, +Inf, -Inf, NaN"
// (case variants of inf/nan/infinity, hex floats, out-of-range exponents).
// Checks discard such operands (the filter only narrows the domain).
func OutsideModel(v Val) bool {
	if v.K != "S" {
		return false
	}
	if LooksLikeOtherDatetime(v) {
		if _, ok := AsFloat(v); !ok {
			return true
		}
	}
	s := trimBlank(v.S)
	if _, ok := AsFloat(v); !ok {
		if _, err := strconv.ParseFloat(s, 64); err == nil {
			return true
		}
		if f, err := strconv.ParseFloat(s, 64); err != nil && (math.IsInf(f, 0)) {
			return true
		}
		if _, err := strconv.ParseInt(s, 10, 64); err == nil {
			return true
		}
	}
	return false
}

// AsBoolean: boolean rung.
func AsBoolean(v Val) (bool, bool) {
	switch v.K {
	case "B":
		return v.AsBool(), true
	case "T":
		switch v.AsTern() {
		case T:
			return true, true
		case F:
			return false, true
		}
	case "I":
		switch v.AsInt() {
		case 1:
			return true, true
		case 0:
			return false, true
		}
	case "F":
		switch v.AsFloat() {
		case 1:
			return true, true
		case 0:
			return false, true
		}
	case "S":
		switch strings.ToLower(trimBlank(v.S)) {
		case "1", "t", "true":
			return true, true
		case "0", "f", "false":
			return false, true
		}
	}
	return false, false
}

// Ternary is the documented conversion of a value to a ternary.
func Ternary(v Val) int {
	if b, ok := AsBoolean(v); ok {
		if b {
			return T
		}
		return F
	}
	return U
}

// Compare walks the documented ladder. stringRungOpen reports that the two
// operands reached the text rung with at least one operand that is a number
// (Integer/Float) rather than a String: the manual's conversion table (number
// -> its text) and the relational-operator paragraph can be read either way,
// so callers accept both UNKNOWN and the text comparison there.
func Compare(a, b Val) (rel Rel, stringRungOpen bool) {
	if a.IsNull() || b.IsNull() {
		return RelUnknown, false
	}
	if i1, ok := AsInteger(a); ok {
		if i2, ok := AsInteger(b); ok {
			switch {
			case i1 == i2:
				return RelEq, false
			case i1 < i2:
				return RelLt, false
			}
			return RelGt, false
		}
	}
	if f1, ok := AsFloat(a); ok {
		if f2, ok := AsFloat(b); ok {
			switch {
			case math.IsNaN(f1) || math.IsNaN(f2):
				return RelNe, false
			case f1 == f2:
				return RelEq, false
			case f1 < f2:
				return RelLt, false
			}
			return RelGt, false
		}
	}
	if d1, ok := AsDatetime(a); ok {
		if d2, ok := AsDatetime(b); ok {
			switch {
			case d1.Equal(d2):
				return RelEq, false
			case d1.Before(d2):
				return RelLt, false
			}
			return RelGt, false
		}
	}
	if b1, ok := AsBoolean(a); ok {
		if b2, ok := AsBoolean(b); ok {
			if b1 == b2 {
				return RelBoolEq, false
			}
			return RelNe, false
		}
	}
	if a.K == "S" && b.K == "S" {
		if FoldAmbiguous(a.S, b.S) {
			// "case-insensitive" is not spelled out for letters whose upper-case mapping and case folding
			// disagree (dotless i, sharp s, Kelvin sign ...): the relation is open, the laws still apply
			return RelUnknown, true
		}
		return textRel(a.S, b.S), false
	}
	if (a.K == "S" || a.K == "I" || a.K == "F") && (b.K == "S" || b.K == "I" || b.K == "F") {
		return RelUnknown, true
	}
	return RelUnknown, false
}

// FoldAmbiguous: upper-casing and Unicode case folding disagree on whether the two trimmed texts are equal.
func FoldAmbiguous(a, b string) bool {
	x, y := trimBlank(a), trimBlank(b)
	return (strings.ToUpper(x) == strings.ToUpper(y)) != strings.EqualFold(x, y)
}

func textRel(a, b string) Rel {
	s1 := strings.ToUpper(trimBlank(a))
	s2 := strings.ToUpper(trimBlank(b))
	switch {
	case s1 == s2:
		return RelEq
	case s1 < s2:
		return RelLt
	}
	return RelGt
}

// Op applies a relational operator (= <> < <= > >=) to a relation.
func Op(rel Rel, op string) int {
	b := func(x bool) int {
		if x {
			return T
		}
		return F
	}
	switch op {
	case "=":
		switch rel {
		case RelUnknown:
			return U
		}
		return b(rel == RelEq || rel == RelBoolEq)
	case "<>", "!=":
		switch rel {
		case RelUnknown:
			return U
		}
		return b(rel != RelEq && rel != RelBoolEq)
	}
	if rel == RelUnknown || rel == RelNe || rel == RelBoolEq {
		return U
	}
	switch op {
	case "<":
		return b(rel == RelLt)
	case "<=":
		return b(rel == RelLt || rel == RelEq)
	case ">":
		return b(rel == RelGt)
	case ">=":
		return b(rel == RelGt || rel == RelEq)
	}
	return U
}

// Identical is the == operator: same type and equal, UNKNOWN with NULL or the
// UNKNOWN ternary.
func Identical(a, b Val) int {
	if a.IsNull() || b.IsNull() || (a.K == "T" && a.AsTern() == U) || (b.K == "T" && b.AsTern() == U) {
		return U
	}
	if a.K != b.K {
		return F
	}
	eq := false
	switch a.K {
	case "I":
		eq = a.AsInt() == b.AsInt()
	case "F":
		eq = a.AsFloat() == b.AsFloat()
	case "D":
		eq = a.AsTime().Equal(b.AsTime())
	case "B":
		eq = a.AsBool() == b.AsBool()
	case "T":
		eq = a.AsTern() == b.AsTern()
	case "S":
		eq = a.S == b.S
	}
	if eq {
		return T
	}
	return F
}
