package ref

// Reference interpreter for C03: a small relational query IR (tables,
// subqueries, common table expressions incl. the bounded forms of WITH
// RECURSIVE, CROSS/INNER/LEFT/RIGHT/FULL/NATURAL/USING/LATERAL joins, WHERE,
// select list), its rendering to csvq SQL text and its evaluation by textbook
// definitions (nested-loop joins, Kleene logic over the documented comparison
// ladder, NULL padding of exactly the unmatched rows, USING/NATURAL columns
// merged once as COALESCE(left, right) ahead of the remaining columns).
//
// The value domain is restricted to integers, short non-numeric strings and
// NULL. A comparison of an Integer with a non-numeric String ends at the text
// rung of the ladder, which the manual leaves open (UNKNOWN or comparison of
// the texts): the interpreter is run under either reading (openText).

import (
	"fmt"
	"sort"
	"strings"

	"verif/internal/val"
)

// ---------------------------------------------------------------------
// IR

type SelTable struct {
	Name string `json:"name"`
	File bool   `json:"file,omitempty"` // CSV file <name>.csv, else temporary table
	// Format of a file table: "" = csv; tsv, json, jsonl, ltsv (file
	// <name>.<format>) or stdin (the data is piped to the session and the
	// table is written STDIN).
	Format string      `json:"format,omitempty"`
	Cols   []string    `json:"cols"`
	Rows   [][]val.Val `json:"rows"`
}

// SelExpr kinds: col, lit, cmp, isnull, and, or, not, in, between, arith, and
// the forms with a nested query (Sub), which may refer to the columns of the
// enclosing queries: exists ([NOT] EXISTS), insub (x [NOT] IN (query)), quant
// (x op ANY|ALL (query)), scalar (a subquery used as a value).
type SelExpr struct {
	Kind  string     `json:"kind"`
	View  string     `json:"view,omitempty"` // col: qualifier, "" = bare reference
	Col   string     `json:"col,omitempty"`
	Lit   *val.Val   `json:"lit,omitempty"`
	Op    string     `json:"op,omitempty"`  // cmp: = <> < <= > >= ; arith: + - *
	Neg   bool       `json:"neg,omitempty"` // IS NOT NULL, NOT IN, NOT BETWEEN
	Args  []*SelExpr `json:"args,omitempty"`
	Sub   *SelQuery  `json:"sub,omitempty"`   // exists, insub, quant, scalar
	Quant string     `json:"quant,omitempty"` // quant: ANY | ALL
}

type SelField struct {
	Star  bool     `json:"star,omitempty"` // * (View == "") or view.*
	View  string   `json:"view,omitempty"`
	Expr  *SelExpr `json:"expr,omitempty"`
	Alias string   `json:"alias,omitempty"`
}

// SelSource kinds: table (table or CTE name), sub (subquery), join.
type SelSource struct {
	Kind string `json:"kind"`
	Name string `json:"name,omitempty"`
	Ext  bool   `json:"ext,omitempty"` // file table written as `name.csv`
	// Fmt: format of the file behind a table source ("" = csv; tsv json jsonl
	// ltsv stdin). Form: how the file is written: "" = table name (with the
	// extension when Ext), func = format specified function (CSV(',', `f`),
	// JSON('', `f`), LTSV(`f`) ...), file = FILE::('f'), inline = INLINE::('f').
	Fmt     string    `json:"fmt,omitempty"`
	Form    string    `json:"form,omitempty"`
	Alias   string    `json:"alias,omitempty"`
	As      bool      `json:"as,omitempty"`
	Sub     *SelQuery `json:"sub,omitempty"`
	Lateral bool      `json:"lateral,omitempty"`
	Paren   bool      `json:"paren,omitempty"` // join written in parentheses

	Left     *SelSource `json:"left,omitempty"`
	Right    *SelSource `json:"right,omitempty"`
	JoinType string     `json:"join_type,omitempty"` // CROSS INNER LEFT RIGHT FULL
	InnerKw  bool       `json:"inner_kw,omitempty"`  // INNER written out
	OuterKw  bool       `json:"outer_kw,omitempty"`  // OUTER written out
	Natural  bool       `json:"natural,omitempty"`
	Using    []string   `json:"using,omitempty"`
	On       *SelExpr   `json:"on,omitempty"`
}

type SelCTE struct {
	Name      string    `json:"name"`
	Cols      []string  `json:"cols,omitempty"`
	Recursive bool      `json:"recursive,omitempty"`
	Query     *SelQuery `json:"query,omitempty"`    // non-recursive body, or base of the recursion
	Step      *SelQuery `json:"step,omitempty"`     // recursive member (UNION ALL)
	Distinct  bool      `json:"distinct,omitempty"` // recursive: UNION instead of UNION ALL
}

type SelQuery struct {
	With   []SelCTE     `json:"with,omitempty"`
	From   []*SelSource `json:"from,omitempty"` // comma separated
	Where  *SelExpr     `json:"where,omitempty"`
	Fields []SelField   `json:"fields"`
}

// SelCol describes one column of an intermediate relation.
type SelCol struct {
	View string // qualifier under which the column can be referenced ("" for merged columns)
	Name string
	Join bool // merged USING/NATURAL column
}

// ---------------------------------------------------------------------
// rendering

func SelExprSQL(e *SelExpr) string {
	switch e.Kind {
	case "col":
		if e.View != "" {
			return e.View + "." + e.Col
		}
		return e.Col
	case "lit":
		return e.Lit.SQL()
	case "cmp", "arith":
		return "(" + SelExprSQL(e.Args[0]) + " " + e.Op + " " + SelExprSQL(e.Args[1]) + ")"
	case "isnull":
		if e.Neg {
			return "(" + SelExprSQL(e.Args[0]) + " IS NOT NULL)"
		}
		return "(" + SelExprSQL(e.Args[0]) + " IS NULL)"
	case "and":
		return "(" + SelExprSQL(e.Args[0]) + " AND " + SelExprSQL(e.Args[1]) + ")"
	case "or":
		return "(" + SelExprSQL(e.Args[0]) + " OR " + SelExprSQL(e.Args[1]) + ")"
	case "not":
		return "(NOT " + SelExprSQL(e.Args[0]) + ")"
	case "in":
		items := make([]string, 0, len(e.Args)-1)
		for _, a := range e.Args[1:] {
			items = append(items, SelExprSQL(a))
		}
		not := ""
		if e.Neg {
			not = "NOT "
		}
		return "(" + SelExprSQL(e.Args[0]) + " " + not + "IN (" + strings.Join(items, ", ") + "))"
	case "between":
		not := ""
		if e.Neg {
			not = "NOT "
		}
		return "(" + SelExprSQL(e.Args[0]) + " " + not + "BETWEEN " + SelExprSQL(e.Args[1]) + " AND " + SelExprSQL(e.Args[2]) + ")"
	}
	return selExprSQLExt(e)
}

// condSQL strips the outermost parentheses of a condition (both spellings are
// the same expression; the inner structure stays fully parenthesised).
func condSQL(e *SelExpr) string {
	s := SelExprSQL(e)
	switch e.Kind {
	case "cmp", "isnull", "and", "or", "in", "between":
		return s[1 : len(s)-1]
	}
	return s
}

func selSourceSQL(s *SelSource) string {
	var b strings.Builder
	switch s.Kind {
	case "table":
		if s.Fmt != "" || s.Form != "" {
			b.WriteString(selFileSourceSQL(s))
		} else if s.Ext {
			b.WriteString("`" + s.Name + ".csv`")
		} else {
			b.WriteString(s.Name)
		}
	case "sub":
		if s.Lateral {
			b.WriteString("LATERAL ")
		}
		b.WriteString("(" + SelSQL(s.Sub) + ")")
	case "join":
		if s.Paren {
			b.WriteString("(")
		}
		b.WriteString(selSourceSQL(s.Left))
		b.WriteString(" ")
		if s.Natural {
			b.WriteString("NATURAL ")
		}
		switch s.JoinType {
		case "CROSS":
			b.WriteString("CROSS JOIN ")
		case "INNER":
			if s.InnerKw {
				b.WriteString("INNER ")
			}
			b.WriteString("JOIN ")
		default:
			b.WriteString(s.JoinType + " ")
			if s.OuterKw {
				b.WriteString("OUTER ")
			}
			b.WriteString("JOIN ")
		}
		b.WriteString(selSourceSQL(s.Right))
		if len(s.Using) > 0 {
			b.WriteString(" USING (" + strings.Join(s.Using, ", ") + ")")
		} else if s.On != nil {
			b.WriteString(" ON " + condSQL(s.On))
		}
		if s.Paren {
			b.WriteString(")")
		}
		return b.String()
	}
	if s.Alias != "" {
		if s.As {
			b.WriteString(" AS " + s.Alias)
		} else {
			b.WriteString(" " + s.Alias)
		}
	}
	return b.String()
}

func selBodySQL(q *SelQuery) string {
	var b strings.Builder
	b.WriteString("SELECT ")
	for i, f := range q.Fields {
		if i > 0 {
			b.WriteString(", ")
		}
		switch {
		case f.Star && f.View != "":
			b.WriteString(f.View + ".*")
		case f.Star:
			b.WriteString("*")
		default:
			b.WriteString(SelExprSQL(f.Expr))
			if f.Alias != "" {
				b.WriteString(" AS " + f.Alias)
			}
		}
	}
	if len(q.From) > 0 {
		b.WriteString(" FROM ")
		for i, s := range q.From {
			if i > 0 {
				b.WriteString(", ")
			}
			b.WriteString(selSourceSQL(s))
		}
	}
	if q.Where != nil {
		b.WriteString(" WHERE " + condSQL(q.Where))
	}
	return b.String()
}

// SelSQL renders the query as csvq SQL text.
func SelSQL(q *SelQuery) string {
	var b strings.Builder
	if len(q.With) > 0 {
		b.WriteString("WITH ")
		for i, c := range q.With {
			if i > 0 {
				b.WriteString(", ")
			}
			if c.Recursive {
				b.WriteString("RECURSIVE ")
			}
			b.WriteString(c.Name)
			if len(c.Cols) > 0 {
				b.WriteString(" (" + strings.Join(c.Cols, ", ") + ")")
			}
			b.WriteString(" AS (" + SelSQL(c.Query))
			if c.Recursive && c.Distinct {
				b.WriteString(" UNION " + SelSQL(c.Step))
			} else if c.Recursive {
				b.WriteString(" UNION ALL " + SelSQL(c.Step))
			}
			b.WriteString(")")
		}
		b.WriteString(" ")
	}
	b.WriteString(selBodySQL(q))
	return b.String()
}

// ---------------------------------------------------------------------
// static description (operator multiset, nesting depth)

type selWalk struct {
	ops   map[string]int
	depth int
}

func (w *selWalk) query(q *SelQuery, d int) {
	if d > w.depth {
		w.depth = d
	}
	for _, c := range q.With {
		if c.Recursive {
			w.ops["cte_recursive"]++
			w.query(c.Query, d+1)
			w.query(c.Step, d+1)
		} else {
			w.ops["cte"]++
			w.query(c.Query, d+1)
		}
	}
	for i, s := range q.From {
		if i > 0 {
			if s.Kind == "sub" && s.Lateral {
				w.ops["comma_lateral"]++
			} else {
				w.ops["comma"]++
			}
		}
		w.source(s, d)
	}
	if q.Where != nil {
		w.ops["where"]++
		w.expr(q.Where, d)
	}
	for _, f := range q.Fields {
		if f.Expr != nil {
			w.expr(f.Expr, d)
		}
	}
}

// expr counts the nested-query forms inside an expression (pred_exists,
// pred_in_sub, pred_any, pred_all, scalar_sub).
func (w *selWalk) expr(e *SelExpr, d int) {
	if e == nil {
		return
	}
	if e.Sub != nil {
		switch e.Kind {
		case "exists":
			w.ops["pred_exists"]++
		case "insub":
			w.ops["pred_in_sub"]++
		case "quant":
			w.ops["pred_"+strings.ToLower(e.Quant)]++
		default:
			w.ops["scalar_sub"]++
		}
		w.query(e.Sub, d+1)
	}
	for _, a := range e.Args {
		w.expr(a, d)
	}
}

func (w *selWalk) source(s *SelSource, d int) {
	switch s.Kind {
	case "sub":
		w.ops["subquery"]++
		w.query(s.Sub, d+1)
	case "join":
		name := strings.ToLower(s.JoinType)
		switch {
		case s.Natural:
			name = "natural_" + name
		case len(s.Using) > 0:
			name += "_using"
		}
		if s.Right.Kind == "sub" && s.Right.Lateral {
			name += "_lateral"
		}
		w.ops[name]++
		w.source(s.Left, d)
		w.source(s.Right, d)
		w.expr(s.On, d)
	}
}

// SelOps returns the operator multiset (sorted "name*count" items), the
// nesting depth (1 = no nested query) and whether the query contains a join
// (including comma lists), a nested query (subquery/CTE) or an outer join.
func SelOps(q *SelQuery) (ops []string, depth int, hasJoin, hasNested, hasOuter bool) {
	w := &selWalk{ops: map[string]int{}}
	w.query(q, 1)
	keys := make([]string, 0, len(w.ops))
	for k := range w.ops {
		keys = append(keys, k)
	}
	sort.Strings(keys)
	for _, k := range keys {
		n := w.ops[k]
		if n > 3 {
			n = 3
		}
		ops = append(ops, fmt.Sprintf("%s*%d", k, n))
		switch {
		case k == "where":
		case k == "subquery" || strings.HasPrefix(k, "cte") || strings.HasPrefix(k, "pred_") || k == "scalar_sub":
			hasNested = true
		default:
			hasJoin = true
			if strings.HasPrefix(k, "left") || strings.HasPrefix(k, "right") || strings.HasPrefix(k, "full") ||
				strings.HasPrefix(k, "natural_left") || strings.HasPrefix(k, "natural_right") || strings.HasPrefix(k, "natural_full") {
				hasOuter = true
			}
		}
	}
	return ops, w.depth, hasJoin, hasNested, hasOuter
}

// SelOpNames returns the distinct operator names of the query.
func SelOpNames(q *SelQuery) []string {
	w := &selWalk{ops: map[string]int{}}
	w.query(q, 1)
	keys := make([]string, 0, len(w.ops))
	for k := range w.ops {
		keys = append(keys, k)
	}
	sort.Strings(keys)
	return keys
}

// ---------------------------------------------------------------------
// evaluation

type SelError struct {
	Kind string // unknown_column ambiguous_column unknown_table too_big no_termination shape
	Msg  string
}

func (e *SelError) Error() string { return e.Kind + ": " + e.Msg }

func selErr(kind, format string, args ...interface{}) *SelError {
	return &SelError{Kind: kind, Msg: fmt.Sprintf(format, args...)}
}

type SelStats struct {
	Padded           int  // rows NULL-padded by outer joins (all evaluations)
	WhereStrict      bool // some WHERE evaluation kept a strict non-empty subset
	LateralEmptyLeft bool // a LATERAL join was evaluated with no row on its left side
	DupJoinStar      bool // * over a relation with two merged columns of the same name
	RightUsingOpen   bool // RIGHT join merged a USING column whose two values differ in spelling or type
	OpenCmp          bool // a comparison ended at the open text rung
	Pairs            int  // work: row pairs examined by joins, rows filtered and projected
	SubEvals         int  // evaluations of nested queries inside expressions (EXISTS, IN, ANY/ALL, scalar)
	SubTrue          int  // ... subquery predicates that came out TRUE
	SubNotTrue       int  // ... subquery predicates that came out FALSE or UNKNOWN
	SubUnknown       int  // ... of these UNKNOWN
	ScalarEmpty      int  // scalar subqueries without a row (NULL)
	RecSteps         int  // largest number of non-empty executions of a recursive member
	RecDupRemoved    int  // rows a recursive UNION (without ALL) removed as duplicates
	RecLimitOpen     bool // a recursion needed exactly as many non-empty executions as the limit allows: whether the final, empty execution counts is not documented
	DistinctOpen     bool // a recursive UNION met two rows that are equal as values but not identical (which one is shown is outside C03)
}

type SelResult struct {
	Labels  []string // "" = name not asserted (expression without alias)
	Rows    [][]val.Val
	Ordered bool // the result derives from a single source: its row order is defined
	Stats   SelStats
}

const (
	selMaxRows  = 400000
	selMaxPairs = 2500000
	selMaxIter  = 64
)

type selRel struct {
	cols    []SelCol
	rows    [][]val.Val
	ordered bool
	id      int
}

type selScope struct {
	cols   []SelCol
	id     int
	row    []val.Val
	parent *selScope
}

type selEnv struct {
	ctes   map[string]*selRel
	parent *selEnv
}

func (e *selEnv) lookup(name string) *selRel {
	for x := e; x != nil; x = x.parent {
		if r, ok := x.ctes[name]; ok {
			return r
		}
	}
	return nil
}

type selResKey struct {
	e  *SelExpr
	id int
}

type selResVal struct {
	up, idx int
}

type selCmpKey struct{ a, b val.Val }

type selCmpVal struct {
	rel  Rel
	open bool
}

type selEval struct {
	tables     map[string]*SelTable
	openText   bool
	rightUsing bool
	stats      SelStats
	quiet      int // >0: shape-only evaluation, statistics are not recorded
	nextID     int
	resolved   map[selResKey]selResVal
	cmpCache   map[selCmpKey]selCmpVal
	curEnv     *selEnv // CTE environment of the query being evaluated (for nested queries inside expressions)
	limitRec   int     // > 0: --limit-recursion
}

// SelReading fixes the outcomes the manual leaves open.
type SelReading struct {
	OpenText   bool // Integer vs non-numeric String: compare the texts (else UNKNOWN)
	RightUsing bool // RIGHT JOIN ... USING/NATURAL: the merged column shows the right side's value when both sides have one (else the left side's)
}

// SelEval interprets the query over the tables.
func SelEval(tables []SelTable, q *SelQuery, rd SelReading) (*SelResult, error) {
	r, err := SelEvalOpt(tables, q, SelOptions{Reading: rd})
	if err != nil {
		return nil, err
	}
	return r, nil
}

// charge accounts for n units of work (row pairs joined, rows filtered or
// projected); beyond the budget the case is given up as too big.
func (ev *selEval) charge(n int) error {
	ev.stats.Pairs += n
	if ev.stats.Pairs > selMaxPairs {
		return selErr("too_big", "more than %d rows and row pairs to examine", selMaxPairs)
	}
	return nil
}

func (ev *selEval) newID() int {
	ev.nextID++
	return ev.nextID
}

func (ev *selEval) cmp(a, b val.Val, op string) int {
	k := selCmpKey{a, b}
	c, ok := ev.cmpCache[k]
	if !ok {
		c.rel, c.open = Compare(a, b)
		if len(ev.cmpCache) > 200000 {
			ev.cmpCache = map[selCmpKey]selCmpVal{}
		}
		ev.cmpCache[k] = c
	}
	rel := c.rel
	if c.open {
		if ev.quiet == 0 {
			ev.stats.OpenCmp = true
		}
		if ev.openText {
			rel = textRel(a.S, b.S)
		}
	}
	return Op(rel, op)
}

func (ev *selEval) resolve(e *SelExpr, sc *selScope) (val.Val, error) {
	if sc == nil {
		return val.Null, selErr("unknown_column", "%s", SelExprSQL(e))
	}
	key := selResKey{e, sc.id}
	if r, ok := ev.resolved[key]; ok {
		s := sc
		for i := 0; i < r.up; i++ {
			s = s.parent
		}
		return s.row[r.idx], nil
	}
	up := 0
	for s := sc; s != nil; s = s.parent {
		idx, n := -1, 0
		for i, c := range s.cols {
			if c.Name != e.Col {
				continue
			}
			if e.View != "" && (c.Join || c.View != e.View) {
				continue
			}
			idx = i
			n++
		}
		if n > 1 {
			return val.Null, selErr("ambiguous_column", "%s", SelExprSQL(e))
		}
		if n == 1 {
			ev.resolved[key] = selResVal{up, idx}
			return s.row[idx], nil
		}
		up++
	}
	return val.Null, selErr("unknown_column", "%s", SelExprSQL(e))
}

func (ev *selEval) tern(e *SelExpr, sc *selScope) (int, error) {
	v, err := ev.eval(e, sc)
	if err != nil {
		return U, err
	}
	return Ternary(v), nil
}

func (ev *selEval) eval(e *SelExpr, sc *selScope) (val.Val, error) {
	switch e.Kind {
	case "col":
		return ev.resolve(e, sc)
	case "lit":
		return *e.Lit, nil
	case "cmp":
		a, err := ev.eval(e.Args[0], sc)
		if err != nil {
			return val.Null, err
		}
		b, err := ev.eval(e.Args[1], sc)
		if err != nil {
			return val.Null, err
		}
		return val.Tern(ev.cmp(a, b, e.Op)), nil
	case "arith":
		a, err := ev.eval(e.Args[0], sc)
		if err != nil {
			return val.Null, err
		}
		b, err := ev.eval(e.Args[1], sc)
		if err != nil {
			return val.Null, err
		}
		x, ok1 := AsInteger(a)
		y, ok2 := AsInteger(b)
		if !ok1 || !ok2 {
			return val.Null, nil
		}
		switch e.Op {
		case "+":
			return val.Int(x + y), nil
		case "-":
			return val.Int(x - y), nil
		case "*":
			return val.Int(x * y), nil
		}
		return val.Null, selErr("shape", "arithmetic operator %q", e.Op)
	case "isnull":
		a, err := ev.eval(e.Args[0], sc)
		if err != nil {
			return val.Null, err
		}
		if a.IsNull() != e.Neg {
			return val.Tern(T), nil
		}
		return val.Tern(F), nil
	case "and", "or":
		// both operands are evaluated: an unresolved reference is an error of
		// the model wherever it stands
		a, err := ev.tern(e.Args[0], sc)
		if err != nil {
			return val.Null, err
		}
		b, err := ev.tern(e.Args[1], sc)
		if err != nil {
			return val.Null, err
		}
		if e.Kind == "and" {
			return val.Tern(And(a, b)), nil
		}
		return val.Tern(Or(a, b)), nil
	case "not":
		a, err := ev.tern(e.Args[0], sc)
		if err != nil {
			return val.Null, err
		}
		return val.Tern(Not(a)), nil
	case "in":
		a, err := ev.eval(e.Args[0], sc)
		if err != nil {
			return val.Null, err
		}
		// a IN (x, y) = (a = x) OR (a = y); a NOT IN (x, y) = (a <> x) AND (a <> y)
		t := F
		if e.Neg {
			t = T
		}
		for _, it := range e.Args[1:] {
			b, err := ev.eval(it, sc)
			if err != nil {
				return val.Null, err
			}
			if e.Neg {
				t = And(t, ev.cmp(a, b, "<>"))
			} else {
				t = Or(t, ev.cmp(a, b, "="))
			}
		}
		return val.Tern(t), nil
	case "between":
		a, err := ev.eval(e.Args[0], sc)
		if err != nil {
			return val.Null, err
		}
		lo, err := ev.eval(e.Args[1], sc)
		if err != nil {
			return val.Null, err
		}
		hi, err := ev.eval(e.Args[2], sc)
		if err != nil {
			return val.Null, err
		}
		t := And(ev.cmp(lo, a, "<="), ev.cmp(a, hi, "<="))
		if e.Neg {
			t = Not(t)
		}
		return val.Tern(t), nil
	}
	return ev.evalExt(e, sc)
}

// SelJoinCols computes the columns of a join result and the merged column
// names: for NATURAL the names present on both sides in the order of the left
// side, for USING the listed names; merged columns come first, then the
// remaining columns of the left side, then those of the right side. A merged
// name must denote exactly one column on either side.
func SelJoinCols(left, right []SelCol, natural bool, using []string) (cols []SelCol, names []string, li, ri []int, err error) {
	count := func(cs []SelCol, name string) (int, int) {
		n, idx := 0, -1
		for i, c := range cs {
			if c.Name == name {
				n++
				idx = i
			}
		}
		return n, idx
	}
	if natural {
		seen := map[string]bool{}
		for _, c := range left {
			if seen[c.Name] {
				continue
			}
			seen[c.Name] = true
			if n, _ := count(right, c.Name); n > 0 {
				names = append(names, c.Name)
			}
		}
	} else {
		names = using
	}
	lMerged, rMerged := map[int]bool{}, map[int]bool{}
	for _, name := range names {
		ln, lidx := count(left, name)
		rn, ridx := count(right, name)
		if ln == 0 || rn == 0 {
			return nil, nil, nil, nil, selErr("unknown_column", "USING (%s)", name)
		}
		if ln > 1 || rn > 1 || lMerged[lidx] {
			return nil, nil, nil, nil, selErr("ambiguous_column", "USING (%s)", name)
		}
		lMerged[lidx], rMerged[ridx] = true, true
		li, ri = append(li, lidx), append(ri, ridx)
		cols = append(cols, SelCol{Name: name, Join: true})
	}
	for i, c := range left {
		if !lMerged[i] {
			cols = append(cols, c)
		}
	}
	for i, c := range right {
		if !rMerged[i] {
			cols = append(cols, c)
		}
	}
	return cols, names, li, ri, nil
}

func nullRow(n int) []val.Val {
	r := make([]val.Val, n)
	for i := range r {
		r[i] = val.Null
	}
	return r
}

// joinRows joins left and right (full rows, columns left ++ right) under the
// join node s; outer is the enclosing scope (LATERAL / enclosing queries).
func (ev *selEval) joinRows(s *SelSource, left, right *selRel, outer *selScope) (*selRel, error) {
	nl, nr := len(left.cols), len(right.cols)
	merged := make([]SelCol, 0, nl+nr)
	merged = append(merged, left.cols...)
	merged = append(merged, right.cols...)
	var outCols []SelCol
	var li, ri []int
	usingJoin := s.Natural || len(s.Using) > 0
	if usingJoin {
		var err error
		outCols, _, li, ri, err = SelJoinCols(left.cols, right.cols, s.Natural, s.Using)
		if err != nil {
			return nil, err
		}
	} else {
		outCols = merged
	}
	sc := &selScope{cols: merged, id: ev.newID(), parent: outer}
	buf := make([]val.Val, nl+nr)
	match := func(l, r []val.Val) (bool, error) {
		if usingJoin {
			for i := range li {
				if ev.cmp(l[li[i]], r[ri[i]], "=") != T {
					return false, nil
				}
			}
			return true, nil
		}
		if s.JoinType == "CROSS" || s.On == nil {
			return true, nil
		}
		copy(buf, l)
		copy(buf[nl:], r)
		sc.row = buf
		t, err := ev.tern(s.On, sc)
		return t == T, err
	}
	if s.On != nil && len(left.rows)*len(right.rows) == 0 && !usingJoin && s.JoinType != "CROSS" {
		// references in the condition must resolve even when no pair is examined
		sc.row = nullRow(nl + nr)
		ev.quiet++
		_, err := ev.tern(s.On, sc)
		ev.quiet--
		if err != nil {
			return nil, err
		}
	}
	if err := ev.charge(len(left.rows)*len(right.rows) + len(left.rows) + len(right.rows)); err != nil {
		return nil, err
	}
	var rows [][]val.Val
	emit := func(l, r []val.Val) {
		row := make([]val.Val, 0, nl+nr)
		row = append(row, l...)
		row = append(row, r...)
		rows = append(rows, row)
	}
	rightMatched := make([]bool, len(right.rows))
	switch s.JoinType {
	case "CROSS", "INNER", "LEFT", "FULL":
		for _, l := range left.rows {
			found := false
			for j, r := range right.rows {
				ok, err := match(l, r)
				if err != nil {
					return nil, err
				}
				if ok {
					found = true
					rightMatched[j] = true
					emit(l, r)
				}
			}
			if !found && (s.JoinType == "LEFT" || s.JoinType == "FULL") {
				emit(l, nullRow(nr))
				if ev.quiet == 0 {
					ev.stats.Padded++
				}
			}
		}
		if s.JoinType == "FULL" {
			for j, r := range right.rows {
				if !rightMatched[j] {
					emit(nullRow(nl), r)
					if ev.quiet == 0 {
						ev.stats.Padded++
					}
				}
			}
		}
	case "RIGHT":
		for _, r := range right.rows {
			found := false
			for _, l := range left.rows {
				ok, err := match(l, r)
				if err != nil {
					return nil, err
				}
				if ok {
					found = true
					emit(l, r)
				}
			}
			if !found {
				emit(nullRow(nl), r)
				if ev.quiet == 0 {
					ev.stats.Padded++
				}
			}
		}
	default:
		return nil, selErr("shape", "join type %q", s.JoinType)
	}
	if len(rows) > selMaxRows {
		return nil, selErr("too_big", "join result of %d rows", len(rows))
	}
	if usingJoin && len(li) > 0 {
		lM, rM := map[int]bool{}, map[int]bool{}
		for i := range li {
			lM[li[i]], rM[ri[i]] = true, true
		}
		for k, row := range rows {
			out := make([]val.Val, 0, len(outCols))
			for i := range li {
				l, r := row[li[i]], row[nl+ri[i]]
				v := l // COALESCE(left, right)
				if l.IsNull() {
					v = r
				} else if s.JoinType == "RIGHT" && !r.IsNull() && l != r {
					// equal values of different spelling or type: which one a
					// RIGHT join shows is not documented
					if ev.quiet == 0 {
						ev.stats.RightUsingOpen = true
					}
					if ev.rightUsing {
						v = r
					}
				}
				out = append(out, v)
			}
			for i := 0; i < nl; i++ {
				if !lM[i] {
					out = append(out, row[i])
				}
			}
			for i := 0; i < nr; i++ {
				if !rM[i] {
					out = append(out, row[nl+i])
				}
			}
			rows[k] = out
		}
	}
	return &selRel{cols: outCols, rows: rows, id: ev.newID()}, nil
}

func (ev *selEval) source(s *SelSource, env *selEnv, outer *selScope) (*selRel, error) {
	switch s.Kind {
	case "table":
		view := s.Alias
		if view == "" {
			view = s.Name
		}
		var names []string
		var rows [][]val.Val
		ordered := false
		if r := env.lookup(s.Name); r != nil {
			for _, c := range r.cols {
				names = append(names, c.Name)
			}
			rows, ordered = r.rows, r.ordered
		} else if t, ok := ev.tables[s.Name]; ok {
			names, rows, ordered = t.Cols, t.Rows, true
		} else {
			return nil, selErr("unknown_table", "%s", s.Name)
		}
		cols := make([]SelCol, len(names))
		for i, n := range names {
			cols[i] = SelCol{View: view, Name: n}
		}
		return &selRel{cols: cols, rows: rows, ordered: ordered, id: ev.newID()}, nil
	case "sub":
		rel, labels, err := ev.query(s.Sub, env, outer)
		if err != nil {
			return nil, err
		}
		cols := make([]SelCol, len(labels))
		for i, n := range labels {
			cols[i] = SelCol{View: s.Alias, Name: n}
		}
		return &selRel{cols: cols, rows: rel.rows, ordered: rel.ordered, id: ev.newID()}, nil
	case "join":
		left, err := ev.source(s.Left, env, outer)
		if err != nil {
			return nil, err
		}
		if s.Right.Kind == "sub" && s.Right.Lateral {
			return ev.lateral(s, left, env, outer)
		}
		right, err := ev.source(s.Right, env, outer)
		if err != nil {
			return nil, err
		}
		return ev.joinRows(s, left, right, outer)
	}
	return nil, selErr("shape", "source kind %q", s.Kind)
}

// lateral: the right side is evaluated once per row of the left side, which
// it may reference; each left row is joined with its own right side.
func (ev *selEval) lateral(s *SelSource, left *selRel, env *selEnv, outer *selScope) (*selRel, error) {
	if s.JoinType == "RIGHT" || s.JoinType == "FULL" {
		return nil, selErr("shape", "LATERAL in a RIGHT or FULL join")
	}
	sc := &selScope{cols: left.cols, id: left.id, parent: outer}
	var out *selRel
	if len(left.rows) == 0 {
		if ev.quiet == 0 {
			ev.stats.LateralEmptyLeft = true
		}
		// the columns do not depend on the values: evaluate the shape on a NULL row
		sc.row = nullRow(len(left.cols))
		ev.quiet++
		right, err := ev.source(s.Right, env, sc)
		if err == nil {
			out, err = ev.joinRows(s, &selRel{cols: left.cols, id: left.id}, right, outer)
		}
		ev.quiet--
		if err != nil {
			return nil, err
		}
		out.rows = nil
		return out, nil
	}
	for _, l := range left.rows {
		sc.row = l
		right, err := ev.source(s.Right, env, sc)
		if err != nil {
			return nil, err
		}
		one, err := ev.joinRows(s, &selRel{cols: left.cols, rows: [][]val.Val{l}, id: left.id}, right, outer)
		if err != nil {
			return nil, err
		}
		if out == nil {
			out = one
		} else {
			out.rows = append(out.rows, one.rows...)
		}
		if len(out.rows) > selMaxRows {
			return nil, selErr("too_big", "lateral join result of %d rows", len(out.rows))
		}
	}
	return out, nil
}

func (ev *selEval) from(q *SelQuery, env *selEnv, outer *selScope) (*selRel, error) {
	if len(q.From) == 0 {
		return &selRel{rows: [][]val.Val{{}}, id: ev.newID()}, nil
	}
	rel, err := ev.source(q.From[0], env, outer)
	if err != nil {
		return nil, err
	}
	for _, s := range q.From[1:] {
		// a comma is a cross join of everything before it with the next item
		j := &SelSource{Kind: "join", JoinType: "CROSS", Right: s}
		if s.Kind == "sub" && s.Lateral {
			rel, err = ev.lateral(j, rel, env, outer)
		} else {
			var right *selRel
			right, err = ev.source(s, env, outer)
			if err == nil {
				rel, err = ev.joinRows(j, rel, right, outer)
			}
		}
		if err != nil {
			return nil, err
		}
	}
	return rel, nil
}

func (ev *selEval) cte(c *SelCTE, env *selEnv, outer *selScope) (*selRel, error) {
	rename := func(rel *selRel, labels []string) (*selRel, error) {
		names := labels
		if len(c.Cols) > 0 {
			if len(c.Cols) != len(labels) {
				return nil, selErr("shape", "CTE %s: %d column names for %d fields", c.Name, len(c.Cols), len(labels))
			}
			names = c.Cols
		}
		cols := make([]SelCol, len(names))
		for i, n := range names {
			cols[i] = SelCol{View: c.Name, Name: n}
		}
		return &selRel{cols: cols, rows: rel.rows, ordered: rel.ordered, id: ev.newID()}, nil
	}
	base, labels, err := ev.query(c.Query, env, outer)
	if err != nil {
		return nil, err
	}
	cur, err := rename(base, labels)
	if err != nil {
		return nil, err
	}
	if !c.Recursive {
		return cur, nil
	}
	// the recursive member sees the rows of the previous step (manual: "the
	// temporary view is replaced by the result set of the recursive select
	// query"); the result is the UNION [ALL] of all steps; iteration ends with
	// the first empty step
	all := &selRel{cols: cur.cols, rows: append([][]val.Val{}, cur.rows...), id: ev.newID()}
	steps := 0
	for it := 0; ; it++ {
		if it > selMaxIter {
			return nil, selErr("no_termination", "CTE %s: more than %d iterations", c.Name, selMaxIter)
		}
		stepEnv := &selEnv{ctes: map[string]*selRel{c.Name: cur}, parent: env}
		next, nl, err := ev.query(c.Step, stepEnv, outer)
		if err != nil {
			return nil, err
		}
		if len(nl) != len(all.cols) {
			return nil, selErr("shape", "CTE %s: recursive member has %d fields", c.Name, len(nl))
		}
		if len(next.rows) == 0 {
			break
		}
		steps++
		if ev.quiet == 0 && steps > ev.stats.RecSteps {
			ev.stats.RecSteps = steps
		}
		if ev.limitRec > 0 && steps > ev.limitRec {
			// more non-empty executions than the limit allows under any reading
			return nil, selErr("recursion_limit", "CTE %s: more than %d iterations", c.Name, ev.limitRec)
		}
		all.rows = append(all.rows, next.rows...)
		if len(all.rows) > selMaxRows {
			return nil, selErr("too_big", "CTE %s: %d rows", c.Name, len(all.rows))
		}
		if err := ev.charge(len(next.rows)); err != nil {
			return nil, err
		}
		cur = &selRel{cols: all.cols, rows: next.rows, id: ev.newID()}
	}
	if ev.quiet == 0 {
		if steps > ev.stats.RecSteps {
			ev.stats.RecSteps = steps
		}
		if ev.limitRec > 0 && steps == ev.limitRec {
			ev.stats.RecLimitOpen = true
		}
	}
	if c.Distinct {
		rows, open, err := ev.distinctRows(all.rows)
		if err != nil {
			return nil, err
		}
		if ev.quiet == 0 {
			ev.stats.RecDupRemoved += len(all.rows) - len(rows)
			if open {
				ev.stats.DistinctOpen = true
			}
		}
		all.rows = rows
	}
	return all, nil
}

// query evaluates one SELECT; labels are the output column names ("" when the
// field is an expression without alias).
func (ev *selEval) query(q *SelQuery, env *selEnv, outer *selScope) (*selRel, []string, error) {
	if len(q.With) > 0 {
		env = &selEnv{ctes: map[string]*selRel{}, parent: env}
		for i := range q.With {
			rel, err := ev.cte(&q.With[i], env, outer)
			if err != nil {
				return nil, nil, err
			}
			env.ctes[q.With[i].Name] = rel
		}
	}
	savedEnv := ev.curEnv
	ev.curEnv = env
	defer func() { ev.curEnv = savedEnv }()
	rel, err := ev.from(q, env, outer)
	if err != nil {
		return nil, nil, err
	}
	sc := &selScope{cols: rel.cols, id: rel.id, parent: outer}
	rows := rel.rows
	if err := ev.charge(2*len(rows) + 1); err != nil {
		return nil, nil, err
	}
	if q.Where != nil {
		if len(rows) == 0 {
			sc.row = nullRow(len(rel.cols))
			ev.quiet++
			_, err := ev.tern(q.Where, sc)
			ev.quiet--
			if err != nil {
				return nil, nil, err
			}
		}
		kept := make([][]val.Val, 0, len(rows))
		for _, r := range rows {
			sc.row = r
			t, err := ev.tern(q.Where, sc)
			if err != nil {
				return nil, nil, err
			}
			if t == T { // a row is kept iff its condition is TRUE
				kept = append(kept, r)
			}
		}
		if ev.quiet == 0 && len(kept) > 0 && len(kept) < len(rows) {
			ev.stats.WhereStrict = true
		}
		rows = kept
	}
	// select list
	type outCol struct {
		idx  int // >= 0: column of rel
		expr *SelExpr
	}
	var outs []outCol
	var labels []string
	for _, f := range q.Fields {
		switch {
		case f.Star && f.View == "":
			seen := map[string]bool{}
			for i, c := range rel.cols {
				if c.Join {
					if seen[c.Name] && ev.quiet == 0 {
						ev.stats.DupJoinStar = true
					}
					seen[c.Name] = true
				}
				outs = append(outs, outCol{idx: i})
				labels = append(labels, c.Name)
			}
		case f.Star:
			n := 0
			for i, c := range rel.cols {
				if !c.Join && c.View == f.View {
					outs = append(outs, outCol{idx: i})
					labels = append(labels, c.Name)
					n++
				}
			}
			if n == 0 {
				return nil, nil, selErr("unknown_table", "%s.*", f.View)
			}
		default:
			outs = append(outs, outCol{idx: -1, expr: f.Expr})
			switch {
			case f.Alias != "":
				labels = append(labels, f.Alias)
			case f.Expr.Kind == "col":
				labels = append(labels, f.Expr.Col)
			default:
				labels = append(labels, "")
			}
		}
	}
	if len(rows) == 0 {
		sc.row = nullRow(len(rel.cols))
		ev.quiet++
		for _, oc := range outs {
			if oc.expr != nil {
				if _, err := ev.eval(oc.expr, sc); err != nil {
					ev.quiet--
					return nil, nil, err
				}
			}
		}
		ev.quiet--
	}
	res := make([][]val.Val, len(rows))
	for k, r := range rows {
		sc.row = r
		out := make([]val.Val, len(outs))
		for i, oc := range outs {
			if oc.idx >= 0 {
				out[i] = r[oc.idx]
				continue
			}
			v, err := ev.eval(oc.expr, sc)
			if err != nil {
				return nil, nil, err
			}
			out[i] = v
		}
		res[k] = out
	}
	return &selRel{rows: res, ordered: rel.ordered, id: ev.newID()}, labels, nil
}
