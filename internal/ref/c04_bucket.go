package ref

// Reference model for C04: which rows belong to one DISTINCT / GROUP BY /
// set-operator / PARTITION bucket, and the aggregates over a bucket. Written
// from the property statement and the manual (value.md conversion ladder,
// aggregate-functions.md), independent of csvq's serialised comparison keys.

import (
	"math"
	"sort"
	"strings"
	"time"
)

// C04Norm is the documented normal form of one key cell.
// T: N null, I integer, F float, D datetime, B boolean, S text.
type C04Norm struct {
	T byte
	I int64   // I: the integer; D: unix nanoseconds
	F float64 // F: the float
	B bool
	S string // S: the normalised text (strict: the exact text)
	// Trim is the text without edge blanks (strict mode, S only)
	Trim string
}

// C04Normalise classifies a cell. Without strict-equal the documented ladder
// applies: integer, float, datetime, boolean, else case-insensitive trimmed
// text. Under strict-equal a value keeps its own type and exact text.
func C04Normalise(v Val, strict bool) C04Norm {
	if v.IsNull() {
		return C04Norm{T: 'N'}
	}
	if strict {
		switch v.K {
		case "I":
			return C04Norm{T: 'I', I: v.AsInt()}
		case "F":
			return C04Norm{T: 'F', F: v.AsFloat()}
		case "D":
			return C04Norm{T: 'D', I: v.AsTime().UnixNano()}
		case "B":
			return C04Norm{T: 'B', B: v.AsBool()}
		case "S":
			return C04Norm{T: 'S', S: v.S, Trim: trimBlank(v.S)}
		}
		return C04Norm{T: '?', S: v.K + v.S}
	}
	if i, ok := AsInteger(v); ok {
		return C04Norm{T: 'I', I: i}
	}
	if f, ok := AsFloat(v); ok {
		return C04Norm{T: 'F', F: f}
	}
	if d, ok := AsDatetime(v); ok {
		return C04Norm{T: 'D', I: d.UnixNano()}
	}
	if b, ok := AsBoolean(v); ok {
		return C04Norm{T: 'B', B: b}
	}
	if v.K == "S" {
		return C04Norm{T: 'S', S: strings.ToUpper(trimBlank(v.S))}
	}
	return C04Norm{T: '?', S: v.K + v.S}
}

// C04EStrict: the two cells are certainly equal (same normalised type and
// value, or both NULL): they must share a bucket.
func C04EStrict(a, b C04Norm, strict bool) bool {
	if a.T != b.T {
		return false
	}
	switch a.T {
	case 'N':
		return true
	case 'I', 'D':
		return a.I == b.I
	case 'F':
		if math.IsNaN(a.F) || math.IsNaN(b.F) {
			return false
		}
		if strict && math.Signbit(a.F) != math.Signbit(b.F) {
			return false
		}
		return a.F == b.F
	case 'B':
		return a.B == b.B
	case 'S':
		return a.S == b.S
	}
	return false
}

func c04Numeric(a C04Norm) (float64, bool) {
	switch a.T {
	case 'I':
		return float64(a.I), true
	case 'F':
		return a.F, true
	case 'B':
		if a.B {
			return 1, true
		}
		return 0, true
	}
	return 0, false
}

// C04ELoose: the two cells may share a bucket: C04EStrict plus the pairs the
// property statement leaves open - an integer and the float of the same
// value, a boolean and the number 0/1, NaN with NaN; under strict-equal
// texts that differ only in edge blanks and zeros of different sign.
func C04ELoose(a, b C04Norm, strict bool) bool {
	if C04EStrict(a, b, strict) {
		return true
	}
	if strict {
		if a.T != b.T {
			return false
		}
		switch a.T {
		case 'S':
			return a.Trim == b.Trim
		case 'F':
			return a.F == b.F || (math.IsNaN(a.F) && math.IsNaN(b.F))
		}
		return false
	}
	x, okx := c04Numeric(a)
	y, oky := c04Numeric(b)
	if okx && oky {
		if math.IsNaN(x) && math.IsNaN(y) {
			return true
		}
		return x == y
	}
	return false
}

// C04Tuple is a normalised key tuple.
type C04Tuple []C04Norm

func C04NormaliseTuple(vs []Val, strict bool) C04Tuple {
	t := make(C04Tuple, len(vs))
	for i, v := range vs {
		t[i] = C04Normalise(v, strict)
	}
	return t
}

func C04EStrictTuple(a, b C04Tuple, strict bool) bool {
	for i := range a {
		if !C04EStrict(a[i], b[i], strict) {
			return false
		}
	}
	return true
}

func C04ELooseTuple(a, b C04Tuple, strict bool) bool {
	for i := range a {
		if !C04ELoose(a[i], b[i], strict) {
			return false
		}
	}
	return true
}

// C04ZeroSignOnly reports that the tuples are certainly equal and differ in
// the sign of a float zero somewhere.
func C04ZeroSignOnly(a, b C04Tuple) bool {
	for i := range a {
		if a[i].T == 'F' && b[i].T == 'F' && a[i].F == 0 && b[i].F == 0 && math.Signbit(a[i].F) != math.Signbit(b[i].F) {
			return true
		}
	}
	return false
}

// C04Identical: same type and same spelling (floats and datetimes by value).
func C04Identical(a, b Val) bool {
	if a.K != b.K {
		return false
	}
	switch a.K {
	case "N":
		return true
	case "D":
		return a.AsTime().Equal(b.AsTime())
	case "F":
		x, y := a.AsFloat(), b.AsFloat()
		if math.IsNaN(x) || math.IsNaN(y) {
			return math.IsNaN(x) && math.IsNaN(y)
		}
		return x == y && math.Signbit(x) == math.Signbit(y)
	}
	return a.S == b.S
}

func C04IdenticalTuple(a, b []Val) bool {
	if len(a) != len(b) {
		return false
	}
	for i := range a {
		if !C04Identical(a[i], b[i]) {
			return false
		}
	}
	return true
}

// C04DistinctBounds gives the admissible range of the number of distinct
// non-null values: at least the number of connected components of C04ELoose,
// at most the number of C04EStrict classes. exact reports lo == hi and, in
// that case, reps holds the index of the first member of every class.
func C04DistinctBounds(vs []Val, strict bool) (lo, hi int, reps []int) {
	return C04DistinctBoundsF(vs, strict, nil)
}

// C04DistinctBoundsF: C04DistinctBounds in a session with user datetime formats.
func C04DistinctBoundsF(vs []Val, strict bool, formats []string) (lo, hi int, reps []int) {
	var ns []C04Norm
	var idx []int
	for i, v := range vs {
		if v.IsNull() {
			continue
		}
		ns = append(ns, C04NormaliseF(v, strict, formats))
		idx = append(idx, i)
	}
	n := len(ns)
	// strict classes (NaN is its own class each time: nothing says NaNs are equal)
	classOf := make([]int, n)
	for i := range classOf {
		classOf[i] = -1
	}
	for i := 0; i < n; i++ {
		if classOf[i] >= 0 {
			continue
		}
		classOf[i] = hi
		reps = append(reps, idx[i])
		for j := i + 1; j < n; j++ {
			if classOf[j] < 0 && C04EStrict(ns[i], ns[j], strict) {
				classOf[j] = hi
			}
		}
		hi++
	}
	// loose components
	parent := make([]int, n)
	for i := range parent {
		parent[i] = i
	}
	var find func(int) int
	find = func(x int) int {
		for parent[x] != x {
			parent[x] = parent[parent[x]]
			x = parent[x]
		}
		return x
	}
	for i := 0; i < n; i++ {
		for j := i + 1; j < n; j++ {
			if C04ELoose(ns[i], ns[j], strict) {
				parent[find(i)] = find(j)
			}
		}
	}
	for i := 0; i < n; i++ {
		if find(i) == i {
			lo++
		}
	}
	return lo, hi, reps
}

// ---- aggregates (aggregate-functions.md) --------------------------------

// C04Floats: "float values of expr": the values convertible to float.
func C04Floats(vs []Val) []float64 {
	var out []float64
	for _, v := range vs {
		if v.K == "I" || v.K == "F" || v.K == "S" {
			if f, ok := AsFloat(v); ok {
				out = append(out, f)
			}
		}
	}
	return out
}

func C04Sum(fs []float64) float64 {
	s := 0.0
	for _, f := range fs {
		s += f
	}
	return s
}

func C04Avg(fs []float64) float64 { return C04Sum(fs) / float64(len(fs)) }

// C04Var: population (isP) or sample variance; the caller guarantees enough values.
func C04Var(fs []float64, isP bool) float64 {
	avg := C04Avg(fs)
	d := float64(len(fs))
	if !isP {
		d--
	}
	s := 0.0
	for _, f := range fs {
		s += (f - avg) * (f - avg)
	}
	return s / d
}

func C04Median(fs []float64) float64 {
	c := append([]float64(nil), fs...)
	sort.Float64s(c)
	n := len(c)
	if n%2 == 1 {
		return c[n/2]
	}
	return (c[n/2-1] + c[n/2]) / 2
}

// C04Close: floating results agree within 1e-9 relative (tiny absolute floor
// for results that are mathematically zero).
func C04Close(a, b float64) bool {
	if a == b {
		return true
	}
	if math.IsNaN(a) || math.IsNaN(b) || math.IsInf(a, 0) || math.IsInf(b, 0) {
		return false
	}
	return math.Abs(a-b) <= 1e-9*math.Max(math.Abs(a), math.Abs(b))+1e-12
}

// C04Extreme finds the minimum (sign -1) or maximum (sign +1) of the non-null
// values under the documented comparison ladder. ok=false: some pair of
// values has no documented order (open text rung, booleans, NaN), so the
// result is not asserted. The result is the list of indices of all values
// equal to the extreme.
func C04Extreme(vs []Val, sign int) (idx []int, ok bool) {
	var nn []int
	for i, v := range vs {
		if !v.IsNull() {
			nn = append(nn, i)
		}
	}
	if len(nn) == 0 {
		return nil, true
	}
	for i := 0; i < len(nn); i++ {
		for j := i + 1; j < len(nn); j++ {
			rel, open := Compare(vs[nn[i]], vs[nn[j]])
			if open || (rel != RelEq && rel != RelLt && rel != RelGt) {
				return nil, false
			}
		}
	}
	best := nn[0]
	for _, i := range nn[1:] {
		rel, _ := Compare(vs[i], vs[best])
		if (sign < 0 && rel == RelLt) || (sign > 0 && rel == RelGt) {
			best = i
		}
	}
	for _, i := range nn {
		if rel, _ := Compare(vs[i], vs[best]); rel == RelEq {
			idx = append(idx, i)
		}
	}
	// the ladder is not a total order over mixed classes: require the chosen
	// value to be an extreme against every value
	for _, i := range nn {
		rel, _ := Compare(vs[best], vs[i])
		if (sign < 0 && rel == RelGt) || (sign > 0 && rel == RelLt) {
			return nil, false
		}
	}
	return idx, true
}

// ---- session datetime formats (@@DATETIME_FORMAT) ------------------------

// C04GoLayout translates a csvq datetime format into a Go time layout after
// the placeholder table of the manual (datetime-functions.md, "Format
// Placeholders"); other characters stand for themselves (a Go layout can be
// given directly).
func C04GoLayout(format string) string {
	table := map[rune]string{
		'a': "Mon", 'b': "Jan", 'c': "1", 'd': "02", 'E': "_2", 'e': "2", 'F': ".999999", 'f': ".000000",
		'H': "15", 'h': "03", 'i': "04", 'l': "3", 'M': "January", 'm': "01", 'N': ".999999999", 'n': ".000000000",
		'p': "PM", 'r': "03:04:05 PM", 's': "05", 'T': "15:04:05", 'W': "Monday", 'Y': "2006", 'y': "06",
		'Z': "Z07:00", 'z': "MST",
	}
	var b strings.Builder
	esc := false
	for _, r := range format {
		if !esc {
			if r == '%' {
				esc = true
			} else {
				b.WriteRune(r)
			}
			continue
		}
		if s, ok := table[r]; ok {
			b.WriteString(s)
		} else {
			b.WriteRune(r)
		}
		esc = false
	}
	return b.String()
}

// C04UserDatetime parses a text with the session's datetime formats, in the
// order they were set, in the session time zone (UTC).
func C04UserDatetime(v Val, formats []string) (time.Time, bool) {
	if v.K != "S" {
		return time.Time{}, false
	}
	s := trimBlank(v.S)
	for _, f := range formats {
		if t, err := time.ParseInLocation(C04GoLayout(f), s, time.UTC); err == nil {
			return t, true
		}
	}
	return time.Time{}, false
}

// C04NormaliseF is C04Normalise for a session with user datetime formats: on
// the datetime rung a text is read with the user formats first, then with the
// built-in layouts.
func C04NormaliseF(v Val, strict bool, formats []string) C04Norm {
	if strict || len(formats) == 0 || v.K != "S" {
		return C04Normalise(v, strict)
	}
	if _, ok := AsInteger(v); ok {
		return C04Normalise(v, strict)
	}
	if _, ok := AsFloat(v); ok {
		return C04Normalise(v, strict)
	}
	if d, ok := C04UserDatetime(v, formats); ok {
		return C04Norm{T: 'D', I: d.UnixNano()}
	}
	return C04Normalise(v, strict)
}

func C04NormaliseTupleF(vs []Val, strict bool, formats []string) C04Tuple {
	t := make(C04Tuple, len(vs))
	for i, v := range vs {
		t[i] = C04NormaliseF(v, strict, formats)
	}
	return t
}

// C04OutsideModelF: OutsideModel, except for texts one of the session's
// datetime formats reads.
func C04OutsideModelF(v Val, formats []string) bool {
	if _, ok := C04UserDatetime(v, formats); ok {
		if _, isInt := AsInteger(v); !isInt {
			if _, isFloat := AsFloat(v); !isFloat {
				return false
			}
		}
	}
	return OutsideModel(v)
}
