// Package val holds the comparable, JSON-serialisable value representation
// shared by the runners, generators and reference models.
package val

import (
	"math"
	"strconv"
	"strings"
	"time"
)

// Val is a typed value in text form.
// K: N null, I integer, F float, S string, B boolean, T ternary, D datetime.
// S: I decimal; F strconv 'g' (NaN, +Inf, -Inf, -0); B true/false;
// T TRUE/FALSE/UNKNOWN; D RFC3339Nano; S raw text.
type Val struct {
	K string `json:"k"`
	S string `json:"s,omitempty"`
}

var Null = Val{K: "N"}

func Int(i int64) Val     { return Val{K: "I", S: strconv.FormatInt(i, 10)} }
func Float(f float64) Val { return Val{K: "F", S: strconv.FormatFloat(f, 'g', -1, 64)} }
func Str(s string) Val    { return Val{K: "S", S: s} }
func Bool(b bool) Val     { return Val{K: "B", S: strconv.FormatBool(b)} }
func Tern(t int) Val { // 1 TRUE, 0 UNKNOWN, -1 FALSE
	switch {
	case t > 0:
		return Val{K: "T", S: "TRUE"}
	case t < 0:
		return Val{K: "T", S: "FALSE"}
	}
	return Val{K: "T", S: "UNKNOWN"}
}
func Time(t time.Time) Val { return Val{K: "D", S: t.Format(time.RFC3339Nano)} }

func (v Val) IsNull() bool { return v.K == "N" }

func (v Val) String() string {
	if v.K == "N" {
		return "NULL"
	}
	return v.K + ":" + v.S
}

func (v Val) AsInt() int64 {
	i, _ := strconv.ParseInt(v.S, 10, 64)
	return i
}

func (v Val) AsFloat() float64 {
	f, err := strconv.ParseFloat(v.S, 64)
	if err != nil && !math.IsInf(f, 0) {
		return math.NaN()
	}
	return f
}

func (v Val) AsBool() bool { return v.S == "true" }

// AsTern: 1 TRUE, 0 UNKNOWN, -1 FALSE.
func (v Val) AsTern() int {
	switch v.S {
	case "TRUE":
		return 1
	case "FALSE":
		return -1
	}
	return 0
}

func (v Val) AsTime() time.Time {
	t, _ := time.Parse(time.RFC3339Nano, v.S)
	return t
}

// SQL renders the value as a csvq expression that evaluates to exactly this
// typed value.
func (v Val) SQL() string {
	switch v.K {
	case "N":
		return "NULL"
	case "I":
		if strings.HasPrefix(v.S, "-") {
			if v.S == "-9223372036854775808" {
				return "INTEGER('-9223372036854775808')"
			}
			return "(" + v.S + ")"
		}
		return v.S
	case "F":
		f := v.AsFloat()
		if math.IsNaN(f) {
			return "FLOAT('NaN')"
		}
		if math.IsInf(f, 1) {
			return "FLOAT('Inf')"
		}
		if math.IsInf(f, -1) {
			return "FLOAT('-Inf')"
		}
		s := strconv.FormatFloat(f, 'f', -1, 64)
		if f == 0 && math.Signbit(f) {
			return "FLOAT('-0')"
		}
		if !strings.Contains(s, ".") {
			s += ".0"
		}
		if len(s) > 40 {
			return "FLOAT('" + strconv.FormatFloat(f, 'g', -1, 64) + "')"
		}
		if f < 0 {
			return "(" + s + ")"
		}
		return s
	case "S":
		return QuoteSQL(v.S)
	case "B":
		if v.AsBool() {
			return "BOOLEAN(TRUE)"
		}
		return "BOOLEAN(FALSE)"
	case "T":
		return v.S
	case "D":
		return "DATETIME('" + v.S + "')"
	}
	return "NULL"
}

// QuoteSQL renders a csvq single-quoted string literal.
func QuoteSQL(s string) string {
	var b strings.Builder
	b.WriteByte('\'')
	for _, r := range s {
		switch r {
		case '\\':
			b.WriteString(`\\`)
		case '\'':
			b.WriteString(`\'`)
		case '\n':
			b.WriteString(`\n`)
		case '\r':
			b.WriteString(`\r`)
		case '\t':
			b.WriteString(`\t`)
		default:
			b.WriteRune(r)
		}
	}
	b.WriteByte('\'')
	return b.String()
}

// QuoteIdent renders a back-quoted identifier.
func QuoteIdent(s string) string {
	var b strings.Builder
	b.WriteByte('`')
	for _, r := range s {
		switch r {
		case '\\':
			b.WriteString(`\\`)
		case '`':
			b.WriteString("\\`")
		default:
			b.WriteRune(r)
		}
	}
	b.WriteByte('`')
	return b.String()
}
