// Package sched is a baton scheduler for csvq "virtual processes": goroutines
// that each own a csvq session and block at every verification point of
// lib/file / lib/query until the scheduler grants them the next step. Exactly
// one virtual process runs between two points, so the interleaving of the
// file-system steps of several processes is a value the test draws.
package sched

import (
	"bytes"
	"context"
	"runtime"
	"strconv"
	"sync"
	"time"

	"github.com/mithrandie/csvq/lib/file"
)

// Point is a verification point reached by a process.
type Point struct {
	Proc int
	Name string
	Path string
}

// Ctx is a context whose deadline is far away (so csvq's GetTimeoutContext
// reuses it) and whose expiry is an explicit scheduler event.
type Ctx struct {
	mu    sync.Mutex
	done  chan struct{}
	fired bool
}

func NewCtx() *Ctx { return &Ctx{done: make(chan struct{})} }

func (c *Ctx) Deadline() (time.Time, bool) { return time.Now().Add(24 * time.Hour), true }
func (c *Ctx) Done() <-chan struct{}       { return c.done }
func (c *Ctx) Err() error {
	c.mu.Lock()
	defer c.mu.Unlock()
	if c.fired {
		return context.DeadlineExceeded
	}
	return nil
}
func (c *Ctx) Value(key interface{}) interface{} { return nil }

// Fire makes the wait timeout expire now.
func (c *Ctx) Fire() {
	c.mu.Lock()
	if !c.fired {
		c.fired = true
		close(c.done)
	}
	c.mu.Unlock()
}
func (c *Ctx) Fired() bool {
	c.mu.Lock()
	defer c.mu.Unlock()
	return c.fired
}

type proc struct {
	id      int
	at      chan Point    // process -> scheduler: reached a point
	grant   chan struct{} // scheduler -> process: go on
	fin     chan struct{} // closed when the body returned
	waiting *Point        // point the process is blocked at (nil while running)
	done    bool
	stalled bool // granted but did not reach the next point within the watchdog (blocked outside the hooks)
}

// Sched runs the bodies of n virtual processes under a drawn schedule.
type Sched struct {
	procs []*proc
	gids  sync.Map // goroutine id -> *proc
	// Observe is called by the scheduler for every point right before the process is allowed to take the step it names.
	Observe func(p Point)
	// Stalls counts watchdog expiries (a process blocked outside the hooked code).
	Stalls int
	Steps  int
	Trace  []Point
}

// WaitingAt returns the point process id is blocked at, or nil.
func (s *Sched) WaitingAt(id int) *Point {
	if id < 0 || id >= len(s.procs) {
		return nil
	}
	p := s.procs[id]
	if p.done || p.stalled {
		return nil
	}
	return p.waiting
}

func gid() uint64 {
	var buf [64]byte
	b := buf[:runtime.Stack(buf[:], false)]
	b = bytes.TrimPrefix(b, []byte("goroutine "))
	if i := bytes.IndexByte(b, ' '); i > 0 {
		n, _ := strconv.ParseUint(string(b[:i]), 10, 64)
		return n
	}
	return 0
}

var hookMu sync.Mutex
var current *Sched

func hook(name string, path string) {
	s := current
	if s == nil {
		return
	}
	v, ok := s.gids.Load(gid())
	if !ok {
		return
	}
	p := v.(*proc)
	p.at <- Point{Proc: p.id, Name: name, Path: path}
	<-p.grant
}

// Run executes bodies[i] as virtual process i. pick(k, waiting) chooses which of
// the waiting processes (indices into the returned slice order = ascending
// process id) takes the k-th step. watchdog bounds the time a granted process
// may take to reach its next point before the scheduler lets others proceed.
func Run(bodies []func(), pick func(s *Sched, waiting []int) int, observe func(p Point), watchdog time.Duration, maxSteps int) *Sched {
	hookMu.Lock()
	defer hookMu.Unlock()
	s := &Sched{Observe: observe}
	for i := range bodies {
		s.procs = append(s.procs, &proc{id: i, at: make(chan Point), grant: make(chan struct{}), fin: make(chan struct{})})
	}
	current = s
	file.VerifSched = hook
	defer func() {
		file.VerifSched = nil
		current = nil
	}()

	for i, body := range bodies {
		p := s.procs[i]
		b := body
		go func() {
			s.gids.Store(gid(), p)
			defer func() {
				s.gids.Delete(gid())
				close(p.fin)
			}()
			hook("start", "")
			b()
		}()
	}

	// wait until process p is at a point or finished (or the watchdog expires)
	settle := func(p *proc) {
		timer := time.NewTimer(watchdog)
		defer timer.Stop()
		select {
		case pt := <-p.at:
			p.waiting = &pt
			p.stalled = false
		case <-p.fin:
			p.done = true
			p.stalled = false
		case <-timer.C:
			p.stalled = true
			s.Stalls++
		}
	}
	for _, p := range s.procs {
		settle(p)
	}

	for {
		// collect late arrivals of stalled processes without blocking
		for _, p := range s.procs {
			if p.stalled {
				select {
				case pt := <-p.at:
					p.waiting = &pt
					p.stalled = false
				case <-p.fin:
					p.done = true
					p.stalled = false
				default:
				}
			}
		}
		var waiting []int
		alive := 0
		for _, p := range s.procs {
			if !p.done {
				alive++
			}
			if !p.done && !p.stalled && p.waiting != nil {
				waiting = append(waiting, p.id)
			}
		}
		if alive == 0 {
			break
		}
		if len(waiting) == 0 {
			// everything alive is stalled: wait for any of them
			time.Sleep(time.Millisecond)
			continue
		}
		if maxSteps > 0 && s.Steps >= maxSteps {
			// budget exhausted: release everybody and let the run drain without control
			for _, p := range s.procs {
				if !p.done {
					go func(p *proc) {
						for {
							select {
							case <-p.at:
								p.grant <- struct{}{}
							case <-p.fin:
								return
							}
						}
					}(p)
					if p.waiting != nil && !p.stalled {
						p.grant <- struct{}{}
					}
				}
			}
			for _, p := range s.procs {
				<-p.fin
			}
			s.Steps = -s.Steps
			return s
		}
		k := pick(s, waiting)
		if k < 0 || k >= len(waiting) {
			k = 0
		}
		p := s.procs[waiting[k]]
		pt := *p.waiting
		if s.Observe != nil {
			s.Observe(pt)
		}
		if len(s.Trace) < 4000 {
			s.Trace = append(s.Trace, pt)
		}
		s.Steps++
		p.waiting = nil
		p.grant <- struct{}{}
		settle(p)
	}
	return s
}
