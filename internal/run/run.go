// Package run wraps csvq for the checks: an in-process session driven through
// the library API and a CLI runner for the real binary.
package run

import (
	"bytes"
	"context"
	"fmt"
	"os"
	"os/exec"
	"path/filepath"
	"sort"
	"strings"
	"sync"
	"syscall"
	"time"

	"github.com/mithrandie/csvq/lib/file"
	"github.com/mithrandie/csvq/lib/parser"
	"github.com/mithrandie/csvq/lib/query"
	"github.com/mithrandie/csvq/lib/value"

	"github.com/mithrandie/ternary"

	"verif/internal/val"
)

// Val is a cell value in a comparable form (see package val).
type Val = val.Val

// FromPrimary converts a csvq value.
func FromPrimary(p value.Primary) Val {
	switch x := p.(type) {
	case nil:
		return Val{K: "N"}
	case *value.Null:
		return Val{K: "N"}
	case *value.Integer:
		return Val{K: "I", S: x.String()}
	case *value.Float:
		return val.Float(x.Raw())
	case *value.String:
		return Val{K: "S", S: x.Raw()}
	case *value.Boolean:
		return Val{K: "B", S: x.String()}
	case *value.Ternary:
		return Val{K: "T", S: x.String()}
	case *value.Datetime:
		return Val{K: "D", S: x.Raw().Format(time.RFC3339Nano)}
	}
	return Val{K: "?", S: fmt.Sprintf("%v", p)}
}

// Tbl is a materialised result.
type Tbl struct {
	Header []string `json:"header"`
	Rows   [][]Val  `json:"rows"`
}

func (t Tbl) String() string {
	var b strings.Builder
	b.WriteString(strings.Join(t.Header, "|"))
	b.WriteString("\n")
	for _, r := range t.Rows {
		for i, c := range r {
			if i > 0 {
				b.WriteString("|")
			}
			b.WriteString(c.String())
		}
		b.WriteString("\n")
	}
	return b.String()
}

// FromView converts a csvq view (first value of every cell).
func FromView(v *query.View) Tbl {
	t := Tbl{}
	for _, h := range v.Header {
		t.Header = append(t.Header, h.Column)
	}
	for _, rec := range v.RecordSet {
		row := make([]Val, len(rec))
		for i, c := range rec {
			if len(c) == 0 {
				row[i] = Val{K: "N"}
			} else {
				row[i] = FromPrimary(c[0])
			}
		}
		t.Rows = append(t.Rows, row)
	}
	return t
}

// Buf is a goroutine-safe output sink.
type Buf struct {
	mu sync.Mutex
	b  bytes.Buffer
}

func (b *Buf) Write(p []byte) (int, error) {
	b.mu.Lock()
	defer b.mu.Unlock()
	return b.b.Write(p)
}
func (b *Buf) Close() error { return nil }
func (b *Buf) String() string {
	b.mu.Lock()
	defer b.mu.Unlock()
	return b.b.String()
}
func (b *Buf) Reset() {
	b.mu.Lock()
	b.b.Reset()
	b.mu.Unlock()
}

// Sess is one csvq "process" inside this process: its own session,
// transaction (file container, caches) and processor.
type Sess struct {
	Ctx    context.Context
	Tx     *query.Transaction
	Proc   *query.Processor
	Out    *Buf
	Err    *Buf
	closed bool
}

// Opt configures a session.
type Opt struct {
	Dir         string
	CPU         int
	WaitTimeout time.Duration // 0: 30s (generous: a lock wait must not expire because the machine is busy)
	RetryDelay  time.Duration // 0: 1ms
	CaptureOut  bool          // false: stdout is discarded and SELECT results are only stored
	Stdin       string
	HasStdin    bool
	Ctx         context.Context
}

// NewSess creates an isolated session whose repository is o.Dir.
func NewSess(o Opt) (*Sess, error) {
	ctx := o.Ctx
	if ctx == nil {
		ctx = context.Background()
	}
	sess := query.NewSession()
	s := &Sess{Ctx: query.ContextForStoringResults(ctx), Out: &Buf{}, Err: &Buf{}}
	if o.CaptureOut {
		sess.SetStdout(s.Out)
	} else {
		sess.SetStdout(query.NewDiscard())
	}
	sess.SetStderr(s.Err)
	if o.HasStdin {
		_ = sess.SetStdin(query.NewInput(strings.NewReader(o.Stdin)))
	} else {
		_ = sess.SetStdin(nil)
	}
	tx, err := query.NewTransaction(ctx, file.DefaultWaitTimeout, file.DefaultRetryDelay, sess)
	if err != nil {
		return nil, err
	}
	if o.Dir != "" {
		if err := tx.Flags.SetRepository(o.Dir); err != nil {
			return nil, err
		}
	}
	cpu := o.CPU
	if cpu < 1 {
		cpu = 1
	}
	tx.Flags.SetCPU(cpu)
	_ = tx.Flags.SetLocation("UTC")
	tx.Flags.SetQuiet(true)
	wt := o.WaitTimeout
	if wt == 0 {
		wt = 30 * time.Second
	}
	rd := o.RetryDelay
	if rd == 0 {
		rd = time.Millisecond
	}
	tx.UpdateWaitTimeout(wt.Seconds(), rd)
	s.Tx = tx
	s.Proc = query.NewProcessor(tx)
	return s, nil
}

// Res is the outcome of executing program text.
type Res struct {
	Views    []Tbl
	Affected int
	Flow     query.StatementFlow
	Err      error
	ParseErr bool
}

// Exec parses and executes program text on the session's processor.
func (s *Sess) Exec(sql string) Res {
	stmts, _, err := parser.Parse(sql, "", false, s.Tx.Flags.AnsiQuotes)
	if err != nil {
		return Res{Err: err, ParseErr: true}
	}
	return s.ExecStmts(stmts)
}

// ExecTimeout is Exec under a deadline: when the statement runs longer than d its context is cancelled and
// TimedOut is reported (a time budget that is hit means "not judged", never a violation).
func (s *Sess) ExecTimeout(sql string, d time.Duration) (Res, bool) {
	stmts, _, err := parser.Parse(sql, "", false, s.Tx.Flags.AnsiQuotes)
	if err != nil {
		return Res{Err: err, ParseErr: true}, false
	}
	ctx, cancel := context.WithTimeout(s.Ctx, d)
	defer cancel()
	flow, err := s.Proc.Execute(ctx, stmts)
	r := Res{Flow: flow, Err: err, Affected: s.Tx.AffectedRows}
	for _, v := range s.Tx.SelectedViews {
		r.Views = append(r.Views, FromView(v))
	}
	return r, ctx.Err() == context.DeadlineExceeded
}

// ExecStmts executes parsed statements.
func (s *Sess) ExecStmts(stmts []parser.Statement) Res {
	flow, err := s.Proc.Execute(s.Ctx, stmts)
	r := Res{Flow: flow, Err: err, Affected: s.Tx.AffectedRows}
	for _, v := range s.Tx.SelectedViews {
		r.Views = append(r.Views, FromView(v))
	}
	return r
}

// Query executes one SELECT and returns its only result.
func (s *Sess) Query(sql string) (Tbl, error) {
	r := s.Exec(sql)
	if r.Err != nil {
		return Tbl{}, r.Err
	}
	if len(r.Views) != 1 {
		return Tbl{}, fmt.Errorf("expected one result, got %d", len(r.Views))
	}
	return r.Views[0], nil
}

// Close rolls back and releases everything, like the deferred block of the CLI.
func (s *Sess) Close() {
	if s.closed {
		return
	}
	s.closed = true
	_ = s.Proc.AutoRollback()
	_ = s.Proc.ReleaseResourcesWithErrors()
}

// ErrClass gives a coarse class of a csvq error for oracle comparison.
func ErrClass(err error) string {
	if err == nil {
		return ""
	}
	if _, ok := err.(*query.FatalError); ok {
		return "fatal"
	}
	if e, ok := err.(query.Error); ok {
		return fmt.Sprintf("E%d/%d", e.Code(), e.Number())
	}
	if _, ok := err.(*parser.SyntaxError); ok {
		return "syntax"
	}
	return "other"
}

// ---------------------------------------------------------------------
// directory helpers

// Snapshot maps file names (relative, including hidden files) to contents.
func Snapshot(dir string) map[string]string {
	out := map[string]string{}
	_ = filepath.Walk(dir, func(p string, info os.FileInfo, err error) error {
		if err != nil || info.IsDir() {
			return nil
		}
		rel, _ := filepath.Rel(dir, p)
		b, e := os.ReadFile(p)
		if e != nil {
			out[rel] = "<unreadable: " + e.Error() + ">"
			return nil
		}
		out[rel] = string(b)
		return nil
	})
	return out
}

// DiffSnap describes the differences between two snapshots ("" if none).
func DiffSnap(a, b map[string]string) string {
	var ds []string
	for k, va := range a {
		vb, ok := b[k]
		if !ok {
			ds = append(ds, fmt.Sprintf("%s: missing in second", k))
		} else if va != vb {
			ds = append(ds, fmt.Sprintf("%s: %q != %q", k, clip(va), clip(vb)))
		}
	}
	for k := range b {
		if _, ok := a[k]; !ok {
			ds = append(ds, fmt.Sprintf("%s: only in second (%q)", k, clip(b[k])))
		}
	}
	sort.Strings(ds)
	return strings.Join(ds, "; ")
}

func clip(s string) string {
	if len(s) > 300 {
		return s[:300] + "…"
	}
	return s
}

// WriteFiles writes the given files into dir.
func WriteFiles(dir string, files map[string]string) error {
	for name, content := range files {
		p := filepath.Join(dir, name)
		if err := os.MkdirAll(filepath.Dir(p), 0755); err != nil {
			return err
		}
		if err := os.WriteFile(p, []byte(content), 0644); err != nil {
			return err
		}
	}
	return nil
}

// ControlFiles lists leftover lock / rlock / temp files in dir.
func ControlFiles(dir string) []string {
	var out []string
	ents, _ := os.ReadDir(dir)
	for _, e := range ents {
		n := e.Name()
		if strings.HasPrefix(n, ".") && (strings.HasSuffix(n, ".lock") || strings.HasSuffix(n, ".rlock") || strings.HasSuffix(n, ".temp")) {
			out = append(out, n)
		}
	}
	sort.Strings(out)
	return out
}

// ---------------------------------------------------------------------
// CLI runner

var (
	binOnce sync.Once
	binPath string
	binErr  error
)

// Binary builds (once per process) the csvq binary from /repo's working tree
// with -tags verif (and -race when race is true) into dir and returns its path.
func Binary(dir string, race bool) (string, error) {
	binOnce.Do(func() {
		if p := os.Getenv("VERIF_CSVQ_BIN"); p != "" && !race {
			binPath = p
			return
		}
		if p := os.Getenv("VERIF_CSVQ_BIN_RACE"); p != "" && race {
			binPath = p
			return
		}
		binPath = filepath.Join(dir, "csvq-bin")
		args := []string{"build", "-tags", "verif"}
		if race {
			args = append(args, "-race")
		}
		args = append(args, "-o", binPath, ".")
		cmd := exec.Command("go", args...)
		cmd.Dir = RepoDir()
		cmd.Env = append(os.Environ(), "GOFLAGS=-mod=mod", "GOPROXY=off", "GOSUMDB=off", "GOTOOLCHAIN=local")
		out, err := cmd.CombinedOutput()
		if err != nil {
			binErr = fmt.Errorf("build csvq: %v: %s", err, out)
		}
	})
	return binPath, binErr
}

// RepoDir is the csvq source tree.
func RepoDir() string {
	if r := os.Getenv("VERIF_REPO"); r != "" {
		return r
	}
	return "/repo"
}

// CLIRes is the result of one process run.
type CLIRes struct {
	Stdout   string
	Stderr   string
	Code     int
	Signaled bool
	Signal   syscall.Signal
	TimedOut bool
	Dur      time.Duration
}

// CLIOpt configures one process run.
type CLIOpt struct {
	Bin     string
	Dir     string   // working directory (and repository)
	Home    string   // private HOME
	Args    []string // arguments after the binary
	Stdin   string
	Env     []string // additional KEY=VALUE
	Timeout time.Duration
	UID     int                 // non-zero: run as this uid/gid
	OnStart func(p *os.Process) // optional: called once the process has been started (e.g. to signal it from outside)
}

// CLI runs the csvq binary.
func CLI(o CLIOpt) CLIRes {
	to := o.Timeout
	if to == 0 {
		to = 20 * time.Second
	}
	ctx, cancel := context.WithTimeout(context.Background(), to)
	defer cancel()
	cmd := exec.CommandContext(ctx, o.Bin, o.Args...)
	cmd.Dir = o.Dir
	home := o.Home
	if home == "" {
		home = o.Dir
	}
	cmd.Env = append([]string{
		"HOME=" + home,
		"XDG_CONFIG_HOME=" + filepath.Join(home, ".config"),
		"TZ=UTC",
		"PATH=" + os.Getenv("PATH"),
	}, o.Env...)
	if o.Stdin != "" {
		cmd.Stdin = strings.NewReader(o.Stdin)
	}
	var so, se bytes.Buffer
	cmd.Stdout = &so
	cmd.Stderr = &se
	if o.UID != 0 {
		cmd.SysProcAttr = &syscall.SysProcAttr{Credential: &syscall.Credential{Uid: uint32(o.UID), Gid: uint32(o.UID)}}
	}
	cmd.WaitDelay = 2 * time.Second
	start := time.Now()
	var err error
	if o.OnStart != nil {
		if err = cmd.Start(); err == nil {
			o.OnStart(cmd.Process)
			err = cmd.Wait()
		}
	} else {
		err = cmd.Run()
	}
	r := CLIRes{Stdout: so.String(), Stderr: se.String(), Dur: time.Since(start)}
	if ctx.Err() == context.DeadlineExceeded {
		r.TimedOut = true
	}
	if err != nil {
		if ee, ok := err.(*exec.ExitError); ok {
			if ws, ok := ee.Sys().(syscall.WaitStatus); ok {
				if ws.Signaled() {
					r.Signaled = true
					r.Signal = ws.Signal()
					r.Code = 128 + int(ws.Signal())
				} else {
					r.Code = ws.ExitStatus()
				}
			} else {
				r.Code = ee.ExitCode()
			}
		} else {
			r.Code = -1
			r.Stderr += "\n<run error: " + err.Error() + ">"
		}
	}
	return r
}

// ToPrimary builds the csvq value for v.
func ToPrimary(v Val) value.Primary {
	switch v.K {
	case "I":
		return value.NewInteger(v.AsInt())
	case "F":
		return value.NewFloat(v.AsFloat())
	case "S":
		return value.NewString(v.S)
	case "B":
		return value.NewBoolean(v.AsBool())
	case "T":
		switch v.AsTern() {
		case 1:
			return value.NewTernary(ternary.TRUE)
		case -1:
			return value.NewTernary(ternary.FALSE)
		}
		return value.NewTernary(ternary.UNKNOWN)
	case "D":
		return value.NewDatetime(v.AsTime())
	}
	return value.NewNull()
}

// TernInt maps a csvq ternary to 1/0/-1.
func TernInt(t ternary.Value) int {
	switch t {
	case ternary.TRUE:
		return 1
	case ternary.FALSE:
		return -1
	}
	return 0
}
