#!/usr/bin/env python3
"""tools_seed_r4_keep.py <ID> <k> <CATCHING-PROP> [note]: store round-4 seed /tmp/seed4/<ID>-out/m<k> as seeded/<ID>-r4m<k> using the verification
results in .work-sv-<ID>-m<k>-*.json (suite/demo from the run against its own property, catch from <CATCHING-PROP>)."""
import json, os, subprocess, sys, glob
ROOT = os.environ.get("SEED_ROOT", "/tmp/seed4")
ROUND = os.environ.get("SEED_ROUND", "r4")
TAG = os.environ.get("SEED_TAG", "")
id_, k, prop = sys.argv[1], sys.argv[2], sys.argv[3]
note = sys.argv[4] if len(sys.argv) > 4 else ""
def last_json(p):
    for ln in reversed(open(p).read().strip().splitlines()):
        try:
            return json.loads(ln)
        except Exception:
            continue
    return None
base = None
for p in sorted(glob.glob(f"/verif/.work-sv{TAG}-{id_}-m{k}-*.json")):
    r = last_json(p)
    if r and r.get("suite_passes") is not None:
        base = r
catch = None
for p in sorted(glob.glob(f"/verif/.work-sv{TAG}-{id_}-m{k}-{prop}*.json")):
    r = last_json(p)
    if r and r.get("caught"):
        catch = r
assert base, "no run with suite result"
assert catch and catch.get("caught"), "not caught by " + prop
v = dict(base)
for f in ("check_exit", "caught", "signatures", "check_wall_s"):
    v[f] = catch.get(f)
assert v.get("builds") and v.get("suite_passes") and v.get("demo_ok"), v
subprocess.run(["python3", "/verif/tools_seed_keep.py", f"{ROOT}/{id_}-out/m{k}", f"{id_}-{ROUND}m{k}", prop, json.dumps(v), note], check=True)
