#!/bin/bash
# verify every delivered round-4 seed that has no log yet (3 at a time)
cd /verif
for d in ${SEED_ROOT:-/tmp/seed4}/C*-out/m[12]; do
  id=$(basename $(dirname $d) | sed 's/-out//'); k=$(basename $d | sed 's/m//')
  [ -f $d/patch.diff ] && [ -f $d/meta.json ] || continue
  [ -f .work-${SEED_ROUND:-r4}-$id-$k.log ] && continue
  echo "queued" > .work-${SEED_ROUND:-r4}-$id-$k.log
  echo "$id $k"
done | xargs -P 3 -L 1 sh -c './tools_seed_r4.sh $0 $1 > .work-${SEED_ROUND:-r4}-$0-$1.log 2>&1'
