#!/bin/bash
# tools_seed_regress.sh [parallel]: re-run every stored seeded change against the check recorded in its meta.json (no suite/demo re-run); results in .work/regress/<id>.json
cd /verif; mkdir -p .work/regress
P=${1:-2}
for d in seeded/*; do
  id=$(basename $d)
  [ -s .work/regress/$id.json ] && continue
  prop=$(python3 -c "import json;print(json.load(open('$d/meta.json'))['confirmed_by_me']['check'])")
  echo "$id $prop"
done | xargs -P $P -L 1 sh -c 'python3 tools_seed_verify.py seeded/$0 $1 --skip-suite > .work/regress/$0.json 2>&1'
