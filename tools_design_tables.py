#!/usr/bin/env python3
"""Regenerates the generated blocks of DESIGN.md (seeded-change table, findings list) from seeded/*/meta.json and known_findings.jsonl."""
import json, os, re, glob
ROOT = os.path.dirname(os.path.abspath(__file__))

def seeded_table():
    rows = []
    for d in sorted(glob.glob(os.path.join(ROOT, "seeded", "*"))):
        m = json.load(open(os.path.join(d, "meta.json")))
        c = m.get("confirmed_by_me", {})
        low = (m.get("note") or "").lower()
        if ("missed" in low or "not caught by" in low) and ("strengthen" in low or "now also" in low or "caught after" in low):
            first = "missed, then caught after strengthening"
        elif "missed" in low or "not caught by" in low:
            first = "not by the check of the property it was written for; caught by %s as it stood" % c.get("check")
        else:
            first = "caught"
        summ = (m.get("summary") or "").replace("|", "/").replace("\n", " ")
        if len(summ) > 230:
            summ = summ[:227] + "..."
        sigs = ", ".join((c.get("signatures") or [])[:3])
        rows.append("| %s | %s | %s | %s (%s) | %s |" % (m["id"], m["property"], summ, c.get("check"), sigs, first))
    hdr = "| id | property | change (needs something specific to manifest; see seeded/<id>/meta.json) | caught by (signatures) | first run |\n|---|---|---|---|---|\n"
    n = len(rows)
    missed = sum(1 for r in rows if "missed, then" in r)
    other = sum(1 for r in rows if "not by the check of the property" in r)
    return ("%d independently seeded changes (2 per property and round - 1 for twelve properties in round 7 -, written by sub-agents that saw only the property text and a "
            "scratch worktree); every one compiles, passes the pinned suite, and has a demonstration that fails with it and passes "
            "without it (confirmed with tools_seed_verify.py). %d were caught by the check of their property as it stood, %d were not "
            "visible to that check's oracle but were caught by another property's check as it stood, and %d were missed at first and "
            "led to the strengthening described in the note of their meta.json; all %d are caught now.\n\n" % (n, n - missed - other, other, missed, n)) + hdr + "\n".join(rows) + "\n"

def findings_table():
    fixed, known = [], []
    seen = set()
    for l in open(os.path.join(ROOT, "known_findings.jsonl")):
        l = l.strip()
        if not l:
            continue
        e = json.loads(l)
        if e["status"] == "fixed":
            key = (e.get("commit"), e["property"])
            if key in seen:
                continue
            seen.add(key)
            w = re.sub(r"^fixed: property=\S+ \S+ ", "", e["what"]).replace("|", "/")
            fixed.append("| %s | %s | %s |" % (e["property"], w, e.get("commit")))
        else:
            key = (e["property"], e["signature"])
            if key in seen:
                continue
            seen.add(key)
            known.append("| %s | `%s` | %s |" % (e["property"], e["signature"], e["what"].replace("|", "/")))
    out = "Repaired (one unguarded `fix:` commit each; the pinned suite passes unedited with all of them; a `fixed` entry suppresses nothing, its pinned case runs as an ordinary regression case):\n\n"
    out += "| property | what failed | commit |\n|---|---|---|\n" + "\n".join(fixed) + "\n\n"
    out += "Recorded as known findings (printed as KNOWN-FINDING, matched by signature, the reason for not repairing is part of the entry):\n\n"
    out += "| property | signature | what fails / why not repaired |\n|---|---|---|\n" + "\n".join(known) + "\n"
    return out

def asbuilt_table():
    man = json.load(open(os.path.join(ROOT, "MANIFEST.json")))
    rows = []
    for c in man["checks"]:
        pid = c["property_id"]
        evp = os.path.join(ROOT, "evidence", pid + ".json")
        per = ""
        tot = nt = 0
        wall = 0
        if os.path.exists(evp):
            ev = json.load(open(evp))
            cov = ev["coverage"]
            tot, nt, wall = cov.get("evaluations", 0), cov.get("distinct_nontrivial", 0), ev.get("wall_s", 0)
            per = "; ".join("%s %d/%d" % (k, v["evaluations"], v["distinct_nontrivial"]) for k, v in sorted(cov.get("per_check", {}).items()))
        rows.append("| %s | %s | %s | %d | %d | %.0f s | %s |" % (pid, c["level_claimed"]["category"], c.get("technique", "").replace("|", "/"), tot, nt, wall, per))
    return ("Quick-tier numbers of the last evidence files committed (evaluations / distinct non-trivial per sub-check; wall time depends on machine load):\n\n"
            "| id | level | deciding technique | evaluations | distinct non-trivial | wall | sub-checks (evaluations/distinct non-trivial) |\n|---|---|---|---|---|---|---|\n" + "\n".join(rows) + "\n")

def main():
    p = os.path.join(ROOT, "DESIGN.md")
    s = open(p).read()
    for name, fn in (("SEEDED", seeded_table), ("FINDINGS", findings_table), ("ASBUILT", asbuilt_table)):
        a, b = "<!-- BEGIN %s (generated by tools_design_tables.py) -->" % name, "<!-- END %s -->" % name
        block = a + "\n" + fn() + b
        if a in s:
            s = s[:s.index(a)] + block + s[s.index(b) + len(b):]
        else:
            s += "\n" + block + "\n"
    open(p, "w").write(s)

if __name__ == "__main__":
    main()
