#!/usr/bin/env python3
"""Regenerates MANIFEST.json from the table below (kept in one place so the file stays valid)."""
import json, os
ROOT = os.path.dirname(os.path.abspath(__file__))
HOOK_COMMITS = ["d44dd5f"]  # fix commits (unguarded) are listed in known_findings.jsonl
BASELINE_OFF = ("cd /repo && go build ./... && go test -json -vet=off -count=1 -timeout 25m ./...")

CHECKS = {}
def add(pid, category, text, note, technique, design_ref):
    CHECKS[pid] = dict(category=category, text=text, note=note, technique=technique, design_ref=design_ref)

add("C06", "exploration",
    "Generated pairs/triples from every value class are compared through value.Compare and through parser+evaluator with an independent model of the documented coercion ladder, the reference-free laws (antisymmetry, <> = NOT =, <= = < OR =, trichotomy), the documented expansions of BETWEEN/IN/ANY/ALL/CASE/IS, Kleene tables, and arithmetic typing/value/agreement/modulo-sign rules. Search, not proof: holds on the cases generated.",
    "Trusted: the reference ladder in internal/ref (written from the manual), Go's strconv/time/big for exact values. Open outcomes (number vs non-numeric text at the text rung; non-modelled datetime/number spellings; int64 overflow) are excluded and counted.",
    "property-based testing (rapid) against a reference model + algebraic/metamorphic laws", "DESIGN.md §3 C06")

add("C10", "fault_enumeration",
    "For generated repositories and transactions, a dry run records every verification point the real csvq process passes from Transaction.Commit to exit; the process is then killed (SIGKILL to itself) at EVERY such point on a fresh copy. Oracle: each pre-existing table exists and is byte-identical to its old or new contents; after deleting the hidden control files a fresh csvq reads and updates every table. Exhaustive over the hooked points of each generated case, sampled over cases.",
    "Trusted: the hook placement (points sit between file-system calls of lib/file and Transaction.Commit), SIGKILL as the crash model (no torn write(2), no power loss), new contents taken from an uninterrupted run.",
    "fault injection at enumerated crash points over generated transactions (rapid) with an old-or-new byte oracle", "DESIGN.md §3 C10")

add("C11", "fault_enumeration",
    "Generated programs (read-only and data-changing) are run as real csvq processes under every kind of ending: success, a failing statement at a drawn position, EXIT/EXIT n, lock timeout against held .lock/.rlock/.temp files, and SIGINT/SIGTERM/SIGQUIT self-delivered at every verification point the run passes (loading, lock acquisition, statement boundaries, every step of commit and release). After exit the directory must hold no control files, no uncommitted created table, no empty --out file, and for read-only programs identical bytes, inode and mtime of every file.",
    "Trusted: hook placement; a signal 'at a point' is delivered by the process to itself followed by a 15 ms settle so the runtime's signal goroutine has cancelled the context; competing holders are represented by their control files.",
    "fault injection (signals/errors/timeouts at enumerated points) over generated programs (rapid) with a directory invariant", "DESIGN.md §3 C11")

add("C01", "fault_enumeration",
    "Generated procedures (DML, CREATE TABLE, ALTER, COMMIT/ROLLBACK, nested IF/WHILE, temporary tables) with a terminator at every kind of position (normal end, failing statement, EXIT, EXIT n, trailing ROLLBACK, SIGINT/SIGTERM at statement boundaries and at lib/file / commit points) are run by the real binary; the executed trace is read from marker output. Oracle: the final directory is byte-identical to the one produced by a reference program containing only the statements of committed transactions (all executed statements after a normal end); files never named keep bytes, inode and mtime; exit codes reflect the ending. An in-process variant follows Execute with the CLI's deferred AutoRollback and compares every temporary table with the reference.",
    "Trusted: csvq executes a single data-changing statement the same way with and without surrounding uncommitted work (statement semantics themselves are C05's business); marker PRINTs reflect executed statements; signal-at-point delivery as in C11.",
    "property-based testing (rapid) with termination-point enumeration and a metamorphic/differential prefix oracle", "DESIGN.md §3 C01")

add("C16", "exploration",
    "Generated histories of DECLARE/OPEN/FETCH (all positions, offsets incl. negative and out of range)/CLOSE/DISPOSE/WHILE IN/status expressions on two cursors, interleaved with INSERT/UPDATE/DELETE/COMMIT/ROLLBACK on the underlying table, run statement by statement next to a model {declared, open, snapshot at OPEN, admissible pointer set, fetched}; every fetched row, COUNT, IS OPEN, IS IN RANGE and documented error class is compared after each step.",
    "Trusted: the cursor model written from the manual; the snapshot is obtained by running the cursor's query as a plain SELECT right before/after OPEN; open outcomes (variables after an out-of-range fetch, CLOSE of a closed cursor) are accepted either way.",
    "stateful property-based testing (rapid, generated operation histories) against a reference model", "DESIGN.md §3 C16")

add("C07", "exploration",
    "Generated tables (numbers / datetimes / non-numeric text keys with NULLs and duplicates, 10% large enough for several workers) and ORDER BY key lists with directions and NULLS FIRST/LAST; oracle: output is a permutation of the input and every position holds a row of the tie group the reference order puts there; LIMIT/OFFSET/PERCENT/WITH TIES/FETCH are compared with the window computed over the reference order (exact when keys are unique, tie-group based otherwise).",
    "Trusted: the reference comparator (internal/ref ladder + the manual's NULL placement). Open outcomes: negative limit/offset/percent (ordinary error or any sorted subset accepted, never a Fatal Error), PERCENT rounding (floor or ceiling).",
    "property-based testing (rapid) with validity predicates (permutation + sortedness) and an exact reference cut", "DESIGN.md §3 C07")

add("C17", "exploration",
    "Generated tables (unique id, partition columns with NULLs and single-row partitions, order columns with ties, value column; 15% large with several workers) and one analytic function per case over generated PARTITION BY / ORDER BY / ROWS frames; a reference evaluator written from the manual computes each row's value (exact for rank family and explicit frames, membership/multiset where tie order is free); row count and other columns must be unchanged.",
    "Trusted: internal/ref/c17_analytic.go; open readings accepted either way (PERCENT_RANK of a one-row partition, FIRST/LAST/NTH_VALUE with ORDER BY but no frame, LAG/LEAD IGNORE NULLS, rank family without ORDER BY). LISTAGG/JSON_AGG DISTINCT not generated.",
    "property-based testing (rapid) against a reference evaluator", "DESIGN.md §3 C17")

add("C09", "exploration",
    "The real lock/handler/commit code of 2-4 csvq 'virtual processes' (own Session/Transaction/Processor each) is run under a baton scheduler that owns every file-system step of lib/file and Transaction.Commit through the verif yield points: generated schedules (bursts + round-robin) and wait-timeout events; history invariants are checked on the observed points (no writer admitted while a writer or reader holds the table, no reader while a writer holds it), final counter = successful commits, each read lies in its committed window, only timed-out processes fail and only with the timeout error, no control files remain, at most one concurrent creator wins and keeps its file. A second sub-check runs 4-32 real processes against one counter.",
    "Trusted: hook placement; steps between two points are atomic; go-file's flock retry loop is un-hooked (3 s watchdog, stalls counted); the timeout event models --wait-timeout expiring while the process is acquiring access. Search over schedules, not exhaustive.",
    "schedule exploration (rapid-generated interleavings of the real code under a controlled scheduler) with history invariants + multi-process stress", "DESIGN.md §3 C09")

add("C15", "exploration",
    "Generated procedures (IF/ELSEIF/ELSE, CASE, WHILE, WHILE IN cursor loops, BREAK/CONTINUE/EXIT, nested/recursive function declarations and calls with RETURN, variables/cursors/temporary tables/functions re-declared under 3-name pools at every depth) are executed and compared with a reference interpreter (environment stack, textbook scoping): PRINT sequence, error class (undeclared/redeclared/none) and exit flow; a second sub-check calls user functions from a SELECT over 160-320 rows at cpu 4 and compares every row with the reference.",
    "Trusted: internal/ref/c15_proc.go written from the manual; outcomes the manual leaves open (dynamic vs lexical resolution of free names in function bodies, evaluation-order effects, CLOSE of a closed cursor) are discarded and counted.",
    "property-based testing (rapid) against a reference interpreter of the procedural language", "DESIGN.md §3 C15")

add("C18", "exploration",
    "Totality: random bytes, token soup over csvq's keywords/operators/quotes/comments/placeholders, damaged valid statements and deep-nesting stress inputs in all four (prepared, ansi-quotes) modes must return statements or a SyntaxError positioned inside the input, never panic or hang. Round trip: generated SELECT queries are printed from the syntax tree, re-parsed, printed again (fixed point) and both texts are evaluated over fixture tables (same headers and values or same error class). A native fuzz target with the same oracles exists for the thorough tier.",
    "Trusted: the generator's grammar coverage; evaluation is limited to deterministic side-effect-free functions; hang = watchdog hit that repeats on an isolated retry.",
    "property-based testing + fuzzing (rapid, go test -fuzz) with a print/parse/evaluate round-trip oracle", "DESIGN.md §3 C18")

add("C05", "exploration",
    "Generated histories (3-12 steps) of INSERT VALUES/SELECT, UPDATE (single and join forms), DELETE (single and multi-table), REPLACE, ALTER ADD/DROP/RENAME, COMMIT, ROLLBACK on a CSV file, a temporary table or STDIN run statement by statement next to an ordered-table model; after every step SELECT * (names, column order, row order, text, NULL-ness), the affected-record count and the 'N record(s) ...' log lines must equal the model, after COMMIT a fresh session re-reads the file; every history runs at cpu 1 and cpu 4.",
    "Trusted: props/c05/model.go (expression fragment built on the reference ladder); shapes outside the fragment cut the history.",
    "stateful property-based testing (rapid, generated operation histories) against a reference table model", "DESIGN.md §3 C05")

add("C08", "fault_enumeration",
    "A transaction prefix of successful statements, then one data-changing statement engineered to fail at a chosen row (1/(id-K) in UPDATE/DELETE/INSERT..SELECT/REPLACE..SELECT/ALTER ADD DEFAULT/CREATE TABLE AS, wrong row length at row j, unknown/duplicate field, ambiguous multi-table UPDATE, cancellation after N context polls), on files, temporary tables and tables created in the transaction, on both sides of the 160-row worker split; a second sub-check re-runs the statement for every K / every N. Oracle: all tables and files are identical before and after the failing statement, COMMIT writes none of its partial effects, the session stays usable.",
    "Trusted: the statement really fails (unexpected successes are discarded and counted); cancellation is modelled by a counting context whose Err() flips after N polls (Done() is not used).",
    "fault injection at enumerated failure rows / poll counts over generated transactions (rapid) with a before/after snapshot oracle", "DESIGN.md §3 C08")

add("C12", "exploration",
    "Generated programs without non-deterministic functions (filters, all join kinds, GROUP BY with LISTAGG/JSON_AGG, DISTINCT, set operators, ORDER BY with ties, several analytic functions, subqueries, INSERT..SELECT/UPDATE/DELETE/REPLACE + COMMIT) over tables whose sizes straddle the worker-split thresholds are run for cpu in {1,2,3,4,8,16} x r repetitions (GOMAXPROCS varied), in-process and through the real binary (--cpu, stdout, committed bytes); every run must equal the first cpu=1 run in rows, order, header and file bytes. Non-triviality is measured (the verif counter of task managers that really ran with >1 goroutine).",
    "Goroutine schedules are sampled, not owned: a divergence that needs a rare schedule may be missed in r repetitions.",
    "differential testing over generated programs (rapid): repeated runs across --cpu values against the cpu=1 run", "DESIGN.md §3 C12")

add("C20", "exploration",
    "Generated histories of one transaction A (SELECT in several table spellings, SELECT FOR UPDATE, INSERT/UPDATE/DELETE, INSERT..SELECT, COMMIT, ROLLBACK) interleaved with commits of other sessions/processes B to the same files, compared with a cache model per table (file contents, A's snapshot, for-update flag, own changes, the documented reload on the first data-changing access after a plain read): every A read, every B outcome (commit iff A does not hold the table, else lock timeout and unchanged file) and the final files.",
    "B's lock timeout is semantic (50 ms wait while A holds the lock); when the model says B must succeed a timeout is retried with 30 s before judging. Interleavings inside one statement's file-system steps belong to C09.",
    "stateful property-based testing (rapid, generated histories with foreign commits) against a cache model", "DESIGN.md §3 C20")

add("C03", "exploration",
    "A query IR (tables, subqueries, CTEs incl. WITH RECURSIVE counting/traversal forms, CROSS/INNER/LEFT/RIGHT/FULL/NATURAL/USING/LATERAL joins, WHERE over a modelled predicate fragment, select lists with *, t.*, expressions, aliases) is rendered to SQL text for csvq and interpreted by an independent reference (nested-loop joins, Kleene filter, exact padding of unmatched rows, USING/NATURAL merge); results are compared as multisets (as sequences for single-source queries), column count and names included; 17% of cases use 160-400-row tables so the goroutine-split paths run (measured). A second sub-check requires unknown/ambiguous references to be ordinary errors.",
    "Trusted: internal/ref/c03_select.go; value semantics restricted to integers, non-numeric short strings and NULL; open outcomes (integer vs non-numeric string, RIGHT JOIN USING value choice on differing spellings) accepted under one reading per query.",
    "property-based testing (rapid) against a reference interpreter of the relational operators", "DESIGN.md §3 C03")

add("C04", "exploration",
    "Tables with a unique id and 1-3 key columns drawn from an alphabet that includes csvq's internal key delimiters, cross-type equal spellings, case/blank variants and NULL, on typed temporary tables and CSV files, both @@STRICT_EQUAL settings; GROUP BY (membership read through LISTAGG(id)), DISTINCT, UNION/EXCEPT/INTERSECT [ALL], PARTITION BY, empty inputs and HAVING. Oracle: rows equal under the strict reference equivalence share a bucket and bucket-mates are equal under the loose one (open pairs not asserted); 22 aggregates incl. a user aggregate are recomputed over exactly csvq's bucket; a dedicated collision search plants tuples whose naive key concatenations coincide.",
    "Trusted: internal/ref/c04_bucket.go (normalisation ladder, reference aggregates, 1e-9 relative tolerance for floats). GROUP BY output order is not judged here (C12).",
    "property-based testing (rapid) against a reference partition (strict <= csvq <= loose) with recomputed aggregates", "DESIGN.md §3 C04")

add("C13", "exploration",
    "Generated programs over >=160-row tables and >=300-record files at cpu 8-16 (filters, joins, grouping, set operators, sorting, analytic functions, DML, statements failing in a later worker's range, contexts cancelled while workers run, loads of all six formats, two sessions running concurrently) are executed in a worker process built with -race; after each case the new race reports are parsed, de-duplicated by the function-anchored pair of access sites and reported as violations with the case as replay file.",
    "The race detector only sees executed interleavings (happens-before based: an unsynchronised access pair that executes is reported regardless of timing; code not reached is silent). Goroutine schedules are sampled.",
    "generated workloads (rapid) under the Go race detector, per-case attribution through the race log", "DESIGN.md §3 C13")

add("C14", "exploration",
    "Generated programs over every built-in scalar/aggregate/analytic function (enumerated at run time) and operator, each pure unit repeated 2-3 times (literally, WHILE, function body, per-row function, user aggregate, prepared statement, cursor loop), with probes of variables, cursor rows and tables before and after, followed by DML. Three oracles: repetitions and equal-data rows agree and probes are unchanged; the same program with Discard poisoning gives identical output and no sentinel; the executed syntax tree (and prepared trees) DeepEqual a pristine parse.",
    "Trusted: non-deterministic functions (RAND, NOW, CALL) excluded; poisoning relies on the verif Discard hook.",
    "property-based testing (rapid) with metamorphic repetition, a poisoned-pool differential and a syntax-tree snapshot", "DESIGN.md §3 C14")

add("C02", "exploration",
    "Generated tables (cells over delimiters, quotes, line breaks, tabs, colons, edge blanks, non-ASCII, NULL; >4 KiB and >64 KiB variants) x six formats x encodings (UTF-8, BOM, UTF-16 BE/LE, SJIS) x line breaks x enclose-all/without-header/strip-ending-line-break/json-escape: EncodeView output must either be refused with nothing written (never for a table the harness's per-format predicate calls spellable) or load back through the real loader with the same shape, header and texts; the same bytes are read by independent readers (RFC 4180 state machine + encoding/csv, encoding/json with duplicate detection, own LTSV/fixed-width cutters); CLI sub-checks update harness-written files of a generated dialect and verify on the bytes that delimiter, encoding/BOM, every line break and header convention survive, and that refused writes leave --out absent and stdout empty.",
    "Trusted: props/c02/codec.go (the harness's own writers/readers and spellability predicates). Seven known findings live in the go-text dependency (module cache, outside /repo) and are routed around.",
    "property-based testing + fuzzing (rapid, go test -fuzz) with a write/read round-trip oracle and independent readers", "DESIGN.md §3 C02")

add("C19", "exploration",
    "Three families of generated input: (1) byte strings and structured mutations of valid files as CSV/TSV/LTSV/FIXED/JSON/JSONL data under a generated option vector, loaded five different ways; (2) syntactically valid programs feeding boundary arguments (0, -1, int64 bounds, 1e308, NaN/Inf spellings, NULL, '', wrong types, long strings) to every clause and every built-in function (enumerated at run time) and to all output formats x column-name shapes; (3) 26 file-system states (missing/unreadable file, directory in place of a file, read-only or removed working directory, dangling symlink, FIFO, --out targets, missing --source/--repository) exercised by the real binary running as an unprivileged uid. Oracle: the run returns, no panic escapes, no Fatal Error, the exit/error code is a documented one, heap growth stays bounded, and every loaded or cached table is rectangular. Native fuzz targets FuzzLoad/FuzzProgram share the oracles.",
    "Hang = 20 s watchdog hit that repeats on an isolated retry with 80 s; size-like arguments of padding/format functions are capped at 1e5 and generated tables at 1500 columns so that legitimate work stays small.",
    "fuzzing and property-based testing (rapid, go test -fuzz) with a no-internal-failure oracle", "DESIGN.md §3 C19")

NOT_YET = {}

# additions made after the third round of seeded changes (appended to the descriptions above)
ROUND3 = {
    "C01": " Also: one SET @@REPOSITORY switch at a drawn position with same-named tables below the other directory and a probe table that is only read before the switch (must keep bytes, inode, mtime); EXIT through PREPARE/EXECUTE and inside IF/WHILE bodies.",
    "C04": " Also: sub-checks distinct_group (SELECT DISTINCT over a subset / all / keys+aggregate of the GROUP BY keys) and dtformat_tbl / dtformat_set (key cells written in user-defined @@DATETIME_FORMAT notations, built-in notations and decoys; reference parses user formats first).",
    "C06": " Also: sub-check tz_spellings - two instants in nine documented datetime spellings compared under a per-case @@TIMEZONE (Tokyo, Los Angeles, Berlin, Kolkata, UTC), expected from Go's time package.",
    "C07": " Also: sub-check datetime_format - ORDER BY / LIMIT / WITH TIES over keys written in user-defined @@DATETIME_FORMAT notations under per-case @@TIMEZONE, reference instants from a fixed table of (notation, text, instant) triples.",
    "C08": " Also: aliased targets, failures by a bad name in the target list, table-qualified reads and follow-up UPDATE/DELETE/COMMIT after the failed statement, committed bytes against the row model.",
    "C11": " Also: CREATE TABLE of a name that differs only in letter case from a table the transaction holds.",
    "C12": " Also: REPLACE with USING keys that are not unique, occurrences spread over different worker chunks.",
    "C13": " Also: check lazy - lazily loaded sources (URL tables served by a loopback HTTP server, DATA::, inline tables, STDIN, never-read files) first referenced inside per-record subqueries with cold caches.",
    "C15": " Also: declarations made through EXECUTE / PREPARE+EXECUTE / SOURCE (also inside loop bodies); sub-check aggregate_args (user-defined aggregates with extra arguments as analytic functions over parallel partitions, closed-form expectation).",
    "C16": " Also: DISPOSE/CLOSE/re-OPEN of the loop cursor inside WHILE IN bodies, shadowing inner cursors, DISPOSE of fetched variables followed by value-creating expressions and re-reads; runs with poisoned value pool.",
    "C17": " Also: integer keys beyond 2^53 (distinct integers with equal float64 image) in ORDER BY and PARTITION BY.",
    "C19": " Also: composed queries (set-operation subqueries over tables of different widths under analytic functions, GROUP BY and outer ORDER BY); sub-check url_tables - the real binary queries a loopback server with 49 (mis)behaviours through 26 table forms; exit code 2 / runtime abort is a violation.",
    "C20": " Also: tables first loaded under non-default import attributes (no_header through a table object or SET @@NO_HEADER) then upgraded by the first data-changing statement under default attributes: shape and rows must stay those of the first load.",
}
for _pid, _t in ROUND3.items():
    CHECKS[_pid]["text"] += _t

# additions of the fourth round (wave A of that round is already part of the descriptions/commits before it)
ROUND4 = {
    "C01": " Round 4: statements also run inside user-defined function bodies, cursor loops (WHILE .. IN) and CASE blocks; COMMIT appears more often so that about 40% of the programs have changes after a COMMIT.",
    "C07": " Round 4: in 15% of the cut cases the LIMIT / OFFSET / PERCENT / FETCH counts are read from variables, the query runs twice with other integer and float arithmetic in between, and the second result is the one judged.",
    "C09": " Round 4: sub-check transfers - transactions holding SEVERAL tables for update at once (two counters with constant sum and a log table; two-statement transfers in either order, multi-table UPDATE in either FROM order, a FOR UPDATE reader of both counters whose sum must be 0); opposite acquisition orders deadlock, and the deadlock is broken by delivering the wait timeout to a drawn victim once no process has made progress for a drawn number of steps: the victim must fail with the lock-timeout error, leave nothing of the table it had already changed, and release it.",
    "C10": " Round 4: sub-check write_fault (commit stopped by a file size limit, then retry / rollback / close) and sub-check async_kill - SIGKILL from outside at drawn instants (fractions of the measured duration of an uninterrupted commit after a marker printed right before COMMIT) on tables of several hundred KiB, so that the death also falls inside bursts of write(2) calls and between un-hooked steps; same old-or-new and recovery oracle.",
    "C13": " Round 4: REPLACE with keys that are not unique in the target (rows of different workers match one given record); a user-defined function that EXECUTEs a dynamic statement text per row, so several goroutines are inside the parser at once.",
    "C11": " Round 4: ending vanish_while_waiting (the table is removed and its lock released while csvq waits for the lock); in 22% of the cases the leading statements are not in the program but in a csvqrc preload file of the current directory, so errors, EXIT and signals at every verification point also strike during the preload phase.",
}
ROUND4.update({
    "C03": " Round 4: sub-checks subquery_predicates (correlated EXISTS / [NOT] IN / ANY / ALL / scalar subqueries in WHERE, ON, nested conditions and select items; some tables of 160-400 rows at cpu 2-16), deep_nesting (depth 4-7, LATERAL chains reaching several levels up, WITH inside nested queries with shadowed CTE names), table_sources (CSV/TSV/JSON/JSONL/LTSV files and stdin, each referred to as bare name, quoted path, format function, FILE::, INLINE:: or STDIN) and recursive_union (chain/tree/diamond/cyclic edge tables, UNION and UNION ALL, four recursion forms, @@LIMIT_RECURSION: the documented iteration result or the recursion-limit error).",
    "C05": " Round 4: sub-check bulk (the same operations, model and oracle over tables of 81-700 records at cpu 1 and 2-8, so the statements run on several goroutines); tables in CSV/TSV/JSON/JSONL/LTSV/fixed-length (explicit positions) re-read in their format after COMMIT; a payload column of odd cell texts no statement reads; [NOT] IN / EXISTS subqueries, WITH and derived-table sources, PREPARE/EXECUTE with every literal a placeholder, VALUES with arithmetic and scalar subqueries, tables created inside the transaction.",
    "C12": " Round 4: cpu drawn from all of 1..16 and table sizes straddling 300 (loader capacity), 640 and 1280 rows (8 and 16 goroutines); sub-checks nested (order-sensitive correlated subqueries whose inner and outer levels both split over goroutines), row_error (a statement failing for 1-3 rows at drawn chunk positions: result sets, error text and file bytes must equal the cpu=1 run) and sources (tables as CSV/TSV/LTSV/JSON/JSONL files, temporary tables filled from files, STDIN and inline tables, CREATE TABLE AS in a drawn format); the CLI sub-check draws the output format from ten formats and sends results to --out in a third of the cases.",
    "C14": " Round 4: sub-check dml_repeat (1-3 data-changing items evaluated repeatedly through ONE syntax tree - WHILE, cursor loop, function with DEFAULT parameter, prepared statement - against the same work with a freshly parsed tree per evaluation; trees must equal a pristine parse; poisoned-pool run must agree); the programs generator wraps 20% of atoms in parentheses, reads row counts / offsets from variables, runs value-taking commands (SET @@flag, ADD/REMOVE @@DATETIME_FORMAT, SET @%ENV, ECHO, PRINTF, EXECUTE .. USING) and built-ins on arguments that already have their natural type, recursive CTEs, LATERAL, recursive functions and cursors over prepared statements; 40% of dml_isolation runs under the poisoning Discard.",
    "C15": " Round 4: WHILE / WHILE IN conditions read pool-named variables, functions and cursors that the loop body re-declares (guarded loops); concurrent invocations also from WHERE, ORDER BY, GROUP BY, two functions per record and UPDATE SET at cpu 2-8; sub-check deep (one chain of 8-36 nested blocks with variables reached through every block, or recursion 17-90 invocations deep).",
    "C16": " Round 4: offsets near +-2^31, +-2^62 and the integer limits; sub-check cursor_shapes (tables of 0-400 rows as CSV/TSV/JSON/LTSV/temporary table at cpu 1-4, 17 query forms with typed columns, cursors on queries and prepared statements, 16 kinds of data change, WHILE IN with CONTINUE / FETCH in the body / nesting / failing body, re-OPEN after the statement was re-prepared or replaced) and sub-check pseudo_cursor (a generated walk inside a user-defined aggregate over its pseudo cursor, per table / group / DISTINCT values / analytic partition, concurrent at cpu 2-4).",
    "C17": " Round 4: sub-check sources (the rows the call sees come from a GROUP BY result, a join, a CSV/TSV/JSON file or expression keys; the call sits in the select list, inside a larger expression, twice in a CASE, only in ORDER BY, or both, with LIMIT); STDEV/STDEVP/VAR/VARP and DISTINCT list functions; tables of 16-120 rows with up to 42 partitions at cpu 2-8.",
    "C18": " Round 4: table objects of every format and grammar alternative, STDIN references, keywords usable as bare identifiers, INTO clauses (variable side effects compared); sub-check literals (arbitrary content in two independently drawn equivalent spellings at 15 positions, both quote styles of strings and identifiers: values unchanged after print/parse) and sub-check statements (23 statement templates - PREPARE / EXECUTE text, DECLARE, cursors, DML, control flow - whose holes are filled by the query grammar: the program of source texts and the program of printed texts must have the same effects).",
    "C19": " Round 4: program kinds join (22 operands x 22 join forms incl. LATERAL, alias clashes), parallel (330- and 170-row tables at cpu 2-16 with every scalar built-in per record and a function failing on one record) and udf (35 function bodies called from 28 sites, 11 inside DML); load_data at cpu > 1; sub-check cli_subcommands (fields, calc, syntax, check-update, help with generated arguments, 48 global options with boundary values, csvq_env.json / csvqrc at the four searched places); file-system state held_control_files and table-object variants of the existing states.",
    "C20": " Round 4: every statement of A, B and B2 respells its tables (relative, ./, sub/.., absolute with redundant separators or dot segments, with and without extension; model keyed by file); sub-checks history_forms (indirect reads through FROM-subquery, CTE, temporary view, aggregate, user function, self join of two spellings; REPLACE, INSERT..SELECT from the target, DML with IN-subqueries; five file formats; tables beyond the goroutine split), schema (ALTER TABLE ADD/DROP/RENAME by A and by B, model of column names and cells), procedure_process (A is one real csvq process whose procedure starts the B processes between its statements) and table_names (two tables with close names modelled independently).",
})
for _pid, _t in ROUND4.items():
    CHECKS[_pid]["text"] += _t

# rounds 5 and 6: what the sub-checks added since then cover (the Rule strings copied into the evidence files are the full description)
ROUND56 = {
    "C03": " Rounds 5-6: sub-checks session_history (several queries and deliberately failing statements in one session; a failing statement runs under a 20 s deadline and the session is given up unjudged when it is hit), row_errors, reference_forms; 10% of the large tables have 1000-1500 rows.",
    "C06": " Rounds 5-6: sub-checks operators / rows_context / row_values / tz_spellings / dt_format; in dt_format the datetime formats also arrive through RELOAD CONFIG (csvq_env.json) and 40% of the sessions evaluate and judge the same comparisons before the formats are set.",
    "C07": " Rounds 5-6: sub-checks datetime_format, nested, grouped, strict (--strict-equal) and big_cut (tables of 13-3000 rows built from a few drawn parameters: head windows WITH TIES whose tie group reaches far beyond the cut, percentages that are multiples of 0.25 and give a whole number of rows - exact count required).",
    "C08": " Round 6: failing CREATE TABLE (column list with a duplicate name) AS SELECT, detected after the query was evaluated.",
    "C10": " Rounds 5-6: sub-checks multi_tx, syscall_kill, write_fault, async; in crash_points 15% of the CREATE TABLE statements find a file (zero length or a small table) at their path and every file that existed before the transaction is judged old-or-new.",
    "C12": " Rounds 5-6: SET @@FLAG preludes and flag changes in mid-program, SET @@CPU in the program, sub-checks sources, row_error, procedural, funcs and big_groups (1600-6400 rows in 1-4 buckets: float aggregates whose result depends on how the value list is cut, as aggregates, analytic functions and INSERT..SELECT).",
    "C17": " Rounds 5-6: sub-checks keys (one key value in several spellings), inline, lateral, sources; 10% of the large tables have 1000-1500 rows. Round 7: user-defined aggregate utag whose result shows the text of its row-dependent second argument (spellings that compare equal but differ as values).",
    "C16": " Rounds 5-7: sub-checks evaluation-once, pseudo_cursor, cursor_shapes; SHOW CURSORS as observer; float offsets beyond the integer range; WHILE IN bodies that declare a cursor and a variable of their own in every iteration.",
    "C19": " Rounds 5-6: LPAD/RPAD lengths of 2^53..2^63-1 (a result that cannot exist: error or NULL only), format strings with multi-byte arguments of 10-20000 characters and precisions between their character count and byte length.",
}
for _pid, _t in ROUND56.items():
    CHECKS[_pid]["text"] += _t

def main():
    props = [json.loads(l)["id"] for l in open(os.path.join(ROOT, "properties.jsonl")) if l.strip()]
    checks = []
    for pid in props:
        if pid not in CHECKS:
            continue
        c = CHECKS[pid]
        checks.append({
            "property_id": pid,
            "quick_cmd": "./check %s --tier quick" % pid,
            "thorough_cmd": "./check %s --tier thorough" % pid,
            "evidence_file": "/verif/evidence/%s.json" % pid,
            "replay_cmd_template": "./check %s --replay {path}" % pid,
            "engine": "rapid-props",
            "level_claimed": {"category": c["category"], "text": c["text"], "design_ref": c["design_ref"]},
            "level_note": c["note"],
            "technique": c["technique"],
        })
    na = [{"property_id": pid, "reason": NOT_YET.get(pid, "check not built yet in this session (planned in DESIGN.md); not claimed until its check exists")}
          for pid in props if pid not in CHECKS]
    m = {
        "version": 1,
        "setup_cmd": "cd /verif && cp -f /repo/go.sum go.sum.repo 2>/dev/null; GOFLAGS=-mod=mod GOPROXY=off GOSUMDB=off GOTOOLCHAIN=local go build -tags verif ./internal/... && GOFLAGS=-mod=mod GOPROXY=off GOSUMDB=off GOTOOLCHAIN=local go vet -tags verif ./internal/fw/",
        "hooks": {
            "guard": "verif (Go build tag)",
            "enable": "go build/test -tags verif (every check compiles /repo through the replace directive in /verif/go.mod with -tags verif)",
            "baseline_off_cmd": BASELINE_OFF,
            "source_commits": HOOK_COMMITS,
            "add_only": True,
        },
        "engines": [
            {"name": "rapid-props", "path": "/verif/props", "serves_properties": sorted(CHECKS.keys()),
             "kind_free_text": "Go property tests (pgregory.net/rapid v1.3.0) driven by /verif/check: generated cases, explicit oracles, shrinking, replay files; native go fuzz targets in the thorough tier where noted"},
        ],
        "checks": checks,
        "notes": "Driver: /verif/check <ID> [--tier quick|thorough] [--replay FILE]. Exit 0 held / 1 VIOLATION / 2 inconclusive. Known findings: /verif/known_findings.jsonl.",
        "not_applicable": na,
    }
    json.dump(m, open(os.path.join(ROOT, "MANIFEST.json"), "w"), indent=1)
    print("claimed:", sorted(CHECKS.keys()))

if __name__ == "__main__":
    main()
