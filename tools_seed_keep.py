#!/usr/bin/env python3
"""tools_seed_keep.py <seed_out_dir> <seed-id> <PROP> '<verify json>' [note]: store a confirmed seeded change under /verif/seeded/<seed-id>/"""
import json, os, shutil, sys
src, sid, prop, verdict = sys.argv[1], sys.argv[2], sys.argv[3], json.loads(sys.argv[4])
note = sys.argv[5] if len(sys.argv) > 5 else ""
dst = os.path.join("/verif/seeded", sid)
os.makedirs(dst, exist_ok=True)
for f in os.listdir(src):
    if f != "meta.json":
        shutil.copy(os.path.join(src, f), os.path.join(dst, f))
meta = {}
try:
    meta = json.load(open(os.path.join(src, "meta.json")))
except Exception:
    pass
out = {
    "id": sid, "property": prop,
    "summary": meta.get("summary", ""), "needs": meta.get("needs", ""), "files": meta.get("files", []),
    "demo_cmd": meta.get("demo_cmd", ""),
    "seeder_verified": meta.get("verified", ""),
    "confirmed_by_me": {
        "how": "tools_seed_verify.py: patch applied in a scratch worktree of /repo HEAD; go build ./... and -tags verif; pinned suite; demonstration on clean and patched tree; VERIF_REPO=<worktree> ./check %s --no-evidence" % prop,
        "builds": verdict.get("builds"), "suite_passes": verdict.get("suite_passes"),
        "demo_fails_with_change_passes_without": verdict.get("demo_ok"),
        "check": prop, "check_exit": verdict.get("check_exit"), "caught": verdict.get("caught"),
        "signatures": verdict.get("signatures"), "check_wall_s": verdict.get("check_wall_s"),
    },
    "note": note,
}
json.dump(out, open(os.path.join(dst, "meta.json"), "w"), indent=1)
print("kept", dst)
