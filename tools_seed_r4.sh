#!/bin/bash
# tools_seed_r4.sh <ID> <k> [PROP-to-check ...]: verify round-4 seeded change ${SEED_ROOT:-/tmp/seed4}/<ID>-out/m<k> against the checks named (default: its own property);
# writes .work-sv-<ID>-m<k>-<PROP>.json; stops at the first check that catches it
id=$1; k=$2; shift 2
props="$@"; [ -z "$props" ] && props=$id
cd /verif
first=1
for p in $props; do
  out=.work-sv${SEED_TAG:-}-$id-m$k-$p.json
  if [ $first = 1 ]; then python3 tools_seed_verify.py ${SEED_ROOT:-/tmp/seed4}/$id-out/m$k $p > $out 2>&1; else python3 tools_seed_verify.py ${SEED_ROOT:-/tmp/seed4}/$id-out/m$k $p --skip-suite > $out 2>&1; fi
  first=0
  if grep -q '"caught": true' $out; then echo "$id m$k caught by $p"; exit 0; fi
done
echo "$id m$k NOT caught by: $props"
